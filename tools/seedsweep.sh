#!/bin/bash
# tools/seedsweep.sh [-j N] [-t tier] [-d dir] [seed-name ...]
# (-d benign: the behaviour-preserving changes under /verif/benign; there the expected outcome is rc=0 for every one)
# For every seeded defect under /verif/seeded (or the named ones): scratch worktree of /repo under /tmp,
# apply patch.diff, run the quick check of the seed's own property (prefix of the seed name) plus the extra
# checks listed in meta.json["also_checks"], record the outcome in /tmp/seedsweep/<seed>.txt and print a table.
# The worktree is removed afterwards; evidence/ is restored from git at the end (the sweep is not a
# registered check and must not leave mutated-tree evidence behind).
jobs=8; tier=quick; dir=seeded
while getopts "j:t:d:" o; do case $o in j) jobs=$OPTARG;; t) tier=$OPTARG;; d) dir=$OPTARG;; esac; done
shift $((OPTIND-1))
cd /verif || exit 2
seeds=("$@"); [ ${#seeds[@]} -eq 0 ] && seeds=($(cd $dir && ls -d C*-*))
out=/tmp/seedsweep-$dir; rm -rf $out; mkdir -p $out; export out dir
one() {
  s=$1; tier=$2; id=${s%%-*}
  wt=/tmp/seedsweep-wt-$dir-$s
  git -C /repo worktree remove --force $wt 2>/dev/null
  git -C /repo worktree add -q $wt HEAD || { echo "$s worktree-failed" > $out/$s.txt; return; }
  if ! git -C $wt apply /verif/$dir/$s/patch.diff 2>/dev/null; then
    echo "$s $id patch-does-not-apply" > $out/$s.txt
  else
    ids="$id $(python3 -c "import json,sys;print(' '.join(json.load(open('/verif/$dir/$s/meta.json')).get('also_checks',[])))" 2>/dev/null)"
    line="$s"
    for c in $ids; do
      log=$out/$s.$c.log
      VERIF_REPO=$wt /verif/check $c $tier > $log 2>&1; rc=$?
      nv=$(grep -c '^VIOLATION' $log); nf=$(grep '^VIOLATION' $log | grep -c 'no-failing-input-found')
      line="$line | $c rc=$rc viol=$nv nofail=$nf"
    done
    echo "$line" > $out/$s.txt
  fi
  git -C /repo worktree remove --force $wt 2>/dev/null
}
export -f one
printf '%s\n' "${seeds[@]}" | xargs -P $jobs -I{} bash -c "one {} $tier"
git -C /verif checkout -q -- evidence 2>/dev/null
cat $out/*.txt | sort
# keep the last full sweep (all seeds) as a committed record
if [ $# -eq 0 ]; then
  { echo "# last full sweep: $(date -u +%FT%TZ)  tier=$tier  /repo HEAD $(git -C /repo rev-parse --short HEAD)  /verif HEAD $(git -C /verif rev-parse --short HEAD)"; cat $out/*.txt | sort; } > /verif/$dir/SWEEP.txt
fi
