#!/usr/bin/env python3
"""tools/benigntable.py — regenerate benign/TABLE.md from benign/*/meta.json, benign/FIRST.txt (the first sweep, before
any check was touched) and benign/SWEEP.txt (the last full sweep: `tools/seedsweep.sh -d benign`)."""
import glob, json, os, re
root = os.path.join(os.path.dirname(os.path.abspath(__file__)), "..", "benign")
def load(f):
    out = {}
    p = os.path.join(root, f)
    if os.path.exists(p):
        for l in open(p):
            m = re.match(r"(\S+) \| (\S+) rc=(\d) viol=(\d+) nofail=(\d+)", l)
            if m:
                out[m.group(1)] = (int(m.group(3)), int(m.group(4)), int(m.group(5)))
    return out
def verdict(t):
    if t is None: return "?"
    rc, nv, nf = t
    if rc == 0: return "quiet"
    if rc == 2: return "**check crashed (exit 2)**"
    if nf and nf == nv: return "`no-failing-input-found`"
    return "**false alarm with a replay**"
first, now = load("FIRST.txt"), load("SWEEP.txt")
rows = []
for d in sorted(glob.glob(os.path.join(root, "C*-*")), key=lambda x: (x.split("/")[-1].split("-")[0], int(x.split("-")[-1]))):
    name = os.path.basename(d)
    meta = json.load(open(os.path.join(d, "meta.json")))
    what = (meta.get("what_it_changes") or "").replace("\n", " ").replace("|", "/")
    what = re.split(r"(?<=[.;]) ", what)[0][:260]
    rows.append(f"| {name} | {meta.get('kind', '?')} | {what} | {verdict(first.get(name))} | {verdict(now.get(name))} |")
hdr = open(os.path.join(root, "SWEEP.txt")).readline().strip() if os.path.exists(os.path.join(root, "SWEEP.txt")) else ""
open(os.path.join(root, "TABLE.md"), "w").write(
    "# Behaviour-preserving changes: what the checks said at first, and say now\n\n" + hdr +
    "\n\n| change | kind | what it changes (first sentence of meta.json) | own check, first sweep | own check, now |\n|---|---|---|---|---|\n"
    + "\n".join(rows) + "\n")
print(len(rows), "rows")
