#!/bin/bash
# tools/benigncheck.sh <srcdir> <name>
# Confirm a BEHAVIOUR-PRESERVING change (patch.diff + holds.py + meta.json in <srcdir>) in a scratch worktree:
#   holds.py exits 0 on the clean tree and with the patch, the recorded public outputs are compared, the baseline
#   suite still passes.  On success copies it to /verif/benign/<name>/ with a verification record.  The checks
#   themselves are run afterwards by `tools/seedsweep.sh -d benign` (expected there: rc=0 for every entry).
src=$1; name=$2
wt=/tmp/benignchk-$name-$$
git -C /repo worktree add -q $wt HEAD || exit 2
cleanup() { git -C /repo worktree remove --force $wt 2>/dev/null; rm -f /tmp/benignchk-$$-*; }
trap cleanup EXIT
( cd /tmp && PYTHONPATH=$wt timeout 900 /venv/bin/python $src/holds.py /tmp/benignchk-$$-clean.json >/tmp/benignchk-$$-clean.log 2>&1 ); rc_clean=$?
git -C $wt apply $src/patch.diff || { echo "BENIGN $name: patch does not apply"; exit 1; }
( cd /tmp && PYTHONPATH=$wt timeout 900 /venv/bin/python $src/holds.py /tmp/benignchk-$$-mut.json >/tmp/benignchk-$$-mut.log 2>&1 ); rc_mut=$?
same=unknown
if [ -f /tmp/benignchk-$$-clean.json ] && [ -f /tmp/benignchk-$$-mut.json ]; then
  cmp -s /tmp/benignchk-$$-clean.json /tmp/benignchk-$$-mut.json && same=identical || same=differ
fi
base=$(python3 /verif/tools/baseline.py $wt | head -1)
echo "BENIGN $name: holds clean rc=$rc_clean, patched rc=$rc_mut, outputs=$same, baseline: $base"
if [ $rc_clean -eq 0 ] && [ $rc_mut -eq 0 ] && echo "$base" | grep -q 'missing=0'; then
  mkdir -p /verif/benign/$name; cp $src/patch.diff $src/holds.py $src/meta.json /verif/benign/$name/
  echo "{\"confirmed\": true, \"holds_clean_rc\": $rc_clean, \"holds_patched_rc\": $rc_mut, \"recorded_outputs\": \"$same\", \"baseline\": \"$base\", \"repo_head\": \"$(git -C /repo rev-parse --short HEAD)\"}" > /verif/benign/$name/verified.json
  echo "BENIGN $name: CONFIRMED -> /verif/benign/$name"
else
  echo "BENIGN $name: NOT confirmed"; tail -5 /tmp/benignchk-$$-mut.log
fi
