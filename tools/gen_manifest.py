#!/usr/bin/env python3
"""Regenerate MANIFEST.json from tools/manifest/<ID>.json (one file per claimed property) and
tools/manifest/not_applicable.json (optional reasons for unclaimed ones)."""
import json, pathlib
V = pathlib.Path(__file__).resolve().parent.parent
D = V / "tools" / "manifest"
data = {"claimed": {f.stem: json.load(open(f)) for f in sorted(D.glob("C*.json"))},
        "not_applicable": json.load(open(D / "not_applicable.json")) if (D / "not_applicable.json").exists() else {},
        "notes": "Fix commits in /repo (unguarded, 'fix:') are listed in known_findings.json as 'fixed' entries. No guarded hooks were needed."}
props = [json.loads(l) for l in open(V / "properties.jsonl")]
checks, na = [], []
for p in props:
    pid = p["id"]
    d = data["claimed"].get(pid)
    if d is None:
        na.append({"property_id": pid, "reason": data["not_applicable"].get(pid, "check not built yet (work in progress); see DESIGN.md §4 for the plan")})
        continue
    checks.append({
        "property_id": pid,
        "quick_cmd": f"./check {pid} quick",
        "thorough_cmd": f"./check {pid} thorough",
        "evidence_file": f"evidence/{pid}.json",
        "replay_cmd_template": f"./check {pid} quick --replay {{path}}",
        "engine": "lean4-proof+correspondence",
        "level_claimed": {"category": "proof", "text": d["text"], "design_ref": d.get("design_ref", f"DESIGN.md §4 {pid}")},
        "level_note": d["note"],
        "technique": d.get("technique", "Lean 4 theorems about a hand-written model + per-run differential correspondence with /repo"),
    })
m = {
    "version": 1,
    "setup_cmd": "cd lean && lake build",
    "hooks": {"guard": "GADDLEMAPS_VERIF", "enable": "no hook in /repo is needed: the harness observes the library by wrapping module attributes at run time (GADDLEMAPS_VERIF=1 is exported by ./check for completeness)",
              "baseline_off_cmd": "cd /repo && /venv/bin/python -m pytest -ra -q -p no:cacheprovider --timeout=900 --continue-on-collection-errors",
              "source_commits": [], "add_only": True},
    "engines": [{"name": "lean4-proof+correspondence", "path": "lean/ + harness/",
                 "serves_properties": [c["property_id"] for c in checks],
                 "kind_free_text": "Lean 4 model (GMModel) with property theorems (GMProofs/Props), compiled model driver (gmdriver) compared on every run with the implementation in /repo through a line protocol; direct property oracle on the implementation as failing-input search"}],
    "checks": checks,
    "notes": data.get("notes", ""),
    "not_applicable": na,
}
json.dump(m, open(V / "MANIFEST.json", "w"), indent=1)
print(f"claimed={len(checks)} not_applicable={len(na)}")
