#!/usr/bin/env python3
"""tools/coverage_report.py <workdir> <repo> <ID>...   (called by coverage_tie.sh)

Combines the per-check coverage data, prints per-file coverage, and for every property maps the line ranges its
anchors name (they refer to the pinned commit 3f9bd1e) to the FUNCTIONS that contain them, finds those functions
in the current source and lists which of their statements the property's own check never executed."""
import ast
import json
import os
import re
import subprocess
import sys

import coverage

work, repo, ids = sys.argv[1], sys.argv[2], sys.argv[3:]
PINNED = "3f9bd1e"
VERIF = os.path.dirname(os.path.dirname(os.path.abspath(__file__)))


def functions(src):
    """[(qualified name, first line, last line)] of every def in src"""
    out = []

    def walk(node, prefix):
        for ch in ast.iter_child_nodes(node):
            if isinstance(ch, (ast.FunctionDef, ast.AsyncFunctionDef)):
                lo = min([ch.lineno] + [d.lineno for d in ch.decorator_list])
                out.append((prefix + ch.name, lo, ch.end_lineno))
                walk(ch, prefix + ch.name + ".")
            elif isinstance(ch, ast.ClassDef):
                walk(ch, prefix + ch.name + ".")
            else:
                walk(ch, prefix)
    walk(ast.parse(src), "")
    return out


def anchored_functions(prop):
    """{file: set(function names)} named by the property's mechanism anchors"""
    res = {}
    for mech in prop["anchors"].get("mechanism", []):
        cur = None
        for tok in re.split(r"[;,]", mech["where"]):
            m = re.search(r"(gaddlemaps/[\w/]+\.py):(\d+)(?:-(\d+))?", tok)
            if m:
                cur = m.group(1)
                lo, hi = int(m.group(2)), int(m.group(3) or m.group(2))
            else:
                m2 = re.search(r"^\s*(\d+)(?:-(\d+))?", tok)
                if not (m2 and cur):
                    continue
                lo, hi = int(m2.group(1)), int(m2.group(2) or m2.group(1))
            try:
                old = subprocess.run(["git", "-C", repo, "show", f"{PINNED}:{cur}"], capture_output=True,
                                     text=True, check=True).stdout
            except subprocess.CalledProcessError:
                continue
            for name, flo, fhi in functions(old):
                if flo <= hi and lo <= fhi:
                    res.setdefault(cur, set()).add(name)
    # keep innermost functions only when an outer one (a class-level range) swallowed everything
    return res


def statements_and_executed(datafile, path):
    cov = coverage.Coverage(data_file=datafile, branch=True, source=[os.path.join(repo, "gaddlemaps")])
    cov.load()
    try:
        _, stmts, _, missing, _ = cov.analysis2(path)
    except Exception:   # noqa: BLE001
        return [], []
    return stmts, missing


def ranges(lines):
    lines = sorted(lines)
    out, i = [], 0
    while i < len(lines):
        j = i
        while j + 1 < len(lines) and lines[j + 1] == lines[j] + 1:
            j += 1
        out.append(str(lines[i]) if i == j else f"{lines[i]}-{lines[j]}")
        i = j + 1
    return ",".join(out)


props = {json.loads(l)["id"]: json.loads(l) for l in open(os.path.join(VERIF, "properties.jsonl"))}
files = sorted(os.path.join(dp, f) for dp, _, fs in os.walk(os.path.join(repo, "gaddlemaps")) for f in fs
               if f.endswith(".py"))

# ---- combined
datafiles = [os.path.join(work, f"data.{i}") for i in ids if os.path.exists(os.path.join(work, f"data.{i}"))]
comb = coverage.Coverage(data_file=os.path.join(work, "combined"), branch=True,
                         source=[os.path.join(repo, "gaddlemaps")])
comb.combine(datafiles, keep=True)
comb.save()
lines = [f"# source executed by the correspondence runs of: {' '.join(ids)}  (repo {repo})", ""]
tot_s = tot_m = 0
for f in files:
    stmts, missing = statements_and_executed(os.path.join(work, "combined"), f)
    if not stmts:
        continue
    tot_s += len(stmts)
    tot_m += len(missing)
    rel = os.path.relpath(f, repo)
    lines.append(f"{rel:48s} {len(stmts) - len(missing):4d}/{len(stmts):4d} statements  missing: {ranges(missing)}")
lines.append("")
lines.append(f"TOTAL {tot_s - tot_m}/{tot_s} statements executed ({100.0 * (tot_s - tot_m) / max(1, tot_s):.1f} %)")
os.makedirs(os.path.join(VERIF, "coverage"), exist_ok=True)
open(os.path.join(VERIF, "coverage", "summary.txt"), "w").write("\n".join(lines) + "\n")
print("\n".join(lines))

# ---- anchored, per property
anch = {}
for pid in ids:
    df = os.path.join(work, f"data.{pid}")
    if not os.path.exists(df):
        continue
    entry = {}
    for rel, names in sorted(anchored_functions(props[pid]).items()):
        path = os.path.join(repo, rel)
        stmts, missing = statements_and_executed(df, path)
        cur = {n: (lo, hi) for n, lo, hi in functions(open(path).read())}
        for n in sorted(names):
            if n not in cur:
                entry[f"{rel}::{n}"] = "function no longer present"
                continue
            lo, hi = cur[n]
            st = [s for s in stmts if lo <= s <= hi]
            mi = [s for s in missing if lo <= s <= hi]
            entry[f"{rel}::{n}"] = {"lines": f"{lo}-{hi}", "statements": len(st), "never_executed": ranges(mi)}
    anch[pid] = entry
json.dump(anch, open(os.path.join(VERIF, "coverage", "anchored.json"), "w"), indent=1)
print()
for pid, e in anch.items():
    miss = {k: v["never_executed"] for k, v in e.items() if isinstance(v, dict) and v["never_executed"]}
    print(pid, "anchored functions:", len(e), "with unexecuted statements:", json.dumps(miss))
