#!/usr/bin/env python3
"""Run the pinned test command (BASELINE.json) on /repo and compare with the stable_pass list.
usage: tools/baseline.py [repo_dir]    exit 0 iff every stable_pass test passes."""
import json, subprocess, sys, tempfile, xml.etree.ElementTree as ET, os
repo = sys.argv[1] if len(sys.argv) > 1 else "/repo"
base = json.load(open("/root/.vp/BASELINE.json"))
with tempfile.NamedTemporaryFile(suffix=".xml", delete=False) as f:
    xml = f.name
env = dict(os.environ); env.pop("GADDLEMAPS_VERIF", None)
env["PYTHONPATH"] = repo
cmd = ["/venv/bin/python", "-m", "pytest", "-ra", "-q", "-p", "no:cacheprovider", "--timeout=900",
       "--continue-on-collection-errors", f"--junitxml={xml}", "-n", "8"]
p = subprocess.run(cmd, cwd=repo, capture_output=True, text=True, env=env)
passed = set()
for tc in ET.parse(xml).getroot().iter("testcase"):
    if not any(c.tag in ("failure", "error", "skipped") for c in tc):
        passed.add(f"{tc.get('classname')}::{tc.get('name')}")
os.unlink(xml)
missing = [t for t in base["stable_pass"] if t not in passed]
print(f"passed={len(passed)} stable_pass={len(base['stable_pass'])} missing={len(missing)}")
for m in missing: print("  MISSING", m)
sys.exit(1 if missing else 0)
