#!/usr/bin/env python3
"""tools/seedtable.py — regenerate seeded/TABLE.md from seeded/*/meta.json, verified.json (result of the FIRST run of
our checks against the seed, recorded by seedcheck.sh when the seed was confirmed) and seeded/SWEEP.txt (last full sweep)."""
import glob, json, os, re
root = os.path.join(os.path.dirname(os.path.abspath(__file__)), "..", "seeded")
now = {}
for l in open(os.path.join(root, "SWEEP.txt")):
    m = re.match(r"(\S+) \| (\S+) rc=(\d) viol=(\d+) nofail=(\d+)", l)
    if m:
        now[m.group(1)] = (int(m.group(3)), int(m.group(4)), int(m.group(5)))
def verdict(rc, nv, nf):
    if rc == 0: return "**missed**"
    if rc == 2: return "**check crashed (exit 2)**"
    if nf and nf == nv: return "`no-failing-input-found`"
    return "VIOLATION + replay"
rows = []
for d in sorted(glob.glob(os.path.join(root, "C*-*"))):
    name = os.path.basename(d)
    meta = json.load(open(os.path.join(d, "meta.json")))
    v = meta.get("verification") or (json.load(open(os.path.join(d, "verified.json"))) if os.path.exists(os.path.join(d, "verified.json")) else {})
    own = [c for c in v.get("checks", []) if c["check"] == name.split("-")[0]]
    first = verdict(own[0]["rc"], own[0]["violation_lines"], own[0]["no_failing_input_found"]) if own else "?"
    what = (meta.get("what_it_breaks") or "").replace("\n", " ").replace("|", "/")
    what = re.split(r"(?<=[.:;]) ", what)[0][:230]
    n = now.get(name)
    rows.append(f"| {name} | {what} | {first} | {verdict(*n) if n else '?'} |")
hdr = open(os.path.join(root, "SWEEP.txt")).readline().strip()
open(os.path.join(root, "TABLE.md"), "w").write(
    "# Seeded defects: first run vs. now\n\n" + hdr + "\n\n| seed | change (first sentence of meta.json) | own check, first run | own check, now |\n|---|---|---|---|\n" + "\n".join(rows) + "\n")
print(len(rows), "rows")
