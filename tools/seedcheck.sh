#!/bin/bash
# tools/seedcheck.sh <srcdir> <name> <ID> [<ID>...]
# Confirm a seeded defect (patch.diff + demo.py + meta.json in <srcdir>) in a scratch worktree:
#   demo passes on clean tree, fails with the patch; baseline still passes; then run our quick checks.
# On success copies it to /verif/seeded/<name>/ with a verification record.
src=$1; name=$2; shift 2
wt=/tmp/seedchk-$name-$$
git -C /repo worktree add -q $wt HEAD || exit 2
cleanup() { git -C /repo worktree remove --force $wt 2>/dev/null; }
trap cleanup EXIT
PYTHONPATH=$wt /venv/bin/python $src/demo.py >/tmp/seedchk-$$-clean.log 2>&1; rc_clean=$?
git -C $wt apply $src/patch.diff || { echo "SEED $name: patch does not apply"; exit 1; }
PYTHONPATH=$wt /venv/bin/python $src/demo.py >/tmp/seedchk-$$-mut.log 2>&1; rc_mut=$?
base=$(python3 /verif/tools/baseline.py $wt | head -1)
echo "SEED $name: demo clean rc=$rc_clean, mutated rc=$rc_mut, baseline: $base"
results=""
for id in "$@"; do
  out=$(VERIF_REPO=$wt /verif/check $id quick 2>&1); rc=$?
  nv=$(echo "$out" | grep -c '^VIOLATION'); nf=$(echo "$out" | grep '^VIOLATION' | grep -c 'no-failing-input-found')
  echo "SEED $name check=$id rc=$rc violations=$nv (no-failing-input-found=$nf)"
  echo "$out" | grep '^VIOLATION' | head -2
  results="$results{\"check\":\"$id\",\"rc\":$rc,\"violation_lines\":$nv,\"no_failing_input_found\":$nf},"
done
git -C /verif checkout -q -- evidence 2>/dev/null
if [ $rc_clean -eq 0 ] && [ $rc_mut -ne 0 ] && echo "$base" | grep -q 'missing=0'; then
  mkdir -p /verif/seeded/$name; cp $src/patch.diff $src/demo.py $src/meta.json /verif/seeded/$name/
  echo "{\"confirmed\": true, \"demo_clean_rc\": $rc_clean, \"demo_mutated_rc\": $rc_mut, \"baseline\": \"$base\", \"repo_head\": \"$(git -C /repo rev-parse --short HEAD)\", \"checks\": [${results%,}]}" > /verif/seeded/$name/verified.json
  echo "SEED $name: CONFIRMED -> /verif/seeded/$name"
else
  echo "SEED $name: NOT confirmed"
fi
rm -f /tmp/seedchk-$$-*.log
