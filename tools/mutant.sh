#!/bin/bash
# tools/mutant.sh <name> <file-in-repo> <sed-expr> <ID> [<ID>...]
# apply a one-line mutation to a scratch worktree of /repo, run the quick checks against it, clean up.
name=$1; file=$2; expr=$3; shift 3
wt=/tmp/mut-$name-$$
git -C /repo worktree add -q $wt HEAD || exit 2
sed -i "$expr" $wt/$file
if git -C $wt diff --quiet; then echo "MUTANT $name: sed did not change anything"; git -C /repo worktree remove --force $wt; exit 2; fi
for id in "$@"; do
  out=$(VERIF_REPO=$wt /verif/check $id quick 2>&1); rc=$?
  echo "MUTANT $name check=$id rc=$rc $(echo "$out" | grep -c '^VIOLATION') violation line(s): $(echo "$out" | grep '^VIOLATION' | head -1 | sed 's/.*replay=[^ ]*//')"
done
git -C /verif checkout -q -- evidence 2>/dev/null
git -C /repo worktree remove --force $wt
