#!/bin/bash
# tools/merge_wp.sh <WP> : list (or with --apply copy) files that differ between /work/<WP>/verif and /verif,
# excluding build output, evidence, replays and the shared files that are merged by hand.
wp=$1; src=/work/$wp/verif
cd $src || exit 2
find . -type f \( -path ./lean/.lake -prune -o -path './.git/*' -prune -o -path './replays/*' -prune -o -path './evidence/*' -prune -o -name '*.pyc' -prune -o -print \) | grep -v '^./lean/.lake' | sort | while read f; do
  if [ ! -e /verif/$f ]; then echo "NEW   $f"; [ "$2" = "--apply" ] && mkdir -p /verif/$(dirname $f) && cp $f /verif/$f
  elif ! cmp -s $f /verif/$f; then
    case $f in
      ./lean/Driver/Main.lean|./lean/GMModel.lean|./lean/GMProofs.lean|./MANIFEST.json|./DESIGN.md|./known_findings.json|./.gitignore) echo "HAND  $f";;
      ./harness/common.py|./harness/run.py|./lean/Driver/Proto.lean|./lean/GMModel/Scalar.lean|./lean/GMModel/Vec3.lean|./lean/GMProofs/RealScalar.lean|./tools/*|./check) echo "SHARED-DIFF $f";;
      *) echo "DIFF  $f (theirs vs mine differ: not copied)";;
    esac
  fi
done
