#!/bin/bash
# tools/coverage_tie.sh [tier] [ID ...]
# How much of /repo's source do the correspondence runs actually execute?  Runs the named checks (default: all 20,
# quick tier) under coverage.py (branch coverage, source = the gaddlemaps package of $VERIF_REPO or /repo),
# combines the data and writes
#   coverage/summary.txt      per-file statement/branch coverage + the missing line ranges
#   coverage/anchored.json    for every property: the line ranges its `anchors.mechanism[].where` names, and which
#                             of those lines were never executed by that property's own check
# This is a report about the REACH of the differential tie (DESIGN.md §2.3), not a check: it never decides a property.
tier=${1:-quick}; shift
ids=("$@"); [ ${#ids[@]} -eq 0 ] && ids=(C01 C02 C03 C04 C05 C06 C07 C08 C09 C10 C11 C12 C13 C14 C15 C16 C17 C18 C19 C20)
cd /verif || exit 2
repo=${VERIF_REPO:-/repo}
work=$(mktemp -d /tmp/gmcov-XXXX)
export GADDLEMAPS_VERIF=1 PYTHONDONTWRITEBYTECODE=1 PYTHONPATH="$repo"
cat > $work/rc <<EOF
[run]
branch = True
source = $repo/gaddlemaps
data_file = $work/data
EOF
for id in "${ids[@]}"; do
  ( COVERAGE_FILE=$work/data.$id /venv/bin/python -m coverage run --rcfile=$work/rc --data-file=$work/data.$id -m harness.run $id $tier > $work/$id.log 2>&1; echo "$id rc=$?" ) &
done
wait
mkdir -p coverage
/venv/bin/python tools/coverage_report.py $work $repo "${ids[@]}"
git checkout -q -- evidence 2>/dev/null
rm -rf $work
