#!/usr/bin/env python3-vt
"""Generate linear_combination certificates for the rotation-matrix identities (C17).
Prints Lean tactic lines keyed by identity name.  Run with python3-vt (sympy)."""
from sympy import symbols, Matrix, eye, reduced, expand, simplify
nx, ny, nz, c, s, c2, s2 = symbols('nx ny nz c s c2 s2')
g1 = nx*nx + ny*ny + nz*nz - 1
gT = c*c + s*s - 1
gT2 = c2*c2 + s2*s2 - 1
def R(c, s):
    n = Matrix([nx, ny, nz])
    ddt = n * n.T
    skew = Matrix([[0, nz, -ny], [-nz, 0, nx], [ny, -nx, 0]])
    return ddt + c*(eye(3) - ddt) + s*skew
def lean(e):
    t = str(expand(e)).replace('**', '^')
    for a, b in (('nx', 'n.x'), ('ny', 'n.y'), ('nz', 'n.z')):
        t = t.replace(a, b)
    return t
def cert(P, gens, names, vars_):
    q, r = reduced(expand(P), gens, *vars_, order='lex')
    assert r == 0, (P, r)
    parts = [f"({lean(qi)}) * {nm}" for qi, nm in zip(q, names) if qi != 0]
    return "linear_combination " + (" + ".join(parts) if parts else "(0:ℝ) * hN")
V = (nx, ny, nz, c, s, c2, s2)
Rm = R(c, s)
out = {}
O = Rm * Rm.T - eye(3)
for i in range(3):
    for j in range(3):
        out[f"orth_{i}{j}"] = cert(O[i, j], [g1, gT], ["hN", "hT"], V)
# det as r0 . (r1 x r2)
r0, r1, r2 = Rm.row(0), Rm.row(1), Rm.row(2)
det = r0.dot(r1.cross(r2))
out["det"] = cert(det - 1, [g1, gT], ["hN", "hT"], V)
n = Matrix([nx, ny, nz])
F = Rm * n - n
for i in range(3):
    out[f"fix_{i}"] = cert(F[i], [g1, gT], ["hN", "hT"], V)
G = (n.T * Rm).T - n
for i in range(3):
    out[f"fixrow_{i}"] = cert(G[i], [g1, gT], ["hN", "hT"], V)
out["trace"] = cert(Rm.trace() - (1 + 2*c), [g1, gT], ["hN", "hT"], V)
C = R(c, s) * R(c2, s2) - R(c*c2 - s*s2, s*c2 + c*s2)
for i in range(3):
    for j in range(3):
        out[f"comp_{i}{j}"] = cert(C[i, j], [g1], ["hN"], V)
for k, v in out.items():
    print(k, "::", v)
