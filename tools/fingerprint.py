#!/venv/bin/python
"""tools/fingerprint.py [repo]  — write fingerprints.json: for every source file named in some property's
anchors.files, the SHA-1 of its AST (docstrings and comments do not count).  Committed; regenerated only by hand after
the machinery has been re-validated against a new /repo state (e.g. after a `fix:` commit).

Use (harness/common.py `source_drift`): when a check starts and an anchored file of ITS property no longer matches the
recorded fingerprint, the code under test has changed since the checks were last validated against it; the check then
spends a larger case budget (VERIF_DRIFT_SCALE, default 3x) and says so in its evidence.  A changed fingerprint is never
an alarm by itself — it only buys search effort where a change happened."""
import ast, hashlib, json, os, sys

VERIF = os.path.dirname(os.path.dirname(os.path.abspath(__file__)))


sys.path.insert(0, VERIF)
from harness.common import ast_sha, package_files   # noqa: E402  (one definition, shared with the checks)


def anchored_files():
    per = {}
    for l in open(os.path.join(VERIF, "properties.jsonl")):
        p = json.loads(l)
        per[p["id"]] = sorted(p["anchors"]["files"])
    return per


if __name__ == "__main__":
    repo = sys.argv[1] if len(sys.argv) > 1 else "/repo"
    files = package_files(repo)
    out = {"comment": "AST fingerprints of the anchored source files at the /repo state the checks were last validated against",
           "files": {f: ast_sha(os.path.join(repo, f)) for f in files}}
    json.dump(out, open(os.path.join(VERIF, "fingerprints.json"), "w"), indent=1)
    print(len(files), "files")
