import GMProofs.Props.C17
import GMProofs.Props.C01
import GMProofs.Props.C02
import GMProofs.Props.C03
import GMProofs.Props.C07
import GMProofs.Props.C08
import GMProofs.Props.C19
