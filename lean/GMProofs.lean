import GMProofs.Props.C17
