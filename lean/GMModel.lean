import GMModel.Scalar
import GMModel.Vec3
import GMModel.Util
import GMModel.Frame
import GMModel.ExchangeMap
import GMModel.MoveAtom
import GMModel.Chi2
import GMModel.Pbc
