import GMModel.Scalar
import GMModel.Vec3
import GMModel.Frame
