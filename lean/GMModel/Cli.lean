import GMModel.Manager
/-
  GMModel.Cli — `gaddlemaps/_cli.py` (C20): `classify_files`, `sort_molecules`, the post-processing
  of `main`, the default output name of `auto_map`, and `auto_map` as a composition of library calls.

  Python `set`s are modelled as duplicate-free LISTS standing for their iteration order, so that
  every iteration order (every hash seed, every order of the `--auto` argument list) is a possible
  input and the theorems can quantify over all of them.

  PARAMETERS (supplied by the harness from the real classes; their own laws are C11/C12/C15):
    * `Env.parseTop f`      — `MoleculeTop(f).name`, or the exception it raises;
    * `Env.loadsAfter a f`  — `system.add_molecule_top(MoleculeTop(f))` succeeds (does not raise
                              `OSError`) on the system to which the topologies `a` have been added;
    * `Env.fromFiles c t`   — `Molecule.from_files(c, t)` succeeds (does not raise `OSError`).

  `sortMolecules … (repaired := true)` is the code WITH the repairs of defect D9
  (`fixes/C20-D9.patch`: a species without `top_AA` is skipped in the third loop) and of defect O-a
  (`fixes/C20-Oa.patch`: a candidate topology file that is not a molecule topology is skipped);
  `repaired := false` is the code as found (`KeyError: 'top_AA'`, resp. `IOError`).
-/

namespace Cli

open Mgr (PyErr)

/-! ### path helpers (`os.path.basename`, `str.split(".")[-1]`, `os.path.split`, `os.path.join`; POSIX) -/

/-- split at the LAST occurrence of `c`: `(before, after)`; `none` when `c` does not occur -/
def splitLast (c : Char) : List Char → Option (List Char × List Char)
  | [] => none
  | x :: xs =>
    match splitLast c xs with
    | some (h, t) => some (x :: h, t)
    | none => if x == c then some ([], xs) else none

/-- `s[s.rfind(c)+1:]` = `s.split(c)[-1]` -/
def afterLast (c : Char) (s : List Char) : List Char :=
  match splitLast c s with
  | some (_, t) => t
  | none => s

/-- `s.rstrip(c)` -/
def rstrip (c : Char) : List Char → List Char
  | [] => []
  | x :: xs =>
    match rstrip c xs with
    | [] => if x == c then [] else [x]
    | r => x :: r

def basename (p : List Char) : List Char := afterLast '/' p

/-- `os.path.basename(filename).split(".")[-1]` -/
def extension (p : List Char) : List Char := afterLast '.' (basename p)

/-- `os.path.split(p)`:
    `i = p.rfind('/')+1; head, tail = p[:i], p[i:]; if head and head != '/'*len(head): head = head.rstrip('/')` -/
def splitPath (p : List Char) : List Char × List Char :=
  match splitLast '/' p with
  | none => ([], p)
  | some (h, t) =>
    let head := h ++ ['/']
    (if head.all (· == '/') then head else rstrip '/' head, t)

/-- `os.path.join(a, b)` for two components -/
def joinPath (a b : List Char) : List Char :=
  if b.head? == some '/' then b
  else if a.isEmpty || a.getLast? == some '/' then a ++ b
  else a ++ '/' :: b

def mappedPrefix : List Char := "mapped_".toList

/-- `folder, basename = os.path.split(ref); os.path.join(folder, f"mapped_{basename}")` -/
def defaultOut (ref : List Char) : List Char :=
  joinPath (splitPath ref).1 (mappedPrefix ++ (splitPath ref).2)

/-- `out_path` of `auto_map` -/
def outPath (ref : List Char) (outfile : Option (List Char)) : List Char :=
  match outfile with
  | none => defaultOut ref
  | some o => o

/-! ### `classify_files` -/

/-- `classify_files(files)`: `(topology_files, coordinate_files)`; a file may be in both.
    The sets are represented by duplicate-free lists (first occurrences, in argument order). -/
def classify (topExts coordExts : List String) (files : List String) : List String × List String :=
  let ext := fun (f : String) => String.ofList (extension f.toList)
  ((files.filter (fun f => topExts.contains (ext f))).eraseDups,
   (files.filter (fun f => coordExts.contains (ext f))).eraseDups)

/-! ### `sort_molecules` -/

/-- one value of the returned dictionary: keys `top_CG` (always), `top_AA`, `coor_AA` -/
structure Info where
  topCG : String
  topAA : Option String
  coorAA : Option String
  deriving DecidableEq, Repr

/-- `len(info)` -/
def Info.len (i : Info) : Nat := 1 + i.topAA.isSome.toNat + i.coorAA.isSome.toNat

/-- a `dict` name ↦ info in insertion order -/
abbrev Dict := List (String × Info)

structure Env where
  parseTop : String → Except PyErr String
  loadsAfter : List String → String → Bool
  fromFiles : String → String → Bool

/-- `d[k] = v` -/
def dictSet (d : Dict) (k : String) (v : Info) : Dict :=
  if d.any (fun p => p.1 == k) then d.map (fun p => if p.1 == k then (k, v) else p)
  else d ++ [(k, v)]

/-- first loop: `try: system.add_molecule_top(molecule) except OSError: pass
                else: used_files.add(filename); added[molecule.name] = {"top_CG": filename}`
    `base` = the known start topologies the `System` was built with; `used` in loading order -/
def loop1 (env : Env) (base : List String) :
    List (String × String) → List String → Dict → List String × Dict
  | [], used, d => (used, d)
  | (f, n) :: rest, used, d =>
    if env.loadsAfter (base ++ used) f then
      loop1 env base rest (used ++ [f]) (dictSet d n ⟨f, none, none⟩)
    else loop1 env base rest used d

def setAA (n f : String) (p : String × Info) : String × Info :=
  if p.1 == n && p.2.topAA.isNone then (p.1, { p.2 with topAA := some f }) else p

/-- second loop: `if filename not in used_files and molecule.name in added:
                    if "top_AA" in added[name]: warn  else: added[name]["top_AA"] = filename` -/
def loop2 (used : List String) : List (String × String) → Dict → Dict
  | [], d => d
  | (f, n) :: rest, d =>
    if !used.contains f && d.any (fun p => p.1 == n) then loop2 used rest (d.map (setAA n f))
    else loop2 used rest d

/-- number of `RuntimeWarning("Repeated topology …")` issued by the second loop -/
def loop2Warnings (used : List String) : List (String × String) → Dict → Nat
  | [], _ => 0
  | (f, n) :: rest, d =>
    if !used.contains f && d.any (fun p => p.1 == n) then
      (if d.any (fun p => p.1 == n && p.2.topAA.isSome) then 1 else 0)
        + loop2Warnings used rest (d.map (setAA n f))
    else loop2Warnings used rest d

/-- body of the third loop for ONE coordinate file `c` over the dictionary items:
    ```
    if "coor_AA" not in info:
        [repaired:  if "top_AA" not in info: continue]
        try: Molecule.from_files(c, info["top_AA"])     # KeyError when absent (as found)
        except OSError: pass
        else: added[name]["coor_AA"] = c
    ``` -/
def tryCoord (env : Env) (repaired : Bool) (c : String) : Dict → Except PyErr Dict
  | [] => .ok []
  | (n, i) :: rest =>
    if i.coorAA.isNone then
      match i.topAA with
      | none =>
        if repaired then (tryCoord env repaired c rest).map (fun r => (n, i) :: r)
        else .error .KeyError
      | some a =>
        (tryCoord env repaired c rest).map
          (fun r => (n, if env.fromFiles c a then { i with coorAA := some c } else i) :: r)
    else (tryCoord env repaired c rest).map (fun r => (n, i) :: r)

def loop3 (env : Env) (repaired : Bool) : List String → Dict → Except PyErr Dict
  | [], d => .ok d
  | c :: cs, d =>
    match tryCoord env repaired c d with
    | .error e => .error e
    | .ok d' => loop3 env repaired cs d'

/-- the list `topology_molecues` of `(file, MoleculeTop(file))`.
    As found: `[(i, MoleculeTop(i)) for i in topology_files]` — the first file that does not parse
    aborts discovery with its exception.
    Repaired (`fixes/C20-Oa.patch`): a candidate whose `MoleculeTop(i)` raises `OSError` (it is not the
    topology of a molecule: no `[ moleculetype ]`/`[ atoms ]`, empty file, force-field include) is
    skipped with a `RuntimeWarning`; any other exception (a corrupt molecule topology:
    `ValueError`, `IndexError`, `KeyError`) still propagates. -/
def parseAll (env : Env) (repaired : Bool) : List String → Except PyErr (List (String × String))
  | [] => .ok []
  | f :: fs =>
    match env.parseTop f with
    | .error e =>
      if repaired && e == .IOError then parseAll env repaired fs
      else .error e
    | .ok n =>
      match parseAll env repaired fs with
      | .error e => .error e
      | .ok r => .ok ((f, n) :: r)

/-- number of "is not a molecule topology" warnings of the repaired code -/
def skipped (env : Env) (T : List String) : Nat :=
  (T.filter (fun f => match env.parseTop f with | .error .IOError => true | _ => false)).length

def isKnownTop (known : List (String × String × String)) (f : String) : Bool :=
  known.any (fun k => k.1 == f || k.2.2 == f)

def isKnownCoord (known : List (String × String × String)) (f : String) : Bool :=
  known.any (fun k => k.2.1 == f)

/-- `sort_molecules(reference, all_files, known_files)` after `classify_files`:
    `tops`, `coords` = iteration orders of the two sets; `known` = the `--mol` triples
    (start topology, end coordinates, end topology); `knownOk` = `System(reference, *known tops)`
    does not raise. -/
def sortMolecules (env : Env) (repaired : Bool) (tops coords : List String)
    (known : List (String × String × String)) (knownOk : Bool) : Except PyErr Dict :=
  let tops1 := tops.filter (fun f => !isKnownTop known f)
  let coords1 := coords.filter (fun f => !isKnownCoord known f)
  if !knownOk then .error .IOError
  else
    match parseAll env repaired tops1 with
    | .error e => .error e
    | .ok tm =>
      let r1 := loop1 env (known.map (·.1)) tm [] []
      loop3 env repaired coords1 (loop2 r1.1 tm r1.2)

/-! ### `main`: from the discovered dictionary to the list handed to `auto_map` -/

/-- ```
    for name in molecule_info:
        if len(molecule_info[name]) == 3:
            if exclude is not None and name in exclude: continue
            molecules.append([info["top_CG"], info["coor_AA"], info["top_AA"]])
    ``` -/
def discovered (info : Dict) (exclude : Option (List String)) : List (String × String × String) :=
  info.filterMap (fun p =>
    if p.2.len == 3 then
      if (match exclude with | none => false | some ex => ex.contains p.1) then none
      else
        match p.2.coorAA, p.2.topAA with
        | some c, some a => some (p.2.topCG, c, a)
        | _, _ => none              -- unreachable: `len == 3` means both keys are present
    else none)

/-- the `molecules` list of `main` -/
def mainMolecules (explicit : List (String × String × String)) (auto : Option Dict)
    (exclude : Option (List String)) : List (String × String × String) :=
  match auto with
  | none => explicit
  | some info => explicit ++ discovered info exclude

/-- `count_mols` printed by `main` -/
def countMols (info : Dict) : Nat := (info.filter (fun p => p.2.len == 3)).length

/-! ### `auto_map` as a composition of library calls -/

/-- the library entry points `auto_map` composes; `T` = the state of `np.random` -/
structure Lib (Mol Mg T S Out : Type) where
  topName : String → Except PyErr String              -- `read_topology(f)[0]`
  molFromFiles : String → String → Except PyErr Mol   -- `Molecule.from_files(gro, top)`
  molName : Mol → String                              -- `molecule.name`
  managerFromFiles : String → List String → Except PyErr Mg
  hasSpecies : Mg → String → Bool                     -- `name in manager.molecule_correspondence`
  setEnd : Mg → String → Mol → Except PyErr Mg        -- `molecule_correspondence[name].end = mol`
  align : Mg → T → Except PyErr (Mg × T)              -- `manager.align_molecules()`
  maps : S → Mg → T → Except PyErr (Mg × T)           -- `manager.calculate_exchange_maps(scale)`
  extrapolate : Mg → List Char → Except PyErr Out     -- `manager.extrapolate_system(path)`

variable {Mol Mg T S Out : Type}

/-- `end_molecules[name] = mol` on a dict name ↦ molecule -/
def endSet (d : List (String × Mol)) (k : String) (v : Mol) : List (String × Mol) :=
  if d.any (fun p => p.1 == k) then d.map (fun p => if p.1 == k then (k, v) else p)
  else d ++ [(k, v)]

/-- first loop of `auto_map`:
    `name, *_ = read_topology(specie[0]); end_molecules[name] = Molecule.from_files(specie[1], specie[2])` -/
def loadEnds (L : Lib Mol Mg T S Out) :
    List (String × String × String) → List (String × Mol) → Except PyErr (List (String × Mol))
  | [], d => .ok d
  | sp :: rest, d =>
    match L.topName sp.1 with
    | .error e => .error e
    | .ok name =>
      match L.molFromFiles sp.2.1 sp.2.2 with
      | .error e => .error e
      | .ok mol => loadEnds L rest (endSet d name mol)

/-- `for name, end_mol in end_molecules.items(): manager.molecule_correspondence[name].end = end_mol` -/
def attachByKey (L : Lib Mol Mg T S Out) : List (String × Mol) → Mg → Except PyErr Mg
  | [], m => .ok m
  | (name, mol) :: rest, m =>
    if !L.hasSpecies m name then .error .KeyError
    else
      match L.setEnd m name mol with
      | .error e => .error e
      | .ok m' => attachByKey L rest m'

/-- align → maps → extrapolate, the random state threaded through -/
def finishRun (L : Lib Mol Mg T S Out) (m : Mg) (scale : S) (out : List Char) (t : T) :
    Except PyErr Out :=
  match L.align m t with
  | .error e => .error e
  | .ok (m1, t1) =>
    match L.maps scale m1 t1 with
    | .error e => .error e
    | .ok (m2, _) => L.extrapolate m2 out

/-- `auto_map(reference, species, scale, outfile)` -/
def autoMap (L : Lib Mol Mg T S Out) (ref : List Char) (species : List (String × String × String))
    (scale : S) (outfile : Option (List Char)) (t : T) : Except PyErr Out :=
  match loadEnds L species [] with
  | .error e => .error e
  | .ok ends =>
    match L.managerFromFiles (String.ofList ref) (species.map (·.1)) with
    | .error e => .error e
    | .ok m =>
      match attachByKey L ends m with
      | .error e => .error e
      | .ok m' => finishRun L m' scale (outPath ref outfile) t

/-- the `(start species name, end molecule)` pairs of the `--mol` triples, as a LIST (no dictionary):
    `[(read_topology(start)[0], Molecule.from_files(gro, itp)) for start, gro, itp in species]` -/
def loadPairs (L : Lib Mol Mg T S Out) :
    List (String × String × String) → Except PyErr (List (String × Mol))
  | [] => .ok []
  | sp :: rest =>
    match L.topName sp.1 with
    | .error e => .error e
    | .ok name =>
      match L.molFromFiles sp.2.1 sp.2.2 with
      | .error e => .error e
      | .ok mol =>
        match loadPairs L rest with
        | .error e => .error e
        | .ok r => .ok ((name, mol) :: r)

/-- THE library workflow "attach the same molecules" of the property:
    `Manager.from_files(ref, *starts)`; every end molecule `Molecule.from_files(gro, itp)` is attached
    to the species named by the START topology of its triple
    (`manager.molecule_correspondence[name].end = mol`, the way the `Manager` documentation maps a
    species onto a differently named molecule); `align_molecules(); calculate_exchange_maps(scale);
    extrapolate_system(out)`.  No hypothesis on the END molecule's own name. -/
def libraryWorkflow (L : Lib Mol Mg T S Out) (ref : List Char)
    (species : List (String × String × String)) (scale : S) (out : List Char) (t : T) :
    Except PyErr Out :=
  match L.managerFromFiles (String.ofList ref) (species.map (·.1)) with
  | .error e => .error e
  | .ok m =>
    match loadPairs L species with
    | .error e => .error e
    | .ok pairs =>
      match attachByKey L pairs m with
      | .error e => .error e
      | .ok m' => finishRun L m' scale out t

/-- `[Molecule.from_files(gro, itp) for …]` -/
def loadMols (L : Lib Mol Mg T S Out) :
    List (String × String × String) → Except PyErr (List Mol)
  | [] => .ok []
  | sp :: rest =>
    match L.molFromFiles sp.2.1 sp.2.2 with
    | .error e => .error e
    | .ok mol =>
      match loadMols L rest with
      | .error e => .error e
      | .ok r => .ok (mol :: r)

/-- `manager.add_end_molecules(*mols)`: every molecule is attached under ITS OWN name -/
def addEndMolecules (L : Lib Mol Mg T S Out) : List Mol → Mg → Except PyErr Mg
  | [], m => .ok m
  | mol :: rest, m =>
    if !L.hasSpecies m (L.molName mol) then .error .KeyError
    else
      match L.setEnd m (L.molName mol) mol with
      | .error e => .error e
      | .ok m' => addEndMolecules L rest m'

/-- the README form of the library workflow, usable when every end molecule carries its species' name:
    `Manager.from_files(ref, *starts); add_end_molecules(*ends); align_molecules();
     calculate_exchange_maps(scale); extrapolate_system(out)` -/
def libraryWorkflowOwnName (L : Lib Mol Mg T S Out) (ref : List Char)
    (species : List (String × String × String)) (scale : S) (out : List Char) (t : T) :
    Except PyErr Out :=
  match L.managerFromFiles (String.ofList ref) (species.map (·.1)) with
  | .error e => .error e
  | .ok m =>
    match loadMols L species with
    | .error e => .error e
    | .ok mols =>
      match addEndMolecules L mols m with
      | .error e => .error e
      | .ok m' => finishRun L m' scale out t

end Cli
