import GMModel.Heap
/-
  GMModel.HeapOps — the modelled API operations of `gaddlemaps/components` on the heap
  (`_residue.py`: AtomGro, Residue; `_components.py`: Atom, Molecule; `_components_top.py`:
  AtomTop, MoleculeTop; `_system.py` / `_alignment.py` as sources of copies).

  Each operation allocates and writes exactly the cells the Python allocates and writes, and
  raises where the Python raises (same order of checks).  An operation list runs against an
  environment of handles (`List Obj`): operations name their target by its index in the
  environment and push the object they return.
-/

namespace GMHeap

variable {α : Type}

/-! ### constructors / copies (allocation only) -/

/-- `_molecule_top_and_residues_match` : lengths, then resname/name atom by atom -/
def matchAll (h : Heap α) (tops gros : List Nat) : Option PyErr :=
  if tops.length ≠ gros.length then some .ioError else
  match readTops h tops, readGros h gros with
  | some ts, some gs =>
    if (ts.zip gs).all (fun (t, g) => decide (g.resname = t.resname ∧ g.name = t.name)) then none
    else some .ioError
  | _, _ => some .internal

/-- `Residue.copy()` = `Residue([atom.copy() for atom in self._atoms_gro])` -/
def copyResidue (h : Heap α) (r : Nat) : Except PyErr (Heap α × Nat) :=
  match h.res? r with
  | none => .error .internal
  | some gs =>
    match readGros h gs with
    | none => .error .internal
    | some cs =>
      let (h1, as) := h.allocList (cs.map Cell.gro)
      match residueInitErr cs with
      | some e => .error e
      | none => .ok (h1.alloc (.res as))

def copyResidues (h : Heap α) : List Nat → Except PyErr (Heap α × List Nat)
  | [] => .ok (h, [])
  | r :: rs =>
    match copyResidue h r with
    | .error e => .error e
    | .ok (h1, a) =>
      match copyResidues h1 rs with
      | .error e => .error e
      | .ok (h2, as) => .ok (h2, a :: as)

/-- `Molecule.__init__(molecule_top, residues)`: match check (IOError), then a copy of every
    residue, `_each_atom_resid` from the residue lengths -/
def molInit (h : Heap α) (t : Nat) (rs : List Nat) : Except PyErr (Heap α × Nat) :=
  match h.mtop? t, readRess h rs with
  | some (_, tops), some parts =>
    match matchAll h tops parts.flatten with
    | some e => .error e
    | none =>
      match copyResidues h rs with
      | .error e => .error e
      | .ok (h1, rs') => .ok (h1.alloc (.mol t rs' (eachOf 0 parts)))
  | _, _ => .error .internal

/-- `MoleculeTop.copy()` : new AtomTop objects (bonds set copied), new list -/
def copyTop (h : Heap α) (t : Nat) : Except PyErr (Heap α × Nat) :=
  match h.mtop? t with
  | none => .error .internal
  | some (name, tops) =>
    match readTops h tops with
    | none => .error .internal
    | some ts =>
      let (h1, as) := h.allocList (ts.map Cell.top)
      .ok (h1.alloc (.mtop name as))

/-- residues as read from a coordinate file: `Residue([AtomGro(line) …])` each -/
def allocResidues (h : Heap α) : List (List (AtomGroC α)) → Except PyErr (Heap α × List Nat)
  | [] => .ok (h, [])
  | cs :: rest =>
    let (h1, as) := h.allocList (cs.map Cell.gro)
    match residueInitErr cs with
    | some e => .error e
    | none =>
      let (h2, r) := h1.alloc (.res as)
      match allocResidues h2 rest with
      | .error e => .error e
      | .ok (h3, rs) => .ok (h3, r :: rs)

/-! ### targets of the collection setters -/

/-- atoms of a Molecule / Residue in iteration order: (AtomTop?, AtomGro) and whether iterating
    constructs `Atom` views (Molecule) -/
def collPairs (h : Heap α) : Obj → Except PyErr (List (Option Nat × Nat) × Bool)
  | .mol m =>
    match molView h m with
    | none => .error .internal
    | some v =>
      if v.tops.length ≠ v.gros.length then .error .internal
      else .ok ((v.tops.zip v.gros).map (fun (t, g) => (some t, g)), true)
  | .res r =>
    match h.res? r with
    | none => .error .internal
    | some gs => .ok (gs.map (fun g => (none, g)), false)
  | _ => .error .internal

def mkW {β : Type} (pairs : List (Option Nat × Nat)) (vals : List β)
    (fg : β → AtomGroC α → AtomGroC α) (ft : β → Option (AtomTopC → AtomTopC)) : List (W α) :=
  (pairs.zip vals).map (fun (p, v) => ⟨p.1, p.2, fg v, ft v⟩)

/-- `atoms_positions` getter of a Molecule / Residue (no `Atom` is constructed) -/
def positionsOf (h : Heap α) (o : Obj) : Except PyErr (List (V3 α)) :=
  match collPairs h o with
  | .error e => .error e
  | .ok (pairs, _) =>
    match readGros h (pairs.map (·.2)) with
    | none => .error .internal
    | some cs => .ok (cs.map (·.pos))

/-- `atoms_positions` setter: shape check (ValueError), then the loop -/
def setPositions (h : Heap α) (o : Obj) (ps : List (V3 α)) : Heap α × Option PyErr :=
  match collPairs h o with
  | .error e => (h, some e)
  | .ok (pairs, check) =>
    if ps.length ≠ pairs.length then (h, some .valueError)
    else applyW check h (mkW pairs ps (fun p g => { g with pos := p }) (fun _ => none))

section geometry
variable [Scalar α]

/-- `geometric_center` = `np.mean(self.atoms_positions, axis=0)` -/
def centreOf (h : Heap α) (o : Obj) : Except PyErr (V3 α) :=
  match positionsOf h o with
  | .error e => .error e
  | .ok ps => .ok (V3.mean ps)

/-- `move`: `self.atoms_positions = self.atoms_positions + displacement` -/
def moveObj (h : Heap α) (o : Obj) (d : V3 α) : Heap α × Option PyErr :=
  match positionsOf h o with
  | .error e => (h, some e)
  | .ok ps => setPositions h o (ps.map (· + d))

/-- `move_to`: `self.move(new_position - self.geometric_center)` -/
def moveToObj (h : Heap α) (o : Obj) (p : V3 α) : Heap α × Option PyErr :=
  match centreOf h o with
  | .error e => (h, some e)
  | .ok c => moveObj h o (p - c)

/-- `rotate`: `com = centre; new = dot(positions - com, R.T) + com` — one centre for the whole
    object: for a Molecule the mean over all atoms of all residues -/
def rotatePoint (r : M3 α) (c p : V3 α) : V3 α := M3.vecMul (p - c) (M3.transpose r) + c

def rotateObj (h : Heap α) (o : Obj) (r : M3 α) : Heap α × Option PyErr :=
  match positionsOf h o with
  | .error e => (h, some e)
  | .ok ps => setPositions h o (ps.map (rotatePoint r (V3.mean ps)))

end geometry

/-- `atoms_velocities` setter -/
def setVelocities (h : Heap α) (o : Obj) (vs : Option (List (V3 α))) : Heap α × Option PyErr :=
  match collPairs h o with
  | .error e => (h, some e)
  | .ok (pairs, check) =>
    match vs with
    | none =>
      applyW check h (mkW pairs (pairs.map (fun _ => ())) (fun _ g => { g with vel := none })
        (fun _ => none))
    | some vs =>
      if vs.length ≠ pairs.length then (h, some .valueError)
      else applyW check h (mkW pairs vs (fun v g => { g with vel := some v }) (fun _ => none))

/-- `atoms_ids` setter: length check is an IndexError -/
def setIds (h : Heap α) (o : Obj) (ids : List Int) : Heap α × Option PyErr :=
  match collPairs h o with
  | .error e => (h, some e)
  | .ok (pairs, check) =>
    if ids.length ≠ pairs.length then (h, some .indexError)
    else applyW check h (mkW pairs ids (fun n g => { g with atomid := n }) (fun _ => none))

/-- per-atom values `vals[each[i]]` -/
def perAtom {β : Type} (vals : List β) : List Nat → Option (List β)
  | [] => some []
  | r :: rs =>
    match vals[r]?, perAtom vals rs with
    | some v, some vs => some (v :: vs)
    | _, _ => none

/-- `Molecule.resids = [..]` : writes `top_resid` (the SHARED AtomTop) and `gro_resid` -/
def setResidsList (h : Heap α) (m : Nat) (l : List Int) : Heap α × Option PyErr :=
  match l with
  | [] => (h, some .indexError)            -- `new_resids[0]`
  | _ =>
    match molView h m, collPairs h (.mol m) with
    | some v, .ok (pairs, check) =>
      if l.length ≠ v.residues.length then (h, some .valueError) else
      match perAtom l v.each with
      | none => (h, some .internal)
      | some vals =>
        applyW check h (mkW pairs vals (fun n g => { g with resid := n })
          (fun n => some (fun t => { t with resid := n })))
    | _, _ => (h, some .internal)

/-- `Molecule.resids = n` ; `Residue.resid = n` (gro side only) -/
def setResidsInt (h : Heap α) (o : Obj) (n : Int) : Heap α × Option PyErr :=
  match collPairs h o with
  | .error e => (h, some e)
  | .ok (pairs, check) =>
    applyW check h (mkW pairs (pairs.map (fun _ => n)) (fun n g => { g with resid := n })
      (fun n => if check then some (fun t => { t with resid := n }) else none))

/-- `Molecule.resnames = [..]` : `atom.resname = …` writes the AtomTop and the AtomGro -/
def setResnamesList (h : Heap α) (m : Nat) (l : List String) : Heap α × Option PyErr :=
  match l with
  | [] => (h, some .indexError)
  | _ =>
    match molView h m, collPairs h (.mol m) with
    | some v, .ok (pairs, check) =>
      if l.length ≠ v.residues.length then (h, some .valueError) else
      match perAtom l v.each with
      | none => (h, some .internal)
      | some vals =>
        applyW check h (mkW pairs vals (fun s g => { g with resname := s })
          (fun s => some (fun t => { t with resname := s })))
    | _, _ => (h, some .internal)

/-- `Molecule.resnames = s` ; `Residue.resname = s` (truncated to 5 characters, gro side only) -/
def setResnamesStr (h : Heap α) (o : Obj) (s : String) : Heap α × Option PyErr :=
  match collPairs h o with
  | .error e => (h, some e)
  | .ok (pairs, check) =>
    let s' := if check then s else (if s.length > 5 then String.ofList (s.toList.take 5) else s)
    applyW check h (mkW pairs (pairs.map (fun _ => s')) (fun s g => { g with resname := s })
      (fun s => if check then some (fun t => { t with resname := s }) else none))

/-! ### attribute assignment on a single atom handle -/

inductive AttrVal (α : Type) where
  | pos (v : V3 α)
  | vel (v : Option (V3 α))
  | atomid (n : Int)
  | groResid (n : Int)
  | topResid (n : Int)
  | resname (s : String)
  | name (s : String)

/-- what `Atom.__setattr__` (for an `Atom`) / plain attribute assignment (for an `AtomGro`)
    writes: the AtomGro update and the AtomTop update -/
def AttrVal.fg : AttrVal α → Option (AtomGroC α → AtomGroC α)
  | .pos v => some (fun g => { g with pos := v })
  | .vel v => some (fun g => { g with vel := v })
  | .atomid n => some (fun g => { g with atomid := n })
  | .groResid n => some (fun g => { g with resid := n })
  | .topResid _ => none
  | .resname s => some (fun g => { g with resname := s })
  | .name s => some (fun g => { g with name := s })

def AttrVal.ft : AttrVal α → Option (AtomTopC → AtomTopC)
  | .topResid n => some (fun t => { t with resid := n })
  | .resname s => some (fun t => { t with resname := s })
  | .name s => some (fun t => { t with name := s })
  | _ => none

def setAttr (h : Heap α) (o : Obj) (v : AttrVal α) : Heap α × Option PyErr :=
  match o with
  | .atom t g =>
    let h1 := match v.ft with
      | some f => h.modTop t f
      | none => h
    let h2 := match v.fg with
      | some f => h1.modGro g f
      | none => h1
    (h2, none)
  | .agro g =>
    match v.fg with
    | some f => (h.modGro g f, none)
    | none => (h, some .internal)
  | _ => (h, some .internal)

/-! ### the operation language -/

inductive Op (α : Type) where
  /-- load a molecule: `MoleculeTop(ftop)`, residues from the coordinate file, `Molecule(top, residues)` -/
  | newMol (name : String) (tops : List AtomTopC) (residues : List (List (AtomGroC α)))
  /-- `base.copy(residues)` with residues freshly read from a file: what `System.__getitem__` /
      `__iter__` hand out (`base = system.different_molecules[k]`) -/
  | molWith (i : Nat) (residues : List (List (AtomGroC α)))
  /-- `.copy()` of a Molecule (shares the topology; also `Alignment.start/end` setters), Residue,
      AtomGro or Atom -/
  | copy (i : Nat)
  | deepCopy (i : Nat)
  /-- `mol[k]` (an `Atom` view) / `res[k]` (the AtomGro itself) -/
  | getAtom (i k : Nat)
  /-- the k-th `Atom` yielded by iterating a Molecule -/
  | iterAtom (i k : Nat)
  /-- `mol.residues[k]` (the live Residue) -/
  | getResidue (i k : Nat)
  | move (i : Nat) (d : V3 α)
  | moveTo (i : Nat) (p : V3 α)
  | rotate (i : Nat) (r : M3 α)
  | setPos (i : Nat) (ps : List (V3 α))
  | setVel (i : Nat) (vs : Option (List (V3 α)))
  | setIds (i : Nat) (ids : List Int)
  | setResidsL (i : Nat) (l : List Int)
  | setResidsI (i : Nat) (n : Int)
  | setResnamesL (i : Nat) (l : List String)
  | setResnamesS (i : Nat) (s : String)
  | setAttr (i : Nat) (v : AttrVal α)

/-- result of one step: new heap, object returned (pushed on the environment), error raised -/
structure StepR (α : Type) where
  heap : Heap α
  ret : Option Obj
  err : Option PyErr

def allocOk (r : Except PyErr (Heap α × Nat)) (h : Heap α) (mk : Nat → Obj) : StepR α :=
  match r with
  | .ok (h1, a) => ⟨h1, some (mk a), none⟩
  | .error e => ⟨h, none, some e⟩

def writeOk (r : Heap α × Option PyErr) : StepR α := ⟨r.1, none, r.2⟩

/-- `Molecule.__getitem__(k)` address arithmetic: residue index from `_each_atom_resid[k]`, atom
    index = number of earlier atoms with the same residue index -/
def molItem (v : MolView) (k : Nat) : Except PyErr (Nat × Nat) :=
  match v.each[k]? with
  | none => .error .indexError
  | some ri =>
    let ai := (v.each.take k).count ri
    match v.tops[k]?, v.parts[ri]? with
    | some t, some gs =>
      match gs[ai]? with
      | some g => .ok (t, g)
      | none => .error .indexError
    | _, _ => .error .indexError

/-- first IOError among the `Atom`s constructed while iterating up to and including index `k` -/
def iterCheck (h : Heap α) : List (Nat × Nat) → Nat → Option PyErr
  | [], _ => none
  | (t, g) :: rest, k =>
    match matchErr h t g with
    | some e => some e
    | none => match k with
      | 0 => none
      | k + 1 => iterCheck h rest k

variable [Scalar α]

def stepOn (h : Heap α) (o : Obj) : Op α → StepR α
  | .copy _ =>
    match o with
    | .mol m =>
      match h.mol? m with
      | some (t, rs, _) => allocOk (molInit h t rs) h .mol
      | none => ⟨h, none, some .internal⟩
    | .res r => allocOk (copyResidue h r) h .res
    | .agro g =>
      match h.gro? g with
      | some c => let (h1, a) := h.alloc (.gro c); ⟨h1, some (.agro a), none⟩
      | none => ⟨h, none, some .internal⟩
    | .atom t g =>
      match h.gro? g with
      | some c =>
        let (h1, a) := h.alloc (.gro c)
        match matchErr h1 t a with
        | some e => ⟨h, none, some e⟩
        | none => ⟨h1, some (.atom t a), none⟩
      | none => ⟨h, none, some .internal⟩
  | .deepCopy _ =>
    match o with
    | .mol m =>
      match h.mol? m with
      | some (t, rs, _) =>
        match copyTop h t with
        | .error e => ⟨h, none, some e⟩
        | .ok (h1, t') => allocOk (molInit h1 t' rs) h .mol
      | none => ⟨h, none, some .internal⟩
    | _ => ⟨h, none, some .internal⟩
  | .molWith _ residues =>
    match o with
    | .mol m =>
      match h.mol? m with
      | some (t, _, _) =>
        match allocResidues h residues with
        | .error e => ⟨h, none, some e⟩
        | .ok (h1, rs) => allocOk (molInit h1 t rs) h .mol
      | none => ⟨h, none, some .internal⟩
    | _ => ⟨h, none, some .internal⟩
  | .getAtom _ k =>
    match o with
    | .mol m =>
      match molView h m with
      | none => ⟨h, none, some .internal⟩
      | some v =>
        match molItem v k with
        | .error e => ⟨h, none, some e⟩
        | .ok (t, g) =>
          match matchErr h t g with
          | some e => ⟨h, none, some e⟩
          | none => ⟨h, some (.atom t g), none⟩
    | .res r =>
      match h.res? r with
      | none => ⟨h, none, some .internal⟩
      | some gs =>
        match gs[k]? with
        | some g => ⟨h, some (.agro g), none⟩
        | none => ⟨h, none, some .indexError⟩
    | _ => ⟨h, none, some .internal⟩
  | .iterAtom _ k =>
    match o with
    | .mol m =>
      match molView h m with
      | none => ⟨h, none, some .internal⟩
      | some v =>
        if v.tops.length ≠ v.gros.length then ⟨h, none, some .internal⟩ else
        match iterCheck h (v.tops.zip v.gros) k with
        | some e => ⟨h, none, some e⟩
        | none =>
          match (v.tops.zip v.gros)[k]? with
          | some (t, g) => ⟨h, some (.atom t g), none⟩
          | none => ⟨h, none, some .indexError⟩
    | _ => ⟨h, none, some .internal⟩
  | .getResidue _ k =>
    match o with
    | .mol m =>
      match h.mol? m with
      | some (_, rs, _) =>
        match rs[k]? with
        | some r => ⟨h, some (.res r), none⟩
        | none => ⟨h, none, some .indexError⟩
      | none => ⟨h, none, some .internal⟩
    | _ => ⟨h, none, some .internal⟩
  | .move _ d => writeOk (moveObj h o d)
  | .moveTo _ p => writeOk (moveToObj h o p)
  | .rotate _ r => writeOk (rotateObj h o r)
  | .setPos _ ps => writeOk (setPositions h o ps)
  | .setVel _ vs => writeOk (setVelocities h o vs)
  | .setIds _ ids => writeOk (setIds h o ids)
  | .setResidsL _ l =>
    match o with
    | .mol m => writeOk (setResidsList h m l)
    | _ => ⟨h, none, some .internal⟩
  | .setResidsI _ n => writeOk (setResidsInt h o n)
  | .setResnamesL _ l =>
    match o with
    | .mol m => writeOk (setResnamesList h m l)
    | _ => ⟨h, none, some .internal⟩
  | .setResnamesS _ s => writeOk (setResnamesStr h o s)
  | .setAttr _ v => writeOk (setAttr h o v)
  | .newMol .. => ⟨h, none, some .internal⟩

def Op.target : Op α → Option Nat
  | .newMol .. => none
  | .molWith i _ | .copy i | .deepCopy i | .getAtom i _ | .iterAtom i _ | .getResidue i _
  | .move i _ | .moveTo i _ | .rotate i _ | .setPos i _ | .setVel i _ | .setIds i _
  | .setResidsL i _ | .setResidsI i _ | .setResnamesL i _ | .setResnamesS i _ | .setAttr i _ => some i

/-- load a molecule from "files" -/
def newMol (h : Heap α) (name : String) (tops : List AtomTopC)
    (residues : List (List (AtomGroC α))) : StepR α :=
  let (h1, ts) := h.allocList (tops.map Cell.top)
  let (h2, t) := h1.alloc (.mtop name ts)
  match allocResidues h2 residues with
  | .error e => ⟨h, none, some e⟩
  | .ok (h3, rs) => allocOk (molInit h3 t rs) h .mol

def step (h : Heap α) (env : List Obj) (op : Op α) : StepR α :=
  match op with
  | .newMol name tops residues => newMol h name tops residues
  | _ =>
    match op.target with
    | none => ⟨h, none, some .internal⟩
    | some i =>
      match env[i]? with
      | none => ⟨h, none, some .internal⟩
      | some o => stepOn h o op

def pushRet (env : List Obj) (r : StepR α) : List Obj :=
  match r.ret with
  | some o => env ++ [o]
  | none => env

/-- run an operation list (errors are raised to the caller, who carries on with the next op) -/
def run (h : Heap α) (env : List Obj) : List (Op α) → Heap α × List Obj
  | [] => (h, env)
  | op :: ops =>
    let r := step h env op
    run r.heap (pushRet env r) ops

end GMHeap
