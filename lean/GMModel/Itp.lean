/-
  GMModel.Itp — `gaddlemaps/parsers/_itp_parse.py` (ItpFile / ItpSection / ItpLine and subclasses)
  and the topology extraction of `gaddlemaps/parsers/_top_parsers.py`
  (`ItpParser`, `_itp_top_name`, `_itp_top_atoms`, `_parse_itp_bonds`).

  Strings are `List Char` (`Str`); the text handed to `parse` is the file AFTER CPython's text
  layer (`open(..., encoding='utf-8')`, universal newlines) — see `decode`.

  The model is of the code AS REPAIRED for
    D4  (`ItpFile.__init__`: a repeated section name continues the existing section instead of
         replacing it),
    D5  (`ItpLine.line`: a line whose comment is blank is re-emitted as `_content + _comment`,
         i.e. with what followed the content — the line terminator — instead of `_content` alone),
    D12 (`ItpLineMoleculetype.__init__`: fields from `self.content.split()`, not from the raw
         line with its comment: `MOL 3;c` was rejected, `MOL;c 3` got the name `MOL;c`),
    D11 (`ItpLine.line`: only a real preprocessor line — one that started with `#` — is emitted
         verbatim; before, every line whose *comment* started with `#` was emitted as the bare
         comment, which dropped the content of `1 2 ; #x` and turned `;#include "f"` into an
         active `#include "f"`).
  The unrepaired behaviour is kept at the end (`Orig`) only to replay the witnesses.
-/

namespace Itp

abbrev Str := List Char

/-- the exception classes the modelled code can raise (`IOError` is `OSError` in Python 3) -/
inductive PyErr
  | OSError | ValueError | IndexError | KeyError | TypeError | RecursionError | AttributeError
  | OutOfFuel      -- model artefact: never returned (theorem `walk_fuel_suffices`)
  | OutOfModel     -- input outside the modelled domain (non-ASCII byte)
deriving DecidableEq, Repr, Inhabited

def PyErr.name : PyErr → String
  | .OSError => "OSError" | .ValueError => "ValueError" | .IndexError => "IndexError"
  | .KeyError => "KeyError" | .TypeError => "TypeError" | .RecursionError => "RecursionError"
  | .AttributeError => "AttributeError"
  | .OutOfFuel => "OutOfFuel" | .OutOfModel => "OutOfModel"

/-! ### CPython string primitives (ASCII) -/

/-- `str.isspace` on ASCII: `\t \n \v \f \r`, `\x1c`–`\x1f`, space -/
def isWs (c : Char) : Bool :=
  let n := c.toNat
  (9 ≤ n && n ≤ 13) || (28 ≤ n && n ≤ 32)

def lstrip (s : Str) : Str := s.dropWhile isWs
def rstrip (s : Str) : Str := (s.reverse.dropWhile isWs).reverse
/-- `str.strip()` -/
def strip (s : Str) : Str := rstrip (lstrip s)
/-- `not s.strip()` -/
def isBlank (s : Str) : Bool := s.all isWs

/-- `str.split()` (no argument): maximal runs of non-whitespace. `cur` is the token being read,
    reversed. -/
def splitGo (cur : Str) : Str → List Str
  | [] => if cur.isEmpty then [] else [cur.reverse]
  | c :: cs =>
    if isWs c then (if cur.isEmpty then splitGo [] cs else cur.reverse :: splitGo [] cs)
    else splitGo (c :: cur) cs

def split (s : Str) : List Str := splitGo [] s

/-- `a in b` for strings -/
def isInfix (a : Str) : Str → Bool
  | [] => a.isEmpty
  | b@(_ :: bs) => a.isPrefixOf b || isInfix a bs

/-- `for line in file`: split after every `'\n'`, terminators kept. -/
def splitLinesGo (cur : Str) : Str → List Str
  | [] => if cur.isEmpty then [] else [cur.reverse]
  | c :: cs =>
    if c = '\n' then (c :: cur).reverse :: splitLinesGo [] cs else splitLinesGo (c :: cur) cs

def splitLines (s : Str) : List Str := splitLinesGo [] s

/-- universal newlines of the text layer: `\r\n → \n`, lone `\r → \n` -/
def universalNl : Str → Str
  | [] => []
  | '\r' :: '\n' :: cs => '\n' :: universalNl cs
  | '\r' :: cs => '\n' :: universalNl cs
  | c :: cs => c :: universalNl cs

/-- bytes → text as `open(path, encoding='utf-8')` delivers it. Modelled for ASCII only. -/
def decode (b : List UInt8) : Except PyErr Str :=
  if b.all (· < 128) then .ok (universalNl (b.map (fun u => Char.ofNat u.toNat)))
  else .error .OutOfModel

/-- text → bytes as `open(path, 'w')` stores ASCII text on this platform (`'\n'` stays `'\n'`) -/
def encode (s : Str) : List UInt8 := s.map (fun c => UInt8.ofNat c.toNat)

def isDigit (c : Char) : Bool := '0' ≤ c && c ≤ '9'

/-- `digit (_? digit)*` — returns the digits with the underscores removed -/
def digitPart (prevDigit : Bool) : Str → Option Str
  | [] => if prevDigit then some [] else none
  | c :: cs =>
    if isDigit c then (digitPart true cs).map (c :: ·)
    else if c = '_' && prevDigit then digitPart false cs
    else none

def digitsVal (ds : Str) : Nat := ds.foldl (fun a c => 10 * a + (c.toNat - '0'.toNat)) 0

/-- `int(tok)` for a whitespace-free ASCII token; `none` = `ValueError` -/
def pyInt (t : Str) : Option Int :=
  let (neg, body) := match t with
    | '+' :: r => (false, r)
    | '-' :: r => (true, r)
    | r => (false, r)
  match digitPart false body with
  | some ds => some (if neg then - (digitsVal ds : Int) else (digitsVal ds : Int))
  | none => none

def lower (c : Char) : Char := if 'A' ≤ c ∧ c ≤ 'Z' then Char.ofNat (c.toNat + 32) else c

def splitAt1 (p : Char → Bool) (s : Str) : Str × Option Str :=
  let a := s.takeWhile (fun c => !p c)
  match s.dropWhile (fun c => !p c) with
  | [] => (a, none)
  | _ :: r => (a, some r)

/-! ### `float(tok)` with its value

The value is kept EXACT: `(-1)^neg · man · 10^exp10` (CPython rounds this correctly to the nearest
double; the harness does that step with exact rational arithmetic). -/

inductive PyFloat
  | nan
  | inf (neg : Bool)
  | dec (neg : Bool) (man : Nat) (exp10 : Int)
deriving DecidableEq, Repr, Inhabited

def splitSign (t : Str) : Bool × Str :=
  match t with
  | '+' :: r => (false, r)
  | '-' :: r => (true, r)
  | r => (false, r)

/-- mantissa `digitpart? ('.' digitpart?)?` with at least one digit: the integer and the fraction
    digits (underscores removed) -/
def mantDigits (mant : Str) : Option (Str × Str) :=
  match splitAt1 (· = '.') mant with
  | (ip, none) => (digitPart false ip).map (fun a => (a, []))
  | (ip, some fp) =>
    if ip.isEmpty && fp.isEmpty then none
    else
      match (if ip.isEmpty then some [] else digitPart false ip),
            (if fp.isEmpty then some [] else digitPart false fp) with
      | some a, some b => some (a, b)
      | _, _ => none

def expVal (ex : Option Str) : Option Int :=
  match ex with
  | none => some 0
  | some e =>
    let (neg, e') := splitSign e
    (digitPart false e').map (fun ds => if neg then - (digitsVal ds : Int) else (digitsVal ds : Int))

/-- `float(tok)` for a whitespace-free ASCII token; `none` = `ValueError`. -/
def pyFloat (t : Str) : Option PyFloat :=
  let (neg, body) := splitSign t
  let lw := body.map lower
  if lw = ['i', 'n', 'f'] || lw = ['i', 'n', 'f', 'i', 'n', 'i', 't', 'y'] then some (.inf neg)
  else if lw = ['n', 'a', 'n'] then some .nan
  else
    let (mant, ex) := splitAt1 (fun c => c = 'e' || c = 'E') body
    match mantDigits mant, expVal ex with
    | some (a, b), some e => some (.dec neg (digitsVal (a ++ b)) (e - b.length))
    | _, _ => none

/-- does `float(tok)` succeed? -/
def pyFloatOk (t : Str) : Bool := (pyFloat t).isSome

/-! ### `ItpLine.parse_itp_line` -/

/-- `re.match(r'\[.*\]', s)`: `s` starts with `[` and a `]` follows before any newline -/
def reHeader : Str → Bool
  | '[' :: rest => (rest.takeWhile (· ≠ '\n')).contains ']'
  | _ => false

/-- `(s.split(c)[0], c.join(s.split(c)[1:]))`: cut at the first `c` -/
def cutFirst (c : Char) (s : Str) : Str × Str :=
  (s.takeWhile (· ≠ c), (s.dropWhile (· ≠ c)).drop 1)

/-- `ItpLine.parse_itp_line(line)` → `(_content, _comment)`; the seven exits in order. -/
def parseItpLine (line : Str) : Except PyErr (Str × Str) :=
  if isBlank line then .ok ([], [])                                   -- not line.strip()
  else if reHeader line then .error .OSError                          -- section header: IOError
  else if line.head? = some '#' then .ok ([], line)                   -- preprocessor line
  else if line.head? = some ';' then .ok ([], line.drop 1)            -- comment line
  else if line.dropLast.contains ';' then .ok (cutFirst ';' line)     -- content ; comment
  else if line.getLast? = some ';' then .ok (line.dropLast, [])       -- "content;" at end of file
  else .ok (line, [])                                                 -- no comment

/-! ### typed lines -/

inductive SecKind | atoms | bonds | mt | plain
deriving DecidableEq, Repr

/-- `ItpSection.parse_line` dispatch. Note `sec_name in 'moleculetype'` is a SUBSTRING test. -/
def secKind (name : Str) : SecKind :=
  if name = ['a', 't', 'o', 'm', 's'] then .atoms
  else if name = ['b', 'o', 'n', 'd', 's'] || name = ['c', 'o', 'n', 's', 't', 'r', 'a', 'i', 'n', 't', 's'] || name = ['p', 'a', 'i', 'r', 's'] then .bonds
  else if isInfix name ['m', 'o', 'l', 'e', 'c', 'u', 'l', 'e', 't', 'y', 'p', 'e'] then .mt
  else .plain

/-- `ItpLineAtom._init_fields` on `content.split()`: which exception, if any -/
def checkAtom (p : List Str) : Except PyErr Unit := do
  match p[0]? with
  | none => throw .IndexError
  | some t => if (pyInt t).isNone then throw .ValueError
  if p[1]?.isNone then throw .IndexError
  match p[2]? with
  | none => throw .IndexError
  | some t => if (pyInt t).isNone then throw .ValueError
  if p[3]?.isNone then throw .IndexError
  if p[4]?.isNone then throw .IndexError
  match p[5]? with
  | none => throw .IndexError
  | some t => if (pyInt t).isNone then throw .ValueError
  match p[6]? with
  | none => pure ()
  | some t => if !pyFloatOk t then throw .ValueError
  match p[7]? with
  | none => pure ()
  | some t => if !pyFloatOk t then throw .ValueError

/-- `ItpLineBonds._init_fields` -/
def checkBonds (f : List Str) : Except PyErr Unit := do
  if f.length < 2 then throw .OSError
  match f[0]? with
  | none => throw .IndexError
  | some t => if (pyInt t).isNone then throw .ValueError
  match f[1]? with
  | none => throw .IndexError
  | some t => if (pyInt t).isNone then throw .ValueError
  match f[2]? with
  | none => pure ()
  | some t => if (pyInt t).isNone then throw .ValueError

/-- `ItpLineMoleculetype.__init__` for a line with content (repaired D12:
    `parse = self.content.split()`; it was `line.split()`, the raw line with its comment):
    `name = parse[0]`, `nrexcl = int(parse[1])` with `nrexcl >= 1` -/
def checkMt (parse : List Str) : Except PyErr Unit := do
  if parse[0]?.isNone then throw .IndexError
  match parse[1]? with
  | none => throw .IndexError
  | some t =>
    match pyInt t with
    | none => throw .ValueError
    | some v => if v < 1 then throw .ValueError

/-- an `ItpLine` object: `_content`, `_comment`, and whether the source line was a preprocessor
    line (repair D11). The typed fields of atom, bond and moleculetype lines are pure functions
    of `_content` (validated at construction) and are recomputed where used. -/
structure ItpLine where
  content : Str
  comment : Str
  directive : Bool
deriving DecidableEq, Repr, Inhabited

/-- `ItpLine.content` property -/
def ItpLine.contentS (l : ItpLine) : Str := strip l.content
/-- `ItpLine.comment` property -/
def ItpLine.commentS (l : ItpLine) : Str := strip l.comment
def ItpLine.tokens (l : ItpLine) : List Str := split l.content

/-- the typed `_init_fields` of the section's line class, run only `if self.content:` -/
def lineCheck (k : SecKind) (c : Str) : Except PyErr Unit :=
  if isBlank c then pure ()
  else
    match k with
    | .atoms => checkAtom (split c)
    | .bonds => checkBonds (split c)
    | .mt => checkMt (split c)
    | .plain => pure ()

/-- `ItpSection.parse_line(line, sec_name)`: construct the line object of the section's kind:
    `ItpLine.__init__` (`parse_itp_line`, then the repaired `_directive` flag), then the subclass
    fields -/
def mkLine (k : SecKind) (raw : Str) : Except PyErr ItpLine := do
  let (c, m) ← parseItpLine raw
  lineCheck k c
  pure ⟨c, m, raw.head? = some '#'⟩

/-- `ItpLine.line` (repaired, see the file header) -/
def ItpLine.lineStr (l : ItpLine) : Str :=
  if l.directive then l.comment
  else if !isBlank l.comment then l.content ++ (';' :: ' ' :: l.comment)
  else l.content ++ l.comment

/-! ### `ItpSection`, `ItpFile` -/

/-- `ItpSection`: `_section_name` and `_lines` (every line); the list part of the Python object is
    `contentLines` -/
structure ItpSection where
  name : Str
  lines : List ItpLine
deriving DecidableEq, Repr, Inhabited

def ItpSection.contentLines (s : ItpSection) : List ItpLine :=
  s.lines.filter (fun l => !isBlank l.content)

/-- `ItpSection.__str__` -/
def ItpSection.str (s : ItpSection) : Str :=
  '[' :: ' ' :: (s.name ++ [' ', ']', '\n']) ++ (s.lines.map ItpLine.lineStr).flatten

/-- the `OrderedDict`: key `'header'` (raw lines) first, then the sections in insertion order -/
structure ItpFile where
  header : List Str
  secs : List ItpSection
deriving DecidableEq, Repr, Inhabited

def headerKey : Str := ['h', 'e', 'a', 'd', 'e', 'r']

/-- is the (unstripped) line a section header: `re.match(r'\[.*\]', line.strip())` -/
def isHeaderLine (line : Str) : Bool := reHeader (strip line)

/-- `re.findall(r'\[(.*)\]', line)[0].strip()`: between the first `[` that has a `]` after it (on
    the same line) and the LAST `]` of the line. `none` = no match (`IndexError`). -/
def sectionName (line : Str) : Option Str :=
  let body := line.takeWhile (· ≠ '\n')
  match body.dropWhile (· ≠ '[') with
  | [] => none
  | _ :: rest =>
    if rest.contains ']' then
      some (strip ((rest.reverse.dropWhile (· ≠ ']')).drop 1).reverse)
    else none

def hasSec (secs : List ItpSection) (n : Str) : Bool := secs.any (·.name = n)

def appendTo (secs : List ItpSection) (n : Str) (l : ItpLine) : List ItpSection :=
  secs.map (fun s => if s.name = n then { s with lines := s.lines ++ [l] } else s)

/-- loop state of `ItpFile.__init__`; `cur = none` ⇔ `sec is None` or `sec == 'header'`
    (then `self[sec]` is the header list) -/
structure PState where
  file : ItpFile
  cur : Option Str
deriving Repr, Inhabited

/-- one iteration of `for line in _file` (repaired D4: `if sec not in self: self[sec] = …`) -/
def step (st : PState) (line : Str) : Except PyErr PState :=
  if !isHeaderLine line then
    match st.cur with
    | none => .ok { st with file := { st.file with header := st.file.header ++ [line] } }
    | some n => do
      let l ← mkLine (secKind n) line
      pure { st with file := { st.file with secs := appendTo st.file.secs n l } }
  else
    match sectionName line with
    | none => .error .IndexError
    | some n =>
      if n = headerKey then .ok { st with cur := none }
      else if hasSec st.file.secs n then .ok { st with cur := some n }
      else .ok { file := { st.file with secs := st.file.secs ++ [⟨n, []⟩] }, cur := some n }

def foldSteps (st : PState) : List Str → Except PyErr PState
  | [] => .ok st
  | l :: ls => do let st' ← step st l; foldSteps st' ls

/-- `ItpFile(path)` on the decoded text -/
def parse (text : Str) : Except PyErr ItpFile := do
  let st ← foldSteps ⟨⟨[], []⟩, none⟩ (splitLines text)
  pure st.file

/-- `ItpFile.write`: header lines verbatim, then `'{}\n'.format(section)` per section -/
def write (f : ItpFile) : Str :=
  f.header.flatten ++ (f.secs.map (fun s => s.str ++ ['\n'])).flatten

def parseBytes (b : List UInt8) : Except PyErr ItpFile := do
  let t ← decode b
  parse t

/-! ### topology extraction (`_top_parsers.py`)

The extraction functions read, of every line object, only fields that are pure functions of
`content.split()` (`name`, `number`, `resname`, `resid`, `atom_from`, `atom_to`), and only of the
lines in the list part of a section (those with content). They are therefore written over a
`Lookup`: section name ↦ the token lists of its content lines, `none` when the key is absent. -/

def ItpFile.get? (f : ItpFile) (n : Str) : Option ItpSection := f.secs.find? (·.name = n)

abbrev Lookup := Str → Option (List (List Str))

/-- `itp_file[n]` as the token lists of the lines in the list part of the section -/
def ItpFile.secTokens (f : ItpFile) : Lookup :=
  fun n => (f.get? n).map (fun s => s.contentLines.map ItpLine.tokens)

def kMoleculetype : Str := ['m', 'o', 'l', 'e', 'c', 'u', 'l', 'e', 't', 'y', 'p', 'e']
def kAtoms : Str := ['a', 't', 'o', 'm', 's']

/-- `_itp_top_name`: `.name` (= first token) of the first line with content of `moleculetype` -/
def itpTopName (lk : Lookup) : Except PyErr Str :=
  match lk kMoleculetype with
  | none => .error .KeyError
  | some [] => .error .OSError
  | some (p :: _) =>
    match p[0]? with
    | some n => .ok n
    | none => .error .IndexError

structure AtomInfo where
  name : Str
  resname : Str
  resid : Int
deriving DecidableEq, Repr, Inhabited

/-- the fields `_itp_top_atoms` reads from an `ItpLineAtom`: `(number, (name, resname, resid))` -/
def atomFields (p : List Str) : Option (Int × AtomInfo) :=
  match p[0]?, p[2]?, p[3]?, p[4]? with
  | some t0, some t2, some t3, some t4 =>
    match pyInt t0, pyInt t2 with
    | some nr, some resid => some (nr, ⟨t4, t3, resid⟩)
    | _, _ => none
  | _, _, _, _ => none

/-- `(atom_from, atom_to)` of an `ItpLineBonds` -/
def bondFields (p : List Str) : Option (Int × Int) :=
  match p[0]?, p[1]? with
  | some a, some b =>
    match pyInt a, pyInt b with
    | some x, some y => some (x, y)
    | _, _ => none
  | _, _ => none

def bondKeys : List Str :=
  [['c', 'o', 'n', 's', 't', 'r', 'a', 'i', 'n', 't', 's'], ['b', 'o', 'n', 'd', 's'],
   ['p', 'a', 'i', 'r', 's']]

def bondFieldsE (p : List Str) : Except PyErr (Int × Int) :=
  match bondFields p with
  | some x => .ok x
  | none => .error .ValueError

/-- the `(atom_from, atom_to)` of the content lines of `itp_file.get(key, [])` -/
def sectionBonds (lk : Lookup) (k : Str) : Except PyErr (List (Int × Int)) :=
  match lk k with
  | none => .ok []
  | some ps => ps.mapM bondFieldsE

/-- `_parse_itp_bonds`: `constraints`, `bonds`, `pairs`, in this order -/
def parseItpBonds (lk : Lookup) : Except PyErr (List (Int × Int)) :=
  match bondKeys.mapM (sectionBonds lk) with
  | .error e => .error e
  | .ok ls => .ok ls.flatten

/-- the `atoms_number` dict as an association list: later entries for a key win -/
def numberLookup (m : List (Int × Nat)) (k : Int) : Option Nat :=
  (m.reverse.find? (·.1 = k)).map (·.2)

def enumFrom {α : Type} (i : Nat) : List α → List (Nat × α)
  | [] => []
  | a :: as => (i, a) :: enumFrom (i + 1) as

def atomFieldsE (p : List Str) : Except PyErr (Int × AtomInfo) :=
  match atomFields p with
  | some x => .ok x
  | none => .error .ValueError

/-- `atoms_number[atom_line.number] = index` for every atom line, in order -/
def numberMap (fields : List (Int × AtomInfo)) : List (Int × Nat) :=
  (enumFrom 0 fields).map (fun (i, (nr, _)) => (nr, i))

/-- `(atoms_number[bond[0]], atoms_number[bond[1]])`, `KeyError` for an unknown number -/
def translate (number : List (Int × Nat)) (ab : Int × Int) : Except PyErr (Nat × Nat) :=
  match numberLookup number ab.1, numberLookup number ab.2 with
  | some i, some j => .ok (i, j)
  | _, _ => .error .KeyError

/-- `_itp_top_atoms` -/
def itpTopAtoms (lk : Lookup) : Except PyErr (List AtomInfo × List (Nat × Nat)) :=
  match lk kAtoms with
  | none => .error .KeyError
  | some ps =>
    match ps.mapM atomFieldsE with
    | .error e => .error e
    | .ok fields =>
      if fields.isEmpty then .error .OSError           -- `if not atoms: raise IOError`
      else
        match parseItpBonds lk with
        | .error e => .error e
        | .ok listed =>
          match listed.mapM (translate (numberMap fields)) with
          | .error e => .error e
          | .ok bonds => .ok (fields.map (·.2), bonds)

structure TopInfo where
  name : Str
  atoms : List AtomInfo
  bonds : List (Nat × Nat)
deriving DecidableEq, Repr, Inhabited

/-- `ItpParser.__init__` + `all_info` -/
def topFrom (lk : Lookup) : Except PyErr TopInfo :=
  if (lk kMoleculetype).isNone then .error .OSError
  else if (lk kAtoms).isNone then .error .OSError
  else
    match itpTopName lk with
    | .error e => .error e
    | .ok name =>
      match itpTopAtoms lk with
      | .error e => .error e
      | .ok (atoms, bonds) => .ok ⟨name, atoms, bonds⟩

def topInfo (f : ItpFile) : Except PyErr TopInfo := topFrom f.secTokens

/-- `read_topology(path)` for an `.itp` path, on the decoded text -/
def readTopology (text : Str) : Except PyErr TopInfo := do
  let f ← parse text
  topInfo f

/-! ### the unrepaired code (witness replay only)

  `Orig.step`: `self[sec] = ItpSection(sec, [])` replaces an existing section (its position in the
  `OrderedDict` is kept, its lines are lost) — D4.  `Orig.lineStr`: blank comment → `_content`
  alone (D5); comment starting with `#` → the bare `_comment` (D11). -/
namespace Orig

def lineStr (l : ItpLine) : Str :=
  if !isBlank l.comment then
    (if (strip l.comment).head? = some '#' then l.comment
     else l.content ++ (';' :: ' ' :: l.comment))
  else l.content

def secStr (s : ItpSection) : Str :=
  '[' :: ' ' :: (s.name ++ [' ', ']', '\n']) ++ (s.lines.map lineStr).flatten

def write (f : ItpFile) : Str :=
  f.header.flatten ++ (f.secs.map (fun s => secStr s ++ ['\n'])).flatten

def resetSec (secs : List ItpSection) (n : Str) : List ItpSection :=
  secs.map (fun s => if s.name = n then { s with lines := [] } else s)

def step (st : PState) (line : Str) : Except PyErr PState :=
  if !isHeaderLine line then Itp.step st line
  else
    match sectionName line with
    | none => .error .IndexError
    | some n =>
      if n = headerKey then .error .OutOfModel
      else if hasSec st.file.secs n then
        .ok { file := { st.file with secs := resetSec st.file.secs n }, cur := some n }
      else .ok { file := { st.file with secs := st.file.secs ++ [⟨n, []⟩] }, cur := some n }

def foldSteps (st : PState) : List Str → Except PyErr PState
  | [] => .ok st
  | l :: ls => do let st' ← step st l; foldSteps st' ls

def parse (text : Str) : Except PyErr ItpFile := do
  let st ← foldSteps ⟨⟨[], []⟩, none⟩ (splitLines text)
  pure st.file

end Orig

end Itp
