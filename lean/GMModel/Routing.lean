import GMModel.Restr
/-
  GMModel.Routing — model of the per-species option routing of `gaddlemaps/_manager.py` (C10):

    Manager.complete_correspondence        → `complete`
    Manager._validate_index                → `validateIndex`      (REPAIRED: negative indices rejected, O2)
    Manager.parse_restrictions             → `parseRestrictions`  (guess_proteins = False, the value
                                                                    `Manager.align_molecules` uses)
    Manager.parse_restrictions(…, guess_proteins)
                                           → `parseRestrictionsG` (both values of the flag, `restrictions` None or a
                                                                    dictionary; composed with
                                                                    `align_molecules(parse_restrictions=False)`:
                                                                    `managerAlignGuess`)
    Manager.add_end_molecule               → `addEndMolecule`
    Manager._parse_deformations            → `parseDeformations`  (REPAIRED: values validated, D10)
    Manager._parse_ignore_hydrogens        → `parseIgnore`
    Manager.align_molecules                → `managerAlign`       (parse_restrictions = True, the default,
                                                                    or restrictions = None)
                                              `managerAlignPreparsed` (parse_restrictions = False with a
                                                                    dictionary in the format parse_restrictions
                                                                    returns: it is used as given)

  Python dicts are association lists in insertion order; `name in d` / `d[name]` is `List.lookup`.
  The dynamically typed option values are modelled by the small sums below: each constructor is
  one class of Python values that the code treats uniformly.
-/

namespace Restr

variable {P : Type}

/-- one species of `Manager.molecule_correspondence` (an `Alignment` with `start` set) -/
structure Species (P : Type) where
  name : PStr
  start : Mol P
  end_ : Option (Mol P)

abbrev Dict (V : Type) := List (PStr × V)

/-- `name in d` -/
def Dict.has {V : Type} (d : Dict V) (name : PStr) : Bool := (d.lookup name).isSome

/-- `complete_correspondence`: the species with both molecules, in dict order -/
def complete (sys : List (Species P)) : List (Species P × Mol P) :=
  sys.filterMap fun sp => sp.end_.map fun e => (sp, e)

def completeNames (sys : List (Species P)) : List PStr := (complete sys).map (·.1.name)

/-- an index value inside a restraint entry -/
inductive IdxVal where
  /-- a Python int (bool counts: `True == 1`) -/
  | int (i : Int)
  /-- anything a list cannot be indexed with (`str`, `None`) : `TypeError` -/
  | nonInt

/-- one element of a restraint list -/
inductive Entry where
  /-- no `__len__`, or `len != 2` -/
  | nonPair
  | pair (a b : IdxVal)

/-- the value stored under a species name in `restrictions` -/
inductive RestrArg where
  /-- `None`, `[]`, `()`, `0`, … (`not restriction`) -/
  | falsy
  /-- truthy but not iterable (`5`, `True`): `for tup in restriction` raises `TypeError` -/
  | nonIterable
  | list (entries : List Entry)

/-- one element of a deformation tuple -/
inductive DefElem where
  /-- a Python int (`bool` is an int) -/
  | int (i : Int)
  /-- not an int (`float`, `str`, `None`, …) -/
  | other

/-- the value stored under a species name in `deformation_types` -/
inductive DefArg where
  /-- `None`, `()`, `[]`, `0`, `False`, `''` (`not deformation`) -/
  | falsy
  /-- truthy and not a tuple / list (`5`, `True`, `'012'`, `{0: 1}`, `{0, 1}`) -/
  | other
  /-- a non-empty tuple or list -/
  | seq (vals : List DefElem)

/-- the value stored under a species name in `ignore_hydrogens` -/
inductive IgnArg where
  | bool (b : Bool)
  /-- not an instance of `bool` (`None`, `1`, `'yes'`) -/
  | other

/-! ### `_validate_index` -/

/-- `mol[idx]` inside `try … except IndexError: raise ValueError`.
    `Molecule.__getitem__` indexes a Python list: non-int → `TypeError`, out of range →
    `IndexError` → `ValueError`.  REPAIRED (O2): a negative index raises too (before the repair
    `-len ≤ i < 0` was accepted by wrap-around). -/
def checkIndex (len : Nat) : IdxVal → Except PyErr Int
  | .nonInt => .error .typeError
  | .int i => if i < 0 then .error .valueError
              else if i < (len : Int) then .ok i else .error .valueError

def validateIndex (start end_ : Mol P) : List Entry → Except PyErr (List Pair)
  | [] => .ok []
  | .nonPair :: _ => .error .valueError
  | .pair a b :: rest =>
    match checkIndex start.len a with
    | .error e => .error e
    | .ok i =>
      match checkIndex end_.len b with
      | .error e => .error e
      | .ok j =>
        match validateIndex start end_ rest with
        | .error e => .error e
        | .ok l => .ok ((i, j) :: l)

/-! ### `parse_restrictions` -/

/-- `for name in d: if name not in complete_correspondence: raise KeyError` -/
def checkNamesKnown {V : Type} (names : List PStr) : Dict V → Except PyErr Unit
  | [] => .ok ()
  | (n, _) :: rest => if names.contains n then checkNamesKnown names rest else .error .keyError

/-- the loop `for name in complete_correspondence:` of `parse_restrictions` -/
def parseRestrLoop (restrictions : Dict RestrArg) :
    List (Species P × Mol P) → Except PyErr (Dict (Option (List Pair)))
  | [] => .ok []
  | (sp, e) :: rest =>
    let here : Except PyErr (Option (List Pair)) :=
      match restrictions.lookup sp.name with
      | none => .ok none
      | some .falsy => .ok none
      | some .nonIterable => .error .typeError
      | some (.list entries) =>
        match validateIndex sp.start e entries with
        | .error err => .error err
        | .ok l => .ok (some l)
    match here with
    | .error err => .error err
    | .ok v =>
      match parseRestrLoop restrictions rest with
      | .error err => .error err
      | .ok d => .ok ((sp.name, v) :: d)

def parseRestrictions (sys : List (Species P)) :
    Option (Dict RestrArg) → Except PyErr (Dict (Option (List Pair)))
  | none => .ok ((complete sys).map fun s => (s.1.name, none))
  | some restrictions =>
    match checkNamesKnown (completeNames sys) restrictions with
    | .error e => .error e
    | .ok () => parseRestrLoop restrictions (complete sys)

/-! ### `_parse_deformations` (REPAIRED, D10) -/

/-- every element an int in {0, 1, 2} -/
def defElems : List DefElem → Except PyErr (List Int)
  | [] => .ok []
  | .other :: _ => .error .valueError
  | .int i :: rest =>
    if i = 0 ∨ i = 1 ∨ i = 2 then
      match defElems rest with
      | .error e => .error e
      | .ok l => .ok (i :: l)
    else .error .valueError

def parseDefValue : DefArg → Except PyErr (Option (List Int))
  | .falsy => .ok none
  | .other => .error .valueError
  | .seq vals =>
    if 1 ≤ vals.length ∧ vals.length ≤ 3 then
      match defElems vals with
      | .error e => .error e
      | .ok l => .ok (some l)
    else .error .valueError

def parseDefLoop (deformations : Dict DefArg) :
    List (Species P × Mol P) → Except PyErr (Dict (Option (List Int)))
  | [] => .ok []
  | (sp, _) :: rest =>
    let here : Except PyErr (Option (List Int)) :=
      match deformations.lookup sp.name with
      | none => .ok none
      | some v => parseDefValue v
    match here with
    | .error err => .error err
    | .ok v =>
      match parseDefLoop deformations rest with
      | .error err => .error err
      | .ok d => .ok ((sp.name, v) :: d)

def parseDeformations (sys : List (Species P)) :
    Option (Dict DefArg) → Except PyErr (Dict (Option (List Int)))
  | none => .ok ((complete sys).map fun s => (s.1.name, none))
  | some deformations =>
    match checkNamesKnown (completeNames sys) deformations with
    | .error e => .error e
    | .ok () => parseDefLoop deformations (complete sys)

/-! ### `_parse_ignore_hydrogens` -/

def parseIgnLoop (ignore : Dict IgnArg) : List (Species P × Mol P) → Except PyErr (Dict Bool)
  | [] => .ok []
  | (sp, _) :: rest =>
    let here : Except PyErr Bool :=
      match ignore.lookup sp.name with
      | none => .ok true
      | some (.bool b) => .ok b
      | some .other => .error .valueError
    match here with
    | .error err => .error err
    | .ok v =>
      match parseIgnLoop ignore rest with
      | .error err => .error err
      | .ok d => .ok ((sp.name, v) :: d)

def parseIgnore (sys : List (Species P)) : Option (Dict IgnArg) → Except PyErr (Dict Bool)
  | none => .ok ((complete sys).map fun s => (s.1.name, true))
  | some ignore =>
    match checkNamesKnown (completeNames sys) ignore with
    | .error e => .error e
    | .ok () => parseIgnLoop ignore (complete sys)

/-! ### `Manager.align_molecules` -/

/-- what a run of `Manager.align_molecules` does that is visible to this property: the alignment
    calls made, in order (species name and what the call handed to the optimiser), and the
    exception that ended it, if any -/
structure RouteOut (P : Type) where
  calls : List (PStr × PrepOut P)
  err : Option PyErr

/-- the arguments of one `Alignment.align_molecules(restr, defor, ignor)` call -/
structure AlignArgs (P : Type) where
  name : PStr
  start : Mol P
  end_ : Mol P
  restr : Option (List Pair)
  deform : Option (List Int)
  ignoreH : Bool

/-- run the alignment calls in order until one raises -/
def runAligns : List (AlignArgs P) → RouteOut P
  | [] => ⟨[], none⟩
  | a :: rest =>
    match alignPrep a.start a.end_ a.restr a.deform a.ignoreH with
    | .error e => ⟨[], some e⟩
    | .ok out =>
      let r := runAligns rest
      ⟨(a.name, out) :: r.calls, r.err⟩

/-- `for name in restrictions: restr = restrictions[name]; defor = deformation_types[name];
    ignor = ignore_hydrogens[name]; mols_corr[name].align_molecules(restr, defor, ignor)`.
    A missing key (`KeyError`) cannot happen after parsing but the lookups are modelled as such. -/
def alignLoop (mols : List (Species P × Mol P))
    (deformations : Dict (Option (List Int))) (ignore : Dict Bool) :
    List (PStr × Option (List Pair)) → RouteOut P
  | [] => ⟨[], none⟩
  | (name, restr) :: rest =>
    match deformations.lookup name, ignore.lookup name,
          mols.find? (fun s => s.1.name == name) with
    | some defor, some ignor, some (sp, e) =>
      match alignPrep sp.start e restr defor ignor with
      | .error err => ⟨[], some err⟩
      | .ok out =>
        let r := alignLoop mols deformations ignore rest
        ⟨(name, out) :: r.calls, r.err⟩
    | _, _, _ => ⟨[], some .keyError⟩

def managerAlign (sys : List (Species P)) (restrictions : Option (Dict RestrArg))
    (deformations : Option (Dict DefArg)) (ignore : Option (Dict IgnArg)) : RouteOut P :=
  match parseRestrictions sys restrictions with
  | .error e => ⟨[], some e⟩
  | .ok r =>
    match parseDeformations sys deformations with
    | .error e => ⟨[], some e⟩
    | .ok d =>
      match parseIgnore sys ignore with
      | .error e => ⟨[], some e⟩
      | .ok h => alignLoop (complete sys) d h r

/-- `Manager.align_molecules(restrictions, deformation_types, ignore_hydrogens,
    parse_restrictions=False)` with `restrictions` a dictionary in the format `parse_restrictions`
    returns (`name ↦ None | list of int pairs`).  The dictionary is NOT validated and NOT completed:
    `for name in restrictions:` walks the caller's keys in the caller's order, so only the species
    listed are aligned, in that order; `deformation_types[name]` / `ignore_hydrogens[name]` /
    `mols_corr[name]` are looked up by name in the parsed dictionaries (a key that is not a complete
    species raises `KeyError` there, i.e. after the alignments of the keys before it). -/
def managerAlignPreparsed (sys : List (Species P)) (restrictions : Dict (Option (List Pair)))
    (deformations : Option (Dict DefArg)) (ignore : Option (Dict IgnArg)) : RouteOut P :=
  match parseDeformations sys deformations with
  | .error e => ⟨[], some e⟩
  | .ok d =>
    match parseIgnore sys ignore with
    | .error e => ⟨[], some e⟩
    | .ok h => alignLoop (complete sys) d h restrictions

/-! ### `parse_restrictions(restrictions, guess_proteins)` — the flag as the code handles it -/

/-- `len(start.resnames) > 3` -/
def Species.big (sp : Species P) : Bool := decide (sp.start.resnames.length > 3)

/-- `restrictions is None`:
    `for name in self.complete_correspondence: new_restrictions[name] = None;
       if guess_proteins: … if len(resnames) > 3: restr = guess_protein_restrains(start, end);
                                                  new_restrictions[name] = restr; continue`
    (an `IOError` of the guesser is not caught) -/
def parseRestrNoneLoopG (guess : Bool) :
    List (Species P × Mol P) → Except PyErr (Dict (Option (List Pair)))
  | [] => .ok []
  | (sp, e) :: rest =>
    let here : Except PyErr (Option (List Pair)) :=
      if guess then
        if sp.big then
          match guessProtein sp.start e with
          | .error err => .error err
          | .ok restr => .ok (some restr)
        else .ok none
      else .ok none
    match here with
    | .error err => .error err
    | .ok v =>
      match parseRestrNoneLoopG guess rest with
      | .error err => .error err
      | .ok d => .ok ((sp.name, v) :: d)

/-- the loop `for name in complete_correspondence:` with a dictionary:
    `if guess_proteins: … if len(resnames) > 3: new_restrictions[name] = guess_protein_restrains(start, end); continue`
    — the value the user stored under that name is not even looked at — then the normal path -/
def parseRestrLoopG (restrictions : Dict RestrArg) (guess : Bool) :
    List (Species P × Mol P) → Except PyErr (Dict (Option (List Pair)))
  | [] => .ok []
  | (sp, e) :: rest =>
    let normal : Except PyErr (Option (List Pair)) :=
      match restrictions.lookup sp.name with
      | none => .ok none
      | some .falsy => .ok none
      | some .nonIterable => .error .typeError
      | some (.list entries) =>
        match validateIndex sp.start e entries with
        | .error err => .error err
        | .ok l => .ok (some l)
    let here : Except PyErr (Option (List Pair)) :=
      if guess then
        if sp.big then
          match guessProtein sp.start e with
          | .error err => .error err
          | .ok restr => .ok (some restr)
        else normal
      else normal
    match here with
    | .error err => .error err
    | .ok v =>
      match parseRestrLoopG restrictions guess rest with
      | .error err => .error err
      | .ok d => .ok ((sp.name, v) :: d)

/-- `Manager.parse_restrictions(restrictions, guess_proteins)` -/
def parseRestrictionsG (sys : List (Species P)) (restrictions : Option (Dict RestrArg))
    (guess : Bool) : Except PyErr (Dict (Option (List Pair))) :=
  match restrictions with
  | none => parseRestrNoneLoopG guess (complete sys)
  | some restrictions =>
    match checkNamesKnown (completeNames sys) restrictions with
    | .error e => .error e
    | .ok () => parseRestrLoopG restrictions guess (complete sys)

/-- the only way the flag reaches an alignment:
    `parsed = manager.parse_restrictions(restrictions, guess_proteins=guess)` followed by
    `manager.align_molecules(parsed, deformation_types, ignore_hydrogens, parse_restrictions=False)`
    (`Manager.align_molecules` itself always parses with `guess_proteins=False`) -/
def managerAlignGuess (sys : List (Species P)) (restrictions : Option (Dict RestrArg))
    (deformations : Option (Dict DefArg)) (ignore : Option (Dict IgnArg)) (guess : Bool) : RouteOut P :=
  match parseRestrictionsG sys restrictions guess with
  | .error e => ⟨[], some e⟩
  | .ok r => managerAlignPreparsed sys r deformations ignore

/-! ### `Manager.add_end_molecule` -/

/-- `molecule_correspondence` as the manager holds it: name ↦ `Alignment` state, in dict order -/
abbrev Corr (M : Type) := List (PStr × AliState M)

/-- `d[name] = v` for a key that is present (dict order unchanged) -/
def Corr.set {M : Type} (c : Corr M) (name : PStr) (v : AliState M) : Corr M :=
  c.map fun kv => if kv.1 == name then (kv.1, v) else kv

/-- `Manager.add_end_molecule(molecule)`: `TypeError` for a non-`Molecule` (`None` included),
    `KeyError` when no species has the molecule's name, otherwise the `end` setter of that species'
    `Alignment` (which may raise `ValueError`) -/
def addEndMolecule {M : Type} (ident : M → MolId) (c : Corr M) : SetArg M → Except PyErr (Corr M)
  | .none => .error .typeError
  | .nonMolecule => .error .typeError
  | .mol molecule =>
    let name := (ident molecule).name
    match c.lookup name with
    | none => .error .keyError
    | some st =>
      match setEnd ident st (.mol molecule) with
      | .error e => .error e
      | .ok st' => .ok (c.set name st')

/-- `Manager.add_end_molecules(*molecules)`: `for mol in molecules: self.add_end_molecule(mol)` — the first
    exception ends the loop, the molecules before it stay added -/
def addEndMolecules {M : Type} (ident : M → MolId) : Corr M → List (SetArg M) → Corr M × Option PyErr
  | c, [] => (c, none)
  | c, a :: rest =>
    match addEndMolecule ident c a with
    | .error e => (c, some e)
    | .ok c' => addEndMolecules ident c' rest

end Restr
