import GMModel.Vec3
/-
  GMModel.Frame — `gaddlemaps/_auxilliary.py`: `rotation_matrix`, `calcule_base`.
-/

variable {α : Type} [Scalar α]

/-- the matrix `ddt + c (I − ddt) + s · skew` for a (unit) vector `n` -/
def rotCore (n : V3 α) (c s : α) : M3 α :=
  let ddt := M3.outer n n
  let skew : M3 α :=
    ⟨⟨Scalar.zero, n.z, -n.y⟩, ⟨-n.z, Scalar.zero, n.x⟩, ⟨n.y, -n.x, Scalar.zero⟩⟩
  M3.add (M3.add ddt (M3.smul c (M3.sub M3.eye ddt))) (M3.smul s skew)

/-- `rotation_matrix(axis, theta)` (`_auxilliary.py`):
    `n = axis/‖axis‖ ; ddt + cos θ (I − ddt) + sin θ · skew`. -/
def rotationMatrix (axis : V3 α) (theta : α) : M3 α :=
  rotCore (V3.divs axis (V3.norm axis)) (Scalar.cos theta) (Scalar.sin theta)

/-- the divisors of `rotation_matrix` are non-zero -/
def rotationDefined (axis : V3 α) : Bool := !Scalar.isZero (V3.norm axis)

/-- A local frame: three row vectors and the application point. -/
structure Frame (α : Type) where
  e1 : V3 α
  e2 : V3 α
  e3 : V3 α
  origin : V3 α
deriving Repr

/-- `calcule_base([pos0, pos1, pos2])` (`_auxilliary.py`).

    ```
    vec1 = pos2-pos0 ; vec1 /= norm(vec1)
    vec_aux = pos1-pos0
    vec3 = cross(vec1, vec_aux)
    if norm(vec3) <= 1e-6*norm(vec_aux):       # collinear (exactly, or up to rounding noise)
        v10, v11, _ = vec1
        if v10 or v11:  vec3 = [v11, -v10, 0] / sqrt(v10**2 + v11**2)
        else:           vec3 = [1, 0, 0]
    else: vec3 /= norm(vec3)
    vec2 = cross(vec3, vec1)
    ``` -/
def frameThird (vec1 u : V3 α) : V3 α :=
  let w := V3.cross vec1 u
  if Scalar.le (V3.norm w) (Scalar.ofDec 1 6 * V3.norm u) then
    if Scalar.isZero vec1.x && Scalar.isZero vec1.y then
      ⟨Scalar.one, Scalar.zero, Scalar.zero⟩
    else
      V3.divs ⟨vec1.y, -vec1.x, Scalar.zero⟩ (Scalar.hypot vec1.x vec1.y)
  else V3.divs w (V3.norm w)

def calculeBase (p0 p1 p2 : V3 α) : Frame α :=
  let d := p2 - p0
  let vec1 := V3.divs d (V3.norm d)
  let vec3 := frameThird vec1 (p1 - p0)
  let vec2 := V3.cross vec3 vec1
  ⟨vec1, vec2, vec3, p0⟩

/-- which branch `calcule_base` took: 0 generic, 1 collinear (x/y fallback), 2 collinear along z -/
def calculeBaseBranch (p0 p1 p2 : V3 α) : Nat :=
  let d := p2 - p0
  let vec1 := V3.divs d (V3.norm d)
  let u := p1 - p0
  let w := V3.cross vec1 u
  if Scalar.le (V3.norm w) (Scalar.ofDec 1 6 * V3.norm u) then
    if Scalar.isZero vec1.x && Scalar.isZero vec1.y then 2 else 1
  else 0
