/-
  GMModel.Manager — `gaddlemaps/_manager.py`: `Manager.complete_correspondence`,
  `Manager.extrapolate_system` (C05), together with the last step of `ExchangeMap.__call__`
  (`new_mol.resids = refmolecule.resids`, `_exchage_map.py:181`; `Molecule.resids` setter,
  `components/_components.py:402-418`) and the one check of `GroFile.writeline` that can stop an
  extrapolation half way (velocity flag of the first line, `parsers/__init__.py:672-686`).

  What is a PARAMETER here (laws proved elsewhere):
    * the exchange map itself (C01–C04): `EMap.restore` is `_calculate_refsystems(mol)` followed by
      `_restore_molecule()`, i.e. the target molecule (as a list of residues, each a list of atoms)
      with its new positions, BEFORE the residue numbers are overwritten; `EMap.accepts` is the
      species test `self._refmolecule != refmolecule`.  For references of fewer than three atoms the
      map draws random numbers on every call: the draws consumed by a call are regarded as part of the
      (opaque) configuration `C` of the molecule the call is applied to;
    * the molecule list `for mol in self.system` yields (C11/C12) — `sys : List (MolInst C)`;
    * the bytes produced by the writer (C13): the result is a list of abstract writer operations.

  Mathlib-free; everything total and computable.  Errors are values (`Run.err`), and because the
  Python leaves a partly written, closed file behind when an exception escapes the `with` block, a
  run is a PAIR (operations emitted so far, error if any) — never `Except` alone.
-/

namespace Mgr

/-- the exception classes met in `_manager.py` / `_cli.py` (`IOError` is `OSError`) -/
inductive PyErr where
  | SystemError | ValueError | TypeError | IOError | KeyError | IndexError
  deriving DecidableEq, Repr, Inhabited

def PyErr.code : PyErr → Nat
  | .SystemError => 1 | .ValueError => 2 | .TypeError => 3
  | .IOError => 4 | .KeyError => 5 | .IndexError => 6

/-- one molecule yielded by `for mol in self.system`: its species (`mol.name`), the residue numbers
    of its residues (`mol.resids`), and the rest (coordinates, …) kept opaque -/
structure MolInst (C : Type) where
  species : String
  resids : List Int
  conf : C

/-- one atom of the restored target molecule: the fields `atom.gro_line()` returns, except the
    residue number (assigned by `resids=`) ; `atomid` is the number the atom had in the end
    molecule's own file — `extrapolate_system` overwrites it with the running counter -/
structure TAtom (P : Type) where
  resname : String
  name : String
  atomid : Int
  hasVel : Bool
  pos : P

/-- the list handed to `GroFile.writeline` -/
structure GroRec (P : Type) where
  resid : Int
  resname : String
  name : String
  number : Nat
  hasVel : Bool
  pos : P

/-- the exchange map of one species, as far as `extrapolate_system` is concerned -/
structure EMap (C P : Type) where
  /-- `not (self._refmolecule != refmolecule)` -/
  accepts : MolInst C → Bool
  /-- `_calculate_refsystems(mol); _restore_molecule()` : residues of the target, new positions -/
  restore : MolInst C → List (List (TAtom P))

/-- an `Alignment` object: `start`, `end`, `exchange_map` (only their presence matters here) -/
structure Align (C P : Type) where
  hasStart : Bool
  hasEnd : Bool
  emap : Option (EMap C P)

/-- `Manager.molecule_correspondence`: a `dict` in insertion order -/
abbrev Corr (C P : Type) := List (String × Align C P)

/-- `Manager.complete_correspondence`
    `{n: ali for n, ali in self.molecule_correspondence.items() if ali.end is not None and ali.start is not None}` -/
def completeCorrespondence {C P : Type} (corr : Corr C P) : Corr C P :=
  corr.filter (fun p => p.2.hasEnd && p.2.hasStart)

/-- abstract operations on the output file (`open_coordinate_file(out, 'w')`, the `comment` and
    `box_matrix` setters, `writeline`, `close` from `__exit__`) -/
inductive WOp (B P : Type) where
  | openW
  | comment (s : String)
  | box (b : B)
  | line (r : GroRec P)
  | close

/-- what a call leaves behind: the writer operations performed, and the exception if one escaped -/
structure Run (B P : Type) where
  ops : List (WOp B P)
  err : Option PyErr

variable {C P B : Type}

/-- `Molecule.resids = [...]` on the restored molecule: every atom of residue `i` gets
    `new_resids[i]` (`zip(self, self._each_atom_resid)`); iteration order = residues, then atoms -/
def assignResids (resids : List Int) (rs : List (List (TAtom P))) : List (Int × TAtom P) :=
  (resids.zip rs).flatMap (fun p => p.2.map (fun a => (p.1, a)))

/-- `ExchangeMap.__call__(mol)` :
    ```
    if self._refmolecule != refmolecule: raise TypeError
    self._calculate_refsystems(refmolecule); new_mol = self._restore_molecule()
    new_mol.resids = refmolecule.resids      # isinstance(new[0], int) -> IndexError on [] ;
                                             # len(new) != len(self.resids) -> ValueError
    ``` -/
def applyMap (m : EMap C P) (mol : MolInst C) : Except PyErr (List (Int × TAtom P)) :=
  if !m.accepts mol then .error .TypeError
  else if mol.resids.isEmpty then .error .IndexError
  else if mol.resids.length != (m.restore mol).length then .error .ValueError
  else .ok (assignResids mol.resids (m.restore mol))

/-- writer state: lines written so far, the running `atom_index`, and the velocity flag fixed by the
    first line written (`_setup_write_file`: `self._format["velocities"] = len(atomlist) == 10`) -/
structure WSt (P : Type) where
  recs : List (GroRec P)
  next : Nat
  vel : Option Bool

def velOk (vel : Option Bool) (h : Bool) : Bool :=
  match vel with
  | none => true
  | some v => v == h

def mkRec (k : Nat) (x : Int × TAtom P) : GroRec P :=
  ⟨x.1, x.2.resname, x.2.name, k, x.2.hasVel, x.2.pos⟩

/-- ```
    for atom in new_mol:
        line = atom.gro_line(); line[3] = atom_index; atom_index += 1
        fgro.writeline(line)        # IOError when the line has / has not velocities unlike the first
    ``` -/
def writeLines (st : WSt P) : List (Int × TAtom P) → WSt P × Option PyErr
  | [] => (st, none)
  | x :: rest =>
    if velOk st.vel x.2.hasVel then
      writeLines ⟨st.recs ++ [mkRec st.next x], st.next + 1, some x.2.hasVel⟩ rest
    else (st, some .IOError)

/-- the body of the `with` block of `extrapolate_system` after the two setters:
    ```
    for mol in self.system:
        name = mol.name
        if name not in complete_correspondence: continue
        new_mol = complete_correspondence[name].exchange_map(mol)
        for atom in new_mol: ...
    ``` -/
def loop (complete : Corr C P) (st : WSt P) : List (MolInst C) → WSt P × Option PyErr
  | [] => (st, none)
  | mol :: rest =>
    match complete.lookup mol.species with
    | none => loop complete st rest
    | some al =>
      match al.emap with
      | none => (st, some .TypeError)          -- `None(mol)`; excluded by the pre-flight check
      | some m =>
        match applyMap m mol with
        | .error e => (st, some e)
        | .ok atoms =>
          match writeLines st atoms with
          | (st', none) => loop complete st' rest
          | (st', some e) => (st', some e)

/-- `Manager.extrapolate_system(fgro_out)`.
    `outExtOk` : the extension of `fgro_out` is a registered coordinate format
    (`open_coordinate_file` raises `ValueError` before opening anything otherwise).
    `title` is `self.system.system_gro.comment_line` (the first line of the input INCLUDING its line
    terminator), `box` is `self.system.system_gro.box_matrix`. -/
def extrapolate (corr : Corr C P) (sys : List (MolInst C)) (title : String) (box : B)
    (outExtOk : Bool) : Run B P :=
  let complete := completeCorrespondence corr
  if complete.isEmpty then ⟨[], some .SystemError⟩
  else if complete.any (fun p => p.2.emap.isNone) then ⟨[], some .SystemError⟩
  else if !outExtOk then ⟨[], some .ValueError⟩
  else
    let r := loop complete ⟨[], 1, none⟩ sys
    ⟨.openW :: .comment title :: .box box :: (r.1.recs.map .line ++ [.close]), r.2⟩

/-- the `comment` setter of `GroFile` (`if value.endswith('\n'): value = value[:-1]`) followed by what
    `_setup_write_file` writes as first line (`comment`, then `"\n"` unless it already ends with one).
    Since `fix: GroFile accepts an empty title` this never raises (kept as `Option` for the protocol);
    an empty title is written as an empty first line. -/
def writtenTitle (value : List Char) : Option (List Char) :=
  let v := if value.getLast? == some '\n' then value.dropLast else value
  some (if v.getLast? == some '\n' then v else v ++ ['\n'])

/-! ### the specification the theorems compare with -/

/-- the atoms one input molecule contributes: its species' map applied to it, carrying the input
    molecule's residue numbers; nothing for a species without complete correspondence -/
def mapped (complete : Corr C P) (mol : MolInst C) : List (Int × TAtom P) :=
  match complete.lookup mol.species with
  | none => []
  | some al =>
    match al.emap with
    | none => []
    | some m => assignResids mol.resids (m.restore mol)

/-- number consecutively from `k` -/
def number (k : Nat) : List (Int × TAtom P) → List (GroRec P)
  | [] => []
  | x :: rest => mkRec k x :: number (k + 1) rest

/-- no exception while mapping / writing `mol`, and its lines have velocity flag `v` -/
def MolOk (complete : Corr C P) (v : Bool) (mol : MolInst C) : Prop :=
  ∀ al, complete.lookup mol.species = some al →
    ∃ m, al.emap = some m ∧ m.accepts mol = true ∧ mol.resids ≠ [] ∧
      mol.resids.length = (m.restore mol).length ∧
      ∀ r ∈ m.restore mol, ∀ a ∈ r, a.hasVel = v

end Mgr
