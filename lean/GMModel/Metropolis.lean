import GMModel.Frame
/-
  GMModel.Metropolis — `gaddlemaps/_backend.py`: `accept_metropolis` and the search loop of
  `_minimize_molecules`, as a step function driven by an explicit tape of random draws.

  The overlap measure (`Chi2Calculator`, C08) and the single-atom move (`move_mol_atom`, C07) are
  PARAMETERS of the model (`chi2Fn`, `moveFn`): every theorem about the loop is `∀ chi2Fn moveFn ∀ tape`.

  ```
  chi2 = _chi2_molecules(mol2_positions) ; chi2_min = chi2 ; counter = 0
  while counter < n_steps:
      change = _choice(sim_type)
      if change == 0:   desplazamiento = _rand_norm(0, displacement_module, 3)
                        test = mol2_positions + desplazamiento
                        chi2_new = _chi2_molecules(test)
      elif change == 1: mol2_com = _mean(mol2_positions, axis=0)
                        axis = _rand_unif(-1, 1, 3) ; theta = _rand_norm(0, np.pi/4.)
                        rot_matrix = _rotation_matrix(axis, theta)
                        test = _dot(mol2_positions-mol2_com, rot_matrix) + mol2_com
                        chi2_new = _chi2_molecules(test)
      elif change == 2: test = _move_mol_atom(mol2_positions, mol2_bonds_info, sigma_scale=sigma_scale)
                        chi2_new = _chi2_molecules(test)
      if _accept_metropolis(chi2, chi2_new):
          mol2_positions = test ; chi2 = chi2_new
          if chi2 < chi2_min:
              chi2_min = chi2 ; counter = 0 ; continue
      counter += 1
  return mol2_positions
  ```
-/

/-- One recorded draw of `np.random.*` (DESIGN §2.2.3).  The *kind and shape* of every draw is part
    of the model: a token of the wrong kind where the code draws is a `desync` error. -/
inductive Draw (α : Type) where
  /-- `np.random.choice(seq)` → the chosen value -/
  | choice (v : Int)
  /-- `np.random.randint(n)` -/
  | randint (v : Int)
  /-- `np.random.normal(loc, scale)` (scalar) -/
  | normal1 (x : α)
  /-- `np.random.normal(loc, scale, 3)` -/
  | normal3 (v : V3 α)
  /-- `np.random.uniform(lo, hi, 3)` -/
  | uniform3 (v : V3 α)
  /-- `np.random.rand()` (scalar) -/
  | rand1 (u : α)
  /-- `np.random.rand(3)` -/
  | rand3 (v : V3 α)

abbrev Tape (α : Type) := List (Draw α)

/-- errors of the search (Python exceptions / protocol errors), never defaults -/
inductive MCErr where
  /-- the tape does not continue with the kind of draw the code makes next (or is exhausted) -/
  | desync
  /-- `change` is not 0, 1 or 2: `test` is unbound (first iteration: `UnboundLocalError`) or stale
      (defect D10, belongs to C10) -/
  | unboundTest
  /-- an error raised inside `move_mol_atom` (C07's model) -/
  | moveErr
  /-- the model's recursion budget ran out (the Python would still be looping) -/
  | outOfFuel
deriving Repr, BEq, DecidableEq

/-- a configuration: atom positions in rows -/
abbrev Config (α : Type) := List (V3 α)

/-- `move_mol_atom(held, bonds_info, sigma_scale=…)` with its own draws taken from the tape -/
abbrev MoveFn (α : Type) := Config α → Tape α → Except MCErr (Config α × Tape α)

structure MCState (α : Type) where
  /-- `mol2_positions` -/
  held : Config α
  chi2 : α
  chi2Min : α
  counter : Nat

/-- which proposal generator ran, with the draws it used -/
inductive PropKind (α : Type) where
  | transl (d : V3 α)
  | rot (axis : V3 α) (theta : α)
  | move

/-- everything observable about one loop iteration -/
structure StepRec (α : Type) where
  pre : MCState α
  kind : PropKind α
  /-- the proposal `test` handed to the objective -/
  test : Config α
  chi2New : α
  accepted : Bool
  post : MCState α

structure MCResult (α : Type) where
  steps : List (StepRec α)
  final : MCState α
  /-- unread part of the tape -/
  rest : Tape α

section
variable {α : Type} [Scalar α]

/-- `accept_metropolis(energy_0, energy_1)`:
    ```
    factor = energy_0/energy_1
    condition = factor >= 1
    if condition: return condition
    return np.random.rand() <= acceptance*factor          # acceptance = 0.01
    ```
    The `rand` draw is consumed ONLY on the second path. -/
def acceptMetropolis (e0 e1 : α) (tape : Tape α) : Except MCErr (Bool × Tape α) :=
  let factor := e0 / e1
  if Scalar.le Scalar.one factor then .ok (true, tape)
  else
    match tape with
    | .rand1 u :: rest => .ok (Scalar.le u (Scalar.ofDec 1 2 * factor), rest)
    | _ => .error .desync

/-- the only divisor of `accept_metropolis` is non-zero -/
def acceptDefined (e1 : α) : Bool := !Scalar.isZero e1

/-- `mol2_positions + desplazamiento` (broadcast over rows) -/
def translateCfg (held : Config α) (d : V3 α) : Config α := held.map (fun p => p + d)

/-- `_dot(mol2_positions - mol2_com, rot_matrix) + mol2_com` with
    `mol2_com = _mean(mol2_positions, axis=0)` of the HELD configuration and
    `rot_matrix = rotation_matrix(axis, theta)` -/
def rotateCfg (held : Config α) (axis : V3 α) (theta : α) : Config α :=
  let com := V3.mean held
  let r := rotationMatrix axis theta
  held.map (fun p => M3.vecMul (p - com) r + com)

/-- divisors of the rotation proposal: `len(held)` in the mean, `‖axis‖` in `rotation_matrix` -/
def rotateDefined (held : Config α) (axis : V3 α) : Bool :=
  !held.isEmpty && rotationDefined axis

/-- the proposal part of one iteration: `change = choice(sim_type)` and the three generators -/
def propose (moveFn : MoveFn α) (simType : List Int) (held : Config α) (tape : Tape α) :
    Except MCErr (PropKind α × Config α × Tape α) :=
  match tape with
  | .choice c :: t1 =>
    if !simType.contains c then .error .desync       -- `choice` returns a member of `sim_type`
    else if c == 0 then
      match t1 with
      | .normal3 d :: t2 => .ok (.transl d, translateCfg held d, t2)
      | _ => .error .desync
    else if c == 1 then
      match t1 with
      | .uniform3 axis :: .normal1 theta :: t2 => .ok (.rot axis theta, rotateCfg held axis theta, t2)
      | _ => .error .desync
    else if c == 2 then
      match moveFn held t1 with
      | .ok (test, t2) => .ok (.move, test, t2)
      | .error e => .error e
    else .error .unboundTest
  | _ => .error .desync

/-- the bookkeeping after the accept decision -/
def bookkeep (st : MCState α) (test : Config α) (chi2New : α) (acc : Bool) : MCState α :=
  if acc then
    -- mol2_positions = test ; chi2 = chi2_new
    if Scalar.lt chi2New st.chi2Min then
      ⟨test, chi2New, chi2New, 0⟩                    -- chi2_min = chi2 ; counter = 0 ; continue
    else
      ⟨test, chi2New, st.chi2Min, st.counter + 1⟩
  else
    ⟨st.held, st.chi2, st.chi2Min, st.counter + 1⟩

/-- one iteration of the `while` body -/
def mcStep (chi2Fn : Config α → α) (moveFn : MoveFn α) (simType : List Int)
    (st : MCState α) (tape : Tape α) : Except MCErr (StepRec α × Tape α) :=
  match propose moveFn simType st.held tape with
  | .error e => .error e
  | .ok (kind, test, t1) =>
    let chi2New := chi2Fn test
    match acceptMetropolis st.chi2 chi2New t1 with
    | .error e => .error e
    | .ok (acc, t2) => .ok (⟨st, kind, test, chi2New, acc, bookkeep st test chi2New acc⟩, t2)

/-- `chi2 = _chi2_molecules(mol2_positions); chi2_min = chi2; counter = 0` -/
def mcInit (chi2Fn : Config α → α) (held0 : Config α) : MCState α :=
  let c := chi2Fn held0
  ⟨held0, c, c, 0⟩

/-- the loop test `counter < n_steps` -/
def mcContinue (nSteps : Nat) (st : MCState α) : Bool := st.counter < nSteps

/-- `while counter < n_steps: …` — recursion on fuel (the Python loop need not terminate; every
    iteration consumes at least the `choice` token, so `fuel = tape.length + 1` always suffices,
    see `mcLoop_fuel_mono` / `mcMinimize`). -/
def mcLoop (chi2Fn : Config α → α) (moveFn : MoveFn α) (simType : List Int) (nSteps : Nat) :
    Nat → MCState α → Tape α → Except MCErr (MCResult α)
  | fuel, st, tape =>
    if mcContinue nSteps st then
      match fuel with
      | 0 => .error .outOfFuel
      | f + 1 =>
        match mcStep chi2Fn moveFn simType st tape with
        | .error e => .error e
        | .ok (s, t1) =>
          match mcLoop chi2Fn moveFn simType nSteps f s.post t1 with
          | .error e => .error e
          | .ok r => .ok ⟨s :: r.steps, r.final, r.rest⟩
    else .ok ⟨[], st, tape⟩

/-- `_minimize_molecules(...)` : initialise, loop, `return mol2_positions`.
    (`mol2_com`, `sigma_scale`, `mol2_bonds_info`, `displacement_module` of the Python signature:
    `mol2_com` is overwritten before use; `sigma_scale`/`mol2_bonds_info` only reach
    `move_mol_atom` = `moveFn`; `displacement_module` only parameterises the distribution of the
    translation draw, which is on the tape.) -/
def mcRun (chi2Fn : Config α → α) (moveFn : MoveFn α) (simType : List Int) (nSteps : Nat)
    (fuel : Nat) (held0 : Config α) (tape : Tape α) : Except MCErr (MCResult α) :=
  mcLoop chi2Fn moveFn simType nSteps fuel (mcInit chi2Fn held0) tape

/-- the value returned by `_minimize_molecules` -/
def mcMinimize (chi2Fn : Config α → α) (moveFn : MoveFn α) (simType : List Int) (nSteps : Nat)
    (held0 : Config α) (tape : Tape α) : Except MCErr (Config α × Tape α) :=
  match mcRun chi2Fn moveFn simType nSteps (tape.length + 1) held0 tape with
  | .error e => .error e
  | .ok r => .ok (r.final.held, r.rest)

end

/-! ### the public wrapper `minimize_molecules` and `check_backend_installed`

  ```
  def check_backend_installed(warn_missing=False):
      try:
          from cython_backend._backend import py_minimize_molecules
          return True
      except ImportError:
          if warn_missing: warnings.warn(text)
          return False

  def minimize_molecules(mol1_positions, mol2_positions, mol2_com, sigma_scale, n_steps, restriction,
                         mol2_bonds_info, displacement_module, sim_type):
      if check_backend_installed(warn_missing=True):
          from cython_backend._backend import py_minimize_molecules
          positions = py_minimize_molecules(...)
          return np.array(positions)
      mol2_positions = _minimize_molecules(...same arguments...)
      return mol2_positions
  ```
  Whether the compiled backend can be imported is a fact about the installation (`installed`); what it
  computes is outside the model (parameter `compiled`). -/

/-- `check_backend_installed(warn_missing)`: the returned flag and the number of warnings emitted -/
def checkBackendInstalled (installed warnMissing : Bool) : Bool × Nat :=
  if installed then (true, 0)
  else (false, if warnMissing then 1 else 0)

/-- what a call of the public wrapper does -/
structure WrapOut (α : Type) where
  /-- number of `warnings.warn` calls -/
  warnings : Nat
  /-- the compiled backend computed the result -/
  viaCompiled : Bool
  /-- returned configuration and unread tape, or the exception -/
  result : Except MCErr (Config α × Tape α)

section
variable {α : Type} [Scalar α]

/-- `minimize_molecules(...)` -/
def minimizeMolecules (installed : Bool)
    (compiled : Config α → Tape α → Except MCErr (Config α × Tape α))
    (chi2Fn : Config α → α) (moveFn : MoveFn α) (simType : List Int) (nSteps : Nat)
    (held0 : Config α) (tape : Tape α) : WrapOut α :=
  let (ok, w) := checkBackendInstalled installed true
  if ok then ⟨w, true, compiled held0 tape⟩
  else ⟨w, false, mcMinimize chi2Fn moveFn simType nSteps held0 tape⟩

end
