import GMModel.Vec3
/-
  GMModel.MoveAtom — `gaddlemaps/_transform_molecule.py`: `move_mol_atom`, `find_atom_random_displ`.

  Data representation
  * positions      : `List (V3 α)`                (rows of `atoms_pos`)
  * bond table     : `List (List (Nat × α))`      (`bonds_info`: entry `i` = the list stored under key
                     `i`; a key `i ≥ length` is *missing* → `KeyError`).  Neighbour order is whatever
                     the table lists (it is an input).
  * `wait_queue`   : `List Nat` (`deque(range(n))`, `remove` = erase first occurrence, `in` = membership)
  * `queue`        : `List (Nat × Nat × α)` used as a stack; the HEAD of the list is the RIGHT end of
                     the deque (`append` = cons, `pop()` = take the head).
  * ghost output   : `trace` = the popped triples, newest first (the Python does not return it; the
                     harness recomputes it independently), `defined` = every divisor `modulo` met by
                     a pull was non-zero.

  Indices are `Nat`: negative (wrapping) indices are outside the model.
-/

namespace MoveAtom
variable {α : Type} [Scalar α]

/-- the Python exceptions the two functions can raise (+ two model-only values:
    `desync` = the random tape offered a draw of the wrong kind / ran out,
    `fuel` = the loop fuel ran out — proved unreachable, see `GMProofs.Lemmas.MoveL`). -/
inductive PyErr
  | indexError | keyError | valueError | desync | fuel
deriving Repr, DecidableEq

def PyErr.name : PyErr → String
  | .indexError => "IndexError"
  | .keyError => "KeyError"
  | .valueError => "ValueError"
  | .desync => "Desync"
  | .fuel => "Fuel"

/-- `bonds_info` -/
abbrev BondTable (α : Type) := List (List (Nat × α))
/-- a work item `(ind1, ind2, bond)` -/
abbrev Triple (α : Type) := Nat × Nat × α

@[inline] def Triple.parent (t : Triple α) : Nat := t.1
@[inline] def Triple.child (t : Triple α) : Nat := t.2.1
@[inline] def Triple.len (t : Triple α) : α := t.2.2

/-- one pull:
    ```
    diferencia = pos[ind1] - pos[ind2] ; modulo = norm(diferencia) ; unit = diferencia/modulo
    pos[ind2] = pos[ind2] + (modulo - bond) * unit
    ``` -/
def pullPoint (pi pj : V3 α) (b : α) : V3 α :=
  let d := pi - pj
  let m := V3.norm d
  pj + V3.smul (m - b) (V3.divs d m)

/-- the loop state -/
structure St (α : Type) where
  pos : List (V3 α)
  wait : List Nat
  queue : List (Triple α)
  trace : List (Triple α)
  defined : Bool

/-- the first `for` (before the `while`):
    ```
    for i in bonds_info[atom_index]:
        queue.append((atom_index, i[0], i[1]))
        wait_queue.remove(i[0])                    # ValueError when absent
    ``` -/
def pushInit (src : Nat) : List (Nat × α) → List Nat → List (Triple α) →
    Except PyErr (List Nat × List (Triple α))
  | [], w, q => .ok (w, q)
  | (k, b) :: rest, w, q =>
    if k ∈ w then pushInit src rest (w.erase k) ((src, k, b) :: q)
    else .error .valueError

/-- the inner `for` of the `while`:
    ```
    for bonds in bonds_info[ind2]:
        if bonds[0] in wait_queue:
            queue.append((ind2, bonds[0], bonds[1]))
            wait_queue.remove(bonds[0])
    ``` -/
def pushNbrs (src : Nat) : List (Nat × α) → List Nat → List (Triple α) →
    List Nat × List (Triple α)
  | [], w, q => (w, q)
  | (k, b) :: rest, w, q =>
    if k ∈ w then pushNbrs src rest (w.erase k) ((src, k, b) :: q)
    else pushNbrs src rest w q

/-- one iteration of the `while` (identity on an empty queue) -/
def step (bt : BondTable α) (s : St α) : Except PyErr (St α) :=
  match s.queue with
  | [] => .ok s
  | (i, j, b) :: rest =>
    match s.pos[i]?, s.pos[j]? with
    | some pi, some pj =>
      let pos' := s.pos.set j (pullPoint pi pj b)
      let dfn := s.defined && !Scalar.isZero (V3.norm (pi - pj))
      match bt[j]? with
      | none => .error .keyError
      | some nb =>
        let r := pushNbrs j nb s.wait rest
        .ok ⟨pos', r.1, r.2, (i, j, b) :: s.trace, dfn⟩
    | _, _ => .error .indexError

/-- `while queue:` with explicit fuel (each iteration lowers `|queue| + |wait_queue|` by one, so
    `n` suffices — `MoveAtom.run_total`) -/
def run (bt : BondTable α) : Nat → St α → Except PyErr (St α)
  | 0, s => match s.queue with
    | [] => .ok s
    | _ :: _ => .error .fuel
  | f + 1, s => match s.queue with
    | [] => .ok s
    | _ :: _ =>
      match step bt s with
      | .ok s' => run bt f s'
      | .error e => .error e

/-- `move_mol_atom(atoms_pos, bonds_info, atom_index, displ)` with both optional arguments given;
    returns the final loop state (`.pos` is the returned array). -/
def moveMolAtomFull (pos : List (V3 α)) (bt : BondTable α) (a : Nat) (displ : V3 α) :
    Except PyErr (St α) :=
  let n := pos.length
  match pos[a]? with
  | none => .error .indexError                        -- atoms_pos[atom_index] += displ
  | some pa =>
    let pos1 := pos.set a (pa + displ)
    if a ∈ List.range n then                          -- wait_queue.remove(atom_index)
      let wait := (List.range n).erase a
      match bt[a]? with
      | none => .error .keyError                      -- bonds_info[atom_index]
      | some nb =>
        match pushInit a nb wait [] with
        | .error e => .error e
        | .ok r => run bt n ⟨pos1, r.1, r.2, [], true⟩
    else .error .valueError

/-- the returned array only -/
def moveMolAtom (pos : List (V3 α)) (bt : BondTable α) (a : Nat) (displ : V3 α) :
    Except PyErr (List (V3 α)) :=
  match moveMolAtomFull pos bt a displ with
  | .ok s => .ok s.pos
  | .error e => .error e

/-! ### `find_atom_random_displ` — the random draws are an explicit tape -/

/-- one recorded draw: kind + result (arguments of the call are compared by the harness) -/
inductive Draw (α : Type)
  | randint (k : Nat)        -- np.random.randint(n)
  | rand3 (v : V3 α)         -- np.random.rand(3)
  | choice (s : Int)         -- np.random.choice([-1, 1])
  | normal (x : α)           -- np.random.normal(0, sigma)

structure DisplOut (α : Type) where
  displ : V3 α
  /-- which neighbour-count branch: 1, 2 or 3 (= three or more) -/
  branch : Nat
  /-- the `scale` handed to `np.random.normal` -/
  sigma : α
  /-- `norm(direction) != 0` (the only divisor) -/
  defined : Bool
  rest : List (Draw α)

def getPos (pos : List (V3 α)) (i : Nat) : Except PyErr (V3 α) :=
  match pos[i]? with
  | some p => .ok p
  | none => .error .indexError

def drawRand3 : List (Draw α) → Except PyErr (V3 α × List (Draw α))
  | .rand3 v :: t => .ok (v, t)
  | _ => .error .desync

def drawChoice : List (Draw α) → Except PyErr (Int × List (Draw α))
  | .choice s :: t => .ok (s, t)
  | _ => .error .desync

def drawNormal : List (Draw α) → Except PyErr (α × List (Draw α))
  | .normal x :: t => .ok (x, t)
  | _ => .error .desync

def drawRandint : List (Draw α) → Except PyErr (Nat × List (Draw α))
  | .randint k :: t => .ok (k, t)
  | _ => .error .desync

/-- numpy's `CONS_NON_NEGATIVE` check on `scale`: `not isnan(x) and signbit(x)`. It rejects `-0.0`
    too; `1/x < 0` detects the sign of a zero in IEEE arithmetic (one over negative zero is `-inf`) and is false at
    ℝ (`1/0 = 0`), where the test is just `x < 0`. -/
def signNeg (x : α) : Bool :=
  Scalar.lt x Scalar.zero || (Scalar.isZero x && Scalar.lt (Scalar.one / x) Scalar.zero)

/-- the tail shared by the three branches:
    ```
    direction = direction / np.linalg.norm(direction)
    displ = direction * np.random.normal(0, sigma)      # ValueError if sigma < 0 or sigma is -0.0
    ``` -/
def finishDispl (direction : V3 α) (branch : Nat) (sigma : α) (tape : List (Draw α)) :
    Except PyErr (DisplOut α) :=
  let m := V3.norm direction
  let u := V3.divs direction m
  if signNeg sigma then .error .valueError else
  match drawNormal tape with
  | .error e => .error e
  | .ok (x, t) => .ok ⟨V3.muls u x, branch, sigma, !Scalar.isZero m, t⟩

/-- `find_atom_random_displ(atoms_pos, bonds_info, atom_index, sigma_scale)` -/
def findAtomRandomDispl (pos : List (V3 α)) (bt : BondTable α) (a : Nat) (sigmaScale : α)
    (tape : List (Draw α)) : Except PyErr (DisplOut α) :=
  match bt[a]? with
  | none => .error .keyError                           -- bonds_info[atom_index]
  | some [] => .error .indexError                      -- bonds_info[atom_index][0]
  | some [(k0, b0)] => do                              -- n_bonded_ref == 1
    let sigma := b0 * sigmaScale
    let (r, t) ← drawRand3 tape
    let p0 ← getPos pos k0
    let pa ← getPos pos a
    finishDispl (V3.cross r (p0 - pa)) 1 sigma t
  | some [(k0, b0), (k1, _)] => do                     -- n_bonded_ref == 2
    let sigma := b0 * sigmaScale
    let (r, t) ← drawRand3 tape
    let p0 ← getPos pos k0
    let p1 ← getPos pos k1
    finishDispl (V3.cross r (p0 - p1)) 2 sigma t
  | some ((k0, b0) :: (k1, _) :: (k2, _) :: _) => do   -- n_bonded_ref >= 3
    let sigma := b0 * sigmaScale
    let p0 ← getPos pos k0
    let p2 ← getPos pos k2
    let p0' ← getPos pos k0
    let p1 ← getPos pos k1
    let dir := V3.cross (p0 - p2) (p0' - p1)
    let (s, t) ← drawChoice tape
    finishDispl (V3.muls dir (Scalar.ofInt s)) 3 sigma t

/-- `move_mol_atom(atoms_pos, bonds_info, sigma_scale=…)` with `atom_index=None, displ=None`:
    `randint(n)`, then `find_atom_random_displ`, then the move. Returns the drawn index, the
    displacement record and the final state. -/
def moveMolAtomTape (pos : List (V3 α)) (bt : BondTable α) (sigmaScale : α)
    (tape : List (Draw α)) : Except PyErr (Nat × DisplOut α × St α) := do
  let (a, t) ← drawRandint tape
  let d ← findAtomRandomDispl pos bt a sigmaScale t
  let s ← moveMolAtomFull pos bt a d.displ
  pure (a, d, s)

end MoveAtom
