import GMModel.Itp
/-
  GMModel.Graph — `gaddlemaps/components/_components_top.py` (`MoleculeTop.__init__`,
  `AtomTop.connect`, `AtomTop.copy`, `MoleculeTop.copy`) and
  `gaddlemaps/components/__init__.py` (`are_connected`).

  `are_connected` is modelled AS REPAIRED for D6 (iterative walk with an explicit stack; the
  repaired `_find_connected_atoms` keeps its `(atoms, index, connected: list)` signature, fills
  the caller's list, and uses a local `seen = set(connected)` for the membership tests).
  The original recursive walk is kept (`Orig`) with explicit depth accounting to replay D6.
-/

namespace Graph
open Itp (PyErr Str)

/-! ### bond sets -/

/-- `set.add` on a set kept as a duplicate-free list (iteration order is NOT modelled) -/
def setAdd (s : List Nat) (x : Nat) : List Nat := if x ∈ s then s else s ++ [x]

/-- the per-atom bond sets, position-indexed -/
abbrev Adj := List (List Nat)

def adjAdd (adj : Adj) (i x : Nat) : Adj := adj.modify i (fun s => setAdd s x)

/-- `self.atoms[b0].connect(self.atoms[b1])`:
    `self.bonds.add(hash(atom)); atom.bonds.add(hash(self))`, `hash(atom) = atom.index`;
    `IndexError` when a position is out of range -/
def connect (adj : Adj) (b : Nat × Nat) : Except PyErr Adj :=
  if b.1 < adj.length ∧ b.2 < adj.length then .ok (adjAdd (adjAdd adj b.1 b.2) b.2 b.1)
  else .error .IndexError

def connectAll (adj : Adj) : List (Nat × Nat) → Except PyErr Adj
  | [] => .ok adj
  | b :: bs => do let a ← connect adj b; connectAll a bs

/-- `MoleculeTop.__init__`: the bond sets after the two loops, from `read_topology`'s output -/
def buildAdj (natoms : Nat) (bonds : List (Nat × Nat)) : Except PyErr Adj :=
  connectAll (List.replicate natoms []) bonds

/-! ### `are_connected` (repaired: iterative)

```
def are_connected(atoms):
    connected_atoms = []
    _find_connected_atoms(atoms, 0, connected_atoms)
    return len(connected_atoms) == len(atoms)

def _find_connected_atoms(atoms, index, connected):      # repaired: iterative
    seen = set(connected)
    pending = [index]
    while pending:
        index = pending.pop()
        if index in seen: continue
        seen.add(index); connected.append(index)
        for new_index in atoms[index].bonds:
            if new_index not in seen: pending.append(new_index)
```
`stack` has its top at the head. The order in which a bond set is iterated is an input
(`adj[i]` is a list); the theorems hold for every order. -/
def walk (adj : Adj) : Nat → List Nat → List Nat → Except PyErr (List Nat)
  | 0, _, _ => .error .OutOfFuel
  | _ + 1, [], visited => .ok visited
  | fuel + 1, i :: stack, visited =>
    if i ∈ visited then walk adj fuel stack visited
    else
      match adj[i]? with
      | none => .error .IndexError
      | some nbrs =>
        walk adj fuel ((nbrs.filter (fun j => decide (j ∉ i :: visited))).reverse ++ stack)
          (i :: visited)

/-- number of directed edges -/
def degSum (adj : Adj) : Nat := (adj.map List.length).sum

def walkFuel (adj : Adj) : Nat := degSum adj + 2

def areConnected (adj : Adj) : Except PyErr Bool := do
  let visited ← walk adj (walkFuel adj) [0] []
  pure (visited.length == adj.length)

/-! ### the original recursive walk (D6 replay)

```
def _find_connected_atoms(atoms, index, connected):
    if index not in connected: connected.append(index)
    for new_index in atoms[index].bonds:
        if new_index in connected: continue
        _find_connected_atoms(atoms, new_index, connected)
```
`depth` = number of `_find_connected_atoms` frames on the stack; exceeding `limit` is
`RecursionError`. Returns the `connected` list (reversed) and the maximal depth reached. -/
namespace Orig

mutual
def visit (adj : Adj) (limit : Nat) : Nat → Nat → Nat → List Nat × Nat →
    Except PyErr (List Nat × Nat)
  | 0, _, _, _ => .error .OutOfFuel
  | fuel + 1, depth, index, (conn, maxd) =>
    if depth > limit then .error .RecursionError
    else
      let conn' := if index ∈ conn then conn else index :: conn
      match adj[index]? with
      | none => .error .IndexError
      | some nbrs => loop adj limit fuel depth nbrs (conn', max maxd depth)
def loop (adj : Adj) (limit : Nat) : Nat → Nat → List Nat → List Nat × Nat →
    Except PyErr (List Nat × Nat)
  | 0, _, _, _ => .error .OutOfFuel
  | _ + 1, _, [], st => .ok st
  | fuel + 1, depth, j :: js, (conn, maxd) =>
    if j ∈ conn then loop adj limit fuel depth js (conn, maxd)
    else do
      let st ← visit adj limit fuel (depth + 1) j (conn, maxd)
      loop adj limit fuel depth js st
end

/-- `are_connected` as originally written, with the frame limit explicit; also returns the
    deepest `_find_connected_atoms` nesting -/
def areConnected (adj : Adj) (limit : Nat) : Except PyErr (Bool × Nat) := do
  let (conn, maxd) ← visit adj limit (3 * adj.length + 2 * degSum adj + 4) 1 0 ([], 0)
  pure (conn.length == adj.length, maxd)

end Orig

/-- the path graph `0 – 1 – … – (n-1)` -/
def chain (n : Nat) : Adj :=
  (List.range n).map (fun i =>
    (if i = 0 then [] else [i - 1]) ++ (if i + 1 < n then [i + 1] else []))

/-! ### heap model of `MoleculeTop` / `AtomTop` objects (copy independence)

An `AtomTop` object holds immutable fields and a REFERENCE to its `bonds` set object; the set is
a separate mutable heap cell (so that sharing a set between two atoms is expressible). -/

inductive Cell
  | atom (name resname : Str) (resid : Int) (index : Nat) (bonds : Nat)   -- bonds: address of a set cell
  | set (elems : List Nat)
deriving DecidableEq, Repr, Inhabited

abbrev Heap := List Cell          -- address = position; allocation appends

structure MolTop where
  name : Str
  atoms : List Nat                -- addresses of the AtomTop cells
deriving DecidableEq, Repr, Inhabited

/-- observable value of an atom: `(name, resname, resid, index, bonds)`; `none` = dangling -/
def atomValue (h : Heap) (a : Nat) : Option (Str × Str × Int × Nat × List Nat) :=
  match h[a]? with
  | some (.atom n r i x b) =>
    match h[b]? with
    | some (.set e) => some (n, r, i, x, e)
    | _ => none
  | _ => none

def molValue (h : Heap) (m : MolTop) : Str × List (Option (Str × Str × Int × Nat × List Nat)) :=
  (m.name, m.atoms.map (atomValue h))

/-- `AtomTop.copy`: `atom = AtomTop(name, resname, resid, index); atom.bonds = self.bonds.copy()`
    allocates a new set cell and a new atom cell; returns the new atom's address -/
def atomCopy (h : Heap) (a : Nat) : Option (Heap × Nat) :=
  match h[a]? with
  | some (.atom n r i x b) =>
    match h[b]? with
    | some (.set e) => some (h ++ [.set e, .atom n r i x h.length], h.length + 1)
    | _ => none
  | _ => none

def atomsCopy (h : Heap) : List Nat → Option (Heap × List Nat)
  | [] => some (h, [])
  | a :: as =>
    match atomCopy h a with
    | none => none
    | some (h1, a') =>
      match atomsCopy h1 as with
      | none => none
      | some (h2, as') => some (h2, a' :: as')

/-- `MoleculeTop.copy` -/
def molCopy (h : Heap) (m : MolTop) : Option (Heap × MolTop) :=
  match atomsCopy h m.atoms with
  | none => none
  | some (h', as') => some (h', ⟨m.name, as'⟩)

/-- the mutations a caller can apply through an atom object -/
inductive Op
  | connect (a b : Nat)                 -- a.connect(b)
  | bondsAdd (a : Nat) (x : Nat)        -- a.bonds.add(x)
  | bondsDiscard (a : Nat) (x : Nat)    -- a.bonds.discard(x)
  | setName (a : Nat) (n : Str)         -- a.name = n
  | setResname (a : Nat) (n : Str)
  | setResid (a : Nat) (r : Int)
deriving Repr

def Op.targets : Op → List Nat
  | .connect a b => [a, b]
  | .bondsAdd a _ => [a]
  | .bondsDiscard a _ => [a]
  | .setName a _ => [a]
  | .setResname a _ => [a]
  | .setResid a _ => [a]

def setUpd (h : Heap) (a : Nat) (f : List Nat → List Nat) : Heap :=
  match h[a]? with
  | some (.atom _ _ _ _ b) =>
    match h[b]? with
    | some (.set e) => h.set b (.set (f e))
    | _ => h
  | _ => h

def atomIndex (h : Heap) (a : Nat) : Nat :=
  match h[a]? with
  | some (.atom _ _ _ x _) => x
  | _ => 0

def applyOp (h : Heap) : Op → Heap
  | .connect a b =>
    let ia := atomIndex h a
    let ib := atomIndex h b
    setUpd (setUpd h a (fun e => setAdd e ib)) b (fun e => setAdd e ia)
  | .bondsAdd a x => setUpd h a (fun e => setAdd e x)
  | .bondsDiscard a x => setUpd h a (fun e => e.filter (· ≠ x))
  | .setName a n =>
    match h[a]? with
    | some (.atom _ r i x b) => h.set a (.atom n r i x b)
    | _ => h
  | .setResname a r =>
    match h[a]? with
    | some (.atom n _ i x b) => h.set a (.atom n r i x b)
    | _ => h
  | .setResid a i =>
    match h[a]? with
    | some (.atom n r _ x b) => h.set a (.atom n r i x b)
    | _ => h

def applyOps (h : Heap) (ops : List Op) : Heap := ops.foldl applyOp h

/-- allocate a `MoleculeTop` with the given atom infos and bond sets (as `__init__` leaves it) -/
def allocAtoms (h : Heap) (i : Nat) : List (Itp.AtomInfo × List Nat) → Heap × List Nat
  | [] => (h, [])
  | (a, bonds) :: as =>
    let h1 := h ++ [.set bonds, .atom a.name a.resname a.resid i h.length]
    let (h2, rest) := allocAtoms h1 (i + 1) as
    (h2, (h.length + 1) :: rest)

def allocMol (h : Heap) (name : Str) (atoms : List (Itp.AtomInfo × List Nat)) : Heap × MolTop :=
  let (h', as') := allocAtoms h 0 atoms
  (h', ⟨name, as'⟩)

end Graph
