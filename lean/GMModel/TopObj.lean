import GMModel.Itp
import GMModel.Graph
/-
  GMModel.TopObj — the rest of `gaddlemaps/components/_components_top.py`:

    `AtomTop.__eq__`, `__hash__`, `residname`, `closest_atoms`, `copy`
    `MoleculeTop.__eq__`, `__ne__`, `resnames` / `resids` (getters and setters),
    `resname_len_list`, `index`, `copy`, `__len__`, `__getitem__`.

  The object VALUE is modelled here (name, per atom name / resname / resid / index / bond set);
  aliasing between a molecule and its copy is the business of the object heap of `GMModel.Graph`
  (`molCopy`), to which `molOf` links.

  Strings are `List Char`; the two format calls are modelled character by character:
    `'{:5}{}'.format(resname, resid)`   = `fmt5 resname ++ intRepr resid`   (`resKey`)
    `'{}{}'.format(resid, resname)`      = `intRepr resid ++ resname`        (`residname`)
  (`{:5}` of a `str` pads on the right with spaces to width 5 and NEVER truncates; `{}` of an
  `int` is its decimal representation with a leading `-` for negatives.)
-/

namespace TopObj
open Itp (Str PyErr isWs strip pyInt)

/-- value of an `AtomTop` object; `bonds` is the `set` of ints as a list (compared as a set) -/
structure AtomTop where
  name : Str
  resname : Str
  resid : Int
  index : Nat
  bonds : List Nat
deriving DecidableEq, Repr, Inhabited

/-- value of a `MoleculeTop` object (`ftop` plays no role in any modelled method) -/
structure MolTop where
  name : Str
  atoms : List AtomTop
deriving DecidableEq, Repr, Inhabited

/-! ### equality -/

/-- `set.__eq__` on sets kept as lists -/
def setEq (a b : List Nat) : Bool := a.all (fun x => b.contains x) && b.all (fun x => a.contains x)

/-- `AtomTop.__eq__` for an `AtomTop` argument:
    `index ==`, `resname ==`, `name ==`, `bonds ==` — the residue NUMBER is not compared -/
def atomEq (a b : AtomTop) : Bool :=
  a.index == b.index && a.resname == b.resname && a.name == b.name && setEq a.bonds b.bonds

/-- `AtomTop.__hash__` -/
def atomHash (a : AtomTop) : Nat := a.index

/-- `all(at1 == at2 for at1, at2 in zip(self, element))` -/
def allZip : List AtomTop → List AtomTop → Bool
  | a :: as, b :: bs => atomEq a b && allZip as bs
  | _, _ => true

/-- `MoleculeTop.__eq__` for a `MoleculeTop` argument -/
def molEq (self element : MolTop) : Bool :=
  if element.name == self.name && self.atoms.length == element.atoms.length then
    allZip self.atoms element.atoms
  else false

/-- the argument of `==`: a `MoleculeTop` or any other object -/
inductive Arg
  | mol (m : MolTop)
  | other
deriving Repr

/-- `MoleculeTop.__eq__(self, element)` -/
def molEqArg (self : MolTop) : Arg → Bool
  | .mol m => molEq self m         -- `isinstance(element, MoleculeTop)`
  | .other => false

/-- `MoleculeTop.__ne__`: `not self == element` -/
def molNeArg (self : MolTop) (x : Arg) : Bool := !molEqArg self x

/-- the argument of `AtomTop.__eq__` -/
def atomEqArg (self : AtomTop) : Option AtomTop → Bool
  | some a => atomEq self a
  | none => false                  -- not an `AtomTop`

/-! ### the two format strings -/

/-- decimal digits of a natural number (`fuel` only makes the recursion structural; `n + 1`
    always suffices: `natDigits_lt`, `natDigits_ge`) -/
def natDigitsAux : Nat → Nat → Str
  | 0, _ => []
  | fuel + 1, n =>
    if n < 10 then [Char.ofNat (48 + n)] else natDigitsAux fuel (n / 10) ++ [Char.ofNat (48 + n % 10)]

def natDigits (n : Nat) : Str := natDigitsAux (n + 1) n

/-- `'{}'.format(i)` for an `int` -/
def intRepr : Int → Str
  | .ofNat n => natDigits n
  | .negSucc n => '-' :: natDigits (n + 1)

/-- `'{:5}'.format(s)` for a `str`: left-aligned, padded with spaces to width 5, never cut -/
def fmt5 (s : Str) : Str := s ++ List.replicate (5 - s.length) ' '

/-- `'{:5}{}'.format(atom.resname, atom.resid)` -/
def resKey (a : AtomTop) : Str := fmt5 a.resname ++ intRepr a.resid

/-- `AtomTop.residname`: `'{}{}'.format(self.resid, self.resname)` -/
def residname (a : AtomTop) : Str := intRepr a.resid ++ a.resname

/-- the keys `itertools.groupby(keys)` yields: one per maximal run of equal consecutive keys -/
def groupKeys : List Str → List Str
  | [] => []
  | [k] => [k]
  | k :: k' :: ks => if k = k' then groupKeys (k' :: ks) else k :: groupKeys (k' :: ks)

/-! ### `resnames` / `resids` getters -/

/-- `MoleculeTop.resnames`: `[x[0][:5].strip() for x in groupby(tot_resnames)]` -/
def resnames (m : MolTop) : List Str :=
  (groupKeys (m.atoms.map resKey)).map (fun k => strip (k.take 5))

/-- `int(s)` for an arbitrary ASCII string (`int` strips whitespace itself); `ValueError` -/
def pyIntE (s : Str) : Except PyErr Int :=
  match pyInt (strip s) with
  | some i => .ok i
  | none => .error .ValueError

/-- `MoleculeTop.resids`: `[int(x[0][5:].strip()) for x in groupby(tot_resids)]` -/
def resids (m : MolTop) : Except PyErr (List Int) :=
  (groupKeys (m.atoms.map resKey)).mapM (fun k => pyIntE (k.drop 5))

/-- `MoleculeTop.resname_len_list` (the loop, not `groupby`): `(x[:5].strip(), run length)`;
    the empty molecule raises `IndexError` (`old_resname[0]` of the empty list) -/
def runLens : List Str → List (Str × Nat)
  | [] => []
  | [k] => [(k, 1)]
  | k :: k' :: ks =>
    if k = k' then
      match runLens (k' :: ks) with
      | (_, n) :: rest => (k, n + 1) :: rest
      | [] => [(k, 1)]
    else (k, 1) :: runLens (k' :: ks)

def resnameLenList (m : MolTop) : Except PyErr (List (Str × Nat)) :=
  if m.atoms.isEmpty then .error .IndexError
  else .ok ((runLens (m.atoms.map resKey)).map (fun (k, n) => (strip (k.take 5), n)))

/-! ### setters

```
resname_index = 0
actual_resname = self[0].residname
for atom in self:
    if atom.residname != actual_resname:
        resname_index += 1
        actual_resname = atom.residname
    atom.resname = new_resnames[resname_index]
```
The loop mutates atom after atom, so an `IndexError` in the middle leaves the atoms before it
already renamed: the result is the (possibly partially) updated molecule together with the
exception, if any. `atom.residname` is read BEFORE the atom is assigned, so the run structure is
the one of the old values. -/

/-- the loop shared (textually) by the two setters; `upd a v` is `atom.resname = v` resp.
    `atom.resid = v` -/
def setLoop {β : Type} (upd : AtomTop → β → AtomTop) (new : List β) (idx : Nat) (actual : Str) :
    List AtomTop → Option PyErr × List AtomTop
  | [] => (none, [])
  | a :: as =>
    let idx' := if residname a ≠ actual then idx + 1 else idx
    let actual' := if residname a ≠ actual then residname a else actual
    match new[idx']? with
    | none => (some .IndexError, a :: as)
    | some r =>
      let (e, rest) := setLoop upd new idx' actual' as
      (e, upd a r :: rest)

def resnamesLoop (new : List Str) (idx : Nat) (actual : Str) :
    List AtomTop → Option PyErr × List AtomTop :=
  setLoop (fun a r => { a with resname := r }) new idx actual

/-- `MoleculeTop.resnames = new_resnames`; `isList = isinstance(new_resnames, list)` -/
def setResnames (m : MolTop) (isList : Bool) (new : List Str) : Option PyErr × MolTop :=
  if !isList then (some .ValueError, m)
  else if new.length ≠ (resnames m).length then (some .ValueError, m)
  else
    match m.atoms with
    | [] => (some .IndexError, m)                       -- `self[0]`
    | a0 :: _ =>
      let (e, as) := resnamesLoop new 0 (residname a0) m.atoms
      (e, { m with atoms := as })

def residsLoop (new : List Int) (idx : Nat) (actual : Str) :
    List AtomTop → Option PyErr × List AtomTop :=
  setLoop (fun a r => { a with resid := r }) new idx actual

/-- `MoleculeTop.resids = new_resids`; `len(self.resids)` runs the getter, whose `int()` may
    raise `ValueError` -/
def setResids (m : MolTop) (isList : Bool) (new : List Int) : Option PyErr × MolTop :=
  if !isList then (some .ValueError, m)
  else
    match resids m with
    | .error e => (some e, m)
    | .ok old =>
      if new.length ≠ old.length then (some .ValueError, m)
      else
        match m.atoms with
        | [] => (some .IndexError, m)
        | a0 :: _ =>
          let (e, as) := residsLoop new 0 (residname a0) m.atoms
          (e, { m with atoms := as })

/-! ### `index`, `closest_atoms`, `copy` -/

/-- `list.index(x)`: first position whose element `== x` (identity implies `==` here, as
    `atomEq` is reflexive); `ValueError` when there is none -/
def indexGo (x : AtomTop) (i : Nat) : List AtomTop → Except PyErr Nat
  | [] => .error .ValueError
  | a :: as => if atomEq a x then .ok i else indexGo x (i + 1) as

/-- `MoleculeTop.index(atom)` -/
def molIndex (m : MolTop) (x : AtomTop) : Except PyErr Nat := indexGo x 0 m.atoms

def insertSorted (x : Nat) : List Nat → List Nat
  | [] => [x]
  | y :: ys => if x ≤ y then x :: y :: ys else y :: insertSorted x ys

/-- `sorted(s)` for a set of ints -/
def sortNat (l : List Nat) : List Nat := l.foldr insertSorted []

/-- `l[:k]` with Python's slice semantics (negative `k` counts from the end) -/
def sliceTo {α : Type} (l : List α) (k : Int) : List α :=
  if k ≥ 0 then l.take k.toNat else l.take (l.length - (-k).toNat)

/-- `AtomTop.closest_atoms(natoms)`: `sorted(self.bonds)[:natoms]` -/
def closestAtoms (a : AtomTop) (natoms : Int) : List Nat := sliceTo (sortNat a.bonds) natoms

/-- `AtomTop.copy`: a new object with the same four fields and `self.bonds.copy()` -/
def atomCopy (a : AtomTop) : AtomTop := ⟨a.name, a.resname, a.resid, a.index, a.bonds⟩

/-- `MoleculeTop.copy`, as a value -/
def molCopy (m : MolTop) : MolTop := ⟨m.name, m.atoms.map atomCopy⟩

/-- `MoleculeTop.__getitem__(i)` for an int (negative indices from the end); `IndexError` -/
def getItem (m : MolTop) (i : Int) : Except PyErr AtomTop :=
  let j : Int := if i < 0 then i + m.atoms.length else i
  if j < 0 then .error .IndexError
  else match m.atoms[j.toNat]? with
    | some a => .ok a
    | none => .error .IndexError

/-- `MoleculeTop.__str__` / `__repr__`: `f'MoleculeTop of {self.name}.'` -/
def molStr (m : MolTop) : Str := "MoleculeTop of ".toList ++ m.name ++ ['.']

/-- `AtomTop.__repr__` / `__str__`: `f'Itp atom of {self.name} of molecule {self.resname}'` -/
def atomStr (a : AtomTop) : Str := "Itp atom of ".toList ++ a.name ++ " of molecule ".toList ++ a.resname

/-! ### link to the object heap of `GMModel.Graph` -/

/-- the value of the atom object at address `a` -/
def atomOf (h : Graph.Heap) (a : Nat) : Option AtomTop :=
  (Graph.atomValue h a).map (fun v => ⟨v.1, v.2.1, v.2.2.1, v.2.2.2.1, v.2.2.2.2⟩)

/-- the value of a molecule object of the heap (`none`: a dangling reference) -/
def molOf (h : Graph.Heap) (m : Graph.MolTop) : Option MolTop :=
  (m.atoms.mapM (atomOf h)).map (fun as => ⟨m.name, as⟩)

/-- `m == m'` evaluated on the heap -/
def molEqH (h : Graph.Heap) (m m' : Graph.MolTop) : Option Bool :=
  match molOf h m, molOf h m' with
  | some a, some b => some (molEq a b)
  | _, _ => none

end TopObj
