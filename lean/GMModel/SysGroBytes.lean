import GMModel.Gro
import GMModel.SysGro
/-
  GMModel.SysGroBytes — "open the file, then build the view": the composition of the byte-level
  reader of `GMModel.Gro` (C13/C14: `GroFile.__init__` = `_load_and_verify`, then the atom lines) with
  the coordinate-file view of `GMModel.SysGro` (C12: `SystemGro.__init__` and every access).

  `SystemGro(path)` opens `GroFile(path)` and from then on only talks to it through
  `seek_atom` / `next` / `natoms` / `box_matrix` / `comment`.  `groRead` returns exactly what those calls
  can ever return (the title line, the parsed atom lines in order, the box), so the view is built over
  the record list `groRead` yields.  The payload of the i-th atom record of the view (`AtomRec.data`,
  opaque to the view) is `i`: the atom number, coordinates and velocities of a view atom `a` are those
  of `data.recs[a.data]`.

  Text of the byte model is `List Nat` (character codes, one per byte: ASCII files), text of the view
  model is `List Char`.
-/

namespace SGro

/-- character codes → characters -/
def strOfCodes (l : List Nat) : Str := l.map Char.ofNat

/-- the view's atom record for the `i`-th parsed atom line -/
def atomOfRRec (i : Nat) (q : Gro.RRec) : AtomRec :=
  ⟨q.resnum, strOfCodes q.resname, strOfCodes q.name, i⟩

/-- number the parsed lines from `i` on -/
def atomsFrom : Nat → List Gro.RRec → List AtomRec
  | _, [] => []
  | i, q :: qs => atomOfRRec i q :: atomsFrom (i + 1) qs

/-- the `GroFile` (read side) the view works on; the box is kept in `GroData` (the view hands
    `box_matrix` through unchanged) -/
def fileOfData (d : Gro.GroData) : GroRd := ⟨strOfCodes d.title, atomsFrom 0 d.recs, 0⟩

inductive ByteErr
  /-- `GroFile(path)` raised -/
  | gro (e : PyStr.PyErr)
  /-- `SystemGro.__init__` raised after the file was opened -/
  | view (e : PyErr)
  deriving DecidableEq, Repr

def ByteErr.name : ByteErr → String
  | .gro e => e.name
  | .view e => e.name

/-- a `SystemGro` together with what its `GroFile` read -/
structure ByteView where
  /-- title, parsed atom lines, box: what `GroFile` knows -/
  data : Gro.GroData
  /-- the same records as the view sees them -/
  file : GroRd
  sg : SG
  /-- the `GroFile` cursor after the constructor -/
  cur : Cursor
  deriving Repr

/-- `SystemGro.n_atoms` -/
def ByteView.nAtoms (v : ByteView) : Nat := v.file.natoms
/-- `SystemGro.box_matrix` -/
def ByteView.boxMatrix (v : ByteView) : Gro.RBox := v.data.box
/-- `SystemGro.comment_line` -/
def ByteView.commentLine (v : ByteView) : List Nat := v.data.title

/-- `SystemGro(path)` on the bytes of the file (code as repaired, fixes/C12-O4.patch) -/
def sysGroOfBytes (bytes : List Nat) : Except ByteErr ByteView :=
  match Gro.groRead Gro.stdParsers bytes with
  | .error e => .error (.gro e)
  | .ok d =>
    match init (fileOfData d) ⟨0, 0⟩ with
    | (.error e, _) => .error (.view e)
    | (.ok sg, c) => .ok ⟨d, fileOfData d, sg, c⟩

end SGro
