import GMModel.Manager
/-
  GMModel.ManagerSM — the `Manager` OBJECT of `gaddlemaps/_manager.py` as a state machine (C05/C20).

  `GMModel.Manager` models ONE call of `extrapolate_system` on a species table that is an input.  This
  module says how that table (`Manager.molecule_correspondence`, a `dict` name ↦ `Alignment`) is
  created and how it EVOLVES under the API:

      Manager.__init__ / from_files            → `initTable`   (dict comprehension over
                                                                 `system.different_molecules`)
      Alignment.__init__(start = mol)           → `newAlignment`
      Alignment.end setter                      → `setEndEntry` (None / non-Molecule / first attach /
                                                                 re-attach: `molecule == self._end`)
      Molecule.__eq__ / Atom.__eq__             → `molEq` / `atomEq`
      Manager.add_end_molecule(s)               → `addEnd`      (TypeError, KeyError, then the setter)
      manager.molecule_correspondence[k].end = m → `setEnd`     (the documented manual attach, and what
                                                                 `_cli.auto_map` does; KeyError of the dict)
      Manager.complete_correspondence           → `completeOf`
      Alignment.init_exchange_map               → `initExchangeMap`
      Manager.calculate_exchange_maps(scale)    → `calcMaps`
      Manager.align_molecules (keys only)       → `alignTargets` (which species are aligned, KeyError
                                                                 for an option key that is not complete;
                                                                 the option VALUES are C10, `GMModel.Routing`)
      Manager.extrapolate_system — pre-flight   → `preflight`   (lines 127-138, in the code's order)
                                 — the run      → `runLoop`     (only its effect on the TABLE and its
                                                                 exception class; the records written are
                                                                 `Mgr.extrapolate`, C05)

  Why the run is here at all: `ExchangeMap.__call__` ends with `new_mol.resids = refmolecule.resids`,
  and `Molecule.resids=` writes `atom.top_resid`, i.e. the `resid` of the `MoleculeTop` the result
  SHARES with the map's target, with the `Alignment`'s end molecule and with the molecule the caller
  passed to `add_end_molecule` (`Molecule.copy` keeps the topology object).  `Atom.__eq__` compares
  `top_resid`, so after a successful extrapolation the table no longer `==` a freshly loaded molecule
  of the same species: re-attaching it raises `ValueError`.  A molecule therefore carries the
  identity of its topology object (`Mol.top`) and a run rewrites `topResid` in every molecule of the
  table with that identity (`rewriteTable`).

  Outside the model (assumptions, see `tools/manifest/C05.json`): `ExchangeMap(start, end, scale)`
  itself does not raise (C01–C04's domain: connected start molecules); the species test of
  `ExchangeMap.__call__` passes for the molecules the `System` hands out (they share the start's
  topology object); alignment moves coordinates only (C06), which the table does not contain.

  Mathlib-free; everything total and computable; errors are values.
-/

namespace MgrSM

open Mgr (PyErr velOk)

/-- what `Atom.__eq__` looks at: `resname`, `name`, `index`, `top_resid` -/
structure AtomSig where
  resname : String
  name : String
  index : Int
  topResid : Int
  deriving DecidableEq, Repr, Inhabited

/-- a `Molecule` as far as the `Manager` is concerned.
    `top`  : identity of its `MoleculeTop` object (shared by `copy()`),
    `inst` : which coordinate set it carries (a label chosen by the caller; copies keep it) — never
             compared by the code,
    `hasVel` : its atoms carry velocities (decides the line length handed to `writeline`),
    `residues` : the atoms, residue by residue (`for atom in mol` order; `_each_atom_resid`). -/
structure Mol where
  name : String
  top : Nat
  inst : Nat
  hasVel : Bool
  residues : List (List AtomSig)
  deriving DecidableEq, Repr, Inhabited

/-- `for atom in mol` -/
def Mol.atoms (m : Mol) : List AtomSig := m.residues.flatten

/-- `Atom.__eq__` (`_components.py:166-177`) -/
def atomEq (a b : AtomSig) : Bool :=
  a.resname == b.resname && a.name == b.name && a.index == b.index && a.topResid == b.topResid

/-- ```
    for at1, at2 in zip(self, molecule):
        if at1 != at2: return False
    return True
    ``` -/
def zipAtomsEq : List AtomSig → List AtomSig → Bool
  | a :: as, b :: bs => if !atomEq a b then false else zipAtomsEq as bs
  | _, _ => true

/-- `Molecule.__eq__(self, molecule)` (`_components.py:243-252`) for a `Molecule` argument -/
def molEq (self molecule : Mol) : Bool :=
  if molecule.name == self.name && molecule.atoms.length == self.atoms.length then
    zipAtomsEq self.atoms molecule.atoms
  else false

/-- the value handed to `add_end_molecule` / assigned to `Alignment.end` -/
inductive Arg where
  /-- Python `None` -/
  | none
  /-- any object that is not a `Molecule` (a `str`, a `MoleculeTop`, a `Residue`, …) -/
  | notMol
  | mol (m : Mol)
  deriving DecidableEq, Repr, Inhabited

/-- an `ExchangeMap` object: the two molecule OBJECTS it was built from (`self._refmolecule`,
    `self._targetmolecule` — references, not copies) and `scale_factor` -/
structure MapRec (S : Type) where
  ref : Mol
  target : Mol
  scale : S
  deriving DecidableEq, Repr

/-- an `Alignment` object: `_start`, `_end`, `exchange_map` -/
structure Entry (S : Type) where
  start : Option Mol
  end_ : Option Mol
  map : Option (MapRec S)
  deriving DecidableEq, Repr

/-- `Manager.molecule_correspondence`: a `dict` in insertion order -/
abbrev Table (S : Type) := List (String × Entry S)

/-- the `Manager`: its table and (constant) the molecules `for mol in self.system` yields, as
    `(mol.name, mol.resids)` in file order -/
structure State (S : Type) where
  table : Table S
  sys : List (String × List Int)
  deriving DecidableEq, Repr

variable {S : Type}

/-! ### the dictionary -/

/-- `d[k] = v` for a key that is present: the value is replaced in place (order kept) -/
def Table.set (t : Table S) (k : String) (v : Entry S) : Table S :=
  t.map (fun p => if p.1 == k then (p.1, v) else p)

/-- `d[k] = v` -/
def Table.insert (t : Table S) (k : String) (v : Entry S) : Table S :=
  if (t.lookup k).isSome then t.set k v else t ++ [(k, v)]

/-- `Alignment(start = mol)`: the `start` setter finds `_end is None` and stores `molecule.copy()`;
    `end = None`; `exchange_map = None` -/
def newAlignment (mol : Mol) : Entry S := ⟨some mol, none, none⟩

/-- `Manager.__init__`:
    `{mol.name: Alignment(start = mol) for mol in self.system.different_molecules}` -/
def initTable (mols : List Mol) : Table S :=
  mols.foldl (fun t m => t.insert m.name (newAlignment m)) []

def init (mols : List Mol) (sys : List (String × List Int)) : State S := ⟨initTable mols, sys⟩

/-! ### attaching an end molecule -/

/-- the `Alignment.end` setter (`_alignment.py:132-148`):
    ```
    if molecule is None: self._end = None; return
    if not isinstance(molecule, Molecule): raise TypeError
    if (self._start is None) or (self._end is None): self._end = molecule.copy()
    else:
        if molecule == self._end: self._end = molecule.copy()
        else: raise ValueError
    ```
    Note what is NOT checked: the first end molecule is accepted whatever it is (it is never compared
    with `start`); `exchange_map` is left as it is. -/
def setEndEntry (e : Entry S) : Arg → Except PyErr (Entry S)
  | .none => .ok { e with end_ := none }
  | .notMol => .error .TypeError
  | .mol m =>
    match e.start, e.end_ with
    | some _, some cur =>
      if molEq m cur then .ok { e with end_ := some m } else .error .ValueError
    | _, _ => .ok { e with end_ := some m }

/-- `self.molecule_correspondence[key].end = arg` : `KeyError` of the dict, then the setter -/
def setEnd (t : Table S) (key : String) (a : Arg) : Except PyErr (Table S) :=
  match t.lookup key with
  | none => .error .KeyError
  | some e =>
    match setEndEntry e a with
    | .error err => .error err
    | .ok e' => .ok (t.set key e')

/-- `Manager.add_end_molecule(molecule)`:
    ```
    if not isinstance(molecule, Molecule): raise TypeError
    name = molecule.name
    if name not in self.molecule_correspondence: raise KeyError
    self.molecule_correspondence[name].end = molecule
    ``` -/
def addEnd (t : Table S) : Arg → Except PyErr (Table S)
  | .mol m => setEnd t m.name (.mol m)
  | _ => .error .TypeError

/-- `Manager.add_end_molecules(*molecules)`: `for mol in molecules: self.add_end_molecule(mol)` — the
    molecules before the failing one stay attached, so the result is a PAIR -/
def addEnds (t : Table S) : List Arg → Table S × Option PyErr
  | [] => (t, none)
  | a :: rest =>
    match addEnd t a with
    | .error e => (t, some e)
    | .ok t' => addEnds t' rest

/-! ### complete species, maps, alignment keys -/

/-- `(ali.end is not None) and (ali.start is not None)` -/
def isComplete (e : Entry S) : Bool := e.end_.isSome && e.start.isSome

/-- `Manager.complete_correspondence` -/
def completeOf (t : Table S) : Table S := t.filter (fun p => isComplete p.2)

/-- `Alignment.init_exchange_map(scale_factor)`:
    ```
    if self.start is None or self.end is None: raise ValueError
    self.exchange_map = ExchangeMap(self.start, self.end, scale_factor)
    ``` -/
def initExchangeMap (s : S) (e : Entry S) : Except PyErr (Entry S) :=
  match e.start, e.end_ with
  | some st, some en => .ok { e with map := some ⟨st, en, s⟩ }
  | _, _ => .error .ValueError

/-- `Manager.calculate_exchange_maps(scale_factor)`:
    `for name in complete_correspondence: complete_correspondence[name].init_exchange_map(scale)`.
    The `Alignment` objects of `complete_correspondence` ARE those of `molecule_correspondence`, so
    the loop is a pass over the table in dict order that touches the complete entries. -/
def calcMaps (s : S) : Table S → Except PyErr (Table S)
  | [] => .ok []
  | (k, e) :: rest =>
    if isComplete e then
      match initExchangeMap s e with
      | .error err => .error err
      | .ok e' =>
        match calcMaps s rest with
        | .error err => .error err
        | .ok r => .ok ((k, e') :: r)
    else
      match calcMaps s rest with
      | .error err => .error err
      | .ok r => .ok ((k, e) :: r)

/-- `Manager.align_molecules(restrictions = {k: None …}, deformation_types = {…}, ignore_hydrogens = {…})`
    as far as the species table is concerned: every key of the three option dictionaries must be a
    complete species (`KeyError` otherwise, raised by `parse_restrictions` / `_parse_deformations` /
    `_parse_ignore_hydrogens` before anything is aligned); then `Alignment.align_molecules` runs for
    every complete species in dict order.  Returns the species aligned. -/
def alignTargets (t : Table S) (keys : List String) : Except PyErr (List String) :=
  let names := (completeOf t).map (·.1)
  if keys.all (fun k => names.contains k) then .ok names else .error .KeyError

/-! ### `extrapolate_system` -/

/-- lines 127-138 of `_manager.py`, in the code's order:
    nothing complete → `SystemError`; a complete species without map → `SystemError`;
    `open_coordinate_file(fgro_out, 'w')` with an unregistered extension → `ValueError`. -/
def preflight (t : Table S) (extOk : Bool) : Option PyErr :=
  let complete := completeOf t
  if complete.isEmpty then some .SystemError
  else if complete.any (fun p => p.2.map.isNone) then some .SystemError
  else if !extOk then some .ValueError
  else none

/-- `atom.top_resid = new_resids[res_index]` over `zip(self, self._each_atom_resid)` -/
def setResids : List Int → List (List AtomSig) → List (List AtomSig)
  | r :: rs, res :: rest => res.map (fun a => { a with topResid := r }) :: setResids rs rest
  | _, rest => rest

/-- the effect of `new_mol.resids = resids` (on a copy of the molecule whose topology object is
    `top`) on a molecule of the table: only a molecule sharing that topology object sees it -/
def rewriteMol (top : Nat) (resids : List Int) (m : Mol) : Mol :=
  if m.top == top then { m with residues := setResids resids m.residues } else m

def rewriteMap (top : Nat) (resids : List Int) (m : MapRec S) : MapRec S :=
  { m with ref := rewriteMol top resids m.ref, target := rewriteMol top resids m.target }

def rewriteEntry (top : Nat) (resids : List Int) (e : Entry S) : Entry S :=
  ⟨e.start.map (rewriteMol top resids), e.end_.map (rewriteMol top resids),
   e.map.map (rewriteMap top resids)⟩

def rewriteTable (top : Nat) (resids : List Int) (t : Table S) : Table S :=
  t.map (fun p => (p.1, rewriteEntry top resids p.2))

/-- the `with` block of `extrapolate_system` as far as the table and the exception class go
    (`complete` is the dictionary computed BEFORE the loop; `vel` is the velocity flag the writer
    fixed at its first line):
    ```
    for mol in self.system:
        if mol.name not in complete_correspondence: continue
        new_mol = complete_correspondence[name].exchange_map(mol)
              # __call__: new_mol = self._restore_molecule(); new_mol.resids = mol.resids
              #           (IndexError on [], ValueError on a different number of residues,
              #            else the shared topology's resid fields are overwritten)
        for atom in new_mol: fgro.writeline(...)    # IOError: velocities unlike the first line
    ``` -/
def runLoop (complete : Table S) : Table S → Option Bool → List (String × List Int) →
    Table S × Option PyErr
  | t, _, [] => (t, none)
  | t, vel, (name, resids) :: rest =>
    match complete.lookup name with
    | none => runLoop complete t vel rest
    | some e =>
      match e.map with
      | none => (t, some .TypeError)            -- `None(mol)`; excluded by the pre-flight
      | some m =>
        if resids.isEmpty then (t, some .IndexError)
        else if resids.length != m.target.residues.length then (t, some .ValueError)
        else
          let t' := rewriteTable m.target.top resids t
          if m.target.atoms.isEmpty then runLoop complete t' vel rest
          else if velOk vel m.target.hasVel then runLoop complete t' (some m.target.hasVel) rest
          else (t', some .IOError)

/-- `Manager.extrapolate_system(fgro_out)`: new state and exception class -/
def extrapolate (st : State S) (extOk : Bool) : State S × Option PyErr :=
  match preflight st.table extOk with
  | some e => (st, some e)
  | none =>
    let r := runLoop (completeOf st.table) st.table none st.sys
    ({ st with table := r.1 }, r.2)

/-! ### the state machine -/

inductive Op (S : Type) where
  | addEnd (a : Arg)
  | setEnd (key : String) (a : Arg)
  | calcMaps (scale : S)
  | align (keys : List String)
  | extrapolate (extOk : Bool)
  deriving DecidableEq, Repr

/-- one API call: successor state and the exception class that escaped (`none` = returned) -/
def step (st : State S) : Op S → State S × Option PyErr
  | .addEnd a =>
    match addEnd st.table a with
    | .ok t => ({ st with table := t }, none)
    | .error e => (st, some e)
  | .setEnd k a =>
    match setEnd st.table k a with
    | .ok t => ({ st with table := t }, none)
    | .error e => (st, some e)
  | .calcMaps s =>
    match calcMaps s st.table with
    | .ok t => ({ st with table := t }, none)
    | .error e => (st, some e)
  | .align keys =>
    match alignTargets st.table keys with
    | .ok _ => (st, none)
    | .error e => (st, some e)
  | .extrapolate extOk => extrapolate st extOk

/-- the state after a history of calls (exceptions are caught by the caller and the session goes on) -/
def runOps (st : State S) (ops : List (Op S)) : State S :=
  ops.foldl (fun s o => (step s o).1) st

/-- the history as the harness observes it: after every call the exception class and the state -/
def trace (st : State S) : List (Op S) → List (Option PyErr × State S)
  | [] => []
  | o :: rest => let r := step st o; (r.2, r.1) :: trace r.1 rest

/-- `Op.calcMaps _` -/
def Op.isCalc : Op S → Bool
  | .calcMaps _ => true
  | _ => false

/-- an assignment of `None` to an `end` attribute (only possible by direct attribute access) -/
def Op.isReset : Op S → Bool
  | .setEnd _ .none => true
  | _ => false

/-! ### the view `GMModel.Manager` takes of the table -/

/-- the `Corr` table of `Mgr.extrapolate` (presence flags + the map objects, interpreted by `interp`) -/
def toCorr {C P : Type} (interp : MapRec S → Mgr.EMap C P) (t : Table S) : Mgr.Corr C P :=
  t.map (fun p => (p.1, ⟨p.2.start.isSome, p.2.end_.isSome, p.2.map.map interp⟩))

/-- the view of a map object that decides the exception class of a run: the species test of
    `ExchangeMap.__call__` passes (the molecules a `System` hands out share the start's topology),
    and `_restore_molecule()` returns the target's residues (coordinates abstracted away) -/
def targetMap (m : MapRec S) : Mgr.EMap Unit Unit :=
  ⟨fun _ => true,
   fun _ => m.target.residues.map (·.map (fun a => ⟨a.resname, a.name, a.index, m.target.hasVel, ()⟩))⟩

/-- a molecule of `for mol in self.system` as `Mgr.extrapolate` takes it -/
def toInst (x : String × List Int) : Mgr.MolInst Unit := ⟨x.1, x.2, ()⟩

end MgrSM
