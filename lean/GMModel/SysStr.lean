import GMModel.SystemRec
/-
  GMModel.SysStr — the rest of the public API of `SystemGro` (C12) and `System` (C11)
  (`gaddlemaps/components/_system.py`, work package WPI):

    * `SystemGro.__str__` (234-238), `System.__str__` (64-70)          → `compositionStr`, `SG.str`, `Sys.str`
    * `__getitem__` with an index that is neither `int` nor `slice` (110, 279: `TypeError`)
                                                                        → `Index`, `getItem`, `Sys.getItem`
    * the shared `GroFile` handle poked from outside between accesses
      (`seek_atom(k)` incl. `k > natoms`, `next()`, `readline(parsed=False)`) → `XOp.pokeSeek / pokeNext / pokeRaw`

  `xstep` / `xrun` = the operations of `SGro.step` + these; `Sys.accessX` = `Sys.access` + these.  Mathlib-free.
-/

namespace SGro

/-! ### `__str__` -/

/-- the order `sorted(composition.items())` puts the items in: tuples compare by their first component — the
    name, a Python `str`, i.e. lexicographically by code point; names are the keys of a `Counter`, hence pairwise
    distinct, so the second component never decides -/
def itemLe (a b : Str × Nat) : Bool := decide (a.1 ≤ b.1)

/-- insertion into a sorted list (before the first item that is not smaller) -/
def insertItem (p : Str × Nat) : List (Str × Nat) → List (Str × Nat)
  | [] => [p]
  | q :: rest => if itemLe p q then p :: q :: rest else q :: insertItem p rest

/-- `sorted(items)` (insertion sort: on pairwise distinct names every correct sorting algorithm returns the same
    list, `C12.sorted_items_spec`) -/
def sortedItems (c : List (Str × Nat)) : List (Str × Nat) := c.foldr insertItem []

/-- `"{:6}: {}".format(k, v)`: the name left-aligned in at least six columns (never cut), `": "`, the count -/
def fmtItem (p : Str × Nat) : Str :=
  p.1 ++ List.replicate (6 - p.1.length) ' ' ++ [':', ' '] ++ Nat.toDigits 10 p.2

/-- `'\n'.join(lines)` -/
def joinNl : List Str → Str
  | [] => []
  | [x] => x
  | x :: y :: rest => x ++ '\n' :: joinNl (y :: rest)

def strHeader : Str := "Simulation system with:\n\n".toList

/-- `'Simulation system with:\n\n' + '\n'.join("{:6}: {}".format(k, v) for k, v in sorted(composition.items()))` -/
def compositionStr (c : List (Str × Nat)) : Str := strHeader ++ joinNl ((sortedItems c).map fmtItem)

/-- `str(SystemGro)` / `repr(SystemGro)` -/
def SG.str (sg : SG) : Except PyErr Str :=
  match sg.composition with
  | .error e => .error e
  | .ok c => .ok (compositionStr c)

/-! ### `__getitem__` with any index -/

/-- the argument of `__getitem__`: an `int` (also `True` / `False`), a `slice`, or anything else (a numpy
    integer, a float, a str, a tuple, `None` …) -/
inductive Index
  | int (i : Int)
  | slice (a b s : Option Int)
  | other
  deriving Repr

/-- `SystemGro.__getitem__(index)`: the `TypeError` of line 279 is raised inside the `try` whose only handler
    is `except StopIteration`; nothing has been touched -/
def getItem (f : GroRd) (sg : SG) (c : Cursor) : Index → Except PyErr (List Residue) × Cursor
  | .int i => let r := getInt f sg c i; (r.1.map (fun x => [x]), r.2)
  | .slice a b s => getSlice f sg c a b s
  | .other => (.error .TypeError, c)

/-! ### the extended operation language -/

inductive XOp
  | base (op : Op)
  /-- `view[x]`, `x` neither int nor slice -/
  | getOther
  /-- `str(view)` -/
  | str
  /-- `view._open_fgro.seek_atom(k)` — the shared handle moved from outside -/
  | pokeSeek (k : Nat)
  /-- `next(view._open_fgro)` -/
  | pokeNext
  /-- `view._open_fgro.readline(parsed=False)`: one raw line is consumed, `_current_atom` stays -/
  | pokeRaw
  deriving Repr

inductive XVal
  | residues (l : List Residue)
  | text (s : Str)
  | atom (a : AtomRec)
  | unit
  deriving Repr

abbrev XRes := Except PyErr XVal

/-- `readline(parsed=False)`: the OS cursor moves over one line (there are `natoms + 1` lines after the header:
    the atoms and the box line), `_current_atom` is not touched -/
def rawLine (f : GroRd) (c : Cursor) : Cursor :=
  { c with pos := if c.pos ≤ f.natoms then c.pos + 1 else c.pos }

def xstep (f : GroRd) (sg : SG) (st : St) : XOp → XRes × St
  | .base op => let r := step f sg st op; (r.1.map XVal.residues, r.2)
  | .getOther => let r := getItem f sg st.cur .other; (r.1.map XVal.residues, { st with cur := r.2 })
  | .str => ((sg.str).map XVal.text, st)
  | .pokeSeek k => let r := seekAtom f st.cur k; (r.1.map (fun _ => XVal.unit), { st with cur := r.2 })
  | .pokeNext => let r := next f st.cur; (r.1.map XVal.atom, { st with cur := r.2 })
  | .pokeRaw => (.ok .unit, { st with cur := rawLine f st.cur })

def xrun (f : GroRd) (sg : SG) : St → List XOp → List XRes × St
  | st, [] => ([], st)
  | st, op :: ops =>
    let (r, st1) := xstep f sg st op
    let (rs, st2) := xrun f sg st1 ops
    (r :: rs, st2)

/-- the base operations of an extended sequence, in order -/
def baseOps : List XOp → List Op
  | [] => []
  | .base op :: rest => op :: baseOps rest
  | _ :: rest => baseOps rest

/-- the results at the positions of the base operations -/
def baseResults : List XOp → List XRes → List XRes
  | .base _ :: xs, r :: rs => r :: baseResults xs rs
  | _ :: xs, _ :: rs => baseResults xs rs
  | _, _ => []

end SGro

namespace SRec
open SGro

/-- `str(System)`: `'Simulation system with no loaded molecules.'` while the composition is empty -/
def Sys.str (s : Sys) : Except PyErr Str :=
  match s.composition with
  | .error e => .error e
  | .ok [] => .ok "Simulation system with no loaded molecules.".toList
  | .ok c => .ok (compositionStr c)

inductive SXOp
  | base (op : SOp)
  /-- `system[x]`, `x` neither int nor slice: `TypeError` (line 110), nothing touched -/
  | getOther
  | str
  deriving Repr

inductive SXVal
  | mols (l : List (Nat × Mol))
  | text (s : Str)
  deriving Repr

def Sys.accessX (s : Sys) : SXOp → Except PyErr SXVal × Sys
  | .base op => let r := s.access op; (r.1.map SXVal.mols, r.2)
  | .getOther => (.error .TypeError, s)
  | .str => (s.str.map SXVal.text, s)

end SRec
