import GMModel.Itp
/-
  GMModel.ItpTyped — the rest of `gaddlemaps/parsers/_itp_parse.py` and the dispatch of
  `read_topology` (`_top_parsers.py` 195-207):

    * the typed line classes with their `_fields` VALUES (`GMModel.Itp` only validates them):
      `ItpLineAtom._init_fields`, every getter, the four setters (`charge`, `mass`,
      `pair_interaction`, `aux_name`), `parsed_line`, `read_itp_atom`;
      `ItpLineBonds._init_fields`, `atom_from` / `atom_to` / `funct`, `__getattr__('const<N>')`;
      `ItpLineMoleculetype.__init__`, `name` / `nrexcl` getters and VALIDATING setters;
      `ItpLine.content` / `.comment` setters, `.line`;
    * `ItpSection(name, lines)`, `append`, `__str__`, `__repr__`, `section_name`, `lines`, the
      list part; `ItpFile.__init__` on an open file object, `__str__`, `__repr__`, `write`;
    * `read_topology(ftop, file_format)`: base name, extension, parser table, `ValueError`.

  NOTE (the code as it is): no typed setter touches `_content`. `ItpLine.line` — and therefore
  `ItpSection.__str__` and `ItpFile.write` — is a function of `_content`, `_comment` and the
  directive flag only, so an edit made through `charge=`, `mass=`, `name=`, `nrexcl=` … is NOT
  carried by a written file; conversely `content=` changes what is written but does not re-run
  `_init_fields`, so the typed getters keep answering from the old tokens.
-/

namespace ItpT
open Itp

/-! ### Python values that travel through the typed API -/

inductive Val
  | int (i : Int)
  | str (s : Str)
  | flt (f : PyFloat)
  | none
  | bool (b : Bool)          -- `isinstance(True, int)` holds: see `nrexcl`
  | other                    -- any other object (opaque)
deriving DecidableEq, Repr, Inhabited

/-- what a getter returns: one value, or a list of values (`parsed_line`) -/
inductive Res
  | one (v : Val)
  | many (l : List Val)
deriving DecidableEq, Repr, Inhabited

/-! ### `ItpLineAtom` -/

/-- the `_fields` dict: insertion-ordered association list (a later `set` of an existing key
    replaces the value in place, as a Python dict does) -/
abbrev Dict := List (String × Val)

def Dict.get (d : Dict) (k : String) : Except PyErr Val :=
  match d.find? (·.1 == k) with
  | some kv => .ok kv.2
  | none => .error .KeyError

def Dict.has (d : Dict) (k : String) : Bool := d.any (·.1 == k)

def Dict.set (d : Dict) (k : String) (v : Val) : Dict :=
  if d.has k then d.map (fun kv => if kv.1 == k then (k, v) else kv) else d ++ [(k, v)]

def intField (p : List Str) (i : Nat) : Except PyErr Int :=
  match p[i]? with
  | none => .error .IndexError
  | some t => match pyInt t with
    | some v => .ok v
    | none => .error .ValueError

def strField (p : List Str) (i : Nat) : Except PyErr Str :=
  match p[i]? with
  | none => .error .IndexError
  | some t => .ok t

/-- `try: float(p[i]) except IndexError: None` -/
def optFloatField (p : List Str) (i : Nat) : Except PyErr Val :=
  match p[i]? with
  | none => .ok .none
  | some t => match pyFloat t with
    | some f => .ok (.flt f)
    | none => .error .ValueError

def extraFields (i : Nat) : List Str → Dict
  | [] => []
  | t :: ts => (s!"extra{i}", Val.str t) :: extraFields (i + 1) ts

/-- `ItpLineAtom._init_fields` on `parsed_content = self.content.split()` -/
def initAtomFields (p : List Str) : Except PyErr Dict := do
  let nr ← intField p 0
  let ty ← strField p 1
  let resid ← intField p 2
  let resname ← strField p 3
  let name ← strField p 4
  let cgnr ← intField p 5
  let charge ← optFloatField p 6
  let mass ← optFloatField p 7
  pure ([("nr", .int nr), ("type", .str ty), ("resid", .int resid), ("resname", .str resname),
         ("name", .str name), ("cgnr", .int cgnr), ("charge", charge), ("mass", mass)]
        ++ extraFields 0 (p.drop 8))

/-! ### `ItpLineBonds` -/

structure BondFields where
  ai : Int
  aj : Int
  funct : Int
  const : List Val           -- `float(tok)` where it parses, else the token itself
deriving DecidableEq, Repr, Inhabited

def constVal (t : Str) : Val :=
  match pyFloat t with
  | some f => .flt f
  | none => .str t

/-- `ItpLineBonds._init_fields` on `fields = self.content.split()` -/
def initBondFields (f : List Str) : Except PyErr BondFields := do
  if f.length < 2 then throw .OSError
  let ai ← intField f 0
  let aj ← intField f 1
  let funct ← match f[2]? with
    | none => pure 1
    | some t => match pyInt t with
      | some v => pure v
      | none => throw .ValueError
  pure ⟨ai, aj, funct, (f.drop 3).map constVal⟩

/-- `l[i]` for a Python int index -/
def pyIndex {α : Type} (l : List α) (i : Int) : Option α :=
  let j : Int := if i < 0 then i + l.length else i
  if j < 0 then none else l[j.toNat]?

/-! ### line objects -/

/-- the subclass part of a line object -/
inductive Typed
  | plain
  | atom (fields : Dict)                     -- `{}` for a line without content
  | bonds (fields : Option BondFields)       -- `none` = `{}`
  | mt (name : Val) (nrexcl : Val)           -- `_name`, `_nrexcl` (`None` without content)
deriving DecidableEq, Repr, Inhabited

/-- a line object: the `ItpLine` part, the subclass part, and whether the object was ALSO put in
    the list part of its `ItpSection` (decided once, in `append`, from the content it had then) -/
structure TLine where
  base : ItpLine
  typed : Typed
  listed : Bool
deriving DecidableEq, Repr, Inhabited

/-- `ItpLineMoleculetype.name = new_name` -/
def mtSetName (v : Val) : Except PyErr Val :=
  match v with
  | .str s => if s.contains ' ' then .error .ValueError else .ok (.str s)
  | _ => .error .TypeError

/-- `ItpLineMoleculetype.nrexcl = new_val` (`bool` is an `int` for `isinstance`) -/
def mtSetNrexcl (v : Val) : Except PyErr Val :=
  match v with
  | .int i => if i < 1 then .error .ValueError else .ok (.int i)
  | .bool b => if !b then .error .ValueError else .ok (.bool b)
  | _ => .error .TypeError

/-- the subclass `__init__` after `ItpLine.__init__`, run on `self.content` (`c` = `_content`) -/
def initTyped (k : SecKind) (c : Str) : Except PyErr Typed :=
  match k with
  | .plain => pure .plain
  | .atoms => if isBlank c then pure (.atom []) else do
      let d ← initAtomFields (split c)
      pure (.atom d)
  | .bonds => if isBlank c then pure (.bonds none) else do
      let f ← initBondFields (split c)
      pure (.bonds (some f))
  | .mt => if isBlank c then pure (.mt .none .none) else do
      let parse := split c
      let n ← strField parse 0
      let n' ← mtSetName (.str n)
      let x ← intField parse 1
      let x' ← mtSetNrexcl (.int x)
      pure (.mt n' x')

/-- `ItpSection.parse_line(line, sec_name)` with the field values -/
def mkTLine (k : SecKind) (raw : Str) : Except PyErr TLine := do
  let (c, m) ← parseItpLine raw
  let t ← initTyped k c
  pure ⟨⟨c, m, raw.head? = some '#'⟩, t, !isBlank c⟩

/-! ### attribute access

Attribute names are Lean `String`s. `getAttr` covers every property of the four classes and the
`const<N>` names of `ItpLineBonds.__getattr__`; any other name is `AttributeError`. -/

def isConstName (n : String) : Bool := n.startsWith "const"

/-- `ItpLineBonds.__getattr__(const)` for a name starting with `const` -/
def bondConst (f : Option BondFields) (suffix : Str) : Except PyErr Val :=
  -- `suffix = const[5:]`; `num = int(suffix)` (ValueError → AttributeError), then
  -- `self._fields['const'][num]`
  match pyInt (strip suffix) with
  | none => .error .AttributeError
  | some num =>
    match f with
    | none => .error .KeyError               -- `self._fields['const']` on `{}`: not caught
    | some b =>
      match pyIndex b.const num with
      | some v => .ok v
      | none => .error .AttributeError       -- IndexError → AttributeError

def atomGet (d : Dict) (n : String) : Except PyErr Res :=
  match n with
  | "number" => (d.get "nr").map .one
  | "type" => (d.get "type").map .one
  | "resid" => (d.get "resid").map .one
  | "resname" => (d.get "resname").map .one
  | "name" => (d.get "name").map .one
  | "cgnr" => (d.get "cgnr").map .one
  | "charge" => (d.get "charge").map .one
  | "mass" => do
      let m ← d.get "mass"
      if m = .none then throw .AttributeError
      pure (.one m)
  | "pair_interaction" =>
      if !d.has "pair_interaction" then .error .AttributeError else (d.get "pair_interaction").map .one
  | "aux_name" =>
      if !d.has "aux_name" then .error .AttributeError else (d.get "aux_name").map .one
  | "parsed_line" => do
      let nr ← d.get "nr"
      let ty ← d.get "type"
      let resid ← d.get "resid"
      let resname ← d.get "resname"
      let name ← d.get "name"
      let cgnr ← d.get "cgnr"
      let charge ← d.get "charge"
      let m ← d.get "mass"
      pure (.many ([nr, ty, resid, resname, name, cgnr, charge] ++ (if m = .none then [] else [m])))
  | _ => .error .AttributeError

def TLine.getAttr (l : TLine) (n : String) : Except PyErr Res :=
  match n with
  | "content" => .ok (.one (.str l.base.contentS))
  | "comment" => .ok (.one (.str l.base.commentS))
  | "line" => .ok (.one (.str l.base.lineStr))
  | _ =>
    match l.typed with
    | .plain => .error .AttributeError
    | .atom d => atomGet d n
    | .bonds f =>
      match n with
      | "atom_from" => match f with | some b => .ok (.one (.int b.ai)) | none => .error .KeyError
      | "atom_to" => match f with | some b => .ok (.one (.int b.aj)) | none => .error .KeyError
      | "funct" => match f with | some b => .ok (.one (.int b.funct)) | none => .error .KeyError
      | _ => if isConstName n then (bondConst f (n.toList.drop 5)).map .one else .error .AttributeError
    | .mt name nrexcl =>
      match n with
      | "name" => .ok (.one name)
      | "nrexcl" => .ok (.one nrexcl)
      | _ => .error .AttributeError

/-- `setattr(line, n, v)` for the names that are properties of the object's class. A property
    without setter raises `AttributeError`. (Names that are not properties would create a new
    instance attribute: outside the model, `OutOfModel`.) -/
def TLine.setAttr (l : TLine) (n : String) (v : Val) : Except PyErr TLine :=
  match n with
  | "content" =>
    match v with
    | .str s => .ok { l with base := { l.base with content := s } }     -- (+ a warning)
    | _ => .error .OutOfModel
  | "comment" =>
    match v with
    | .str s => .ok { l with base := { l.base with comment := s } }
    | _ => .error .OutOfModel
  | "line" => .error .AttributeError
  | _ =>
    match l.typed with
    | .plain => .error .OutOfModel
    | .atom d =>
      match n with
      | "charge" => .ok { l with typed := .atom (d.set "charge" v) }
      | "mass" => .ok { l with typed := .atom (d.set "mass" v) }
      | "pair_interaction" => .ok { l with typed := .atom (d.set "pair_interaction" v) }
      | "aux_name" => .ok { l with typed := .atom (d.set "aux_name" v) }
      | "number" | "type" | "resid" | "resname" | "name" | "cgnr" | "parsed_line" =>
        .error .AttributeError
      | _ => .error .OutOfModel
    | .bonds _ =>
      match n with
      | "atom_from" | "atom_to" | "funct" => .error .AttributeError
      | _ => .error .OutOfModel
    | .mt name nrexcl =>
      match n with
      | "name" => do let x ← mtSetName v; pure { l with typed := .mt x nrexcl }
      | "nrexcl" => do let x ← mtSetNrexcl v; pure { l with typed := .mt name x }
      | _ => .error .OutOfModel

/-- `ItpLineAtom.read_itp_atom(line)`: `cls(line).parsed_line` -/
def readItpAtom (raw : Str) : Except PyErr Res := do
  let l ← mkTLine .atoms raw
  l.getAttr "parsed_line"

/-! ### `ItpSection` -/

structure TSection where
  name : Str
  lines : List TLine
deriving DecidableEq, Repr, Inhabited

/-- `ItpSection.append(new_line)` -/
def TSection.append (s : TSection) (raw : Str) : Except PyErr TSection := do
  let l ← mkTLine (secKind s.name) raw
  pure { s with lines := s.lines ++ [l] }

def appendAll (s : TSection) : List Str → Except PyErr TSection
  | [] => .ok s
  | r :: rs => do let s' ← s.append r; appendAll s' rs

/-- `ItpSection(section_name, lines)` -/
def mkSection (name : Str) (lines : List Str) : Except PyErr TSection := appendAll ⟨name, []⟩ lines

/-- the list part of the object (`len(sec)`, `for line in sec`) -/
def TSection.listPart (s : TSection) : List TLine := s.lines.filter (·.listed)

/-- forget the typed part -/
def TSection.erase (s : TSection) : ItpSection := ⟨s.name, s.lines.map (·.base)⟩

/-- `ItpSection.__str__` -/
def TSection.str (s : TSection) : Str := s.erase.str

/-- `ItpSection.__repr__`: `'Itp "{}" section.'` -/
def TSection.repr (s : TSection) : Str :=
  "Itp \"".toList ++ s.name ++ "\" section.".toList

/-! ### `ItpFile` -/

structure TFile where
  header : List Str
  secs : List TSection
deriving DecidableEq, Repr, Inhabited

def TFile.erase (f : TFile) : ItpFile := ⟨f.header, f.secs.map TSection.erase⟩

def hasSecT (secs : List TSection) (n : Str) : Bool := secs.any (·.name = n)

def appendToT (secs : List TSection) (n : Str) (l : TLine) : List TSection :=
  secs.map (fun s => if s.name = n then { s with lines := s.lines ++ [l] } else s)

structure TState where
  file : TFile
  cur : Option Str
deriving Repr, Inhabited

/-- one iteration of `for line in _file` (as `Itp.step`, with the field values) -/
def stepT (st : TState) (line : Str) : Except PyErr TState :=
  if !isHeaderLine line then
    match st.cur with
    | none => .ok { st with file := { st.file with header := st.file.header ++ [line] } }
    | some n => do
      let l ← mkTLine (secKind n) line
      pure { st with file := { st.file with secs := appendToT st.file.secs n l } }
  else
    match sectionName line with
    | none => .error .IndexError
    | some n =>
      if n = headerKey then .ok { st with cur := none }
      else if hasSecT st.file.secs n then .ok { st with cur := some n }
      else .ok { file := { st.file with secs := st.file.secs ++ [⟨n, []⟩] }, cur := some n }

def foldStepsT (st : TState) : List Str → Except PyErr TState
  | [] => .ok st
  | l :: ls => do let st' ← stepT st l; foldStepsT st' ls

/-- `ItpFile(f)` on the text the file object (or `open(path, encoding='utf-8')`) delivers -/
def parseT (text : Str) : Except PyErr TFile := do
  let st ← foldStepsT ⟨⟨[], []⟩, none⟩ (splitLines text)
  pure st.file

/-- `ItpFile.write` -/
def writeT (f : TFile) : Str := write f.erase

/-- `itp.write(g); itp = ItpFile(g)`: the written text is read back through the text layer of
    `open(g, encoding='utf-8')` (universal newlines; a file object opened with `newline='\n'`
    may have left carriage returns in the object, hence in `g`) -/
def rewriteT (f : TFile) : Except PyErr TFile := parseT (universalNl (writeT f))

/-- `ItpFile.copy()`: `ItpFile(self.fitp)` — the FILE named by `fitp` is read again, from its first
    line, through `open(path, encoding='utf-8')`; edits made to the object are not in the copy, and a
    file object's position / newline mode play no role. `backing` is what that `open` delivers. -/
def copyT (backing : Except PyErr Str) : Except PyErr TFile := do
  let t ← backing
  parseT t

/-- how the caller opened the file object handed to `ItpFile` / `read_topology` -/
inductive NlMode
  | universal     -- `open(path)` / `open(path, encoding='utf-8')`: `\r\n`, `\r` → `\n`
  | lf            -- `open(path, newline='\n')`: no translation, lines end at `\n` only
deriving DecidableEq, Repr

/-- the text an open file object yields from its current position: bytes → text in the object's
    newline mode, minus the `skip` lines the caller has already consumed with `readline()` -/
def fileObjText (mode : NlMode) (b : List UInt8) (skip : Nat) : Except PyErr Str :=
  if b.all (· < 128) then
    let raw := b.map (fun u => Char.ofNat u.toNat)
    let t := match mode with
      | .universal => universalNl raw
      | .lf => raw
    .ok ((splitLines t).drop skip).flatten
  else .error .OutOfModel

/-- `ItpFile.__str__`: the sorted keys (`'header'` is one of them) -/
def insertStr (x : Str) : List Str → List Str
  | [] => [x]
  | y :: ys => if x ≤ y then x :: y :: ys else y :: insertStr x ys

def sortStr (l : List Str) : List Str := l.foldr insertStr []

def TFile.str (f : TFile) : Str :=
  "Itp file with the following sections:\n".toList ++
  ['\n'].intercalate (sortStr (headerKey :: f.secs.map (·.name)))

/-- `ItpFile.__repr__`: `'"{}" itp file.\n'.format(self.fitp)` -/
def fileRepr (fitp : Str) : Str := '"' :: fitp ++ "\" itp file.\n".toList

/-! ### edits through the public API, then write -/

/-- `itp[sec]._lines[i]` -/
def TFile.lineAt (f : TFile) (sec : Str) (i : Nat) : Except PyErr TLine :=
  match f.secs.find? (·.name = sec) with
  | none => .error .KeyError
  | some s => match s.lines[i]? with
    | some l => .ok l
    | none => .error .IndexError

/-- replace line `i` of the section stored under the key `sec` (keys are unique in the dict) -/
def setLineIn : List TSection → Str → Nat → TLine → List TSection
  | [], _, _, _ => []
  | s :: ss, sec, i, l =>
    if s.name = sec then { s with lines := s.lines.set i l } :: ss else s :: setLineIn ss sec i l

def TFile.setLine (f : TFile) (sec : Str) (i : Nat) (l : TLine) : TFile :=
  { f with secs := setLineIn f.secs sec i l }

structure Edit where
  sec : Str
  idx : Nat
  attr : String
  val : Val
deriving Repr

/-- `setattr(itp[sec].lines[idx], attr, val)`; a raising edit leaves the object as it was -/
def TFile.edit (f : TFile) (e : Edit) : Except PyErr TFile := do
  let l ← f.lineAt e.sec e.idx
  let l' ← l.setAttr e.attr e.val
  pure (f.setLine e.sec e.idx l')

/-- apply the edits in order, skipping (and recording) those that raise -/
def TFile.edits (f : TFile) : List Edit → TFile × List (Option PyErr)
  | [] => (f, [])
  | e :: es =>
    match f.edit e with
    | .ok f' => let (g, r) := f'.edits es; (g, none :: r)
    | .error x => let (g, r) := f.edits es; (g, some x :: r)

/-! ### `read_topology(ftop, file_format)` dispatch -/

/-- `str.split(sep)[-1]` -/
def lastField (sep : Char) (s : Str) : Str :=
  (s.reverse.takeWhile (· ≠ sep)).reverse

/-- `os.path.basename(p)` (POSIX) -/
def basename (p : Str) : Str := lastField '/' p

/-- the parser table: `ItpParser.EXTENSIONS = ("itp", "ITP")` -/
def hasParser (ext : Str) : Bool := ext = ['i', 't', 'p'] || ext = ['I', 'T', 'P']

/-- `read_topology(ftop, file_format)`: `path` is `ftop` or `ftop.name`; `text` what the file
    (object) delivers. The extension test comes first: with an unknown extension the file is not
    even opened. -/
def readTopologyX (path : Str) (fileFormat : Option Str) (text : Except PyErr Str) :
    Except PyErr TopInfo :=
  let name := basename path
  let extension := match fileFormat with
    | none => lastField '.' name
    | some f => f
  if hasParser extension then do
    let t ← text
    readTopology t
  else .error .ValueError

end ItpT
