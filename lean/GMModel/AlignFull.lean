import GMModel.Align
import GMModel.Restr
/-
  GMModel.AlignFull — `Alignment.align_molecules` INCLUDING the `restrictions=None` path
  (`gaddlemaps/_alignment.py`, the block before the deformation default):

  ```
  if self.start is None or self.end is None: raise ValueError(...)
  if restrictions is None:
      restrictions = []
      if len(self.start.resnames) > 1 and auto_guess_protein_restrictions:
          try:
              restrictions = guess_protein_restrains(self.start, self.end)
          except IOError:
              raise IOError('Automatic restrictions can not be guessed. …')
  ```

  `guess_protein_restrains` (C10's model, `GMModel.Restr.guessProtein`) looks at a molecule only through its
  residue names and residue sizes: a molecule enters as its `ResLayout`.  Everything after the block is
  `alignMolecules` of `GMModel.Align` (C06's model) with the restraint list so obtained.
-/

/-- residue layout of a molecule: `(residue name, number of atoms)` per residue, in molecule order -/
abbrev ResLayout := List (String × Nat)

/-- the molecule as `guess_protein_restrains` sees it -/
def ResLayout.toRestr (l : ResLayout) : Restr.Mol Unit :=
  ⟨l.map (fun r => ⟨r.1.toList, List.replicate r.2 ⟨[], ()⟩⟩), true, true⟩

/-- `len(molecule)` -/
def ResLayout.size (l : ResLayout) : Nat := (l.map (·.2)).sum

/-- which of the re-raised `IOError`s: the message is part of the observable behaviour here (the `except`
    clause REPLACES the guesser's message) -/
inductive GuessErr where
  /-- "Automatic restrictions can not be guessed. Try to set auto_guess_protein_restrictions to False." -/
  | cannotGuess
deriving DecidableEq, Repr

/-- the `restrictions is None` block -/
def guessRestrictions (ls le : ResLayout) (autoGuess : Bool) : Except GuessErr (List (Int × Int)) :=
  if ls.length > 1 && autoGuess then
    match Restr.guessProtein ls.toRestr le.toRestr with
    | .ok r => .ok r
    | .error _ => .error .cannotGuess          -- `except IOError: raise IOError(...)`
  else .ok []

/-- the restraint list `align_molecules` goes on with -/
def effectiveRestrictions (restr : Option (List (Int × Int))) (ls le : ResLayout) (autoGuess : Bool) :
    Except GuessErr (List (Int × Int)) :=
  match restr with
  | some r => .ok r
  | none => guessRestrictions ls le autoGuess

section
variable {α : Type} [Scalar α]

/-- `align_molecules(restrictions, deformation_types, ignore_hydrogens, auto_guess_protein_restrictions)` up to
    the call of `minimize_molecules` -/
def alignPrepareG (stepsFactor : Nat) (start end_ : Mol α) (ls le : ResLayout)
    (restr : Option (List (Int × Int))) (deform : Option (List Int)) (ignoreH autoGuess : Bool) :
    Except AlignErr (Prepared α) :=
  match effectiveRestrictions restr ls le autoGuess with
  | .error _ => .error .ioError
  | .ok r => alignPrepare stepsFactor start end_ r deform ignoreH

/-- the whole call -/
def alignMoleculesG
    (chi2Of : List (V3 α) → Config α → List (Int × Int) → Config α → α)
    (moveOf : BondsInfo α → α → MoveFn α)
    (stepsFactor : Nat) (sigmaScale : α)
    (start end_ : Mol α) (ls le : ResLayout) (restr : Option (List (Int × Int)))
    (deform : Option (List Int)) (ignoreH autoGuess : Bool)
    (tape : Tape α) : Except AlignErr (Mol α × Mol α × Tape α) :=
  match effectiveRestrictions restr ls le autoGuess with
  | .error _ => .error .ioError
  | .ok r => alignMolecules chi2Of moveOf stepsFactor sigmaScale start end_ r deform ignoreH tape

end
