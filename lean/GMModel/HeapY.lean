import GMModel.HeapX
import GMModel.Comparative
/-
  GMModel.HeapY — the REST of the public API of the component classes on the heap model (C18, work
  package WPI).  A third layer on top of `GMModel.HeapOps` / `GMModel.HeapX`, both unchanged:

    * `Residue.write_gro(fout)` (`_residue.py` 324-336), inherited by `Molecule`
          → `writeGroObj`   (C13's writer session: `open_coordinate_file(fout, 'w')`, one
                             `writeline(atom.gro_line())` per atom, `close()` through `__exit__`)
    * `Residue.update_from_molecule_top(mtop)` (338-362), inherited by `Molecule`
          → `updateFromTop` (`updLoop`: `zip(self, mtop)`, `at_gro.name = at_itp.name`)
    * `Molecule.__setattr__` (`_components.py` 278-288) → `molRouteTable`, `molRoute`, `molSetAttr`
    * `Molecule.__getattribute__` / `__getattr__` (263-276) → `molGetAttr`
    * `Atom.__hash__` (140-141) → `atomHash`;  `Atom.__dir__` / `Molecule.__dir__` (143-150, 290-296)
          → `dirUnion` (set semantics: the names, without repetition)
    * `Molecule.index(atom)` (472-490) → `molIndex`

  `stepY` = the operations of `stepX` + these.  Python exception classes are `GMHeap.PyErr`.
  Mathlib-free.
-/

namespace GMHeap

variable {α : Type}

/-! ### `update_from_molecule_top`

```
def update_from_molecule_top(self, mtop):
    if len(mtop) != len(self):
        raise ValueError((f'The Residue with name {self.resname} '
                          f'missmatch the itp molecule {mtop.name}.'))
    for at_gro, at_itp in zip(self, mtop):
        at_gro.name = at_itp.name
```
`self` a Residue: `len(self)` = number of its AtomGro objects, the loop assigns the `name` attribute of the
AtomGro objects; the MESSAGE evaluates `self.resname` = `self[0].resname`, which raises `IndexError` for a
residue that lost all its atoms.
`self` a Molecule (the method is inherited): `len(self)` = `len(self._each_atom_resid)`; the message evaluates
`self.resname`, which `Molecule.__getattribute__` refuses with `AttributeError` — so a Molecule NEVER raises the
documented `ValueError`; iterating constructs `Atom(top, gro)` per atom (IOError when the labels disagree — after
the earlier atoms were written) and `atom.name = s` is routed by `Atom.__setattr__` to BOTH the AtomTop (of the
molecule's own, possibly shared, topology) and the AtomGro.  `at_itp.name` is read when its turn comes. -/

/-- the loop.  An element is `((AtomTop of self?, AtomGro of self), AtomTop of mtop)`; `zip` pulls from `self`
    first (its `Atom` is constructed), then from `mtop`. -/
def updLoop (check : Bool) (h : Heap α) : List ((Option Nat × Nat) × Nat) → Heap α × Option PyErr
  | [] => (h, none)
  | ((t?, g), t2) :: rest =>
    let w0 : W α := ⟨t?, g, id, none⟩
    match (if check then w0.checkErr h else none) with
    | some e => (h, some e)
    | none =>
      match h.top? t2 with
      | none => (h, some .internal)
      | some c2 =>
        let w : W α := ⟨t?, g, fun c => { c with name := c2.name },
          if check then some (fun c => { c with name := c2.name }) else none⟩
        updLoop check (w.write h) rest

/-- `env[i].update_from_molecule_top(mt)` for the MoleculeTop object at address `mt` -/
def updateFromTop (h : Heap α) (o : Obj) (mt : Nat) : Heap α × Option PyErr :=
  match h.mtop? mt with
  | none => (h, some .internal)
  | some (_, tops2) =>
    match o with
    | .res r =>
      match h.res? r with
      | none => (h, some .internal)
      | some gs =>
        if tops2.length ≠ gs.length then
          (h, some (if gs.isEmpty then .indexError else .valueError))
        else updLoop false h ((gs.map (fun g => ((none : Option Nat), g))).zip tops2)
    | .mol m =>
      match molView h m with
      | none => (h, some .internal)
      | some v =>
        if v.tops.length < v.gros.length then (h, some .internal)
        else if tops2.length ≠ v.each.length then (h, some .attributeError)
        else updLoop true h ((molPairs v).zip tops2)
    -- AtomGro and `Atom` (through `__getattr__`) have no such method
    | _ => (h, some .attributeError)

/-! ### `Molecule.__setattr__`: the routing table

The tests of lines 279-288, in order:
  1. `attr in ['resname', 'resid', 'residname', 'remove_atom']`  → AttributeError
  2. `attr in ['_molecule_top', '_residues']`                    → the molecule's own slot
  3. `attr in super().__dir__()`                                 → `object.__setattr__(mol, …)`
  4. `hasattr(self._molecule_top, attr)`                         → the MoleculeTop object
  5. else                                                         → `object.__setattr__(mol, …)`
-/

/-- the properties of `Molecule` that have a setter -/
inductive MolProp where
  | atomsPositions | atomsVelocities | atomsIds | resnames | resids
deriving DecidableEq, Repr

inductive MolRoute where
  /-- 1. -/
  | excluded
  /-- 2. `_molecule_top`, `_residues` -/
  | ownSlot
  /-- 3. `_each_atom_resid`: an instance attribute, listed by `object.__dir__` -/
  | ownState
  /-- 3. a property WITH a setter: the setter runs -/
  | ownProp (p : MolProp)
  /-- 3. a property without setter (`molecule_top`, `residues`, `atoms`, `bonds_distance`,
      `geometric_center`, `x`, `y`, `z`, `distance_to_zero`), `__weakref__`: AttributeError -/
  | ownReadOnly
  /-- 3. `__class__`, `__dict__`: TypeError for any value that is not a class / dict -/
  | ownTypeErr
  /-- 3. any other name of `object.__dir__(mol)` (methods, dunders, `__excluded__`): instance dict -/
  | ownDict
  /-- 4. `name`: the `name` attribute of the (possibly shared) MoleculeTop object -/
  | topName
  /-- 4. `ftop`: an attribute of the MoleculeTop object outside the cell model -/
  | topOther
  /-- 4. `resname_len_list`: a property of MoleculeTop without setter → AttributeError -/
  | topReadOnly
  /-- 5. brand-new name: the molecule's instance dict -/
  | fresh
deriving DecidableEq, Repr

/-- `object.__dir__(mol)` minus the names treated separately (CPython 3.12) -/
def molDirPlain : List String :=
  ["__add__", "__delattr__", "__dir__", "__doc__", "__eq__", "__excluded__", "__format__", "__ge__",
   "__getattr__", "__getattribute__", "__getitem__", "__getstate__", "__gt__", "__hash__", "__init__",
   "__init_subclass__", "__iter__", "__le__", "__len__", "__lt__", "__module__", "__ne__", "__new__",
   "__radd__", "__reduce__", "__reduce_ex__", "__repr__", "__setattr__", "__sizeof__", "__str__",
   "__subclasshook__", "copy", "deep_copy", "distance_to", "from_files", "index", "move", "move_to",
   "rotate", "update_from_molecule_top", "write_gro"]

/-- properties of `Molecule` / `Residue` without a setter -/
def molReadOnly : List String :=
  ["molecule_top", "residues", "atoms", "bonds_distance", "geometric_center", "x", "y", "z",
   "distance_to_zero", "__weakref__"]

/-- THE ROUTING TABLE of `Molecule.__setattr__` (names pairwise distinct).  The correspondence check
    recomputes every row from the real class on each run. -/
def molRouteTable : List (String × MolRoute) :=
  [("resname", .excluded), ("resid", .excluded), ("residname", .excluded), ("remove_atom", .excluded),
   ("_molecule_top", .ownSlot), ("_residues", .ownSlot), ("_each_atom_resid", .ownState),
   ("atoms_positions", .ownProp .atomsPositions), ("atoms_velocities", .ownProp .atomsVelocities),
   ("atoms_ids", .ownProp .atomsIds), ("resnames", .ownProp .resnames), ("resids", .ownProp .resids)] ++
  molReadOnly.map (fun n => (n, MolRoute.ownReadOnly)) ++
  [("__class__", .ownTypeErr), ("__dict__", .ownTypeErr)] ++
  molDirPlain.map (fun n => (n, MolRoute.ownDict)) ++
  [("name", .topName), ("ftop", .topOther), ("resname_len_list", .topReadOnly)]

def molRoute (attr : String) : MolRoute :=
  match molRouteTable.lookup attr with
  | some r => r
  | none => .fresh

def MolRoute.tag : MolRoute → String
  | .excluded => "excluded"
  | .ownSlot => "ownSlot"
  | .ownState => "ownState"
  | .ownProp .atomsPositions => "ownProp:atoms_positions"
  | .ownProp .atomsVelocities => "ownProp:atoms_velocities"
  | .ownProp .atomsIds => "ownProp:atoms_ids"
  | .ownProp .resnames => "ownProp:resnames"
  | .ownProp .resids => "ownProp:resids"
  | .ownReadOnly => "ownReadOnly"
  | .ownTypeErr => "ownTypeErr"
  | .ownDict => "ownDict"
  | .topName => "topName"
  | .topOther => "topOther"
  | .topReadOnly => "topReadOnly"
  | .fresh => "fresh"

/-- assignment to the `name` attribute of a MoleculeTop object -/
def Heap.setMtopName (h : Heap α) (t : Nat) (s : String) : Heap α :=
  match h.mtop? t with
  | some (_, l) => h.set t (.mtop s l)
  | none => h

section setattr
variable [Scalar α]

/-- a property setter reached through `setattr`, with the value it is handed.  The scalar values a test can
    send (`PyVal`) hit the setter's own checks: `new_positions.shape` on an int / str / None is an
    AttributeError, a vector has shape `(3,)` (ValueError); `len(int)` is a TypeError; `resnames` / `resids`
    accept a str / an int for all residues and refuse other types with TypeError. -/
def molPropSet (h : Heap α) (m : Nat) (p : MolProp) (v : PyVal α) : Heap α × Option PyErr :=
  let run (op : Op α) : Heap α × Option PyErr :=
    let r := stepBase h (.mol m) op
    (r.heap, r.err)
  match p, v with
  | .resids, .int n => run (.setResidsI 0 n)
  | .resids, .bool _ => (h, some .internal)          -- `isinstance(True, int)`: not generated
  | .resids, _ => (h, some .typeError)
  | .resnames, .str s => run (.setResnamesS 0 s)
  | .resnames, _ => (h, some .typeError)
  | .atomsVelocities, .none => run (.setVel 0 none)
  | .atomsVelocities, .vec _ => (h, some .valueError)
  | .atomsVelocities, .nats _ => (h, some .internal)
  | .atomsVelocities, .opaque => (h, some .internal)
  | .atomsVelocities, _ => (h, some .attributeError)
  | .atomsPositions, .vec _ => (h, some .valueError)
  | .atomsPositions, .nats _ => (h, some .internal)
  | .atomsPositions, .opaque => (h, some .internal)
  | .atomsPositions, _ => (h, some .attributeError)
  | .atomsIds, .int _ => (h, some .typeError)
  | .atomsIds, .none => (h, some .typeError)
  | .atomsIds, .bool _ => (h, some .typeError)
  | .atomsIds, _ => (h, some .internal)

/-- `setattr(mol, attr, v)` -/
def molSetAttr (h : Heap α) (m : Nat) (attr : String) (v : PyVal α) : Heap α × Option PyErr :=
  match molRoute attr with
  | .excluded => (h, some .attributeError)
  | .ownSlot => (h, some .internal)                  -- rebinding the object's parts: outside the cell model
  | .ownState => (h, some .internal)
  | .ownProp p => molPropSet h m p v
  | .ownReadOnly => (h, some .attributeError)
  | .ownTypeErr => (h, some .typeError)
  | .ownDict => (h, none)
  | .topName =>
    match h.mol? m, v with
    | some (t, _, _), .str s => (h.setMtopName t s, none)
    | _, _ => (h, some .internal)
  | .topOther => (h, some .internal)
  | .topReadOnly => (h, some .attributeError)
  | .fresh => (h, none)

end setattr

/-- properties of `Molecule` whose getter computes (they can raise on a molecule one of whose residues lost
    atoms): not answered by `molGetAttr` -/
def molComputed : List String :=
  ["atoms", "bonds_distance", "geometric_center", "x", "y", "z", "distance_to_zero", "atoms_positions",
   "atoms_velocities", "atoms_ids", "resnames", "resids", "resname_len_list"]

/-- `getattr(mol, attr)`: `Molecule.__getattribute__` refuses the four excluded names (AttributeError, after
    which Python calls `__getattr__`, which finds none of them on the MoleculeTop); ordinary lookup; then
    `Molecule.__getattr__`: the attributes of the MoleculeTop object (`name`, `ftop`, `resname_len_list`). -/
def molGetAttr (h : Heap α) (m : Nat) (attr : String) : Except PyErr (PyVal α) :=
  match h.mol? m with
  | none => .error .internal
  | some (t, _, _) =>
    match h.mtop? t with
    | none => .error .internal
    | some (name, _) =>
      if molExcluded attr then .error .attributeError
      else if molComputed.contains attr then .error .internal
      else if attr = "name" then .ok (.str name)
      else
        match molRoute attr with
        | .fresh => .error .attributeError
        | _ => .ok .opaque

/-! ### `Atom.__hash__`, `__dir__` -/

/-- `hash(atom)` = `hash(atom._atom_top)` = `AtomTop.__hash__` = `self.index`; the hash of a non-negative
    Python int `n` is `n mod (2^61 - 1)` -/
def atomHash (h : Heap α) (t : Nat) : Except PyErr Nat :=
  match h.top? t with
  | some c => .ok (c.index % (2 ^ 61 - 1))
  | none => .error .internal

/-- `list(set(a) | set(b) | set(c))`: the names of the three listings, each once (the ORDER of the result is
    not defined by the code) -/
def dirUnion (a b c : List String) : List String := (a ++ b ++ c).eraseDups

/-! ### `Molecule.index` -/

/-- `for index, self_atom in enumerate(self): if self_atom == atom: return index` then `ValueError`.
    Iterating constructs `Atom(top, gro)`; `Atom.__eq__` answers `False` to anything that is not an `Atom`. -/
def molIndexLoop (h : Heap α) (x : Obj) : List (Nat × Nat) → Nat → Except PyErr Nat
  | [], _ => .error .valueError
  | (t, g) :: rest, k =>
    match matchErr h t g with
    | some e => .error e
    | none =>
      match x with
      | .atom t2 g2 =>
        match atomEq h t g t2 g2 with
        | .error e => .error e
        | .ok true => .ok k
        | .ok false => molIndexLoop h x rest (k + 1)
      | _ => molIndexLoop h x rest (k + 1)

def molIndex (h : Heap α) (m : Nat) (x : Obj) : Except PyErr Nat :=
  match molView h m with
  | none => .error .internal
  | some v =>
    if v.tops.length < v.gros.length then .error .internal
    else molIndexLoop h x (v.tops.zip v.gros) 0

/-! ### `write_gro`

```
def write_gro(self, fout):
    with open_coordinate_file(fout, 'w') as fgro:
        for atom in self:
            fgro.writeline(atom.gro_line())
```
-/

/-- `for atom in residue: fgro.writeline(atom.gro_line())` — the atoms of a Residue are AtomGro objects -/
def writeGros (toDy : α → Option PyStr.Dy) (h : Heap α) :
    List Nat → Gro.WState → Gro.WState × Option PyErr
  | [], w => (w, none)
  | g :: rest, w =>
    match h.gro? g with
    | none => (w, some .internal)
    | some c =>
      match Cmp.groRec toDy c with
      | none => (w, some .internal)
      | some r =>
        match Gro.step w (.writeLine r) with
        | (w1, some e) => (w1, some (Cmp.ofGroErr e))
        | (w1, none) => writeGros toDy h rest w1

/-- outcome of `write_gro` -/
structure WGroResult where
  /-- the file opened for writing (created or truncated), if the method got that far -/
  file : Option String
  /-- its contents when the method returns or raises -/
  bytes : List Nat
  err : Option PyErr

/-- `__exit__`: `close()` also when the body raised (an exception of `close` then replaces the body's) -/
def closeAfter (r : Gro.WState × Option PyErr) : Gro.WState × Option PyErr :=
  match Gro.closeOp r.1 with
  | (w, some ce) => (w, some (Cmp.ofGroErr ce))
  | (w, none) => (w, r.2)

/-- `env[i].write_gro(fname)`.  The extension is tested before the file is opened. -/
def writeGroObj (toDy : α → Option PyStr.Dy) (h : Heap α) (o : Obj) (fname : String) : WGroResult :=
  match o with
  | .res r =>
    match h.res? r with
    | none => ⟨none, [], some .internal⟩
    | some gs =>
      if !Cmp.extOk fname then ⟨none, [], some .valueError⟩
      else
        let (w, e) := closeAfter (writeGros toDy h gs Gro.WState.init)
        ⟨some fname, w.bytes, e⟩
  | .mol m =>
    match molView h m with
    | none => ⟨none, [], some .internal⟩
    | some v =>
      if v.tops.length < v.gros.length then ⟨none, [], some .internal⟩
      else if !Cmp.extOk fname then ⟨none, [], some .valueError⟩
      else
        let (w, e) := closeAfter (Cmp.writeAtoms toDy h (v.tops.zip v.gros) Gro.WState.init)
        ⟨some fname, w.bytes, e⟩
  | _ => ⟨none, [], some .attributeError⟩

/-! ### ill-typed values for two setters -/

/-- `obj.atoms_ids = [x, …]` with `n` elements that are not `int`s (floats, strings): the length test comes first
    (`IndexError`), then `all(isinstance(i, int) …)` (`TypeError`); nothing is assigned.  The EMPTY list given to an
    object without atoms (a residue emptied by `remove_atom`) passes both tests — `all([])` — and assigns nothing.  `len(self)` of a Molecule
    is `len(self._each_atom_resid)`. -/
def setIdsNonInt (h : Heap α) (o : Obj) (n : Nat) : Option PyErr :=
  match o with
  | .res r =>
    match h.res? r with
    | some gs => if gs.length ≠ n then some .indexError else if n = 0 then none else some .typeError
    | none => some .internal
  | .mol m =>
    match molView h m with
    | some v => if v.each.length ≠ n then some .indexError else if n = 0 then none else some .typeError
    | none => some .internal
  | _ => some .internal

/-- `obj.resname = v` with `v` not a `str`: `TypeError` from the Residue setter; a Molecule refuses the name -/
def resnameNonStr (o : Obj) : Option PyErr :=
  match o with
  | .res _ => some .typeError
  | .mol _ => some .attributeError
  | _ => some .internal

/-! ### the operation language -/

inductive YOp (α : Type) where
  | x (op : XOp α)
  /-- `env[i].write_gro(fname)` -/
  | writeGro (i : Nat) (fname : String)
  /-- `env[i].update_from_molecule_top(env[j].molecule_top)` (`env[j]` a Molecule) -/
  | updateTop (i j : Nat)
  /-- `setattr(env[i], attr, v)` / `getattr(env[i], attr)` on a Molecule -/
  | molSetAttr (i : Nat) (attr : String) (v : PyVal α)
  | molGetAttr (i : Nat) (attr : String)
  /-- `env[i].index(env[j])` -/
  | index (i j : Nat)
  /-- `hash(env[i])` (an `Atom` view) -/
  | hash (i : Nat)
  /-- `env[i].atoms_ids = [1.5] * n` -/
  | setIdsNonInt (i n : Nat)
  /-- `env[i].resname = 7` -/
  | resnameNonStr (i : Nat)

structure YStepR (α : Type) where
  heap : Heap α
  ret : Option Obj
  err : Option PyErr
  val : Option (PyVal α)
  /-- the file `write_gro` opened and what it holds afterwards -/
  file : Option (String × List Nat)

def YStepR.ofX (r : XStepR α) : YStepR α := ⟨r.heap, r.ret, r.err, r.val, none⟩
def YStepR.fail (h : Heap α) (e : PyErr) : YStepR α := ⟨h, none, some e, none, none⟩

variable [Scalar α]

def stepY (toDy : α → Option PyStr.Dy) (h : Heap α) (env : List Obj) : YOp α → YStepR α
  | .x op => .ofX (stepX h env op)
  | .writeGro i fname =>
    match env[i]? with
    | none => .fail h .internal
    | some o =>
      let r := writeGroObj toDy h o fname
      ⟨h, none, r.err, none, r.file.map (fun f => (f, r.bytes))⟩
  | .updateTop i j =>
    match env[i]?, env[j]? with
    | some o, some (.mol mj) =>
      match h.mol? mj with
      | some (t, _, _) => let r := updateFromTop h o t; ⟨r.1, none, r.2, none, none⟩
      | none => .fail h .internal
    | _, _ => .fail h .internal
  | .molSetAttr i attr v =>
    match env[i]? with
    | some (.mol m) => let r := molSetAttr h m attr v; ⟨r.1, none, r.2, none, none⟩
    | _ => .fail h .internal
  | .molGetAttr i attr =>
    match env[i]? with
    | some (.mol m) =>
      match molGetAttr h m attr with
      | .ok v => ⟨h, none, none, some v, none⟩
      | .error e => .fail h e
    | _ => .fail h .internal
  | .index i j =>
    match env[i]?, env[j]? with
    | some (.mol m), some x =>
      match molIndex h m x with
      | .ok k => ⟨h, none, none, some (.int k), none⟩
      | .error e => .fail h e
    -- only `Molecule` (and its topology, through `__getattr__` of an `Atom`: no) has `index`
    | some (.res _), some _ => .fail h .attributeError
    | some (.agro _), some _ => .fail h .attributeError
    | some (.atom _ _), some _ => .fail h .internal     -- `atom.index` is the AtomTop's int: not callable
    | _, _ => .fail h .internal
  | .hash i =>
    match env[i]? with
    | some (.atom t _) =>
      match atomHash h t with
      | .ok k => ⟨h, none, none, some (.int k), none⟩
      | .error e => .fail h e
    | _ => .fail h .internal
  | .setIdsNonInt i n =>
    match env[i]? with
    | some o => ⟨h, none, setIdsNonInt h o n, none, none⟩
    | none => .fail h .internal
  | .resnameNonStr i =>
    match env[i]? with
    | some o => ⟨h, none, resnameNonStr o, none, none⟩
    | none => .fail h .internal

def pushRetY (env : List Obj) (r : YStepR α) : List Obj :=
  match r.ret with
  | some o => env ++ [o]
  | none => env

def runY (toDy : α → Option PyStr.Dy) (h : Heap α) (env : List Obj) : List (YOp α) → Heap α × List Obj
  | [] => (h, env)
  | op :: ops =>
    let r := stepY toDy h env op
    runY toDy r.heap (pushRetY env r) ops

end GMHeap
