import GMModel.Comparative
/-
  GMModel.GroOpen — how a coordinate file is OPENED, and the rest of the `GroFile` API
  (`gaddlemaps/parsers/__init__.py`; C13, work package WPI):

    * `open_coordinate_file(filename, mode)` / `ParserManager.register` / the metaclass `ParserRegistered` (43-71)
          → `Registry`, `register`, `dispatch`, `stdRegistry`
    * `GroFile.__init__` (293-314): a path (`_correct_mode`, 598-610: the `'+'` modes; the builtin `open`) or an
      already open file object (298-301)                 → `correctMode`, `pyOpenMode`, `groOpenPath`, `groOpenObj`
    * the getters `name`, `natoms` (ValueError without a count), `position_format`, `comment`, and `seek_atom` as a
      client operation in WRITE mode (444-468)           → `WOpX`, `wstepX`, `wrunX`

  Errors are `PyStr.PyErr`.  Mathlib-free.
-/

namespace Gro
open PyStr

/-! ### `open_coordinate_file`: dispatch on the extension -/

/-- `ParserManager.parsers`: a dict `extension → parser class` (classes are numbered); an association list with
    the newest binding first — lookup takes the first hit, which is dict assignment with overwrite -/
abbrev Registry := List (String × Nat)

/-- `ParserManager.register(parser)`: `if parser.EXTENSIONS: for extension in parser.EXTENSIONS: parsers[extension] = parser`
    (`None` and the empty tuple register nothing) -/
def register (reg : Registry) (exts : Option (List String)) (parser : Nat) : Registry :=
  match exts with
  | none => reg
  | some l => l.foldl (fun r e => (e, parser) :: r) reg

/-- class creation order in the module: `CoordinatesParser` (`EXTENSIONS = None`, parser 0), then `GroFile`
    (`EXTENSIONS = ("gro", "GRO")`, parser 1) -/
def stdRegistry : Registry := register (register [] none 0) (some ["gro", "GRO"]) 1

/-- `open_coordinate_file(filename, mode)`: `os.path.basename(name).split(".")[-1]` (for a file object: of its
    `.name`) must be a key — compared as it is, no case folding — else `ValueError`.  Returns the parser class. -/
def dispatch (reg : Registry) (fname : String) : Except PyErr Nat :=
  match reg.lookup (Cmp.extOf fname) with
  | some p => .ok p
  | none => .error .valueError

/-! ### `GroFile.__init__` -/

/-- `GroFile._correct_mode(mode)`: with a `'+'` in it the mode loses every `'+'`, every `'w'` becomes `'r'`, and a
    RuntimeWarning is issued (second component) -/
def correctMode (mode : List Char) : List Char × Bool :=
  if mode.contains '+' then ((mode.filter (· != '+')).map (fun c => if c == 'w' then 'r' else c), true)
  else (mode, false)

/-- the builtin `open(path, mode)` on a text path: characters from `xrwabt+` without repetition, not both `t` and
    `b`, exactly one of `x r w a` — else `ValueError`.  (Binary modes are outside the model.) -/
def pyOpenMode (mode : List Char) : Except PyErr Unit :=
  if mode.any (fun c => !("xrwabt+".toList.contains c)) then .error .valueError
  else if mode.eraseDups.length ≠ mode.length then .error .valueError
  else if mode.contains 't' && mode.contains 'b' then .error .valueError
  else if (mode.filter (fun c => "xrwa".toList.contains c)).length ≠ 1 then .error .valueError
  else if mode.contains 'b' then .error .unmodelled
  else .ok ()

/-- what the constructor leaves: the mode of the underlying file object, whether the `'+'` warning was issued, and
    whether the file was loaded (`"r" in mode`) / accepts the write-mode setters (`"w" in mode`) -/
structure Opened where
  fmode : List Char
  warned : Bool
  loaded : Bool
  writable : Bool
deriving DecidableEq, Repr

/-- `GroFile(path, mode)` for a path; `pathExists`: the file is there.  `'r'` on a missing file and `'x'` on an existing
    one are `OSError` (FileNotFoundError / FileExistsError). -/
def groOpenPath (mode : List Char) (pathExists : Bool) : Except PyErr Opened :=
  let (m, warned) := correctMode mode
  match pyOpenMode m with
  | .error e => .error e
  | .ok () =>
    if m.contains 'r' && !pathExists then .error .ioError
    else if m.contains 'x' && pathExists then .error .ioError
    else .ok ⟨m, warned, m.contains 'r', m.contains 'w'⟩

/-- `GroFile(fileobj)`: `if path.mode != 'r': raise IOError`; the mode argument is ignored -/
def groOpenObj (fmode : List Char) : Except PyErr Opened :=
  if fmode ≠ ['r'] then .error .ioError else .ok ⟨fmode, false, true, false⟩

/-- the reader on an already open file object whose cursor is at byte `pos`: `_load_and_verify` reads from where
    the cursor is and `_init_position = tell()` is absolute, so the object behaves as a reader of the remaining
    bytes with every file position shifted by `pos` -/
def ropenObj (P : Parsers) (fmode : List Char) (bs : List Nat) (pos : Nat) : Except PyErr RCur :=
  match groOpenObj fmode with
  | .error e => .error e
  | .ok _ => ropen P (bs.drop pos)

/-! ### getters and `seek_atom` in write mode -/

inductive WOpX
  | base (op : Op)
  /-- `g.natoms` -/
  | getNatoms
  /-- `g.position_format` -/
  | getPosFmt
  /-- `g.comment` -/
  | getComment
  /-- `g.seek_atom(index)` on a file opened for writing -/
  | seekAtom (index : Int)
deriving DecidableEq, Repr, Inhabited

inductive WVal
  | unit
  | int (n : Int)
  | fmt (w d : Nat)
  | text (s : List Nat)
deriving DecidableEq, Repr, Inhabited

/-- `seek_atom(index)` in write mode: `_current_atom = index`, then the `natoms` getter (ValueError without a
    count), the range test (IndexError), "Error in initalizaiton" (ValueError) while no line was written, the seek -/
def wSeekAtomClient (s : WState) (index : Int) : WState × Option PyErr :=
  match s.natoms with
  | none => ({ s with cur := index }, some .valueError)
  | some n => wSeekAtom s index n

def wstepX (s : WState) : WOpX → WState × Except PyErr WVal
  | .base op =>
    match step s op with
    | (s1, none) => (s1, .ok .unit)
    | (s1, some e) => (s1, .error e)
  | .getNatoms =>
    match s.natoms with
    | none => (s, .error .valueError)
    | some n => (s, .ok (.int n))
  | .getPosFmt => (s, .ok (.fmt s.effFormat.1 s.effFormat.2))
  | .getComment => (s, .ok (.text s.effComment))
  | .seekAtom i =>
    match wSeekAtomClient s i with
    | (s1, none) => (s1, .ok .unit)
    | (s1, some e) => (s1, .error e)

def wrunX (s : WState) : List WOpX → WState × List (Except PyErr WVal)
  | [] => (s, [])
  | op :: ops =>
    let (s1, r) := wstepX s op
    let (s2, rs) := wrunX s1 ops
    (s2, r :: rs)

end Gro
