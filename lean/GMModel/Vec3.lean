import GMModel.Scalar
/-
  GMModel.Vec3 — 3-vectors and 3×3 matrices over a `Scalar`, with the numpy primitives the
  modelled code uses: `+ - *` elementwise, `np.dot`, `np.cross`, `np.linalg.norm`,
  `np.outer`, `np.any`, `np.mean(axis=0)`.
-/

structure V3 (α : Type) where
  x : α
  y : α
  z : α
deriving Repr

/-- row-major 3×3 matrix (three rows) -/
structure M3 (α : Type) where
  r0 : V3 α
  r1 : V3 α
  r2 : V3 α
deriving Repr

namespace V3
variable {α : Type} [Scalar α]

def zero : V3 α := ⟨Scalar.zero, Scalar.zero, Scalar.zero⟩
def add (a b : V3 α) : V3 α := ⟨a.x + b.x, a.y + b.y, a.z + b.z⟩
def sub (a b : V3 α) : V3 α := ⟨a.x - b.x, a.y - b.y, a.z - b.z⟩
def neg (a : V3 α) : V3 α := ⟨-a.x, -a.y, -a.z⟩
/-- scalar * vector -/
def smul (k : α) (a : V3 α) : V3 α := ⟨k * a.x, k * a.y, k * a.z⟩
/-- vector * scalar (numpy's `v * k`) -/
def muls (a : V3 α) (k : α) : V3 α := ⟨a.x * k, a.y * k, a.z * k⟩
/-- vector / scalar -/
def divs (a : V3 α) (k : α) : V3 α := ⟨a.x / k, a.y / k, a.z / k⟩
def dot (a b : V3 α) : α := a.x * b.x + a.y * b.y + a.z * b.z
/-- `np.cross a b` -/
def cross (a b : V3 α) : V3 α :=
  ⟨a.y * b.z - a.z * b.y, a.z * b.x - a.x * b.z, a.x * b.y - a.y * b.x⟩
/-- `np.linalg.norm` -/
def norm (a : V3 α) : α := Scalar.sqrt (a.x * a.x + a.y * a.y + a.z * a.z)
/-- squared norm -/
def norm2 (a : V3 α) : α := a.x * a.x + a.y * a.y + a.z * a.z
/-- `not np.any(v)` : every component `== 0` -/
def allZero (a : V3 α) : Bool := Scalar.isZero a.x && Scalar.isZero a.y && Scalar.isZero a.z

instance : Add (V3 α) := ⟨add⟩
instance : Sub (V3 α) := ⟨sub⟩
instance : Neg (V3 α) := ⟨neg⟩

/-- sum of a list of vectors, left to right starting from the first element (`np.sum(axis=0)`
    for short arrays; numpy uses pairwise summation only for ≥ 8 elements along the reduced
    axis when contiguous — compared with tolerance in the correspondence). -/
def sum (l : List (V3 α)) : V3 α := l.foldl add zero

/-- `np.mean(P, axis=0)` -/
def mean (l : List (V3 α)) : V3 α := divs (sum l) (Scalar.ofInt l.length)

end V3

namespace M3
variable {α : Type} [Scalar α]

def add (a b : M3 α) : M3 α := ⟨a.r0 + b.r0, a.r1 + b.r1, a.r2 + b.r2⟩
def sub (a b : M3 α) : M3 α := ⟨a.r0 - b.r0, a.r1 - b.r1, a.r2 - b.r2⟩
def smul (k : α) (a : M3 α) : M3 α := ⟨V3.smul k a.r0, V3.smul k a.r1, V3.smul k a.r2⟩
def eye : M3 α :=
  ⟨⟨Scalar.one, Scalar.zero, Scalar.zero⟩, ⟨Scalar.zero, Scalar.one, Scalar.zero⟩,
   ⟨Scalar.zero, Scalar.zero, Scalar.one⟩⟩
/-- `np.outer a b` -/
def outer (a b : V3 α) : M3 α := ⟨V3.smul a.x b, V3.smul a.y b, V3.smul a.z b⟩
def col0 (m : M3 α) : V3 α := ⟨m.r0.x, m.r1.x, m.r2.x⟩
def col1 (m : M3 α) : V3 α := ⟨m.r0.y, m.r1.y, m.r2.y⟩
def col2 (m : M3 α) : V3 α := ⟨m.r0.z, m.r1.z, m.r2.z⟩
def transpose (m : M3 α) : M3 α := ⟨m.col0, m.col1, m.col2⟩
/-- matrix · column vector : `np.dot(M, v)` -/
def mulVec (m : M3 α) (v : V3 α) : V3 α := ⟨V3.dot m.r0 v, V3.dot m.r1 v, V3.dot m.r2 v⟩
/-- row vector · matrix : `np.dot(v, M)` = v.x*r0 + v.y*r1 + v.z*r2 -/
def vecMul (v : V3 α) (m : M3 α) : V3 α :=
  ⟨v.x * m.r0.x + v.y * m.r1.x + v.z * m.r2.x,
   v.x * m.r0.y + v.y * m.r1.y + v.z * m.r2.y,
   v.x * m.r0.z + v.y * m.r1.z + v.z * m.r2.z⟩
def mul (a b : M3 α) : M3 α := ⟨vecMul a.r0 b, vecMul a.r1 b, vecMul a.r2 b⟩
def det (m : M3 α) : α := V3.dot m.r0 (V3.cross m.r1 m.r2)
def trace (m : M3 α) : α := m.r0.x + m.r1.y + m.r2.z

end M3
