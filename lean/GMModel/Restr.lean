/-
  GMModel.Restr — exact (integer / string / list) model of the restraint plumbing of
  `gaddlemaps/_alignment.py` (C10):

    AtomGro.element                      (components/_residue.py)   → `elementRun`, `element`
    remove_hydrogens                                                 → `removeHLoop`, `removeHydrogens`
    _split_list                                                      → `splitList`
    guess_residue_restrains                                          → `guessResidue`
    guess_protein_restrains                                          → `guessProtein`
    Alignment.align_molecules (everything up to the optimiser call)  → `alignPrep`
    Alignment.align_molecules' unset check (start / end is None)     → `alignMolecules`
    Molecule.__eq__ / Atom.__eq__        (components/_components.py) → `molEq`, `atomEq`
    Alignment.start / Alignment.end setters, Alignment.__init__      → `setStart`, `setEnd`, `newAlignment`, `runOps`

  Follows the Python line by line: same branches, same order, same index arithmetic; every `raise`
  is an explicit `Except PyErr` value.  Mathlib-free; runs in `gmdriver`.

  Positions are an abstract type `P`: nothing in this code computes with coordinates, it only
  selects and re-orders them.  The driver instantiates `P := Nat` (the atom's index in its own
  molecule), the theorems are for every `P`.
-/

namespace Restr

/-- exception classes raised on the modelled paths (`IOError` is `OSError` in Python 3) -/
inductive PyErr where
  | ioError | valueError | keyError | typeError
  deriving DecidableEq, Repr, Inhabited

/-- Python `str` as its list of characters -/
abbrev PStr := List Char

/-- a restraint `(index_1, index_2)`; Python ints, so negative values exist -/
abbrev Pair := Int × Int

structure Atom (P : Type) where
  name : PStr
  pos : P
  deriving DecidableEq

structure Residue (P : Type) where
  resname : PStr
  atoms : List (Atom P)

/-- a `Molecule`: its residue list, plus the two facts about its bond graph that
    `align_molecules` branches on (taken from the implementation; the graph itself is C15's) -/
structure Mol (P : Type) where
  residues : List (Residue P)
  /-- `are_connected(mol.atoms)` -/
  connected : Bool
  /-- `mol.bonds_distance` has at least one entry (otherwise `min()` of an empty sequence raises) -/
  hasBonds : Bool

variable {P : Type}

/-- iteration order of `Molecule.__iter__`: residues in order, atoms in order -/
def Mol.atoms (m : Mol P) : List (Atom P) := m.residues.flatMap (·.atoms)
/-- `len(molecule)` -/
def Mol.len (m : Mol P) : Nat := m.atoms.length
/-- `molecule.resnames` -/
def Mol.resnames (m : Mol P) : List PStr := m.residues.map (·.resname)
/-- `molecule.atoms_positions` -/
def Mol.positions (m : Mol P) : List P := m.atoms.map (·.pos)

/-! ### `AtomGro.element` : `re.findall(r'([A-Za-z]+)', name)[0]` -/

def isAsciiAlpha (c : Char) : Bool :=
  (65 ≤ c.toNat && c.toNat ≤ 90) || (97 ≤ c.toNat && c.toNat ≤ 122)

/-- the first maximal run of ASCII letters (empty when the name has none) -/
def elementRun (name : PStr) : PStr :=
  (name.dropWhile (fun c => !isAsciiAlpha c)).takeWhile isAsciiAlpha

def element (name : PStr) : Except PyErr PStr :=
  match elementRun name with
  | [] => .error .ioError
  | e => .ok e

/-! ### `remove_hydrogens` -/

/-- loop state: `positions` and `index_1map` (a dict, as association list in insertion order) -/
structure HState (P : Type) where
  positions : List P
  map : List (Nat × Nat)

/-- `for index, atom in enumerate(molecule): if atom.element != 'H': …` -/
def removeHLoop : List (Atom P) → Nat → HState P → Except PyErr (HState P)
  | [], _, st => .ok st
  | a :: rest, index, st =>
    match element a.name with
    | .error e => .error e
    | .ok el =>
      if el ≠ ['H'] then
        let positions := st.positions ++ [a.pos]
        removeHLoop rest (index + 1) ⟨positions, st.map ++ [(index, positions.length - 1)]⟩
      else
        removeHLoop rest (index + 1) st

/-- `index_1 in index_1map` / `index_1map[index_1]` for a Python int key: the keys are `0, 1, …`
    so a negative key is never present -/
def mapLookup (map : List (Nat × Nat)) (i : Int) : Option Nat :=
  if i < 0 then none else map.lookup i.toNat

/-- `for index_1, index_2 in restrictions: if index_1 in index_1map: append(…)` -/
def remapRestr (map : List (Nat × Nat)) (restr : List Pair) : List Pair :=
  restr.filterMap fun (i1, i2) =>
    match mapLookup map i1 with
    | some r => some ((r : Int), i2)
    | none => none

def removeHydrogens (m : Mol P) (restr : List Pair) : Except PyErr (List P × List Pair) :=
  match removeHLoop m.atoms 0 ⟨[], []⟩ with
  | .error e => .error e
  | .ok st => .ok (st.positions, remapRestr st.map restr)

/-! ### `_split_list`, `guess_residue_restrains`, `guess_protein_restrains` -/

/-- `[alist[i*length // parts : (i+1)*length // parts] for i in range(parts)]`
    (a slice `l[a:b]` is `take (b - a) (drop a l)`, also when clamped) -/
def splitList {α : Type} (alist : List α) (parts : Nat) : List (List α) :=
  (List.range parts).map fun i =>
    (alist.drop (i * alist.length / parts)).take
      ((i + 1) * alist.length / parts - i * alist.length / parts)

/-- `guess_residue_restrains` depends on the residues only through their lengths -/
def guessResidueLen (len1 len2 offset1 offset2 : Nat) : List Pair :=
  let nParts := min len1 len2
  let groups1 := splitList (List.range len1) nParts
  let groups2 := splitList (List.range len2) nParts
  (groups1.zip groups2).flatMap fun (g1, g2) =>
    g1.flatMap fun i => g2.map fun j => (((i + offset1 : Nat) : Int), ((j + offset2 : Nat) : Int))

def guessResidue (res1 res2 : Residue P) (offset1 offset2 : Nat) : List Pair :=
  guessResidueLen res1.atoms.length res2.atoms.length offset1 offset2

/-- Python `a in b` for strings -/
def isSubstr (a : PStr) : PStr → Bool
  | [] => a.isEmpty
  | c :: cs => a.isPrefixOf (c :: cs) || isSubstr a cs

/-- `for res1, res2 in zip(...): if (res1 in res2) or (res2 in res1): continue; raise IOError` -/
def checkNames : List (PStr × PStr) → Except PyErr Unit
  | [] => .ok ()
  | (r1, r2) :: rest =>
    if isSubstr r1 r2 || isSubstr r2 r1 then checkNames rest else .error .ioError

/-- the accumulation loop with the two running offsets -/
def proteinLoop : List (Residue P × Residue P) → Nat → Nat → List Pair → List Pair
  | [], _, _, acc => acc
  | (r1, r2) :: rest, o1, o2, acc =>
    proteinLoop rest (o1 + r1.atoms.length) (o2 + r2.atoms.length) (acc ++ guessResidue r1 r2 o1 o2)

def guessProtein (m1 m2 : Mol P) : Except PyErr (List Pair) :=
  if m1.resnames.length ≠ m2.resnames.length then .error .ioError
  else
    match (if m1.resnames ≠ m2.resnames then checkNames (m1.resnames.zip m2.resnames) else .ok ()) with
    | .error e => .error e
    | .ok () => .ok (proteinLoop (m1.residues.zip m2.residues) 0 0 [])

/-! ### `Alignment.align_molecules` up to the optimiser call -/

/-- the arguments of `minimize_molecules` that this property is about -/
structure OptIn (P : Type) where
  /-- `mol1_positions` -/
  fixedPos : List P
  /-- `mol2_positions` -/
  mobilePos : List P
  /-- `restrictions` as `(index into mol1_positions, index into mol2_positions)` -/
  restr : List Pair
  /-- `deformation_types` -/
  deform : List Int
  /-- `n_steps` -/
  nSteps : Nat
  deriving DecidableEq

inductive PrepOut (P : Type) where
  /-- `len(end) == 1`: returns before the optimiser is reached -/
  | noCall
  | call (swapped : Bool) (o : OptIn P)
  deriving DecidableEq

def defaultDeform (lenStart lenEnd : Nat) : List Int :=
  if lenStart == 1 || lenEnd == 1 then [0] else [0, 1, 2]

def stepsFactor : Nat := 5000

/-- `Alignment.align_molecules(restrictions, deformation_types, ignore_hydrogens,
    auto_guess_protein_restrictions)` with both molecules set.  `i[::-1]` on a pair is `Prod.swap`. -/
def alignPrep (start end_ : Mol P) (restr : Option (List Pair)) (deform : Option (List Int))
    (ignoreH : Bool) (autoGuess : Bool := true) : Except PyErr (PrepOut P) :=
  -- if restrictions is None: …
  let restr0 : Except PyErr (List Pair) :=
    match restr with
    | some r => .ok r
    | none =>
      if start.resnames.length > 1 && autoGuess then
        match guessProtein start end_ with
        | .ok r => .ok r
        | .error .ioError => .error .ioError      -- `except IOError: raise IOError(...)`
        | .error e => .error e
      else .ok []
  match restr0 with
  | .error e => .error e
  | .ok restrictions =>
    let deformation :=
      match deform with
      | some d => d
      | none => defaultDeform start.len end_.len
    -- identify the smallest molecule
    let swapped := decide (start.len < end_.len)
    let fixed := if swapped then end_ else start
    let mobile := if swapped then start else end_
    let restrictions := if swapped then restrictions.map Prod.swap else restrictions
    if end_.len == 1 then .ok .noCall
    else if !mobile.connected then .error .ioError
    else
      let filtered : Except PyErr (List P × List Pair) :=
        if ignoreH then removeHydrogens fixed restrictions
        else .ok (fixed.positions, restrictions)
      match filtered with
      | .error e => .error e
      | .ok (mol1Positions, restrictions) =>
        -- translation_width = 2*min(…) over the fixed molecule's bonds
        if !fixed.hasBonds then .error .valueError
        else .ok (.call swapped
          { fixedPos := mol1Positions, mobilePos := mobile.positions, restr := restrictions,
            deform := deformation, nSteps := stepsFactor * mobile.len })

/-! ### `Alignment.start` / `Alignment.end` setters, and the unset check of `align_molecules`

    `Molecule.__eq__` compares the molecule name, the length and, atom by atom, `Atom.__eq__`
    (`resname`, `name`, `index`, `top_resid`); nothing else of a molecule matters to the setters,
    so a molecule is seen through `ident : M → MolId`. -/

/-- what `Atom.__eq__` compares -/
structure AtomId where
  resname : PStr
  name : PStr
  index : Int
  topResid : Int
  deriving DecidableEq, Repr

/-- what `Molecule.__eq__` compares -/
structure MolId where
  name : PStr
  atoms : List AtomId
  deriving DecidableEq, Repr

/-- `Atom.__eq__(self, atom)` for two `Atom`s -/
def atomEq (self atom : AtomId) : Bool :=
  self.resname == atom.resname && self.name == atom.name &&
  self.index == atom.index && self.topResid == atom.topResid

/-- `for at1, at2 in zip(self, molecule): if at1 != at2: return False` … `return True` -/
def molEqLoop : List (AtomId × AtomId) → Bool
  | [] => true
  | (at1, at2) :: rest => if !atomEq at1 at2 then false else molEqLoop rest

/-- `Molecule.__eq__(self, molecule)` for a `Molecule` argument -/
def molEq (self molecule : MolId) : Bool :=
  if molecule.name == self.name && molecule.atoms.length == self.atoms.length then
    molEqLoop (self.atoms.zip molecule.atoms)
  else false

/-- the value assigned to `alignment.start` / `alignment.end` -/
inductive SetArg (M : Type) where
  /-- `None` -/
  | none
  /-- not an instance of `Molecule` -/
  | nonMolecule
  | mol (m : M)

/-- `Alignment._start`, `Alignment._end` -/
structure AliState (M : Type) where
  start : Option M
  end_ : Option M

/-- `Alignment.start.setter`.  (The comparison is with the CURRENT START molecule, as in the code.)
    An exception leaves the object unchanged: every `raise` comes before the assignment. -/
def setStart {M : Type} (ident : M → MolId) (st : AliState M) : SetArg M → Except PyErr (AliState M)
  | .none => .ok { st with start := none }
  | .nonMolecule => .error .typeError
  | .mol molecule =>
    match st.end_, st.start with
    | some _, some cur =>
      if molEq (ident molecule) (ident cur) then .ok { st with start := some molecule }
      else .error .valueError
    | _, _ => .ok { st with start := some molecule }

/-- `Alignment.end.setter` (compares with the current end molecule) -/
def setEnd {M : Type} (ident : M → MolId) (st : AliState M) : SetArg M → Except PyErr (AliState M)
  | .none => .ok { st with end_ := none }
  | .nonMolecule => .error .typeError
  | .mol molecule =>
    match st.start, st.end_ with
    | some _, some cur =>
      if molEq (ident molecule) (ident cur) then .ok { st with end_ := some molecule }
      else .error .valueError
    | _, _ => .ok { st with end_ := some molecule }

/-- `Alignment.__init__(start, end)`: `self._start = self._end = None; self.start = start; self.end = end` -/
def newAlignment {M : Type} (ident : M → MolId) (start end_ : SetArg M) : Except PyErr (AliState M) :=
  match setStart ident ⟨none, none⟩ start with
  | .error e => .error e
  | .ok st => setEnd ident st end_

/-- one assignment in a history of an `Alignment` object -/
inductive SetOp (M : Type) where
  | start (a : SetArg M)
  | end_ (a : SetArg M)

def applyOp {M : Type} (ident : M → MolId) (st : AliState M) : SetOp M → Except PyErr (AliState M)
  | .start a => setStart ident st a
  | .end_ a => setEnd ident st a

/-- a history of assignments, each in its own `try`: a refused assignment leaves the object as it
    was; the outcome (`none` = accepted) of every assignment is recorded -/
def runOps {M : Type} (ident : M → MolId) : AliState M → List (SetOp M) → AliState M × List (Option PyErr)
  | st, [] => (st, [])
  | st, op :: rest =>
    match applyOp ident st op with
    | .error e =>
      let r := runOps ident st rest
      (r.1, some e :: r.2)
    | .ok st' =>
      let r := runOps ident st' rest
      (r.1, none :: r.2)

/-- `Alignment.align_molecules` from the object's state:
    `if self.start is None or self.end is None: raise ValueError(…)`, then `alignPrep` -/
def alignMolecules (st : AliState (Mol P)) (restr : Option (List Pair)) (deform : Option (List Int))
    (ignoreH : Bool) (autoGuess : Bool := true) : Except PyErr (PrepOut P) :=
  match st.start, st.end_ with
  | some start, some end_ => alignPrep start end_ restr deform ignoreH autoGuess
  | _, _ => .error .valueError

end Restr
