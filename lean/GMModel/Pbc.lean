import GMModel.Vec3
/-
  GMModel.Pbc — `gaddlemaps/components/_residue.py`, `Residue.distance_to` (as repaired by
  fixes/C19-D8.patch: the back-transform uses the box, not its inverse).

  ```
  def distance_to(self, residue, box_vects=None, inv=False):
      if isinstance(residue, Residue):
          residue = residue.geometric_center
      vect = residue - self.geometric_center
      if box_vects is not None:
          if inv:
              inv_box, box_vects = box_vects, np.linalg.inv(box_vects)
          else:
              inv_box = np.linalg.inv(box_vects)
          vect = vect.dot(inv_box)          # fractional coordinates (rows of box_vects = box vectors)
          vect -= np.round(vect)            # nearest image, round half to even
          vect = vect.dot(box_vects)        # back to Cartesian          (D8: was `inv_box` again)
      return np.linalg.norm(vect)
  ```

  `geometric_center` is `np.mean(self.atoms_positions, axis=0)`; a `Residue` cannot be empty
  (its constructor raises ValueError).  `np.linalg.inv` is modelled by adjugate / determinant and
  raises `LinAlgError` for a singular matrix (numpy: LU with an exactly zero pivot).
-/

namespace Pbc

inductive Err where
  | linAlgError   -- numpy.linalg.LinAlgError: singular matrix
  | valueError    -- Residue([]) : empty residue
deriving Repr, DecidableEq, Inhabited

def Err.name : Err → String
  | .linAlgError => "LinAlgError"
  | .valueError => "ValueError"

variable {α : Type} [Scalar α]

/-- adjugate (transposed cofactor matrix) of a 3×3 matrix: its columns are
    `r1×r2`, `r2×r0`, `r0×r1` -/
def adjugate (m : M3 α) : M3 α :=
  M3.transpose ⟨V3.cross m.r1 m.r2, V3.cross m.r2 m.r0, V3.cross m.r0 m.r1⟩

/-- `np.linalg.inv` : adjugate / det ; `none` = LinAlgError (singular) -/
def inv3 (m : M3 α) : Option (M3 α) :=
  let d := M3.det m
  if Scalar.isZero d then none else
  let a := adjugate m
  some ⟨V3.divs a.r0 d, V3.divs a.r1 d, V3.divs a.r2 d⟩

/-- `v - np.round(v)` componentwise -/
def subRound (v : V3 α) : V3 α :=
  ⟨v.x - Scalar.round v.x, v.y - Scalar.round v.y, v.z - Scalar.round v.z⟩

/-- the three lines under `if box_vects is not None` once both matrices are known -/
def wrap (v : V3 α) (box invBox : M3 α) : V3 α :=
  M3.vecMul (subRound (M3.vecMul v invBox)) box

/-- the other argument: a `Residue` (its atoms' positions) or a bare point -/
inductive Target (α : Type) where
  | residue (atoms : List (V3 α))
  | point (p : V3 α)

/-- `Residue.geometric_center` of a (non-empty) residue -/
def center (atoms : List (V3 α)) : Except Err (V3 α) :=
  if atoms.isEmpty then .error .valueError else .ok (V3.mean atoms)

def Target.position : Target α → Except Err (V3 α)
  | .residue atoms => center atoms
  | .point p => .ok p

/-- the separation vector after the (optional) periodic wrap -/
def separation (self : List (V3 α)) (other : Target α) (box : Option (M3 α × Bool)) :
    Except Err (V3 α) :=
  match other.position with
  | .error e => .error e
  | .ok q =>
    match center self with
    | .error e => .error e
    | .ok c =>
      let vect := q - c
      match box with
      | none => .ok vect
      | some (b, inv) =>
        match inv3 b with
        | none => .error .linAlgError
        | some bi =>
          -- inv = False: b is the box, bi its inverse; inv = True: b is the inverse, bi the box
          if inv then .ok (wrap vect bi b) else .ok (wrap vect b bi)

/-- `Residue.distance_to(residue, box_vects, inv)` -/
def distanceTo (self : List (V3 α)) (other : Target α) (box : Option (M3 α × Bool)) :
    Except Err α :=
  match separation self other box with
  | .error e => .error e
  | .ok v => .ok (V3.norm v)

/-- the UNREPAIRED code (D8): the back-transform multiplies by the inverse box again.  Kept only so
    that the counterexample of the design round is a checked statement about a definition; nothing
    else refers to it. -/
def wrapD8 (v : V3 α) (invBox : M3 α) : V3 α :=
  M3.vecMul (subRound (M3.vecMul v invBox)) invBox

end Pbc
