/-
  GMModel.Util — small total helpers shared by the models.
-/

/-- `mapM` in `Option`, written out so that proofs are by plain induction -/
def optMapM {β γ : Type} (f : β → Option γ) : List β → Option (List γ)
  | [] => some []
  | x :: xs =>
    match f x with
    | none => none
    | some y =>
      match optMapM f xs with
      | none => none
      | some ys => some (y :: ys)

theorem optMapM_length {β γ : Type} (f : β → Option γ) :
    ∀ (l : List β) (r : List γ), optMapM f l = some r → r.length = l.length
  | [], r, h => by simp [optMapM] at h; subst h; rfl
  | x :: xs, r, h => by
    unfold optMapM at h
    split at h
    · cases h
    · split at h
      · cases h
      · rename_i ys hys
        cases h
        simp [optMapM_length f xs ys hys]

/-- elementwise characterisation -/
theorem optMapM_zip {β γ : Type} (f : β → Option γ) :
    ∀ (l : List β) (r : List γ), optMapM f l = some r → ∀ p ∈ l.zip r, f p.1 = some p.2
  | [], r, h => by simp [optMapM] at h; subst h; simp
  | x :: xs, r, h => by
    unfold optMapM at h
    split at h
    · cases h
    · rename_i y hy
      split at h
      · cases h
      · rename_i ys hys
        cases h
        intro p hp
        simp only [List.zip_cons_cons, List.mem_cons] at hp
        rcases hp with rfl | hp
        · exact hy
        · exact optMapM_zip f xs ys hys p hp

theorem optMapM_of_forall {β γ : Type} (f : β → Option γ) (g : β → γ) :
    ∀ (l : List β), (∀ x ∈ l, f x = some (g x)) → optMapM f l = some (l.map g)
  | [], _ => rfl
  | x :: xs, h => by
    have hx := h x (by simp)
    have ht := optMapM_of_forall f g xs (fun y hy => h y (by simp [hy]))
    simp [optMapM, hx, ht]

/-- index-wise characterisation -/
theorem optMapM_get {β γ : Type} (f : β → Option γ) :
    ∀ (l : List β) (r : List γ), optMapM f l = some r →
      ∀ (j : Nat) (x : β), l[j]? = some x → ∃ y, r[j]? = some y ∧ f x = some y
  | [], r, h, j, x, hx => by simp at hx
  | x0 :: xs, r, h, j, x, hx => by
    unfold optMapM at h
    split at h
    · cases h
    · rename_i y hy
      split at h
      · cases h
      · rename_i ys hys
        cases h
        cases j with
        | zero =>
          simp at hx; subst hx
          exact ⟨y, by simp, hy⟩
        | succ j =>
          simp at hx
          obtain ⟨y', h1, h2⟩ := optMapM_get f xs ys hys j x hx
          exact ⟨y', by simpa using h1, h2⟩

theorem optMapM_mem {β γ : Type} (f : β → Option γ) :
    ∀ (l : List β) (r : List γ), optMapM f l = some r → ∀ y ∈ r, ∃ x ∈ l, f x = some y
  | [], r, h, y, hy => by simp [optMapM] at h; subst h; simp at hy
  | x0 :: xs, r, h, y, hy => by
    unfold optMapM at h
    split at h
    · cases h
    · rename_i y0 hy0
      split at h
      · cases h
      · rename_i ys hys
        cases h
        simp only [List.mem_cons] at hy
        rcases hy with rfl | hy
        · exact ⟨x0, by simp, hy0⟩
        · obtain ⟨x, hx, hfx⟩ := optMapM_mem f xs ys hys y hy
          exact ⟨x, by simp [hx], hfx⟩

theorem optMapM_isSome {β γ : Type} (f : β → Option γ) :
    ∀ (l : List β), (∀ x ∈ l, ∃ y, f x = some y) → ∃ r, optMapM f l = some r
  | [], _ => ⟨[], rfl⟩
  | x :: xs, h => by
    obtain ⟨y, hy⟩ := h x (by simp)
    obtain ⟨ys, hys⟩ := optMapM_isSome f xs (fun z hz => h z (by simp [hz]))
    exact ⟨y :: ys, by simp [optMapM, hy, hys]⟩
