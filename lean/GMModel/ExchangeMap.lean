import GMModel.Frame
import GMModel.Util
/-
  GMModel.ExchangeMap — `gaddlemaps/_exchage_map.py` (class `ExchangeMap`), numeric side.

  A reference molecule is given by its atom positions (`pos`, atom order) and, per atom, the
  list of bonded atom indices (`nbrs[i]` = `atom.bonds`, any order, distinct).  `hash(atom)` is
  the atom index, so every table of the Python is keyed by index here.

  The stateful side (the `_refsystems` dict being overwritten on every call, copies, species
  check) is `GMModel.EMapHeap` (C04); here `apply` is the function that the call computes when the
  argument has the reference's bond graph.
-/

variable {α : Type} [Scalar α]

/-- insertion of a `Nat` into a sorted list (model of `sorted(set_of_ints)`) -/
def insertSorted (x : Nat) : List Nat → List Nat
  | [] => [x]
  | y :: ys => if x ≤ y then x :: y :: ys else y :: insertSorted x ys

def sortNat (l : List Nat) : List Nat := l.foldr insertSorted []

/-- `atom.closest_atoms()` = `sorted(self.bonds)[:2]`; `none` when fewer than two bonds
    (the Python would fail to unpack) -/
def closestTwo (nb : List Nat) : Option (Nat × Nat) :=
  match sortNat nb with
  | a :: b :: _ => some (a, b)
  | _ => none

/-- the matrix of a frame (rows e1, e2, e3) -/
def Frame.mat (F : Frame α) : M3 α := ⟨F.e1, F.e2, F.e3⟩

/-- `_proyect_point`: `np.dot(base, p − origin) * scale` -/
def project (F : Frame α) (s : α) (p : V3 α) : V3 α :=
  V3.muls (M3.mulVec F.mat (p - F.origin)) s

/-- `_restore_point`: `center + np.dot(proyection, vectores)` -/
def restore (F : Frame α) (q : V3 α) : V3 α :=
  F.origin + M3.vecMul q F.mat

/-- indices of the atoms with at least two bonds, in atom order -/
def anchorsOf (nbrs : List (List Nat)) : List Nat :=
  (List.range nbrs.length).filter (fun i => decide (2 ≤ (nbrs.getD i []).length))

/-- the frame of anchor `a`: `calcule_base([pos[a], pos[n1], pos[n2]])` with
    `n1, n2 = sorted(bonds)[:2]` -/
def frameAt (pos : List (V3 α)) (nbrs : List (List Nat)) (a : Nat) : Option (Frame α) := do
  let pa ← pos[a]?
  let nb ← nbrs[a]?
  let (i1, i2) ← closestTwo nb
  let p1 ← pos[i1]?
  let p2 ← pos[i2]?
  pure (calculeBase pa p1 p2)

/-- `_calculate_refsystems_general`: the table {anchor index ↦ frame}, in insertion order -/
def refsystemsGeneral (pos : List (V3 α)) (nbrs : List (List Nat)) : Option (List (Nat × Frame α)) :=
  optMapM (fun a => (frameAt pos nbrs a).map (fun F => (a, F))) (anchorsOf nbrs)

/-- `_calculate_refsystems` for 1- and 2-atom molecules; `rands` are the `np.random.rand(3)` draws
    (two for one atom, one for two atoms).  Two atoms: the bond defines the first vector
    (`positions[[0, 2, 1]]`). -/
def refsystemsSmall (pos : List (V3 α)) (rands : List (V3 α)) : Option (List (Nat × Frame α)) :=
  match pos, rands with
  | [p0], [r1, r2] => some [(0, calculeBase p0 (r1 + p0) (r2 + p0))]
  | [p0, p1], [r] => some [(0, calculeBase p0 (r + p0) p1)]
  | _, _ => none

/-- `_calculate_refsystems` -/
def refsystems (pos : List (V3 α)) (nbrs : List (List Nat)) (rands : List (V3 α)) :
    Option (List (Nat × Frame α)) :=
  if pos.length == 1 || pos.length == 2 then refsystemsSmall pos rands
  else refsystemsGeneral pos nbrs

def lookupFrame (tab : List (Nat × Frame α)) (a : Nat) : Option (Frame α) :=
  (tab.find? (fun e => e.1 == a)).map (·.2)

/-- `scipy.spatial.distance.euclidean` -/
def euclid (p q : V3 α) : α := V3.norm (p - q)

/-- `sorted((euclidean(t, ref_pos(i)), i) for i in refsystems)[0][1]`: lexicographic minimum of
    (distance, index) over the table's keys. Keys are distinct, so ties in distance go to the
    lowest index. -/
def closestAnchorAux (pos : List (V3 α)) (t : V3 α) : List Nat → Option (α × Nat) → Option (α × Nat)
  | [], best => best
  | a :: rest, best =>
    match pos[a]? with
    | none => none
    | some pa =>
      let d := euclid t pa
      match best with
      | none => closestAnchorAux pos t rest (some (d, a))
      | some (db, ab) =>
        if Scalar.lt d db || (!Scalar.lt db d && decide (a < ab)) then
          closestAnchorAux pos t rest (some (d, a))
        else closestAnchorAux pos t rest (some (db, ab))

def closestAnchor (pos : List (V3 α)) (keys : List Nat) (t : V3 α) : Option Nat :=
  (closestAnchorAux pos t keys none).map (·.2)

structure EMap (α : Type) where
  /-- per target atom: the anchor (reference atom index) it is attached to -/
  equiv : List Nat
  /-- per target atom: scaled coordinates in the anchor's construction-time frame -/
  proj : List (V3 α)
  scale : α

/-- `ExchangeMap.__init__` = `_calculate_refsystems(ref)` + `_make_map()` -/
def EMap.build (pos : List (V3 α)) (nbrs : List (List Nat)) (rands : List (V3 α))
    (tgt : List (V3 α)) (s : α) : Option (EMap α) := do
  let tab ← refsystems pos nbrs rands
  let keys := tab.map (·.1)
  let per ← optMapM (fun t => do
    let a ← closestAnchor pos keys t
    let F ← lookupFrame tab a
    pure (a, project F s t)) tgt
  pure ⟨per.map (·.1), per.map (·.2), s⟩

/-- `ExchangeMap.__call__` (numeric side): frames of the argument, then `_restore_point` per
    target atom -/
def EMap.apply (m : EMap α) (nbrs : List (List Nat)) (argPos : List (V3 α)) (rands : List (V3 α)) :
    Option (List (V3 α)) := do
  let tab ← refsystems argPos nbrs rands
  optMapM (fun (a, q) => do
    let F ← lookupFrame tab a
    pure (restore F q)) (m.equiv.zip m.proj)
