import GMModel.Metropolis
import GMModel.ExchangeMap
/-
  GMModel.Align — `gaddlemaps/_alignment.py`: `Alignment.align_molecules`, `remove_hydrogens`;
  `components/_residue.py`: `geometric_center`, `move_to`; `components/_components.py`:
  `bonds_distance`; `components/__init__.py`: `are_connected` (result only).

  Molecules are VALUES `(positions, names, bond table)`.  The `Alignment.start/end` setters store
  `molecule.copy()`; in a value model the copy is the value itself, and the fact that the caller's
  objects are not written is checked on the real code by the harness (snapshots before/after).

  The overlap measure and the single-atom move stay parameters (`chi2Of`, `moveOf`), now taking the
  construction-time arguments `Chi2Calculator(mol1_positions, mol2_positions, restriction)` and
  `move_mol_atom(·, mol2_bonds_info, sigma_scale=…)` receive.
-/

structure Mol (α : Type) where
  /-- `atoms_positions` (all atoms, in molecule order) -/
  pos : List (V3 α)
  /-- atom names, same order -/
  names : List String
  /-- `bonds[i]` = indices bonded to atom `i`, in the order the implementation iterates the
      `set` (taken from the implementation as input, DESIGN §3) -/
  bonds : List (List Nat)

inductive AlignErr where
  /-- `IOError`: mobile molecule not connected; atom name without a letter in `element` -/
  | ioError
  /-- `ValueError`: `min()` of an empty sequence (fixed molecule without bonds); objective built
      on an empty coordinate array (all atoms filtered); write-back of a wrong shape -/
  | valueError
  /-- `IndexError`: bond table pointing outside the molecule / empty atom list -/
  | indexError
  /-- an error of the search loop -/
  | mc (e : MCErr)
deriving Repr, BEq, DecidableEq

/-- bond-length table of `Molecule.bonds_distance`: for atom `i` the list `(j, |r_i − r_j|)` -/
abbrev BondsInfo (α : Type) := List (List (Nat × α))

namespace Mol
variable {α : Type} [Scalar α]

/-- `len(molecule)` -/
def size (m : Mol α) : Nat := m.pos.length

/-- `geometric_center`: `np.mean(self.atoms_positions, axis=0)` over ALL atoms -/
def center (m : Mol α) : V3 α := V3.mean m.pos

/-- `move_to(new_position)`: `displacement = new_position - self.geometric_center;
    self.atoms_positions = self.atoms_positions + displacement` -/
def moveTo (m : Mol α) (target : V3 α) : Mol α :=
  let displacement := target - m.center
  { m with pos := m.pos.map (fun p => p + displacement) }

/-- every bond index is a valid atom index -/
def bondsInRange (m : Mol α) : Bool :=
  m.bonds.all (fun l => l.all (fun j => j < m.pos.length))

end Mol

/-! ### `are_connected` (only its boolean result is modelled: reachability from atom 0) -/

/-- add the neighbours of every listed vertex (keeping first occurrences) -/
def reachStep (bonds : List (List Nat)) (vis : List Nat) : List Nat :=
  vis.foldl (fun acc i =>
    match bonds[i]? with
    | some nb => nb.foldl (fun a j => if a.contains j then a else a ++ [j]) acc
    | none => acc) vis

def reachIter (bonds : List (List Nat)) : Nat → List Nat → List Nat
  | 0, vis => vis
  | k + 1, vis => reachIter bonds k (reachStep bonds vis)

/-- `are_connected(atoms)`: `len(connected_atoms) == len(atoms)` with `connected_atoms` the
    vertices reachable from index 0 (no duplicates). Requires a non-empty, in-range table. -/
def areConnected (bonds : List (List Nat)) : Bool :=
  (reachIter bonds bonds.length [0]).length == bonds.length

/-! ### `AtomGro.element` and `remove_hydrogens` -/

def isAsciiAlpha (c : Char) : Bool := ('A' ≤ c && c ≤ 'Z') || ('a' ≤ c && c ≤ 'z')

/-- `re.findall(r'([A-Za-z]+)', name)[0]`, `none` ↦ `IOError` -/
def elementOf (name : String) : Option String :=
  let el := (name.toList.dropWhile (fun c => !isAsciiAlpha c)).takeWhile isAsciiAlpha
  if el.isEmpty then none else some (String.ofList el)

/-- for every atom: is it kept (`atom.element != 'H'`)?  `IOError` if some name has no letter -/
def heavyFlags : List String → Except AlignErr (List Bool)
  | [] => .ok []
  | n :: ns =>
    match elementOf n with
    | none => .error .ioError
    | some el =>
      match heavyFlags ns with
      | .error e => .error e
      | .ok fs => .ok ((el != "H") :: fs)

/-- `index_1map`: old index ↦ new index for the kept atoms (`k` = number kept so far) -/
def indexMap : List Bool → Nat → List (Option Nat)
  | [], _ => []
  | true :: fs, k => some k :: indexMap fs (k + 1)
  | false :: fs, k => none :: indexMap fs k

def keepBy {β : Type} : List β → List Bool → List β
  | p :: ps, true :: fs => p :: keepBy ps fs
  | _ :: ps, false :: fs => keepBy ps fs
  | _, _ => []

/-- `index_1 in index_1map` / `index_1map[index_1]` (a negative index is never a key) -/
def lookupIdx (m : List (Option Nat)) (i : Int) : Option Nat :=
  if i < 0 then none else
    match m[i.toNat]? with
    | some (some k) => some k
    | _ => none

/-- `remove_hydrogens(molecule, restrictions)` -/
def removeHydrogens {α : Type} (m : Mol α) (restr : List (Int × Int)) :
    Except AlignErr (List (V3 α) × List (Int × Int)) :=
  match heavyFlags m.names with
  | .error e => .error e
  | .ok flags =>
    let imap := indexMap flags 0
    let newRestr := restr.filterMap (fun r =>
      match lookupIdx imap r.1 with
      | some k => some ((k : Int), r.2)
      | none => none)
    .ok (keepBy m.pos flags, newRestr)

/-! ### `bonds_distance`, step budget, translation width -/

section
variable {α : Type} [Scalar α]

-- `scipy.spatial.distance.euclidean` is `euclid` from `GMModel.ExchangeMap` (same definition: `‖p − q‖`)

/-- bond lengths of atom `i` from the CURRENT geometry; `none` ↦ `IndexError` -/
def bondsRow (pos : List (V3 α)) (p : V3 α) : List Nat → Option (List (Nat × α))
  | [] => some []
  | j :: js =>
    match pos[j]?, bondsRow pos p js with
    | some q, some rest => some ((j, euclid p q) :: rest)
    | _, _ => none

def bondsRows (pos : List (V3 α)) : List (V3 α) → List (List Nat) → Option (BondsInfo α)
  | p :: ps, b :: bs =>
    match bondsRow pos p b, bondsRows pos ps bs with
    | some r, some rest => some (r :: rest)
    | _, _ => none
  | _, _ => some []

/-- `Molecule.bonds_distance` (atoms without bonds get an empty row; the Python dict has no key) -/
def bondsDistance (m : Mol α) : Except AlignErr (BondsInfo α) :=
  match bondsRows m.pos m.pos m.bonds with
  | some t => .ok t
  | none => .error .indexError

/-- builtin `min` over a non-empty sequence: the first smallest element -/
def minList : α → List α → α
  | m, [] => m
  | m, x :: xs => if Scalar.lt x m then minList x xs else minList m xs

/-- `2*min(t[1] for l in mol1_bonds_info for t in l)`; `ValueError` on an empty sequence -/
def translationWidth (t : BondsInfo α) : Except AlignErr α :=
  match (t.flatten.map (fun e => e.2)) with
  | [] => .error .valueError
  | x :: xs => .ok (Scalar.ofInt 2 * minList x xs)

/-- what `align_molecules` hands to `minimize_molecules` (and remembers for the write-back) -/
structure AlignPlan (α : Type) where
  /-- the start molecule after `move_to` -/
  start' : Mol α
  /-- `len(start) < len(end)`: the start molecule is the mobile one -/
  smallIsStart : Bool
  /-- `mol1_positions` (hydrogens removed when asked) -/
  fixedPos : List (V3 α)
  /-- restraint pairs `(fixed index, mobile index)` after role swap and hydrogen re-indexing -/
  restr : List (Int × Int)
  /-- `mol2_positions` -/
  mobilePos : Config α
  /-- `mol2_bonds_info` -/
  bondsInfo : BondsInfo α
  nSteps : Nat
  /-- `translation_width` -/
  width : α
  /-- `deformation_types` after defaulting -/
  simType : List Int

inductive Prepared (α : Type) where
  /-- `len(end) == 1`: return right after the `move_to` -/
  | early (start' : Mol α)
  | plan (p : AlignPlan α)

/-- the hydrogen filter step: `remove_hydrogens(molecules[0], restrictions)` if asked, else
    `molecules[0].atoms_positions` and the restraints as they are -/
def fixedInputs (fixed : Mol α) (restr1 : List (Int × Int)) (ignoreH : Bool) :
    Except AlignErr (List (V3 α) × List (Int × Int)) :=
  if ignoreH then removeHydrogens fixed restr1 else .ok (fixed.pos, restr1)

/-- `align_molecules` from the connectivity gate to the call of `minimize_molecules`, roles chosen:
    ```
    if not are_connected(molecules[1].atoms): raise IOError
    if ignore_hydrogens: mol1_positions, restrictions = remove_hydrogens(molecules[0], restrictions)
    else:                mol1_positions = molecules[0].atoms_positions
    mol2_positions = molecules[1].atoms_positions
    mol2_bonds_info = molecules[1].bonds_distance
    n_steps = self.STEPS_FACTOR*len(molecules[1])
    translation_width = 2*min(t[1] for l in molecules[0].bonds_distance.values() for t in l)
    ``` -/
def planFor (stepsFactor : Nat) (start' : Mol α) (smallIsStart : Bool) (fixed mobile : Mol α)
    (restr1 : List (Int × Int)) (simType : List Int) (ignoreH : Bool) : Except AlignErr (AlignPlan α) :=
  if mobile.bonds.isEmpty || !mobile.bondsInRange then .error .indexError
  else if !areConnected mobile.bonds then .error .ioError
  else
    match fixedInputs fixed restr1 ignoreH with
    | .error e => .error e
    | .ok (fixedPos, restr2) =>
      match bondsDistance mobile with
      | .error e => .error e
      | .ok binfo =>
        match bondsDistance fixed with
        | .error e => .error e
        | .ok finfo =>
          match translationWidth finfo with
          | .error e => .error e
          | .ok width =>
            .ok ⟨start', smallIsStart, fixedPos, restr2, mobile.pos, binfo,
                 stepsFactor * mobile.size, width, simType⟩

/-- `deformation_types` after defaulting -/
def defaultDeform (start end_ : Mol α) (deform : Option (List Int)) : List Int :=
  match deform with
  | some d => d
  | none => if start.size == 1 || end_.size == 1 then [0] else [0, 1, 2]

/-- `align_molecules` up to the call of `minimize_molecules`:
    ```
    if deformation_types is None:
        deformation_types = (0,) if len(start) == 1 or len(end) == 1 else (0, 1, 2)
    self.start.move_to(self.end.geometric_center)
    if len(start) < len(end): molecules = [end, start]; restrictions = [i[::-1] for i in restrictions]
    else:                     molecules = [start, end]
    if len(end) == 1: return
    … (planFor)
    ``` -/
def alignPrepare (stepsFactor : Nat) (start end_ : Mol α) (restr : List (Int × Int))
    (deform : Option (List Int)) (ignoreH : Bool) : Except AlignErr (Prepared α) :=
  let start' := start.moveTo end_.center
  if end_.size == 1 then .ok (.early start')
  else
    let planned :=
      if start.size < end_.size then
        planFor stepsFactor start' true end_ start' (restr.map (fun r => (r.2, r.1)))
          (defaultDeform start end_ deform) ignoreH
      else
        planFor stepsFactor start' false start' end_ restr (defaultDeform start end_ deform) ignoreH
    match planned with
    | .error e => .error e
    | .ok p => .ok (.plan p)

/-- the write-back: `self.start.atoms_positions = mol2_positions` if `len(start) < len(end)` else
    `self.end.atoms_positions = …` (the setter raises `ValueError` on a wrong shape) -/
def alignFinish (p : AlignPlan α) (end_ : Mol α) (res : Config α) :
    Except AlignErr (Mol α × Mol α) :=
  if p.smallIsStart then
    if res.length == p.start'.size then .ok ({ p.start' with pos := res }, end_)
    else .error .valueError
  else
    if res.length == end_.size then .ok (p.start', { end_ with pos := res })
    else .error .valueError

/-- `Alignment(start, end).align_molecules(restrictions, deformation_types, ignore_hydrogens)`;
    returns the final `(Alignment.start, Alignment.end)` and the unread tape.
    `restr` is the caller's (non-`None`) list: the automatic guess for multi-residue molecules is
    not part of this model. -/
def alignMolecules
    (chi2Of : List (V3 α) → Config α → List (Int × Int) → Config α → α)
    (moveOf : BondsInfo α → α → MoveFn α)
    (stepsFactor : Nat) (sigmaScale : α)
    (start end_ : Mol α) (restr : List (Int × Int)) (deform : Option (List Int)) (ignoreH : Bool)
    (tape : Tape α) : Except AlignErr (Mol α × Mol α × Tape α) :=
  match alignPrepare stepsFactor start end_ restr deform ignoreH with
  | .error e => .error e
  | .ok (.early s') => .ok (s', end_, tape)
  | .ok (.plan p) =>
    -- an objective built on an empty coordinate array raises `ValueError` at its first call
    -- (scipy `cdist`): every atom of the fixed molecule was filtered out as a hydrogen
    if p.fixedPos.isEmpty then .error .valueError else
    match mcMinimize (chi2Of p.fixedPos p.mobilePos p.restr) (moveOf p.bondsInfo sigmaScale)
        p.simType p.nSteps p.mobilePos tape with
    | .error e => .error (.mc e)
    | .ok (res, rest) =>
      match alignFinish p end_ res with
      | .error e => .error e
      | .ok (s, e) => .ok (s, e, rest)

end
