/-
  GMModel.SysGro — `gaddlemaps/components/_system.py : SystemGro` over the READ side of
  `gaddlemaps/parsers/__init__.py : GroFile` (C12; the kind stream is reused by C11).

  Where the model starts.  The bytes → records parsing of a `.gro` file (`_load_and_verify`,
  `determine_format`, `parse_atomline`, the lattice line) is C13's business.  Here a loaded file is
  the list of its parsed atom records plus title and box, and `GroFile` is a *cursor machine* over
  that list: the OS file position (`pos`, in atom-line units after the two header lines) and the
  `_current_atom` counter (`cur`) are two separate pieces of state, exactly as in the Python, so that
  "the cursor cannot leak from one access to the next" is a statement the model can make false.
  `_load_and_verify` ends with `seek_atom(0)`: the initial cursor is `⟨0, 0⟩`.

  Atom records carry residue number, residue name, atom name and an opaque `data : Nat` that stands
  for everything the view never inspects (atom number, coordinates, velocities).  The view only
  moves records around, so the model is parametric in it; the driver puts the record's file index
  there and the harness compares the real atoms' numbers/coordinates/velocities with the raw file at
  that index.

  Strings are `List Char`.
-/

namespace SGro

inductive PyErr
  | StopIteration | IndexError | IOError | ValueError | KeyError | TypeError | RuntimeError
  /-- not a Python exception: the model's loop fuel ran out (proved unreachable) -/
  | ModelFuel
  deriving DecidableEq, Repr

def PyErr.name : PyErr → String
  | .StopIteration => "StopIteration" | .IndexError => "IndexError" | .IOError => "OSError"
  | .ValueError => "ValueError" | .KeyError => "KeyError" | .TypeError => "TypeError"
  | .RuntimeError => "RuntimeError" | .ModelFuel => "ModelFuel"

abbrev Str := List Char

/-- one parsed atom line (`GroFile.parse_atomline` → `AtomGro.__init__`) -/
structure AtomRec where
  resid : Int
  resname : Str
  name : Str
  data : Nat
  deriving DecidableEq, Repr

/-- `'{}'.format(i)` for a Python int -/
def intDigits (i : Int) : Str :=
  if i < 0 then '-' :: Nat.toDigits 10 i.natAbs else Nat.toDigits 10 i.toNat

/-- `AtomGro.residname` / `Residue.residname`: `'{}{}'.format(self.resid, self.resname)` -/
def AtomRec.residname (a : AtomRec) : Str := intDigits a.resid ++ a.resname

/-- the pair `_parse_gro` compares in the repaired code (fixes/C12-O4.patch) -/
def AtomRec.reskey (a : AtomRec) : Int × Str := (a.resid, a.resname)

/-! ### GroFile, read side -/

structure GroRd where
  title : Str
  recs : List AtomRec
  /-- opaque (the 3×3 lattice) -/
  box : Nat
  deriving Repr

/-- `GroFile.natoms` -/
def GroRd.natoms (f : GroRd) : Nat := f.recs.length

structure Cursor where
  /-- position of the OS file cursor: number of lines after the two header lines
      (`natoms` = the box line, `natoms+1` = end of file) -/
  pos : Nat
  /-- `GroFile._current_atom` -/
  cur : Nat
  deriving DecidableEq, Repr

/-- `GroFile.seek_atom(index)`:
    ```
    self._current_atom = index
    if index > self.natoms: raise IndexError
    self._file.seek(self._init_position + index * self._atomline_bytesize)
    ``` -/
def seekAtom (f : GroRd) (c : Cursor) (k : Nat) : Except PyErr Unit × Cursor :=
  let c1 : Cursor := { c with cur := k }
  if k > f.natoms then (.error .IndexError, c1) else (.ok (), { pos := k, cur := k })

/-- `GroFile.next()` = `readline()`:
    ```
    info = self._readline()                       # the OS cursor advances first
    if self._current_atom >= self.natoms: raise StopIteration
    self._current_atom += 1
    return self.parse_atomline(info, self._format)
    ```
    If the line under the cursor is not an atom line (box line: wrong length → `IOError`;
    end of file: `''[-1]` → `IndexError`) `parse_atomline` raises; proved unreachable from
    `SystemGro`. -/
def next (f : GroRd) (c : Cursor) : Except PyErr AtomRec × Cursor :=
  let pos' := if c.pos ≤ f.natoms then c.pos + 1 else c.pos
  if c.cur ≥ f.natoms then (.error .StopIteration, { pos := pos', cur := c.cur })
  else match f.recs[c.pos]? with
    | some r => (.ok r, { pos := pos', cur := c.cur + 1 })
    | none => (.error (if c.pos = f.natoms then .IOError else .IndexError), { pos := pos', cur := c.cur + 1 })

/-- `[AtomGro(next(f)) for _ in range(n)]` -/
def readN (f : GroRd) : Nat → Cursor → Except PyErr (List AtomRec) × Cursor
  | 0, c => (.ok [], c)
  | n + 1, c =>
    match next f c with
    | (.ok r, c1) =>
      match readN f n c1 with
      | (.ok rs, c2) => (.ok (r :: rs), c2)
      | (.error e, c2) => (.error e, c2)
    | (.error e, c1) => (.error e, c1)

/-- `for line in self._open_fgro` (`CoordinatesParser.__iter__`: `yield next(self)` until
    `StopIteration`).  Fuel `natoms + 1` always suffices (`readAll_fuel`). -/
def readAll (f : GroRd) : Nat → Cursor → Except PyErr (List AtomRec) × Cursor
  | 0, c => (.error .ModelFuel, c)
  | fuel + 1, c =>
    match next f c with
    | (.ok r, c1) =>
      match readAll f fuel c1 with
      | (.ok rs, c2) => (.ok (r :: rs), c2)
      | (.error e, c2) => (.error e, c2)
    | (.error .StopIteration, c1) => (.ok [], c1)
    | (.error e, c1) => (.error e, c1)

/-! ### Residue -/

abbrev Residue := List AtomRec

/-- `Residue.__init__`: refuses an empty list and atoms with different `residname` strings -/
def mkResidue (atoms : List AtomRec) : Except PyErr Residue :=
  match atoms with
  | [] => .error .ValueError
  | a :: rest => if rest.all (fun b => b.residname == a.residname) then .ok atoms else .error .ValueError

/-- `AtomGro.__eq__`: same residue name and atom name -/
def atomEq (a b : AtomRec) : Bool := a.resname == b.resname && a.name == b.name

/-- `Residue.__eq__`: same length and all atoms equal -/
def resEq (r s : Residue) : Bool := r.length == s.length && (List.zipWith atomEq s r).all id

/-! ### SystemGro state -/

structure SG where
  /-- `different_molecules`: one template residue per kind -/
  templates : List Residue
  /-- `_molecules_pk`: dict `(resname, len) → index`; newest binding first, lookup takes the first
      hit (= dict assignment with overwrite) -/
  pk : List ((Str × Nat) × Nat)
  /-- `_molecules_ordered`: the Python keeps a flat list `[index, count, index, count, …]` and walks
      it with stride 2; here a list of pairs -/
  ordered : List (Nat × Nat)
  deriving Repr

def SG.empty : SG := ⟨[], [], []⟩

/-- `SystemGro._add_residue_init`:
    ```
    key = (residue.resname, len(residue))
    if residue not in self.different_molecules:
        self.different_molecules.append(residue)
        index = len(self.different_molecules) - 1
        self._molecules_pk[key] = index
    index = self._molecules_pk[key]
    if not self._molecules_ordered or self._molecules_ordered[-2] != index:
        self._molecules_ordered += [index, 1]
    else:
        self._molecules_ordered[-1] += 1
    ``` -/
def registerTemplate (sg : SG) (res : Residue) (key : Str × Nat) : SG :=
  if sg.templates.any (fun t => resEq t res) then sg
  else { sg with templates := sg.templates ++ [res], pk := (key, sg.templates.length) :: sg.pk }

def addResidueInit (sg : SG) (res : Residue) : Except PyErr SG :=
  match res with
  | [] => .error .IndexError
  | a :: _ =>
    let key : Str × Nat := (a.resname, res.length)
    let sg1 : SG := registerTemplate sg res key      -- the `if residue not in …` block
    match sg1.pk.lookup key with
    | none => .error .KeyError
    | some index =>
      match sg1.ordered.getLast? with
      | none => .ok { sg1 with ordered := [(index, 1)] }
      | some (k, c) =>
        if k ≠ index then .ok { sg1 with ordered := sg1.ordered ++ [(index, 1)] }
        else .ok { sg1 with ordered := sg1.ordered.dropLast ++ [(k, c + 1)] }

/-- the loop of `SystemGro._parse_gro`, generic in the key it compares
    (`AtomRec.residname` in the unrepaired code, `AtomRec.reskey` after fixes/C12-O4.patch):
    ```
    for line in self._open_fgro:
        atom = AtomGro(line)
        if key(atom) == prev: current_residue.append(atom)
        else:
            self._add_residue_init(Residue(current_residue))
            current_residue = [atom]; prev = key(current_residue[0])
    self._add_residue_init(Residue(current_residue))
    ``` -/
def parseLoop {κ : Type} [DecidableEq κ] (key : AtomRec → κ) :
    SG → List AtomRec → κ → List AtomRec → Except PyErr SG
  | sg, cur, _, [] => do
      let r ← mkResidue cur
      addResidueInit sg r
  | sg, cur, prev, a :: rest =>
    if key a = prev then parseLoop key sg (cur ++ [a]) prev rest
    else do
      let r ← mkResidue cur
      let sg' ← addResidueInit sg r
      parseLoop key sg' [a] (key a) rest

/-- `SystemGro.__init__` → `_parse_gro` from the cursor left by `GroFile.__init__`.
    (The Python interleaves reading and grouping; nothing else touches the cursor in between, so
    reading all lines first is the same computation.) -/
def initWith {κ : Type} [DecidableEq κ] (key : AtomRec → κ) (f : GroRd) (c : Cursor) :
    Except PyErr SG × Cursor :=
  match next f c with
  | (.error e, c1) => (.error e, c1)
  | (.ok first, c1) =>
    match readAll f (f.natoms + 1) c1 with
    | (.error e, c2) => (.error e, c2)
    | (.ok rest, c2) => (parseLoop key SG.empty [first] (key first) rest, c2)

/-- the code as repaired (fixes/C12-O4.patch): residues split where (number, name) changes -/
def init (f : GroRd) (c : Cursor) : Except PyErr SG × Cursor := initWith AtomRec.reskey f c

/-- the code before the repair: residues split where the string `f"{resid}{resname}"` changes -/
def initUnrepaired (f : GroRd) (c : Cursor) : Except PyErr SG × Cursor :=
  initWith AtomRec.residname f c

/-! ### generators -/

/-- `molecules_info_ordered_all`: the kind of every residue in file order -/
def SG.kinds (sg : SG) : List Nat := sg.ordered.flatMap (fun p => List.replicate p.2 p.1)

/-- `SystemGro.__len__`: `sum(elem[1] for elem in self._pk_ammount_ordered_gen())` -/
def SG.len (sg : SG) : Nat := (sg.ordered.map (·.2)).sum

/-- inner loop of `_molecules_ordered_all_gen`: `for _ in range(ammount): yield …; start_atom += len_mol` -/
def emitRun (idx len : Nat) : Nat → Nat → List (Nat × Nat × Nat) × Nat
  | 0, start => ([], start)
  | n + 1, start =>
    let (l, s) := emitRun idx len n (start + len)
    ((idx, start, len) :: l, s)

/-- `SystemGro._molecules_ordered_all_gen`: `(index, start_atom, len_mol)` for every residue -/
def offsetsGo (templates : List Residue) : Nat → List (Nat × Nat) → Except PyErr (List (Nat × Nat × Nat))
  | _, [] => .ok []
  | start, (idx, amt) :: rest =>
    match templates[idx]? with
    | none => .error .IndexError
    | some t =>
      let (l, s) := emitRun idx t.length amt start
      match offsetsGo templates s rest with
      | .ok tl => .ok (l ++ tl)
      | .error e => .error e

def SG.offsets (sg : SG) : Except PyErr (List (Nat × Nat × Nat)) := offsetsGo sg.templates 0 sg.ordered

/-- `Counter[name] += k`, the counter kept as an association list in first-insertion order -/
def counterAdd (acc : List (Str × Nat)) (nm : Str) (k : Nat) : List (Str × Nat) :=
  if acc.any (·.1 == nm) then acc.map (fun q => if q.1 == nm then (q.1, q.2 + k) else q)
  else acc ++ [(nm, k)]

/-- `SystemGro.composition` as a list of `(resname, count)` in first-appearance order of the
    RLE entries (the harness sorts it) -/
def SG.composition (sg : SG) : Except PyErr (List (Str × Nat)) :=
  sg.ordered.foldlM (fun (acc : List (Str × Nat)) (p : Nat × Nat) =>
    match sg.templates[p.1]? with
    | some (a :: _) => .ok (counterAdd acc a.resname p.2)
    | _ => .error .IndexError) []

/-! ### Python slice semantics (`more_itertools.islice_extended` = list slicing) -/

/-- the indices selected by `list(range(n))[start:stop:step]` (`PySlice_AdjustIndices`);
    `step == 0` → `ValueError` -/
def sliceIndices (n : Nat) (start stop step : Option Int) : Except PyErr (List Nat) :=
  let st : Int := step.getD 1
  let n' : Int := n
  if st = 0 then .error .ValueError
  else if st > 0 then
    let clamp (s : Int) : Int := if s < 0 then max (s + n') 0 else min s n'
    let a := match start with | none => 0 | some s => clamp s
    let b := match stop with | none => n' | some s => clamp s
    let cnt : Nat := if a < b then ((b - a - 1) / st + 1).toNat else 0
    .ok ((List.range cnt).map (fun (j : Nat) => (a + (j : Int) * st).toNat))
  else
    let clamp (s : Int) : Int := if s < 0 then max (s + n') (-1) else min s (n' - 1)
    let a := match start with | none => n' - 1 | some s => clamp s
    let b := match stop with | none => -1 | some s => clamp s
    let cnt : Nat := if b < a then ((a - b - 1) / (-st) + 1).toNat else 0
    .ok ((List.range cnt).map (fun (j : Nat) => (a + (j : Int) * st).toNat))

/-- `islice_extended(it, start, stop, step)` on a finite iterable -/
def isliceExt {β : Type} (l : List β) (start stop step : Option Int) : Except PyErr (List β) :=
  match sliceIndices l.length start stop step with
  | .error e => .error e
  | .ok idx => .ok (idx.filterMap (fun i => l[i]?))

/-- the `int` branch of both `__getitem__`s:
    ```
    if index == -1: info = last(gen)                              # ValueError on an empty generator
    else:           info = next(islice_extended(gen, index, index+1))   # StopIteration → IndexError
    ``` -/
def pickInt {β : Type} (l : List β) (i : Int) : Except PyErr β :=
  if i = -1 then
    match l.getLast? with
    | some x => .ok x
    | none => .error .ValueError
  else
    match isliceExt l (some i) (some (i + 1)) none with
    | .error e => .error e
    | .ok (x :: _) => .ok x
    | .ok [] => .error .IndexError

/-! ### access -/

/-- `self._open_fgro.seek_atom(start); Residue([AtomGro(next(self._open_fgro)) for _ in range(len_mol)])` -/
def readResidue (f : GroRd) (c : Cursor) (start len : Nat) : Except PyErr Residue × Cursor :=
  match seekAtom f c start with
  | (.error e, c1) => (.error e, c1)
  | (.ok (), c1) =>
    match readN f len c1 with
    | (.error e, c2) => (.error e, c2)
    | (.ok atoms, c2) => (mkResidue atoms, c2)

def readResidues (f : GroRd) : List (Nat × Nat × Nat) → Cursor → Except PyErr (List Residue) × Cursor
  | [], c => (.ok [], c)
  | (_, start, len) :: rest, c =>
    match readResidue f c start len with
    | (.error e, c1) => (.error e, c1)
    | (.ok r, c1) =>
      match readResidues f rest c1 with
      | (.ok rs, c2) => (.ok (r :: rs), c2)
      | (.error e, c2) => (.error e, c2)

/-- `except StopIteration: raise IndexError` -/
def stopToIndex {β : Type} (r : Except PyErr β) : Except PyErr β :=
  match r with
  | .error .StopIteration => .error .IndexError
  | x => x

/-- `SystemGro.__getitem__(int)` -/
def getInt (f : GroRd) (sg : SG) (c : Cursor) (i : Int) : Except PyErr Residue × Cursor :=
  match sg.offsets with
  | .error e => (.error e, c)
  | .ok offs =>
    match pickInt offs i with
    | .error e => (stopToIndex (.error e), c)
    | .ok (_, start, len) =>
      let (r, c1) := readResidue f c start len
      (stopToIndex r, c1)

/-- `SystemGro.__getitem__(slice)` -/
def getSlice (f : GroRd) (sg : SG) (c : Cursor) (a b s : Option Int) :
    Except PyErr (List Residue) × Cursor :=
  match sg.offsets with
  | .error e => (.error e, c)
  | .ok offs =>
    match isliceExt offs a b s with
    | .error e => (.error e, c)
    | .ok sel =>
      let (r, c1) := readResidues f sel c
      (stopToIndex r, c1)

/-! ### operation sequences (shared cursor, live iterators) -/

inductive Op
  | get (i : Int)
  | slice (a b s : Option Int)
  /-- `it = iter(sysgro)`: a new generator (nothing is read yet) -/
  | iterNew
  /-- `next(it_j)` on the j-th iterator created so far -/
  | iterNext (j : Nat)
  deriving Repr

structure St where
  cur : Cursor
  /-- for every live `SystemGro.__iter__` generator: how many residues it has yielded;
      `none` once it finished or died with an exception -/
  iters : List (Option Nat)
  deriving Repr

/-- result of one operation: the residues handed to the caller -/
abbrev OpRes := Except PyErr (List Residue)

def step (f : GroRd) (sg : SG) (st : St) : Op → OpRes × St
  | .get i =>
    let (r, c) := getInt f sg st.cur i
    (r.map (fun x => [x]), { st with cur := c })
  | .slice a b s =>
    let (r, c) := getSlice f sg st.cur a b s
    (r, { st with cur := c })
  | .iterNew => (.ok [], { st with iters := st.iters ++ [some 0] })
  | .iterNext j =>
    match st.iters[j]? with
    | none => (.error .TypeError, st)               -- no such iterator (never sent by the harness)
    | some none => (.error .StopIteration, st)      -- finished generator
    | some (some k) =>
      match sg.offsets with
      | .error e => (.error e, { st with iters := st.iters.set j none })
      | .ok offs =>
        match offs[k]? with
        | none => (.error .StopIteration, { st with iters := st.iters.set j none })
        | some (_, start, len) =>
          match readResidue f st.cur start len with
          | (.ok r, c) => (.ok [r], { cur := c, iters := st.iters.set j (some (k + 1)) })
          | (.error e, c) =>
            -- an exception inside a generator kills it; StopIteration becomes RuntimeError (PEP 479)
            (.error (if e = .StopIteration then .RuntimeError else e),
             { cur := c, iters := st.iters.set j none })

def run (f : GroRd) (sg : SG) : St → List Op → List OpRes × St
  | st, [] => ([], st)
  | st, op :: ops =>
    let (r, st1) := step f sg st op
    let (rs, st2) := run f sg st1 ops
    (r :: rs, st2)

end SGro
