import GMModel.PyStr
/-
  GMModel.Gro — `gaddlemaps/parsers/__init__.py`: class `GroFile` (write mode and read mode),
  `extract_lattice_gro`, `dump_lattice_gro`, `_validate_res_atom_numbers`.

  The WRITER is a state machine over the operations a client can perform on `GroFile(path, 'w')`;
  its state mirrors the attributes of the object (`_comment`, `_natoms`, `_init_position`,
  `_atomline_bytesize`, `_format`, `_box_matrix`, `_current_atom`) plus the file (bytes + cursor).
  Operations: the four setters (`box_matrix` also with a wrong shape), `writeline` of a record (tuple of
  length 7 / 10), of a tuple of any other length, of a pre-formatted string (first line: parsed and re-emitted;
  later lines: verbatim), `close` (incl. "Closing an empty file").
  The READER follows `_load_and_verify` / `_load_box_matrix` / `seek_atom` / `readline` /
  `parse_atomline` / `determine_format`; the numeric parsers enter through a `Parsers` record so
  that C14 can quantify over them. After opening it is a cursor machine (`RCur`: header, `tell()`,
  `_current_atom`) over `seek_atom`, `readline(parsed=…)` and the setters (which raise in read mode).
  Not modelled: `seek_atom` as a client operation in write mode, `writeline` in read mode, an already open
  file object / the `'+'` modes, `writelines` (a loop over `writeline`), the `name` property.

  The model is of the code AS REPAIRED for
    D2: `_setup_write_file` initialises `_format["velocities"]` independently of the position format,
    D3: `parse_atomlist` wraps numbers modulo 100000,
    D13: the `comment` setter and `_setup_write_file` test `endswith("\n")` instead of indexing `[-1]`
         (an empty title no longer raises `IndexError`).
-/

namespace Gro
open PyStr

/-! ## data -/

/-- an atom record handed to `writeline` (tuple of length 7, or 10 with velocities) -/
structure Rec where
  resnum : Int
  resname : List Nat
  name : List Nat
  atomnum : Int
  x : Dy
  y : Dy
  z : Dy
  vel : Option (Dy × Dy × Dy)
deriving DecidableEq, Repr, Inhabited

/-- a 3×3 array, row major -/
structure M9 (α : Type) where
  m00 : α
  m01 : α
  m02 : α
  m10 : α
  m11 : α
  m12 : α
  m20 : α
  m21 : α
  m22 : α
deriving DecidableEq, Repr, Inhabited

abbrev Box := M9 Dy
abbrev RBox := M9 PyNum

def Box.zeros : Box := ⟨.zero, .zero, .zero, .zero, .zero, .zero, .zero, .zero, .zero⟩

/-- argument of the `box_matrix` setter: shape `(3,)` (→ `numpy.diag`) or `(3,3)` -/
inductive BoxArg
  | vec (a b c : Dy)
  | mat (m : Box)
deriving DecidableEq, Repr, Inhabited

def BoxArg.toBox : BoxArg → Box
  | .vec a b c => ⟨a, .zero, .zero, .zero, b, .zero, .zero, .zero, c⟩
  | .mat m => m

/-- an atom record as returned by `parse_atomline` -/
structure RRec where
  resnum : Int
  resname : List Nat
  name : List Nat
  atomnum : Int
  x : PyNum
  y : PyNum
  z : PyNum
  vel : Option (PyNum × PyNum × PyNum)
deriving DecidableEq, Repr, Inhabited

/-- `GroFile.DEFAULT_COMMENT` -/
def defaultComment : List Nat :=
  "Gro file genereted with 'Gromacs Tools' python module.".toList.map (fun c => c.toNat)

/-- `GroFile.DEFAULT_POSTION_FORMAT` -/
def defaultFormat : Nat × Nat := (8, 3)

/-- `GroFile.NUMBER_FIGURES` -/
def numberFigures : Nat := 9

/-- `GroFile.COORD_START` -/
def coordStart : Nat := 20

/-! ## lattice line -/

/-- `dump_lattice_gro`: reorder to `(0,4,8,1,2,3,5,6,7)`; nine numbers when any off-diagonal entry is
    non-zero (`numpy.any`), else three; `'{:9.5f}'` joined by one blank. -/
def dumpLattice (b : Box) : List Nat :=
  let diag := [b.m00, b.m11, b.m22]
  let off := [b.m01, b.m02, b.m10, b.m12, b.m20, b.m21]
  let vals := if off.any (fun v => !v.isZero) then diag ++ off else diag
  [sp].intercalate (vals.map (fmtFixed 9 5))

/-- `vectors = numpy.zeros(9)` then the parsed numbers are stored in order: a missing number leaves 0.0 -/
def nthOrZero (l : List PyNum) (i : Nat) : PyNum :=
  match l[i]? with
  | some v => v
  | none => PyNum.zero

/-- `extract_lattice_gro(line)`: `float` of the first (at most nine) blank-separated tokens — the
    generator is consumed through `zip(index, nums)`, later tokens are never converted. -/
def extractLattice (pyFloat : List Nat → Except PyErr PyNum) (line : List Nat) : Except PyErr RBox := do
  let nums ← ((split line).take 9).mapM pyFloat
  let g := nthOrZero nums
  pure ⟨g 0, g 3, g 4, g 5, g 1, g 6, g 7, g 8, g 2⟩

/-! ## one atom line: `determine_format`, `parse_atomline` -/

/-- the parsers the reader calls: `int`, `float` and `GroFile.determine_format` -/
structure Parsers where
  pyInt : List Nat → Except PyErr Int
  pyFloat : List Nat → Except PyErr PyNum
  detFormat : List Nat → Except PyErr (Nat × Int × Bool)

/-- `GroFile.determine_format(atomline)` → `((nfigures, ndecimals), velocities)` -/
def determineFormat (line : List Nat) : Except PyErr (Nat × Int × Bool) :=
  match line.getLast? with
  | none => .error .indexError                 -- `atomline[-1]` on ''
  | some _ =>
    let l := chopNl line
    let size := l.length
    if l.count nl > 0 then .error .valueError
    else
      let ndots := (l.drop coordStart).count dot
      if ndots ≠ 3 ∧ ndots ≠ 6 then .error .ioError
      else
        let nfigures := (size - coordStart) / ndots
        if size ≠ coordStart + ndots * nfigures then .error .ioError
        else .ok (nfigures, (nfigures : Int) - 5, ndots == 6)

def stdParsers : Parsers := ⟨pyInt, pyFloat, determineFormat⟩

/-- `except ValueError: raise IOError(...)` -/
def valueToIO {α : Type} : Except PyErr α → Except PyErr α
  | .error .valueError => .error .ioError
  | r => r

/-- `GroFile.parse_atomline(atomline, format_dict)` with a given format -/
def parseAtomline (P : Parsers) (fmt : Nat × Int × Bool) (line : List Nat) : Except PyErr RRec :=
  match line.getLast? with
  | none => .error .indexError
  | some _ => do
    let l := chopNl line
    let space := fmt.1
    let vel := fmt.2.2
    let expected := 20 + space * 3 * (1 + (if vel then 1 else 0))
    if l.length ≠ expected then throw .ioError
    let resnum ← valueToIO (P.pyInt (slice l 0 5))
    let atomnum ← valueToIO (P.pyInt (slice l 15 20))
    let resname := strip (slice l 5 10)
    let name := strip (slice l 10 15)
    let x ← P.pyFloat (slice l 20 (20 + space))
    let y ← P.pyFloat (slice l (20 + space) (20 + 2 * space))
    let z ← P.pyFloat (slice l (20 + 2 * space) (20 + 3 * space))
    if vel then
      let vx ← P.pyFloat (slice l (20 + 3 * space) (20 + 4 * space))
      let vy ← P.pyFloat (slice l (20 + 4 * space) (20 + 5 * space))
      let vz ← P.pyFloat (slice l (20 + 5 * space) (20 + 6 * space))
      pure ⟨resnum, resname, name, atomnum, x, y, z, some (vx, vy, vz)⟩
    else
      pure ⟨resnum, resname, name, atomnum, x, y, z, none⟩

/-- `GroFile.parse_atomline(atomline)` with `format_dict=None`: the format is `determine_format(atomline)`
    (which raises `IndexError` on the empty string before anything else) -/
def parseAtomlineAuto (P : Parsers) (line : List Nat) : Except PyErr RRec := do
  let fmt ← P.detFormat line
  parseAtomline P fmt line

/-- the tuple `parse_atomline` returns, as an argument of `parse_atomlist`: every `float` object is the
    double nearest to the text's decimal; `none` when a value is `inf` / `nan` (`Rec` holds finite doubles) -/
def RRec.toRec (q : RRec) : Option Rec := do
  let x ← q.x.toDy
  let y ← q.y.toDy
  let z ← q.z.toDy
  match q.vel with
  | none => pure ⟨q.resnum, q.resname, q.name, q.atomnum, x, y, z, none⟩
  | some (a, b, c) =>
    let vx ← a.toDy
    let vy ← b.toDy
    let vz ← c.toDy
    pure ⟨q.resnum, q.resname, q.name, q.atomnum, x, y, z, some (vx, vy, vz)⟩

/-! ## writer -/

/-- `GroFile.validate_string`: names longer than five characters are cut (with a warning) -/
def validateString (s : List Nat) : List Nat := if s.length > 5 then s.take 5 else s

/-- the five-digit wrap of `parse_atomlist` (as repaired, D3): GROMACS convention, modulo 100000.
    Python's `%` with a positive modulus is `Int.emod`. -/
def wrap5 (n : Int) : Int := n % 100000

/-- the formatting part of `parse_atomlist` (`"".join(format_list).format(*atominfo, …)`) -/
def atomText (fmt : Nat × Nat) (r : Rec) : List Nat :=
  let w := fmt.1
  let d := fmt.2
  let head := fmtD 5 (wrap5 r.resnum) ++ padRight 5 (validateString r.resname) ++
    padLeft 5 (validateString r.name) ++ fmtD 5 (wrap5 r.atomnum)
  let posn := fmtFixed w d r.x ++ fmtFixed w d r.y ++ fmtFixed w d r.z
  match r.vel with
  | none => head ++ posn
  | some (vx, vy, vz) =>
    head ++ posn ++ (fmtFixed w (d + 1) vx ++ fmtFixed w (d + 1) vy ++ fmtFixed w (d + 1) vz)

/-- `GroFile.parse_atomlist(atomlist, format_dict)` for a tuple of length 7 or 10 and
    `format_dict = {"position": fmt, "velocities": fv}` -/
def parseAtomlist (fmt : Nat × Nat) (fv : Option Bool) (r : Rec) : Except PyErr (List Nat) :=
  let velocities := r.vel.isSome
  if fv ≠ some velocities then .error .ioError
  else .ok (atomText fmt r)

/-- the `atomlist` argument of `parse_atomlist` / `writeline` when it is a list or tuple: of length 7 or 10
    (a record), or of any other length (its elements are never looked at) -/
inductive Tup
  | ofRec (r : Rec)
  | other (len : Nat)
deriving DecidableEq, Repr, Inhabited

/-- the `format_dict` argument: `{"position": pos, "velocities": vel}` -/
structure FmtDict where
  pos : Option (Nat × Nat)
  vel : Option Bool
deriving DecidableEq, Repr, Inhabited

/-- `GroFile.parse_atomlist(atomlist, format_dict)`, every branch:
    `format_dict is None` → `DEFAULT_POSTION_FORMAT` and no velocity check; `float_format[0]` on a `None`
    position format → `TypeError`; a length other than 7 / 10 → `ValueError`; velocity presence different from
    `format_dict["velocities"]` → `IOError`. (`Tup.other 7` / `Tup.other 10` do not denote a tuple the model can
    format: explicit `unmodelled`.) -/
def parseAtomlistG (fd : Option FmtDict) (t : Tup) : Except PyErr (List Nat) :=
  let floatFormat : Option (Nat × Nat) :=
    match fd with
    | none => some defaultFormat
    | some f => f.pos
  match floatFormat with
  | none => .error .typeError
  | some fmt =>
    match t with
    | .other n => if n = 7 ∨ n = 10 then .error .unmodelled else .error .valueError
    | .ofRec r =>
      match fd with
      | none => .ok (atomText fmt r)
      | some f => parseAtomlist fmt f.vel r

/-- state of a `GroFile` opened with mode `'w'` -/
structure WState where
  bytes : List Nat := []
  pos : Nat := 0
  comment : Option (List Nat) := none
  natoms : Option Int := none
  initPos : Option Nat := none
  lineSize : Option Nat := none
  fmtPos : Option (Nat × Nat) := none
  fmtVel : Option Bool := none
  box : Box := Box.zeros
  cur : Int := 0
  closed : Bool := false
deriving Repr, Inhabited

def WState.init : WState := {}

/-- `self._file.write(s)` -/
def WState.write (s : WState) (t : List Nat) : WState :=
  { s with bytes := writeAt s.bytes s.pos t, pos := s.pos + t.length }

/-- client operations on a `GroFile` in write mode -/
inductive Op
  | setComment (v : List Nat)
  | setBox (b : BoxArg)
  | setNatoms (n : Int)
  | setPosFmt (w d : Nat)
  | writeLine (r : Rec)
  | close
  | setBoxBadShape               -- `box_matrix = value` with `numpy.array(value).shape ∉ {(3,), (3,3)}`
  | writeStr (line : List Nat)   -- `writeline(str)`: a pre-formatted line
  | writeTup (len : Nat)         -- `writeline(tuple)` with `len(tuple) ∉ {7, 10}`
deriving DecidableEq, Repr, Inhabited

/-- the part of `writeline` after the `_init_position is None` test -/
def writeLineBody (s : WState) (r : Rec) : WState × Option PyErr :=
  match s.fmtPos with
  | none => (s, some .typeError)            -- `None[0]`; unreachable: the header sets the format
  | some f =>
    match parseAtomlist f s.fmtVel r with
    | .error e => (s, some e)
    | .ok line =>
      if s.closed then (s, some .valueError)   -- I/O operation on closed file
      else ({ (s.write line).write [nl] with cur := s.cur + 1 }, none)

/-- the `position_format` property: the default while unset -/
def WState.effFormat (s : WState) : Nat × Nat :=
  match s.fmtPos with
  | none => defaultFormat
  | some f => f

/-- the `comment` property: the default while unset -/
def WState.effComment (s : WState) : List Nat :=
  match s.comment with
  | none => defaultComment
  | some c => c

/-- the count line written with the header: blank placeholder (back-filled on close) or the declared
    number -/
def WState.countLine (s : WState) : List Nat :=
  match s.natoms with
  | none => List.replicate numberFigures sp ++ [nl]
  | some n => intBody n ++ [nl]

/-- the header part of `_setup_write_file`: comment (terminated unless it already ends in a newline —
    as repaired, D13: `comment.endswith("\n")`, so that an empty comment is a valid title),
    count line, `_init_position = tell()` -/
def writeHeader (s : WState) (comment : List Nat) : WState :=
  let s1 := s.write comment
  let s2 := if comment.getLast? = some nl then s1 else s1.write [nl]
  let s3 := s2.write s2.countLine
  { s3 with initPos := some s3.pos }

/-- `_setup_write_file` (as repaired, D2) -/
def setupWrite (s : WState) (r : Rec) : WState × Option PyErr :=
  let s := { s with fmtPos := some s.effFormat, fmtVel := some r.vel.isSome }
  if s.closed then (s, some .valueError) else
  let sH := writeHeader s s.effComment
  match writeLineBody sH r with
  | (s', some e) => (s', some e)
  | (s', none) => ({ s' with lineSize := some (s'.pos - sH.pos) }, none)

/-- `writeline(str)` after the header exists: the string is written verbatim (no parsing, no check) -/
def writeStrBody (s : WState) (line : List Nat) : WState × Option PyErr :=
  if s.closed then (s, some .valueError)       -- I/O operation on closed file
  else ({ (s.write line).write [nl] with cur := s.cur + 1 }, none)

/-- `_setup_write_file(str)`: the string is parsed with `parse_atomline` (format inferred from the line itself)
    and the resulting tuple goes through the ordinary first-record path — i.e. it is RE-EMITTED by
    `parse_atomlist` in the file's own format. A raising `parse_atomline` leaves the object untouched.
    (A line with a non-ASCII byte is outside the model: Python slices it by characters, the model by bytes.) -/
def setupWriteStr (s : WState) (line : List Nat) : WState × Option PyErr :=
  if line.any (fun c => 128 ≤ c) then (s, some .unmodelled) else
  match parseAtomlineAuto stdParsers line with
  | .error e => (s, some e)
  | .ok q =>
    match q.toRec with
    | none => (s, some .unmodelled)            -- `inf` / `nan` values
    | some r => setupWrite s r

/-- `writeline(tuple)`, `len(tuple) ∉ {7, 10}`, after the header exists: `parse_atomlist` raises, nothing is
    written -/
def writeTupBody (s : WState) (len : Nat) : WState × Option PyErr :=
  match parseAtomlistG (some ⟨s.fmtPos, s.fmtVel⟩) (.other len) with
  | .error e => (s, some e)
  | .ok _ => (s, some .unmodelled)             -- unreachable: `Tup.other` never formats

/-- `_setup_write_file(tuple)`, `len(tuple) ∉ {7, 10}`: the format is fixed (`velocities = (len == 10)`), the
    header IS written and `_init_position` set; then the inner `writeline` raises `ValueError`:
    `_atomline_bytesize` stays `None` -/
def setupWriteTup (s : WState) (len : Nat) : WState × Option PyErr :=
  let s := { s with fmtPos := some s.effFormat, fmtVel := some (len == 10) }
  if s.closed then (s, some .valueError) else
  writeTupBody (writeHeader s s.effComment) len

/-- `self._file.seek(p)` with a Python int -/
def WState.seek (s : WState) (p : Int) : Except PyErr WState :=
  if p < 0 then .error .valueError else .ok { s with pos := p.toNat }

/-- `seek_atom(index)` in write mode (`natoms` is known to be set by the caller) -/
def wSeekAtom (s : WState) (index : Int) (natoms : Int) : WState × Option PyErr :=
  let s := { s with cur := index }
  if index > natoms then (s, some .indexError)
  else match s.initPos, s.lineSize with
    | some i, some l =>
      if s.closed then (s, some .valueError) else
      match s.seek ((i : Int) + index * (l : Int)) with
      | .ok s => (s, none)
      | .error e => (s, some e)
    | _, _ => (s, some .valueError)          -- "Error in initalizaiton"

/-- result of the first part of `_write_closing_info` -/
inductive CloseA
  | empty (s : WState)            -- "Closing an empty file": nothing written
  | failed (s : WState) (e : PyErr)
  | counted (s : WState) (natoms : Int)   -- count back-filled or verified

/-- `_write_closing_info`, first part: back-fill or verify the atom count -/
def closeCount (s : WState) : CloseA :=
  match s.natoms with
  | none =>
    if s.cur = 0 then .empty s
    else match s.initPos with
      | none => .failed s .typeError         -- `None - 1`; unreachable
      | some i =>
        if s.closed then .failed s .valueError else
        match s.seek ((i : Int) - 1 - (numberFigures : Int)) with
        | .error e => .failed s e
        | .ok s1 =>
          let s2 := { s1 with natoms := some s.cur }
          .counted (s2.write (fmtD numberFigures s.cur ++ [nl])) s.cur
  | some n =>
    if n ≠ s.cur then .failed s .ioError else .counted s n

/-- second part: `seek_atom(natoms)`, write the lattice text (no terminator yet) -/
def closeLattice (s : WState) (natoms : Int) : WState × Option PyErr :=
  match wSeekAtom s natoms natoms with
  | (s, some e) => (s, some e)
  | (s, none) => (s.write (dumpLattice s.box), none)

/-- third part: the terminator of the lattice line, then `self._file.close()` -/
def closeFinish (s : WState) : WState := { s.write [nl] with closed := true }

/-- `close()` -/
def closeOp (s : WState) : WState × Option PyErr :=
  match closeCount s with
  | .empty s => ({ s with closed := true }, none)
  | .failed s e => (s, some e)                 -- the file object stays open
  | .counted s n =>
    match closeLattice s n with
    | (s, some e) => (s, some e)
    | (s, none) => (closeFinish s, none)

/-- one client operation; the second component is the exception raised, if any (the state is the
    one left behind by the partially executed method) -/
def step (s : WState) : Op → WState × Option PyErr
  | .setComment v => ({ s with comment := some (chopNl v) }, none)   -- as repaired, D13: `value.endswith`
  | .setBox b => ({ s with box := b.toBox }, none)
  | .setNatoms n => ({ s with natoms := some n }, none)
  | .setPosFmt w d => ({ s with fmtPos := some (w, d) }, none)
  | .writeLine r =>
    match s.initPos with
    | none => setupWrite s r
    | some _ => writeLineBody s r
  | .close => closeOp s
  | .setBoxBadShape => (s, some .valueError)
  | .writeStr line =>
    match s.initPos with
    | none => setupWriteStr s line
    | some _ => writeStrBody s line
  | .writeTup len =>
    match s.initPos with
    | none => setupWriteTup s len
    | some _ => writeTupBody s len

/-- run a client script; an operation that raises does not stop the script (the harness does the
    same): the list of raised exceptions is returned in order -/
def run (s : WState) : List Op → WState × List (Option PyErr)
  | [] => (s, [])
  | op :: ops =>
    let (s1, e) := step s op
    let (s2, es) := run s1 ops
    (s2, e :: es)

/-- the file contents after every operation of the script, and — for `close` — after each of its
    parts (count back-filled; lattice text written; terminator written) -/
def snapshots (s : WState) : List Op → List (List Nat)
  | [] => []
  | .close :: ops =>
    let parts : List (List Nat) :=
      match closeCount s with
      | .counted s1 n => [s1.bytes, (closeLattice s1 n).1.bytes]
      | .empty s1 => [s1.bytes]
      | .failed s1 _ => [s1.bytes]
    let s' := (step s .close).1
    parts ++ s'.bytes :: snapshots s' ops
  | op :: ops =>
    let s' := (step s op).1
    s'.bytes :: snapshots s' ops

/-! ## reader -/

/-- a `GroFile` opened in read mode, after `_load_and_verify` -/
structure RState where
  title : List Nat
  natoms : Int
  initPos : Nat
  lineSize : Nat
  fmt : Nat × Int × Bool
  box : RBox
deriving DecidableEq, Repr, Inhabited

/-- `_load_and_verify` (with `_load_box_matrix` and `seek_atom` inlined) -/
def loadAndVerify (P : Parsers) (bs : List Nat) : Except PyErr RState := do
  let title := readLine bs 0
  if title.isEmpty then throw .ioError
  let countLine := readLine bs title.length
  let natoms ← valueToIO (P.pyInt countLine)
  let init := title.length + countLine.length            -- `tell()`
  let first := readLine bs init
  let fmt ← P.detFormat first
  let size := first.length                               -- `tell() - _init_position`
  -- `_load_box_matrix`: `seek_atom(natoms)` (`natoms > natoms` is false), `readline`
  let target : Int := (init : Int) + natoms * (size : Int)
  if target < 0 then throw .valueError                   -- negative seek position
  let line := readLine bs target.toNat
  if line.isEmpty then throw .ioError
  let box ← valueToIO (extractLattice P.pyFloat line)
  -- `self.seek_atom(0)`: `0 > natoms` for a negative count
  if (0 : Int) > natoms then throw .indexError
  pure ⟨title, natoms, init, size, fmt, box⟩

/-- `readlines()` after `seek_atom(0)`: `natoms` calls of `readline` (then `StopIteration`) -/
def readRecords (P : Parsers) (fmt : Nat × Int × Bool) (bs : List Nat) : Nat → Nat → Except PyErr (List RRec)
  | 0, _ => .ok []
  | n + 1, pos => do
    let line := readLine bs pos
    let r ← parseAtomline P fmt line
    let rest ← readRecords P fmt bs n (pos + line.length)
    pure (r :: rest)

/-- the result of `g = GroFile(path); (g.comment, g.readlines(), g.box_matrix)` -/
structure GroData where
  title : List Nat
  recs : List RRec
  box : RBox
deriving Repr, Inhabited

def groRead (P : Parsers) (bs : List Nat) : Except PyErr GroData := do
  let st ← loadAndVerify P bs
  let recs ← readRecords P st.fmt bs st.natoms.toNat st.initPos
  pure ⟨st.title, recs, st.box⟩

/-! ## a `GroFile` in read mode as a cursor machine

  The header attributes (`RState`) are fixed by `_load_and_verify`; what a client can change afterwards is the file
  cursor and `_current_atom`. `_load_and_verify` ends with `seek_atom(0)`. -/

/-- an open reader: header, file cursor (`tell()`), `_current_atom` -/
structure RCur where
  hdr : RState
  pos : Nat
  cur : Int
deriving DecidableEq, Repr, Inhabited

/-- client operations on a `GroFile` in read mode -/
inductive ROp
  | setComment (v : List Nat)
  | setBox (b : BoxArg)
  | setBoxBadShape
  | setNatoms (n : Int)
  | setPosFmt (w d : Nat)
  | seekAtom (index : Int)
  | readline (parsed : Bool)
deriving DecidableEq, Repr, Inhabited

/-- what an operation returns -/
inductive RVal
  | unit
  | raw (line : List Nat)
  | parsed (r : RRec)
deriving DecidableEq, Repr, Inhabited

/-- `GroFile(path)` -/
def ropen (P : Parsers) (bs : List Nat) : Except PyErr RCur := do
  let st ← loadAndVerify P bs
  pure ⟨st, st.initPos, 0⟩

/-- `seek_atom(index)` in read mode: `_current_atom` is assigned BEFORE the range check -/
def rSeekAtom (s : RCur) (index : Int) : RCur × Except PyErr RVal :=
  let s := { s with cur := index }
  if index > s.hdr.natoms then (s, .error .indexError)
  else
    let target : Int := (s.hdr.initPos : Int) + index * (s.hdr.lineSize : Int)
    if target < 0 then (s, .error .valueError)             -- negative seek position
    else ({ s with pos := target.toNat }, .ok .unit)

/-- `readline(parsed)`: the line is consumed first; `parsed=False` returns it as it is (and does not count
    it); otherwise `StopIteration` at `natoms`, else `_current_atom += 1` and `parse_atomline(info, _format)` -/
def rReadline (P : Parsers) (bs : List Nat) (s : RCur) (parsed : Bool) : RCur × Except PyErr RVal :=
  let info := readLine bs s.pos
  let s := { s with pos := s.pos + info.length }
  if !parsed then (s, .ok (.raw info))
  else if s.cur ≥ s.hdr.natoms then (s, .error .stopIteration)
  else
    let s := { s with cur := s.cur + 1 }
    match parseAtomline P s.hdr.fmt info with
    | .error e => (s, .error e)
    | .ok r => (s, .ok (.parsed r))

/-- one client operation in read mode. All four setters raise `AttributeError` (the `box_matrix` setter tests
    the mode before it looks at the shape). -/
def rstep (P : Parsers) (bs : List Nat) (s : RCur) : ROp → RCur × Except PyErr RVal
  | .setComment _ => (s, .error .attributeError)
  | .setBox _ => (s, .error .attributeError)
  | .setBoxBadShape => (s, .error .attributeError)
  | .setNatoms _ => (s, .error .attributeError)
  | .setPosFmt _ _ => (s, .error .attributeError)
  | .seekAtom i => rSeekAtom s i
  | .readline parsed => rReadline P bs s parsed

/-- a client script in read mode: every result, with the cursor and `_current_atom` after the operation -/
def rrun (P : Parsers) (bs : List Nat) (s : RCur) : List ROp → RCur × List (Except PyErr RVal × Nat × Int)
  | [] => (s, [])
  | op :: ops =>
    let (s1, v) := rstep P bs s op
    let (s2, vs) := rrun P bs s1 ops
    (s2, (v, s1.pos, s1.cur) :: vs)

end Gro
