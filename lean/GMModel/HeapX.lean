import GMModel.HeapOps
/-
  GMModel.HeapX — the extended operation set of the heap model (C18):

    * `Atom.__init__`           (`_components.py` 57-66: TypeError / TypeError / IOError)
    * `Atom.__getattr__`        (104-112) and ordinary attribute lookup on `Atom` / `AtomGro`
    * `Atom.__setattr__`        (114-131) — the routing table `route`
    * `Atom.__eq__`, `AtomGro.__eq__`, `Residue.__eq__`, `Molecule.__eq__`
    * `Residue.remove_atom`     (`_residue.py` 276-285; `list.remove`: identity OR `==`, first hit)
    * `Residue.__add__/__radd__`, `AtomGro.__add__`, `Molecule.__add__/__radd__` (100-124, 460-473)
    * the operations of `GMModel.HeapOps` on a Molecule one of whose residues LOST an atom through
      `remove_atom` (`len(mol)` no longer equals the number of its AtomGro objects — "ragged") and
      on a Residue that lost all its atoms.

  `GMModel.HeapOps` answers `internal` on ragged molecules (its `collPairs` insists on as many
  AtomTops as AtomGros).  Here the same Python lines are modelled without that assumption and
  `stepX` dispatches: a base operation on a non-ragged target IS `stepOn` (by definition).

  Not modelled (the model answers `internal`, the generators never emit them): rebinding the pair
  of a view (`_atom_top` / `_atom_gro`), instance attributes added to an AtomTop / AtomGro object
  (`atom.connect = …`, `agro.foo = …`), ill-typed values for typed fields.
-/

namespace GMHeap

variable {α : Type}

/-! ### Python values that travel through attribute reads / writes -/

inductive PyVal (α : Type) where
  | int (n : Int)
  | str (s : String)
  | vec (v : V3 α)
  | none
  /-- a `set` of ints (`AtomTop.bonds`), kept as its sorted list -/
  | nats (l : List Nat)
  | bool (b : Bool)
  /-- a value that is not data: a bound method, an object -/
  | opaque

/-! ### `Atom.__setattr__`: the routing table

The tests of lines 115-131, in order:
  1. `attr in ['_atom_top', '_atom_gro']`                → the view's own slot
  2. `attr == 'resid'`                                   → AttributeError
  3. `attr in ('resname', 'name')`                       → AtomTop AND AtomGro
  4. `attr in super().__dir__()`                         → `object.__setattr__(view, …)`
  5. `hasattr(self._atom_top, attr)`                     → AtomTop
  6. `hasattr(self._atom_gro, attr)`                     → AtomGro
  7. else                                                → `object.__setattr__(view, …)`
-/

inductive TopF where | index | bonds
deriving DecidableEq, Repr

inductive GroF where | position | velocity | atomid
deriving DecidableEq, Repr

inductive Route where
  /-- 1. `_atom_top`, `_atom_gro` -/
  | pairSlot
  /-- 2. `resid` -/
  | residRaise
  /-- 3. `resname` (`isName = false`) / `name` (`true`) -/
  | both (isName : Bool)
  /-- 4. a property of the `Atom` class WITH a setter: `top_resid` (`top = true`) / `gro_resid` -/
  | ownProp (top : Bool)
  /-- 4. a property of the `Atom` class without setter (`atom_gro`, `atom_top`), `__weakref__`:
      `object.__setattr__` raises AttributeError -/
  | ownReadOnly
  /-- 4. `__class__`, `__dict__`: TypeError for any value that is not a class / dict -/
  | ownTypeErr
  /-- 4. any other name of `object.__dir__(view)` (methods, dunders): the view's instance dict -/
  | ownDict
  /-- 5. a data attribute of AtomTop -/
  | topField (f : TopF)
  /-- 5. `residname`: a property of AtomTop without setter → AttributeError -/
  | topReadOnly
  /-- 5. a method of AtomTop (`connect`, `closest_atoms`): instance attribute ON the AtomTop object -/
  | topOther
  /-- 6. a data attribute of AtomGro -/
  | groField (f : GroF)
  /-- 6. `element`: `hasattr` EVALUATES the property (IOError when the atom name has no letter,
      which `hasattr` does not swallow); then no setter → AttributeError -/
  | groElement
  /-- 6. a method of AtomGro that `object.__dir__(view)` does not list (`gro_line`, `__add__`):
      instance attribute ON the AtomGro object -/
  | groOther
  /-- 7. brand-new name: the view's instance dict -/
  | fresh
deriving DecidableEq, Repr

/-- `object.__dir__(atom)` minus the names treated separately below (CPython 3.12) -/
def atomDirPlain : List String :=
  ["__delattr__", "__dir__", "__doc__", "__eq__", "__format__", "__ge__", "__getattr__",
   "__getattribute__", "__getstate__", "__gt__", "__hash__", "__init__", "__init_subclass__", "__le__",
   "__lt__", "__module__", "__ne__", "__new__", "__reduce__", "__reduce_ex__", "__repr__",
   "__setattr__", "__sizeof__", "__str__", "__subclasshook__", "copy"]

/-- THE ROUTING TABLE: every name the three classes know, with the branch the seven tests above send
    it to (rows grouped by test; the names are pairwise distinct, so the order of the rows is
    immaterial).  The correspondence check recomputes every row from the real classes on each run
    (`dir(atom)`, `dir(atom_top)`, `dir(atom_gro)` and names none of them has). -/
def routeTable : List (String × Route) :=
  [("_atom_top", .pairSlot), ("_atom_gro", .pairSlot),
   ("resid", .residRaise),
   ("resname", .both false), ("name", .both true),
   -- `super().__dir__()`
   ("top_resid", .ownProp true), ("gro_resid", .ownProp false),
   ("atom_gro", .ownReadOnly), ("atom_top", .ownReadOnly), ("__weakref__", .ownReadOnly),
   ("__class__", .ownTypeErr), ("__dict__", .ownTypeErr)] ++
  atomDirPlain.map (fun n => (n, Route.ownDict)) ++
  -- `hasattr(self._atom_top, attr)`   (`name`, `resname`, `resid`, `copy` were caught above)
  [("index", .topField .index), ("bonds", .topField .bonds), ("residname", .topReadOnly),
   ("connect", .topOther), ("closest_atoms", .topOther),
   -- `hasattr(self._atom_gro, attr)`
   ("position", .groField .position), ("velocity", .groField .velocity), ("atomid", .groField .atomid),
   ("element", .groElement), ("gro_line", .groOther), ("__add__", .groOther)]

/-- a name none of the three classes has is brand-new (test 7) -/
def route (attr : String) : Route :=
  match routeTable.lookup attr with
  | some r => r
  | none => .fresh

def Route.tag : Route → String
  | .pairSlot => "pairSlot"
  | .residRaise => "residRaise"
  | .both false => "both:resname"
  | .both true => "both:name"
  | .ownProp true => "ownProp:top_resid"
  | .ownProp false => "ownProp:gro_resid"
  | .ownReadOnly => "ownReadOnly"
  | .ownTypeErr => "ownTypeErr"
  | .ownDict => "ownDict"
  | .topField .index => "top:index"
  | .topField .bonds => "top:bonds"
  | .topReadOnly => "topReadOnly"
  | .topOther => "topOther"
  | .groField .position => "gro:position"
  | .groField .velocity => "gro:velocity"
  | .groField .atomid => "gro:atomid"
  | .groElement => "groElement"
  | .groOther => "groOther"
  | .fresh => "fresh"

/-- the cells `atom.<attr> = value` may write, for the view `(t, g)` -/
def Route.cells (t g : Nat) : Route → List Nat
  | .both _ => [t, g]
  | .ownProp true => [t]
  | .ownProp false => [g]
  | .topField _ => [t]
  | .groField _ => [g]
  | _ => []

/-- `re.findall(r'([A-Za-z]+)', name)[0]` -/
def firstAlphaRun (s : String) : Option String :=
  let cs := s.toList.dropWhile (fun c => !c.isAlpha)
  match cs.takeWhile Char.isAlpha with
  | [] => none
  | l => some (String.ofList l)

/-- `AtomGro.element` -/
def elementOf (g : AtomGroC α) : Except PyErr String :=
  match firstAlphaRun g.name with
  | some e => .ok e
  | none => .error .ioError

/-- `atom.<attr> = v` on an `Atom` view -/
def setAttrAtom (h : Heap α) (t g : Nat) (attr : String) (v : PyVal α) : Heap α × Option PyErr :=
  match route attr with
  | .pairSlot => (h, some .internal)
  | .residRaise => (h, some .attributeError)
  | .both false =>
    match v with
    | .str s => ((h.modTop t (fun c => { c with resname := s })).modGro g (fun c => { c with resname := s }), none)
    | _ => (h, some .internal)
  | .both true =>
    match v with
    | .str s => ((h.modTop t (fun c => { c with name := s })).modGro g (fun c => { c with name := s }), none)
    | _ => (h, some .internal)
  | .ownProp true =>
    match v with
    | .int n => (h.modTop t (fun c => { c with resid := n }), none)
    | _ => (h, some .internal)
  | .ownProp false =>
    match v with
    | .int n => (h.modGro g (fun c => { c with resid := n }), none)
    | _ => (h, some .internal)
  | .ownReadOnly => (h, some .attributeError)
  | .ownTypeErr => (h, some .typeError)
  | .ownDict => (h, none)
  | .topField .index =>
    match v with
    | .int n => if 0 ≤ n then (h.modTop t (fun c => { c with index := n.toNat }), none) else (h, some .internal)
    | _ => (h, some .internal)
  | .topField .bonds =>
    match v with
    | .nats l => (h.modTop t (fun c => { c with bonds := l }), none)
    | _ => (h, some .internal)
  | .topReadOnly => (h, some .attributeError)
  | .topOther => (h, some .internal)
  | .groField .position =>
    match v with
    | .vec p => (h.modGro g (fun c => { c with pos := p }), none)
    | _ => (h, some .internal)
  | .groField .velocity =>
    match v with
    | .vec p => (h.modGro g (fun c => { c with vel := some p }), none)
    | .none => (h.modGro g (fun c => { c with vel := none }), none)
    | _ => (h, some .internal)
  | .groField .atomid =>
    match v with
    | .int n => (h.modGro g (fun c => { c with atomid := n }), none)
    | _ => (h, some .internal)
  | .groElement =>
    match h.gro? g with
    | none => (h, some .internal)
    | some c =>
      match elementOf c with
      | .error e => (h, some e)
      | .ok _ => (h, some .attributeError)
  | .groOther => (h, some .internal)
  | .fresh => (h, none)

/-- plain attribute assignment on an AtomGro object (`res[i].<attr> = v`) -/
def setAttrGro (h : Heap α) (g : Nat) (attr : String) (v : PyVal α) : Heap α × Option PyErr :=
  if attr = "residname" ∨ attr = "element" then (h, some .attributeError)      -- properties without setter
  else if attr = "resid" then
    match v with
    | .int n => (h.modGro g (fun c => { c with resid := n }), none)
    | _ => (h, some .internal)
  else if attr = "resname" then
    match v with
    | .str s => (h.modGro g (fun c => { c with resname := s }), none)
    | _ => (h, some .internal)
  else if attr = "name" then
    match v with
    | .str s => (h.modGro g (fun c => { c with name := s }), none)
    | _ => (h, some .internal)
  else if attr = "atomid" then
    match v with
    | .int n => (h.modGro g (fun c => { c with atomid := n }), none)
    | _ => (h, some .internal)
  else if attr = "position" then
    match v with
    | .vec p => (h.modGro g (fun c => { c with pos := p }), none)
    | _ => (h, some .internal)
  else if attr = "velocity" then
    match v with
    | .vec p => (h.modGro g (fun c => { c with vel := some p }), none)
    | .none => (h.modGro g (fun c => { c with vel := none }), none)
    | _ => (h, some .internal)
  else (h, some .internal)

/-- the names `Molecule.__getattribute__` / `__setattr__` refuse (lines 268, 279) -/
def molExcluded (attr : String) : Bool :=
  attr = "resname" ∨ attr = "resid" ∨ attr = "residname" ∨ attr = "remove_atom"

def setAttrN (h : Heap α) (o : Obj) (attr : String) (v : PyVal α) : Heap α × Option PyErr :=
  match o with
  | .atom t g => setAttrAtom h t g attr v
  | .agro g => setAttrGro h g attr v
  | .mol _ => if molExcluded attr then (h, some .attributeError) else (h, some .internal)
  | .res _ => (h, some .internal)

/-- the attributes of an AtomGro object -/
def groAttr (c : AtomGroC α) (attr : String) : Option (Except PyErr (PyVal α)) :=
  if attr = "resid" then some (.ok (.int c.resid))
  else if attr = "resname" then some (.ok (.str c.resname))
  else if attr = "name" then some (.ok (.str c.name))
  else if attr = "atomid" then some (.ok (.int c.atomid))
  else if attr = "position" then some (.ok (.vec c.pos))
  else if attr = "velocity" then some (.ok (match c.vel with | some v => .vec v | none => .none))
  else if attr = "residname" then some (.ok (.str (residname c)))
  else if attr = "element" then
    some (match elementOf c with | .ok e => .ok (.str e) | .error e => .error e)
  else if attr = "gro_line" ∨ attr = "copy" ∨ attr = "__add__" then some (.ok .opaque)
  else none

/-- the attributes of an AtomTop object -/
def topAttr (c : AtomTopC) (attr : String) : Option (PyVal α) :=
  if attr = "name" then some (.str c.name)
  else if attr = "resname" then some (.str c.resname)
  else if attr = "resid" then some (.int c.resid)
  else if attr = "index" then some (.int (Int.ofNat c.index))
  else if attr = "bonds" then some (.nats c.bonds)
  else if attr = "residname" then some (.str (toString c.resid ++ c.resname))
  else if attr = "connect" ∨ attr = "closest_atoms" ∨ attr = "copy" then some .opaque
  else none

/-- `atom.<attr>` on an `Atom` view: ordinary lookup (class attributes, properties, the two
    slots), then `Atom.__getattr__`: `resid` raises, AtomGro first, then AtomTop -/
def getAttrAtom (h : Heap α) (t g : Nat) (attr : String) : Except PyErr (PyVal α) :=
  match h.top? t, h.gro? g with
  | some tc, some gc =>
    if attr = "top_resid" then .ok (.int tc.resid)
    else if attr = "gro_resid" then .ok (.int gc.resid)
    else if attr = "atom_gro" ∨ attr = "atom_top" ∨ attr = "_atom_gro" ∨ attr = "_atom_top" ∨
        attr = "__weakref__" ∨ attr = "__class__" ∨ attr = "__dict__" ∨ atomDirPlain.contains attr then
      .ok .opaque
    -- `__getattr__`
    else if attr = "resid" then .error .attributeError
    else match groAttr gc attr with
      | some r => r
      | none =>
        match topAttr tc attr with
        | some r => .ok r
        | none => .error .attributeError
  | _, _ => .error .internal

def getAttrN (h : Heap α) (o : Obj) (attr : String) : Except PyErr (PyVal α) :=
  match o with
  | .atom t g => getAttrAtom h t g attr
  | .agro g =>
    match h.gro? g with
    | none => .error .internal
    | some c =>
      match groAttr c attr with
      | some r => r
      | none =>
        if attr = "__eq__" ∨ attr = "__ne__" ∨ attr = "__add__" ∨ attr = "__init__" then .ok .opaque  -- methods
        else if attr.startsWith "__" then .error .internal
        else .error .attributeError
  | .mol _ => if molExcluded attr then .error .attributeError else .error .internal
  | .res _ => .error .internal

/-! ### `==` -/

/-- `AtomGro.__eq__` -/
def groEq (a b : AtomGroC α) : Bool := a.resname = b.resname ∧ a.name = b.name

/-- `Atom.__eq__`: resname and name are read through `__getattr__` (AtomGro), index and resid from
    the AtomTop -/
def atomEq (h : Heap α) (t1 g1 t2 g2 : Nat) : Except PyErr Bool :=
  match h.top? t1, h.gro? g1, h.top? t2, h.gro? g2 with
  | some a, some x, some b, some y =>
    .ok (x.resname = y.resname ∧ x.name = y.name ∧ a.index = b.index ∧ a.resid = b.resid)
  | _, _, _, _ => .error .internal

/-- `Residue.__eq__` on two plain residues -/
def resEq (h : Heap α) (r1 r2 : Nat) : Except PyErr Bool :=
  match h.res? r1, h.res? r2 with
  | some l1, some l2 =>
    match readGros h l1, readGros h l2 with
    | some c1, some c2 =>
      .ok (c1.length = c2.length ∧ (c2.zip c1).all (fun (a, b) => groEq a b))
    | _, _ => .error .internal
  | _, _ => .error .internal

/-- the loop of `Molecule.__eq__`: `zip(self, molecule)` constructs the `Atom`s alternately (left
    first); `at1 != at2` is the negation of `Atom.__eq__` -/
def molEqLoopX (h : Heap α) : List (Nat × Nat) → List (Nat × Nat) → Except PyErr Bool
  | (t1, g1) :: r1, (t2, g2) :: r2 =>
    match matchErr h t1 g1 with
    | some e => .error e
    | none =>
      match matchErr h t2 g2 with
      | some e => .error e
      | none =>
        match atomEq h t1 g1 t2 g2 with
        | .error e => .error e
        | .ok false => .ok false
        | .ok true => molEqLoopX h r1 r2
  | (t1, g1) :: _, [] =>
    -- `zip` pulls from the left iterator first: its `Atom` is constructed (and may raise)
    match matchErr h t1 g1 with
    | some e => .error e
    | none => .ok true
  | [], _ => .ok true

def molEqX (h : Heap α) (m1 m2 : Nat) : Except PyErr Bool :=
  match molView h m1, molView h m2 with
  | some v1, some v2 =>
    if v1.tops.length < v1.gros.length ∨ v2.tops.length < v2.gros.length then .error .internal
    else if v2.name = v1.name ∧ v2.each.length = v1.each.length then
      molEqLoopX h (v1.tops.zip v1.gros) (v2.tops.zip v2.gros)
    else .ok false
  | _, _ => .error .internal

/-- `env[i] == env[j]`.  Mixed kinds are `False`: each `__eq__` starts with an `isinstance` test
    and returns `False` (not `NotImplemented`); `Residue == Molecule` is answered by
    `Molecule.__eq__` (the reflected method of the subclass has priority), also `False`. -/
def eqObjs (h : Heap α) (a b : Obj) : Except PyErr Bool :=
  match a, b with
  | .agro g1, .agro g2 =>
    match h.gro? g1, h.gro? g2 with
    | some x, some y => .ok (groEq x y)
    | _, _ => .error .internal
  | .atom t1 g1, .atom t2 g2 => atomEq h t1 g1 t2 g2
  | .res r1, .res r2 => resEq h r1 r2
  | .mol m1, .mol m2 => molEqX h m1 m2
  | _, _ => .ok false

/-! ### `Atom(atom_top, atom_gro)` -/

/-- `Atom(env[i].atom_top, env[j])` (`viaTop`) or `Atom(env[i], env[j])`: the AtomGro test comes
    first, then the AtomTop test (both TypeError), then the label test (IOError) -/
def mkAtom (h : Heap α) (a b : Obj) (viaTop : Bool) : Option Obj × Option PyErr :=
  match b with
  | .agro g =>
    if viaTop then
      match a with
      | .atom t _ =>
        match matchErr h t g with
        | some e => (none, some e)
        | none => (some (.atom t g), none)
      | _ => (none, some .internal)
    else (none, some .typeError)
  | _ => if viaTop then (match a with | .atom _ _ => (none, some .typeError) | _ => (none, some .internal))
         else (none, some .typeError)

/-! ### `Residue.remove_atom` -/

/-- index of the first element of `self._atoms_gro` that `list.remove(x)` accepts: the very object
    (`is`) or an AtomGro equal to it (`AtomGro.__eq__`: same resname and name) -/
def removeIdx (h : Heap α) (x : Nat) (xc : AtomGroC α) : List Nat → Option (Option Nat)
  | [] => some none
  | g :: gs =>
    match h.gro? g with
    | none => none                                           -- ill-formed heap
    | some c =>
      if g = x ∨ groEq c xc then some (some 0)
      else match removeIdx h x xc gs with
        | none => none
        | some none => some none
        | some (some k) => some (some (k + 1))

/-- `res.remove_atom(x)`: rewrites the Residue's list cell (the list object is mutated in place);
    ValueError when nothing matches — in particular for every argument that is not an AtomGro
    (`AtomGro.__eq__` answers `False` to an `Atom` view, a Residue, a Molecule) -/
def removeAtom (h : Heap α) (r : Nat) (x : Obj) : Heap α × Option PyErr :=
  match h.res? r with
  | none => (h, some .internal)
  | some gs =>
    match x with
    | .agro g =>
      match h.gro? g with
      | none => (h, some .internal)
      | some xc =>
        match removeIdx h g xc gs with
        | none => (h, some .internal)
        | some none => (h, some .valueError)
        | some (some k) => (h.set r (.res (gs.eraseIdx k)), none)
    | _ =>
      match readGros h gs with
      | none => (h, some .internal)
      | some _ => (h, some .valueError)

/-! ### `+` -/

/-- `Residue.residname`: `self[0]` raises IndexError on a residue without atoms -/
def resResidname (h : Heap α) (r : Nat) : Except PyErr String :=
  match h.res? r with
  | none => .error .internal
  | some [] => .error .indexError
  | some (g :: _) =>
    match h.gro? g with
    | none => .error .internal
    | some c => .ok (residname c)

/-- `Residue(atoms)` for a list of freshly made copies `cs` -/
def newResidueOfCopies (h : Heap α) (cs : List (AtomGroC α)) : Except PyErr (Heap α × Nat) :=
  let (h1, as) := h.allocList (cs.map Cell.gro)
  match residueInitErr cs with
  | some e => .error e
  | none => .ok (h1.alloc (.res as))

/-- `res + atom_gro` (also what `atom_gro + res` evaluates: `other + self`):
    `Residue(self.atoms + [other.copy()])` — every atom of the result is a copy -/
def resAddAtom (h : Heap α) (r g : Nat) : Except PyErr (Heap α × Nat) :=
  match h.gro? g with
  | none => .error .internal
  | some gc =>
    match resResidname h r with
    | .error e => .error e
    | .ok rn =>
      if residname gc ≠ rn then .error .valueError else
      match h.res? r with
      | none => .error .internal
      | some gs =>
        match readGros h gs with
        | none => .error .internal
        | some cs => newResidueOfCopies h (cs ++ [gc])

/-- `res1 + res2`: `Residue(self.atoms + other.atoms)` -/
def resAddRes (h : Heap α) (r1 r2 : Nat) : Except PyErr (Heap α × Nat) :=
  match resResidname h r1 with
  | .error e => .error e
  | .ok n1 =>
    match resResidname h r2 with
    | .error e => .error e
    | .ok n2 =>
      if n1 ≠ n2 then .error .valueError else
      match h.res? r1, h.res? r2 with
      | some l1, some l2 =>
        match readGros h l1, readGros h l2 with
        | some c1, some c2 => newResidueOfCopies h (c1 ++ c2)
        | _, _ => .error .internal
      | _, _ => .error .internal

/-- `atom_gro1 + atom_gro2`: `Residue([self, other])` — the new Residue holds THE OPERANDS
    themselves, not copies -/
def groAddGro (h : Heap α) (g1 g2 : Nat) : Except PyErr (Heap α × Nat) :=
  match h.gro? g1, h.gro? g2 with
  | some c1, some c2 =>
    if residname c2 ≠ residname c1 then .error .valueError else
    match residueInitErr [c1, c2] with
    | some e => .error e
    | none => .ok (h.alloc (.res [g1, g2]))
  | _, _ => .error .internal

/-- `env[i] + env[j]` -/
def addObjs (h : Heap α) (a b : Obj) : Except PyErr (Heap α × Nat) :=
  match a, b with
  | .mol _, _ => .error .notImplementedError      -- `Molecule.__add__`
  | _, .mol _ => .error .notImplementedError      -- `Molecule.__radd__` (subclass: reflected method first)
  | .agro g1, .agro g2 => groAddGro h g1 g2
  | .agro g, .res r => resAddAtom h r g           -- `other + self`
  | .res r, .agro g => resAddAtom h r g
  | .res r1, .res r2 => resAddRes h r1 r2
  | _, _ => .error .typeError                     -- an `Atom` view on either side

/-- `0 + env[i]` (what `sum([x, …])` starts with): `Residue.__radd__`: `not other` → `self.copy()` -/
def radd0 (h : Heap α) (a : Obj) : Except PyErr (Heap α × Nat) :=
  match a with
  | .mol _ => .error .notImplementedError
  | .res r => copyResidue h r
  | _ => .error .typeError

/-! ### the base operations on a ragged Molecule / an empty Residue -/

/-- the old model's precondition fails: not as many AtomGros as AtomTops -/
def raggedView (v : MolView) : Bool := v.tops.length != v.gros.length

def ragged (h : Heap α) (m : Nat) : Bool :=
  match molView h m with
  | some v => raggedView v
  | none => false

def emptyRes (h : Heap α) (r : Nat) : Bool :=
  match h.res? r with
  | some [] => true
  | _ => false

/-- `Molecule.__iter__`: `Atom(self.molecule_top[index], atom)` for the atoms of the residues in
    order — as many as there ARE (`zip` truncates at the shorter list) -/
def molPairs (v : MolView) : List (Option Nat × Nat) :=
  (v.tops.zip v.gros).map (fun (t, g) => (some t, g))

/-- `Molecule.atoms_positions` getter: `np.concatenate([res.atoms_positions …])`.  A residue without
    atoms contributes an array of shape `(0,)`, any other `(n, 3)`: mixed → ValueError (dimensions),
    none at all → ValueError (nothing to concatenate), all empty → a 1-D empty array (`ok none`) -/
def xPositions (h : Heap α) (v : MolView) : Except PyErr (Option (List (V3 α))) :=
  if v.parts = [] then .error .valueError
  else if v.parts.all List.isEmpty then .ok none
  else if v.parts.any List.isEmpty then .error .valueError
  else match readGros h v.gros with
    | none => .error .internal
    | some cs => .ok (some (cs.map (·.pos)))

/-- `atoms_positions` setter of a Molecule: shape test against `len(self)` =
    `len(self._each_atom_resid)`, then `for atom, pos in zip(self, new_positions)` -/
def xSetPositions (h : Heap α) (v : MolView) (ps : List (V3 α)) : Heap α × Option PyErr :=
  if ps.length ≠ v.each.length then (h, some .valueError)
  else applyW true h (mkW (molPairs v) ps (fun p g => { g with pos := p }) (fun _ => none))

section geometry
variable [Scalar α]

def xMove (h : Heap α) (v : MolView) (d : V3 α) : Heap α × Option PyErr :=
  match xPositions h v with
  | .error e => (h, some e)
  | .ok none => (h, some .valueError)                 -- `(0,) + (3,)` does not broadcast
  | .ok (some ps) => xSetPositions h v (ps.map (· + d))

def xMoveTo (h : Heap α) (v : MolView) (p : V3 α) : Heap α × Option PyErr :=
  match xPositions h v with
  | .error e => (h, some e)
  | .ok none => (h, some .valueError)                 -- centre = nan; then as `move`
  | .ok (some ps) => xMove h v (p - V3.mean ps)

def xRotate (h : Heap α) (v : MolView) (r : M3 α) : Heap α × Option PyErr :=
  match xPositions h v with
  | .error e => (h, some e)
  | .ok none => (h, some .valueError)                 -- `np.dot((0,), (3,3))`: shapes not aligned
  | .ok (some ps) => xSetPositions h v (ps.map (rotatePoint r (V3.mean ps)))

end geometry

def xSetVelocities (h : Heap α) (v : MolView) (vs : Option (List (V3 α))) : Heap α × Option PyErr :=
  match vs with
  | none =>
    applyW true h (mkW (molPairs v) ((molPairs v).map (fun _ => ())) (fun _ g => { g with vel := none })
      (fun _ => none))
  | some vs =>
    if vs.length ≠ v.each.length then (h, some .valueError)
    else applyW true h (mkW (molPairs v) vs (fun x g => { g with vel := some x }) (fun _ => none))

def xSetIds (h : Heap α) (v : MolView) (ids : List Int) : Heap α × Option PyErr :=
  if ids.length ≠ v.each.length then (h, some .indexError)
  else applyW true h (mkW (molPairs v) ids (fun n g => { g with atomid := n }) (fun _ => none))

/-- `zip(self, self._each_atom_resid)` with `vals[res_index]`: only as many values as atoms are
    looked at -/
def perAtomTrunc {β : Type} (vals : List β) (each : List Nat) (n : Nat) : Option (List β) :=
  perAtom vals (each.take n)

/-- `mol.resids = [..]`: `new_resids[0]` (IndexError on `[]`), `len(self.resids)` (`res[0]` of every
    residue: IndexError when one has no atoms), ValueError on another length, then the loop -/
def xSetResidsList (h : Heap α) (v : MolView) (l : List Int) : Heap α × Option PyErr :=
  match l with
  | [] => (h, some .indexError)
  | _ =>
    if v.parts.any List.isEmpty then (h, some .indexError)
    else if l.length ≠ v.residues.length then (h, some .valueError)
    else match perAtomTrunc l v.each (molPairs v).length with
      | none => (h, some .internal)
      | some vals =>
        applyW true h (mkW (molPairs v) vals (fun n g => { g with resid := n })
          (fun n => some (fun t => { t with resid := n })))

def xSetResidsInt (h : Heap α) (v : MolView) (n : Int) : Heap α × Option PyErr :=
  applyW true h (mkW (molPairs v) ((molPairs v).map (fun _ => n)) (fun n g => { g with resid := n })
    (fun n => some (fun t => { t with resid := n })))

def xSetResnamesList (h : Heap α) (v : MolView) (l : List String) : Heap α × Option PyErr :=
  match l with
  | [] => (h, some .indexError)
  | _ =>
    if v.parts.any List.isEmpty then (h, some .indexError)
    else if l.length ≠ v.residues.length then (h, some .valueError)
    else match perAtomTrunc l v.each (molPairs v).length with
      | none => (h, some .internal)
      | some vals =>
        applyW true h (mkW (molPairs v) vals (fun s g => { g with resname := s })
          (fun s => some (fun t => { t with resname := s })))

def xSetResnamesStr (h : Heap α) (v : MolView) (s : String) : Heap α × Option PyErr :=
  applyW true h (mkW (molPairs v) ((molPairs v).map (fun _ => s)) (fun s g => { g with resname := s })
    (fun s => some (fun t => { t with resname := s })))

/-- `next(islice(iter(mol), k, None))` -/
def xIterAtom (h : Heap α) (v : MolView) (k : Nat) : StepR α :=
  match iterCheck h (v.tops.zip v.gros) k with
  | some e => ⟨h, none, some e⟩
  | none =>
    match (v.tops.zip v.gros)[k]? with
    | some (t, g) => ⟨h, some (.atom t g), none⟩
    | none => ⟨h, none, some .stopIteration⟩

variable [Scalar α]

/-- a base operation on a ragged Molecule (view `v`).  More AtomGros than AtomTops cannot arise
    (the topology's atom list is immutable, residues only shrink): `internal`. -/
def stepRagged (h : Heap α) (m : Nat) (v : MolView) (op : Op α) : StepR α :=
  if v.tops.length < v.gros.length then ⟨h, none, some .internal⟩ else
  match op with
  | .move _ d => writeOk (xMove h v d)
  | .moveTo _ p => writeOk (xMoveTo h v p)
  | .rotate _ r => writeOk (xRotate h v r)
  | .setPos _ ps => writeOk (xSetPositions h v ps)
  | .setVel _ vs => writeOk (xSetVelocities h v vs)
  | .setIds _ ids => writeOk (xSetIds h v ids)
  | .setResidsL _ l => writeOk (xSetResidsList h v l)
  | .setResidsI _ n => writeOk (xSetResidsInt h v n)
  | .setResnamesL _ l => writeOk (xSetResnamesList h v l)
  | .setResnamesS _ s => writeOk (xSetResnamesStr h v s)
  | .iterAtom _ k => xIterAtom h v k
  -- copy / deep_copy (IOError from the length test of `_molecule_top_and_residues_match`),
  -- copy(new_residues), mol[k], mol.residues[k] read the residues as they are: `stepOn` is general
  | op => stepOn h (.mol m) op

/-- a Residue without atoms: `atoms_positions` is the 1-D empty array, so `move`, `move_to`
    (centre = nan, then move) and `rotate` raise ValueError; everything else is as `stepOn` says -/
def stepEmptyRes (h : Heap α) (r : Nat) (op : Op α) : StepR α :=
  match op with
  | .move _ _ | .moveTo _ _ | .rotate _ _ => ⟨h, none, some .valueError⟩
  | op => stepOn h (.res r) op

/-- a base operation on any target -/
def stepBase (h : Heap α) (o : Obj) (op : Op α) : StepR α :=
  match o with
  | .mol m =>
    match molView h m with
    | some v => if raggedView v then stepRagged h m v op else stepOn h o op
    | none => stepOn h o op
  | .res r => if emptyRes h r then stepEmptyRes h r op else stepOn h o op
  | _ => stepOn h o op

/-! ### the extended operation language -/

inductive XOp (α : Type) where
  | base (op : Op α)
  /-- `setattr(env[i], attr, v)` -/
  | setAttrN (i : Nat) (attr : String) (v : PyVal α)
  /-- `getattr(env[i], attr)` -/
  | getAttrN (i : Nat) (attr : String)
  /-- `env[i] == env[j]` -/
  | eq (i j : Nat)
  /-- `Atom(env[i].atom_top, env[j])` / `Atom(env[i], env[j])` -/
  | mkAtom (i j : Nat) (viaTop : Bool)
  /-- `env[i].remove_atom(env[j])` -/
  | removeAtom (i j : Nat)
  /-- `env[i] + env[j]` -/
  | add (i j : Nat)
  /-- `0 + env[i]` -/
  | radd0 (i : Nat)

structure XStepR (α : Type) where
  heap : Heap α
  ret : Option Obj
  err : Option PyErr
  /-- the value an observer (`getattr`, `==`) returned -/
  val : Option (PyVal α)

def XStepR.ofStep (r : StepR α) : XStepR α := ⟨r.heap, r.ret, r.err, none⟩

def XStepR.fail (h : Heap α) (e : PyErr) : XStepR α := ⟨h, none, some e, none⟩

def allocOkX (r : Except PyErr (Heap α × Nat)) (h : Heap α) : XStepR α :=
  match r with
  | .ok (h1, a) => ⟨h1, some (.res a), none, none⟩
  | .error e => ⟨h, none, some e, none⟩

/-- the name `remove_atom` resolves only on a plain Residue: `Molecule.__getattribute__` refuses it,
    AtomGro and `Atom` (through `__getattr__`) do not have it — AttributeError before anything is
    evaluated -/
def stepX (h : Heap α) (env : List Obj) : XOp α → XStepR α
  | .base op =>
    match op with
    | .newMol name tops residues => .ofStep (newMol h name tops residues)
    | _ =>
      match op.target with
      | none => .fail h .internal
      | some i =>
        match env[i]? with
        | none => .fail h .internal
        | some o => .ofStep (stepBase h o op)
  | .setAttrN i attr v =>
    match env[i]? with
    | none => .fail h .internal
    | some o => let r := setAttrN h o attr v; ⟨r.1, none, r.2, none⟩
  | .getAttrN i attr =>
    match env[i]? with
    | none => .fail h .internal
    | some o =>
      match getAttrN h o attr with
      | .ok v => ⟨h, none, none, some v⟩
      | .error e => .fail h e
  | .eq i j =>
    match env[i]?, env[j]? with
    | some a, some b =>
      match eqObjs h a b with
      | .ok v => ⟨h, none, none, some (.bool v)⟩
      | .error e => .fail h e
    | _, _ => .fail h .internal
  | .mkAtom i j viaTop =>
    match env[i]?, env[j]? with
    | some a, some b => let r := mkAtom h a b viaTop; ⟨h, r.1, r.2, none⟩
    | _, _ => .fail h .internal
  | .removeAtom i j =>
    match env[i]?, env[j]? with
    | some (.res r), some x => let w := removeAtom h r x; ⟨w.1, none, w.2, none⟩
    | some _, some _ => .fail h .attributeError
    | _, _ => .fail h .internal
  | .add i j =>
    match env[i]?, env[j]? with
    | some a, some b => allocOkX (addObjs h a b) h
    | _, _ => .fail h .internal
  | .radd0 i =>
    match env[i]? with
    | some a => allocOkX (radd0 h a) h
    | none => .fail h .internal

def pushRetX (env : List Obj) (r : XStepR α) : List Obj :=
  match r.ret with
  | some o => env ++ [o]
  | none => env

def runX (h : Heap α) (env : List Obj) : List (XOp α) → Heap α × List Obj
  | [] => (h, env)
  | op :: ops =>
    let r := stepX h env op
    runX r.heap (pushRetX env r) ops

end GMHeap
