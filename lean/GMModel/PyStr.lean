/-
  GMModel.PyStr — the handful of CPython string / text-file primitives used by the `.gro`
  reader and writer (`gaddlemaps/parsers/__init__.py`), modelled exactly (no `Float`):

  * text = list of BYTES (`Nat` codes < 256; the driver converts from/to `UInt8`): `GroFile` opens its files
    in text mode without `encoding=`, so what reaches the file is the text ENCODED in the interpreter's
    default encoding (UTF-8 here; recorded in the evidence), and `tell()` / `seek()` cookies are byte
    offsets.  Every string the model receives (the title) is therefore its encoded byte sequence — a
    non-ASCII character is 2–4 list elements — and every offset is a byte offset; this is exact for
    encodings in which `\n` is the single byte 0x0A and never part of a multi-byte sequence (UTF-8, ASCII,
    ISO-8859-x, cp125x).  The fixed-width fields (numbers, residue/atom names) are ASCII: there one
    character = one byte, which is what `'{:5s}'` padding (by characters) silently assumes — names with
    non-ASCII characters are outside the model (and break the real writer's equal-line-length layout).
    `\r` (universal newlines) is not modelled,
  * `'{:wd}'`, `'{:<ws}'`/`'{:ws}'`, `'{:>ws}'`, `'{:w.df}'` (correctly rounded decimal of the exact binary
    double, round-half-even on the exact value — what `float.__format__` does through `dtoa` mode 3),
  * `int()` / `float()` acceptance grammars on ASCII text (anything with `_` or a non-ASCII byte is the
    explicit outcome `PyErr.unmodelled`),
  * `str.strip`, `str.split`, `readline` / `tell` / `seek` / `write` on a byte list.

  Mathlib-free; everything is total and computable.
-/

namespace PyStr

/- A byte is a plain `Nat`; text (as encoded in the file) is `List Nat`. -/

/-- exception classes of the modelled code (`IOError` = `OSError`); `unmodelled` is NOT a Python
    exception: it marks inputs outside the modelled grammar (reported as skipped by the harness). -/
inductive PyErr
  | ioError | valueError | indexError | typeError | stopIteration | attributeError | unmodelled
deriving DecidableEq, Repr, Inhabited

def PyErr.name : PyErr → String
  | .ioError => "OSError"
  | .valueError => "ValueError"
  | .indexError => "IndexError"
  | .typeError => "TypeError"
  | .stopIteration => "StopIteration"
  | .attributeError => "AttributeError"
  | .unmodelled => "unmodelled"

def nl : Nat := 10
def sp : Nat := 32
def dot : Nat := 46
def minus : Nat := 45
def plus : Nat := 43
def underscore : Nat := 95

/-- `str.isspace` on the ASCII range: TAB LF VT FF CR, FS GS RS US, SPACE -/
def isSpace (c : Nat) : Bool := (9 ≤ c && c ≤ 13) || (28 ≤ c && c ≤ 32)
def isDigit (c : Nat) : Bool := 48 ≤ c && c ≤ 57
def digitVal (c : Nat) : Nat := c - 48
def digitChar (d : Nat) : Nat := 48 + d % 10

/-! ### decimal digit strings -/

/-- decimal representation, most significant digit first; `natDigits 0 = "0"` -/
def natDigits (n : Nat) : List Nat :=
  if n < 10 then [digitChar n] else natDigits (n / 10) ++ [digitChar (n % 10)]
termination_by n
decreasing_by omega

/-- value of a digit string read left to right, starting from `acc` -/
def undigits (l : List Nat) (acc : Nat := 0) : Nat :=
  l.foldl (fun a c => a * 10 + digitVal c) acc

/-! ### padding, `strip`, `split` -/

def padLeft (w : Nat) (s : List Nat) : List Nat := List.replicate (w - s.length) sp ++ s
def padRight (w : Nat) (s : List Nat) : List Nat := s ++ List.replicate (w - s.length) sp
/-- `replicate (d − |s|) '0' ++ s` -/
def padZeros (d : Nat) (s : List Nat) : List Nat := List.replicate (d - s.length) 48 ++ s

/-- strip from both ends the characters satisfying `p` -/
def stripBy (p : Nat → Bool) (l : List Nat) : List Nat :=
  ((l.dropWhile p).reverse.dropWhile p).reverse
/-- `str.strip()` -/
def strip (l : List Nat) : List Nat := stripBy isSpace l
/-- C `isspace` in the "C" locale (`Py_ISSPACE`): what `int()` / `float()` skip around an ASCII literal
    (unlike `str.strip`, the separators FS GS RS US are not skipped) -/
def isCSpace (c : Nat) : Bool := (9 ≤ c && c ≤ 13) || c = 32
def stripC (l : List Nat) : List Nat := stripBy isCSpace l

/-- `str.split()` (no argument): maximal runs of non-space characters. `cur` is the token being
    collected. -/
def splitGo : List Nat → List Nat → List (List Nat)
  | [], cur => if cur.isEmpty then [] else [cur]
  | c :: cs, cur =>
    if isSpace c then (if cur.isEmpty then splitGo cs [] else cur :: splitGo cs [])
    else splitGo cs (cur ++ [c])

def split (l : List Nat) : List (List Nat) := splitGo l []

/-- `s[i:j]` for `0 ≤ i ≤ j` -/
def slice (l : List Nat) (i j : Nat) : List Nat := (l.drop i).take (j - i)

/-- `s[:-1] if s[-1] == "\n" else s` (caller has checked `s` non-empty) -/
def chopNl (l : List Nat) : List Nat :=
  match l.getLast? with
  | some c => if c = nl then l.dropLast else l
  | none => l

/-! ### `'{:wd}'.format(n)` -/

/-- `'{:d}'.format(n)` -/
def intBody (n : Int) : List Nat :=
  (if n < 0 then [minus] else []) ++ natDigits n.natAbs

/-- `'{:wd}'.format(n)` (numbers are right-aligned; never truncated) -/
def fmtD (w : Nat) (n : Int) : List Nat := padLeft w (intBody n)

/-! ### doubles as exact dyadic rationals and `'{:w.df}'` -/

/-- a finite IEEE double: `(-1)^neg · man · 2^exp` (the sign is kept for `-0.0`) -/
structure Dy where
  neg : Bool
  man : Nat
  exp : Int
deriving DecidableEq, Repr, Inhabited

def Dy.zero : Dy := ⟨false, 0, 0⟩
def Dy.isZero (x : Dy) : Bool := x.man == 0

/-- `num / den` rounded to the nearest integer, ties to even (`den > 0`) -/
def roundHalfEvenDiv (num den : Nat) : Nat :=
  let q := num / den
  let r := num % den
  if 2 * r < den then q
  else if den < 2 * r then q + 1
  else if q % 2 = 0 then q else q + 1

/-- round-half-even of `|x| · 10^d` on the exact value -/
def scaledRound (x : Dy) (d : Nat) : Nat :=
  roundHalfEvenDiv (x.man * 2 ^ x.exp.toNat * 10 ^ d) (2 ^ (-x.exp).toNat)

/-- `'{:.df}'.format(x)`: sign (also for `-0.0` and for negative values that round to zero),
    integer part, and — when `d > 0` — the point and exactly `d` decimals -/
def fixedBody (d : Nat) (x : Dy) : List Nat :=
  let r := scaledRound x d
  (if x.neg then [minus] else []) ++ natDigits (r / 10 ^ d) ++
    (if d = 0 then [] else dot :: padZeros d (natDigits (r % 10 ^ d)))

/-- `'{:w.df}'.format(x)` — widens (never truncates) when the text is longer than `w` -/
def fmtFixed (w d : Nat) (x : Dy) : List Nat := padLeft w (fixedBody d x)

/-- the value fits its field: the unpadded text has at most `w` characters -/
def fitsFixed (w d : Nat) (x : Dy) : Bool := (fixedBody d x).length ≤ w

/-! ### `int()` and `float()` -/

def hasUnmodelled (l : List Nat) : Bool := l.any (fun c => c = underscore || 128 ≤ c)

/-- optional sign of a numeric literal: `(negative?, rest)` -/
def splitSign (t : List Nat) : Bool × List Nat :=
  match t with
  | c :: rest => if c = minus then (true, rest) else if c = plus then (false, rest) else (false, t)
  | [] => (false, [])

def pyIntBody (neg : Bool) (ds : List Nat) : Except PyErr Int :=
  if ds.isEmpty then .error .valueError
  else if ds.all isDigit then
    .ok (if neg then - (undigits ds : Int) else (undigits ds : Int))
  else .error .valueError

/-- `int(s)` for a `str`: blanks stripped, optional sign, one or more digits. -/
def pyInt (s : List Nat) : Except PyErr Int :=
  if hasUnmodelled s then .error .unmodelled else
  let p := splitSign (stripC s)
  pyIntBody p.1 p.2

/-- result of `float(s)` as an exact value: `(-1)^neg · man · 10^e10`, or a non-finite value -/
inductive PyNum
  | fin (neg : Bool) (man : Nat) (e10 : Int)
  | inf (neg : Bool)
  | nan (neg : Bool)
deriving DecidableEq, Repr, Inhabited

def PyNum.zero : PyNum := .fin false 0 0

def lower (c : Nat) : Nat := if 65 ≤ c && c ≤ 90 then c + 32 else c

/-- digits / rest -/
def spanDigits : List Nat → List Nat × List Nat
  | [] => ([], [])
  | c :: cs => if isDigit c then let (a, b) := spanDigits cs; (c :: a, b) else ([], c :: cs)

/-- optional exponent part: `[eE][+-]?digits` then end of string -/
def parseExp (r : List Nat) : Option Int :=
  match r with
  | [] => some 0
  | c :: r1 =>
    if c = 101 || c = 69 then
      let p := splitSign r1
      if p.2.isEmpty then none
      else if p.2.all isDigit then some (if p.1 then - (undigits p.2 : Int) else (undigits p.2 : Int))
      else none
    else none

/-- `[. digits]` after the integer part: `(fraction digits, rest)` -/
def fracPart (r1 : List Nat) : List Nat × List Nat :=
  match r1 with
  | c :: r1' => if c = dot then spanDigits r1' else ([], r1)
  | [] => ([], [])

def isInfWord (lw : List Nat) : Bool :=
  lw = [105, 110, 102] || lw = [105, 110, 102, 105, 110, 105, 116, 121]
def isNanWord (lw : List Nat) : Bool := lw = [110, 97, 110]

/-- the literal after the sign -/
def pyFloatBody (neg : Bool) (u : List Nat) : Except PyErr PyNum :=
  let lw := u.map lower
  if isInfWord lw then .ok (.inf neg)
  else if isNanWord lw then .ok (.nan neg)
  else
    let ip := (spanDigits u).1
    let fr := fracPart (spanDigits u).2
    if ip.isEmpty && fr.1.isEmpty then .error .valueError
    else
      match parseExp fr.2 with
      | none => .error .valueError
      | some e => .ok (.fin neg (undigits (ip ++ fr.1)) (e - fr.1.length))

/-- `float(s)` for a `str`: blanks stripped, optional sign, then `inf|infinity|nan` (any case) or
    `digits [. [digits]] | . digits` with an optional exponent. -/
def pyFloat (s : List Nat) : Except PyErr PyNum :=
  if hasUnmodelled s then .error .unmodelled else
  let p := splitSign (stripC s)
  pyFloatBody p.1 p.2

/-! ### `float()`: the nearest double of the exact decimal

The value `float(s)` returns is the IEEE double nearest to the exact decimal (ties to even; CPython's
`PyOS_string_to_double` → `_Py_dg_strtod` is correctly rounded), an infinity on overflow, a signed zero on
underflow. Needed where a parsed value is FORMATTED again (`writeline(str)` as the first line of a file:
`parse_atomline` then `parse_atomlist`). -/

/-- `num ≥ den · 2^k` (`k` any integer), evaluated in `Nat` -/
def geMulPow2 (num den : Nat) (k : Int) : Bool := den * 2 ^ k.toNat ≤ num * 2 ^ (-k).toNat

/-- `⌊log₂ (num / den)⌋` for `num, den > 0`: with `a = ⌊log₂ num⌋`, `b = ⌊log₂ den⌋` the quotient lies
    strictly between `2^(a−b−1)` and `2^(a−b+1)` -/
def ilog2Ratio (num den : Nat) : Int :=
  let k0 : Int := (Nat.log2 num : Int) - (Nat.log2 den : Int)
  if geMulPow2 num den k0 then k0 else k0 - 1

/-- the double nearest to `± num / den` (`den > 0`), ties to even; `none` = overflow (±inf).
    Binades: normal numbers have 53 significant bits (`2^52 ≤ m < 2^53` at exponent `k − 52`), below
    `2^(−1022)` the exponent is clamped to `−1074` (subnormals). The mantissa may come out as `2^53`
    (carry): the value `m · 2^e` is still the right double. -/
def nearestDouble (neg : Bool) (num den : Nat) : Option Dy :=
  if num = 0 then some ⟨neg, 0, 0⟩ else
  let k := ilog2Ratio num den
  let e : Int := if k - 52 < -1074 then -1074 else k - 52
  let m := roundHalfEvenDiv (num * 2 ^ (-e).toNat) (den * 2 ^ e.toNat)
  if 0 ≤ e ∧ 2 ^ 1024 ≤ m * 2 ^ e.toNat then none else some ⟨neg, m, e⟩

/-- the `float` object for a parsed literal, as a finite double; `none` for `inf` / `nan` (incl. overflow).
    The two guards only avoid astronomically large powers of ten: with `n` digits in the mantissa the value is
    `≥ 10^(e10+n−1)` and `< 10^(e10+n)`; above `10^310` every value overflows, below `10^(−330)` every value
    rounds to zero (`2^(−1075) > 10^(−324)`). -/
def PyNum.toDy : PyNum → Option Dy
  | .fin neg man e10 =>
    if man = 0 then some ⟨neg, 0, 0⟩ else
    let n : Int := ((natDigits man).length : Int)
    if e10 + n > 311 then none
    else if e10 + n < -330 then some ⟨neg, 0, 0⟩
    else if 0 ≤ e10 then nearestDouble neg (man * 10 ^ e10.toNat) 1
    else nearestDouble neg man (10 ^ (-e10).toNat)
  | .inf _ => none
  | .nan _ => none

/-! ### text file as a byte list -/

/-- the next line from the head of the remaining bytes, terminator included -/
def takeLine : List Nat → List Nat
  | [] => []
  | c :: cs => if c = nl then [c] else c :: takeLine cs

/-- `f.seek(pos); f.readline()`; `tell()` afterwards is `pos + (readLine bs pos).length` -/
def readLine (bs : List Nat) (pos : Nat) : List Nat := takeLine (bs.drop pos)

/-- `f.seek(pos); f.write(s)` on a file opened with `'w'`: overwrite / extend; a hole is zero-filled -/
def writeAt (bs : List Nat) (pos : Nat) (s : List Nat) : List Nat :=
  if s.isEmpty then bs
  else if pos ≤ bs.length then bs.take pos ++ s ++ bs.drop (pos + s.length)
  else bs ++ List.replicate (pos - bs.length) 0 ++ s

end PyStr
