import GMModel.EMapHeap
import GMModel.Gro
/-
  GMModel.Comparative — the `Alignment` OBJECT on the heap (`gaddlemaps/_alignment.py`), for the
  methods that are compositions of already modelled pieces (work package WPH):

    Alignment.start / .end setters                 → `setStart`, `setEnd`     (copy-on-set, C18 heap ops)
    Alignment.init_exchange_map(scale_factor)      → `initExchangeMap`        (C04's `build` on the heap)
    Alignment.write_comparative_gro(fname=None)    → `writeComparative`       (heap ops of C18 + writer ops of C13)
    AtomGro.gro_line(parsed=True / False)          → `groRec`, `groLineText`  (`_residue.py`)
    open_coordinate_file(fname, 'w')               → `extOf`, `extOk`         (`parsers/__init__.py`)

  ```
  def write_comparative_gro(self, fname=None):
      if self.start is None or self.end is None: raise ValueError(...)
      if fname is None: fname = '{}_compare.gro'.format(self.start.name)
      start = self.start.deep_copy() ; end = self.end.deep_copy()
      start.resnames = 'START' ; end.resnames = 'END'
      start.resids = 1 ; end.resids = 2
      start.atoms_velocities = None ; end.atoms_velocities = None
      with open_coordinate_file(fname, 'w') as fgro:
          for atom in start: fgro.writeline(atom.gro_line())
          for atom in end:   fgro.writeline(atom.gro_line())
  ```

  Strings of the heap model (`String`, one `Char` per byte, see `Driver.Proto`) meet the byte lists of the
  writer model through `strBytes`.  Coordinates are of the heap's scalar type `α`; what `'{:8.3f}'.format`
  sees is the exact dyadic value of the double, obtained through the parameter `toDy : α → Option Dy`
  (`none` = `nan` / `±inf`, which the writer model does not format: explicit outcome `internal`).
  Mathlib-free.
-/

namespace Cmp
open GMHeap

variable {α : Type}

/-! ### the object -/

/-- `Alignment._start`, `Alignment._end` (addresses of the STORED Molecule objects) and
    `Alignment.exchange_map` -/
structure Ali (F P : Type) where
  start : Option Nat := none
  end_ : Option Nat := none
  emap : Option (EMap F P) := none

/-- the value assigned to `alignment.start` / `alignment.end` -/
inductive SetArg where
  /-- `None` -/
  | none
  /-- not an instance of `Molecule` (a Residue, an AtomGro, an `Atom`, a string …) -/
  | other
  | mol (m : Nat)
deriving DecidableEq, Repr

def SetArg.ofObj : Option Obj → SetArg
  | some (.mol m) => .mol m
  | _ => .other

section setters
variable {F P : Type} [Scalar α]

/-- `molecule.copy()` — the C18 heap operation -/
def copyMol (h : Heap α) (m : Nat) : Heap α × Except PyErr Nat :=
  let r := stepOn h (.mol m) (.copy 0)
  match r.ret, r.err with
  | some (.mol c), none => (r.heap, .ok c)
  | _, some e => (r.heap, .error e)
  | _, none => (r.heap, .error .internal)

/-- `Alignment.start.setter`:
    ```
    if molecule is None: self._start = None; return
    if not isinstance(molecule, Molecule): raise TypeError
    if (self._end is None) or (self._start is None): self._start = molecule.copy()
    else:
        if molecule == self._start: self._start = molecule.copy()
        else: raise ValueError
    ```
    (`molecule == self._start` is `Molecule.__eq__(molecule, self._start)`; it constructs `Atom`s and can
    raise `IOError` itself.)  An exception leaves the object as it was. -/
def setStart (h : Heap α) (a : Ali F P) : SetArg → Heap α × Ali F P × Option PyErr
  | .none => (h, { a with start := none }, none)
  | .other => (h, a, some .typeError)
  | .mol m =>
    let doCopy : Heap α × Ali F P × Option PyErr :=
      match copyMol h m with
      | (h1, .ok c) => (h1, { a with start := some c }, none)
      | (h1, .error e) => (h1, a, some e)
    match a.end_, a.start with
    | some _, some cur =>
      match molEq h m cur with
      | .error e => (h, a, some e)
      | .ok true => doCopy
      | .ok false => (h, a, some .valueError)
    | _, _ => doCopy

/-- `Alignment.end.setter` (compares with the current END molecule) -/
def setEnd (h : Heap α) (a : Ali F P) : SetArg → Heap α × Ali F P × Option PyErr
  | .none => (h, { a with end_ := none }, none)
  | .other => (h, a, some .typeError)
  | .mol m =>
    let doCopy : Heap α × Ali F P × Option PyErr :=
      match copyMol h m with
      | (h1, .ok c) => (h1, { a with end_ := some c }, none)
      | (h1, .error e) => (h1, a, some e)
    match a.start, a.end_ with
    | some _, some cur =>
      match molEq h m cur with
      | .error e => (h, a, some e)
      | .ok true => doCopy
      | .ok false => (h, a, some .valueError)
    | _, _ => doCopy

/-- `Alignment.init_exchange_map(scale_factor)`:
    ```
    if self.start is None or self.end is None: raise ValueError
    self.exchange_map = ExchangeMap(self.start, self.end, scale_factor)
    ```
    The map is built on the CURRENT stored molecules (by reference: `E.ref = start`, `E.tgt = end`); the scale
    factor lives inside `G.project`.  A constructor that raises leaves `exchange_map` as it was. -/
def initExchangeMap (G : Geo α F P) (h : Heap α) (a : Ali F P) : Ali F P × Option PyErr :=
  match a.start, a.end_ with
  | some s, some e =>
    match build G h s e with
    | (E, none) => ({ a with emap := some E }, none)
    | (_, some err) => (a, some err)
  | _, _ => (a, some .valueError)

end setters

/-! ### `AtomGro.gro_line`, the file name -/

/-- the bytes of a heap string -/
def strBytes (s : String) : List Nat := s.toList.map Char.toNat

/-- `atom.gro_line()` (`parsed=True`): `[resid, resname, name, atomid, x, y, z (, vx, vy, vz)]` as a record
    of the writer model.  `none`: a coordinate or velocity component is `nan` / `±inf`. -/
def groRec (toDy : α → Option PyStr.Dy) (c : AtomGroC α) : Option Gro.Rec :=
  match toDy c.pos.x, toDy c.pos.y, toDy c.pos.z with
  | some x, some y, some z =>
    match c.vel with
    | none => some ⟨c.resid, strBytes c.resname, strBytes c.name, c.atomid, x, y, z, none⟩
    | some v =>
      match toDy v.x, toDy v.y, toDy v.z with
      | some vx, some vy, some vz =>
        some ⟨c.resid, strBytes c.resname, strBytes c.name, c.atomid, x, y, z, some (vx, vy, vz)⟩
      | _, _, _ => none
  | _, _, _ => none

/-- errors of the writer model as exception classes of the heap model (`unmodelled` is not a Python
    exception: `internal`) -/
def ofGroErr : PyStr.PyErr → PyErr
  | .ioError => .ioError
  | .valueError => .valueError
  | .indexError => .indexError
  | .typeError => .typeError
  | .stopIteration => .stopIteration
  | .attributeError => .attributeError
  | .unmodelled => .internal

/-- `atom.gro_line(parsed=False)` = `GroFile.parse_atomlist(elements)` with `format_dict=None`: the default
    position format `(8, 3)`, velocities (when present) with one decimal more, no velocity-presence check -/
def groLineText (toDy : α → Option PyStr.Dy) (c : AtomGroC α) : Except PyErr (List Nat) :=
  match groRec toDy c with
  | none => .error .internal
  | some r =>
    match Gro.parseAtomlistG none (.ofRec r) with
    | .ok l => .ok l
    | .error e => .error (ofGroErr e)

/-- the part of a path after its last `sep` (the whole string when `sep` does not occur) -/
def afterLast (sep : Char) (s : List Char) : List Char :=
  (s.reverse.takeWhile (· != sep)).reverse

/-- `os.path.basename(filename).split(".")[-1]` -/
def extOf (fname : String) : String := String.ofList (afterLast '.' (afterLast '/' fname.toList))

/-- `extension in ParserManager.parsers`: `GroFile.EXTENSIONS = ("gro", "GRO")` is the only registered parser -/
def extOk (fname : String) : Bool := extOf fname == "gro" || extOf fname == "GRO"

/-- `'{}_compare.gro'.format(self.start.name)` -/
def defaultName (molName : String) : String := molName ++ "_compare.gro"

/-! ### `write_comparative_gro` -/

section comparative
variable [Scalar α]

/-- run heap operations until the first one that raises (a Python method body: the exception ends it).
    Returns the heap, the environment and the exception. -/
def runAbort (h : Heap α) (env : List Obj) : List (Op α) → Heap α × List Obj × Option PyErr
  | [] => (h, env, none)
  | op :: ops =>
    let r := step h env op
    match r.err with
    | some e => (r.heap, pushRet env r, some e)
    | none => runAbort r.heap (pushRet env r) ops

/-- the six assignments on the two deep copies (environment `[start, end]`):
    `start.resnames = 'START'; end.resnames = 'END'; start.resids = 1; end.resids = 2;
     start.atoms_velocities = None; end.atoms_velocities = None` -/
def cmpSetters : List (Op α) :=
  [.setResnamesS 0 "START", .setResnamesS 1 "END", .setResidsI 0 1, .setResidsI 1 2,
   .setVel 0 none, .setVel 1 none]

/-- `deep_copy()` — the C18 heap operation -/
def deepCopyMol (h : Heap α) (m : Nat) : Heap α × Except PyErr Nat :=
  let r := stepOn h (.mol m) (.deepCopy 0)
  match r.ret, r.err with
  | some (.mol c), none => (r.heap, .ok c)
  | _, some e => (r.heap, .error e)
  | _, none => (r.heap, .error .internal)

/-- the heap phase of `write_comparative_gro`: two deep copies, six assignments -/
def comparativeCopies (h : Heap α) (s e : Nat) : Heap α × Except PyErr (Nat × Nat) :=
  match deepCopyMol h s with
  | (h1, .error err) => (h1, .error err)
  | (h1, .ok ds) =>
    match deepCopyMol h1 e with
    | (h2, .error err) => (h2, .error err)
    | (h2, .ok de) =>
      match runAbort h2 [.mol ds, .mol de] cmpSetters with
      | (h3, _, some err) => (h3, .error err)
      | (h3, _, none) => (h3, .ok (ds, de))

end comparative

/-- `fgro.writeline(rec)` for each record until the first that raises -/
def writeRecs : List Gro.Rec → Gro.WState → Gro.WState × Option PyErr
  | [], w => (w, none)
  | r :: rs, w =>
    match Gro.step w (.writeLine r) with
    | (w1, some e) => (w1, some (ofGroErr e))
    | (w1, none) => writeRecs rs w1

/-- `for atom in mol: fgro.writeline(atom.gro_line())` over the `(AtomTop, AtomGro)` pairs of a Molecule:
    iterating constructs `Atom(top, gro)` (IOError when the labels disagree — after the earlier lines were
    written), `gro_line()` reads the AtomGro -/
def writeAtoms (toDy : α → Option PyStr.Dy) (h : Heap α) :
    List (Nat × Nat) → Gro.WState → Gro.WState × Option PyErr
  | [], w => (w, none)
  | (t, g) :: rest, w =>
    match matchErr h t g with
    | some e => (w, some e)
    | none =>
      match h.gro? g with
      | none => (w, some .internal)
      | some c =>
        match groRec toDy c with
        | none => (w, some .internal)
        | some r =>
          match Gro.step w (.writeLine r) with
          | (w1, some e) => (w1, some (ofGroErr e))
          | (w1, none) => writeAtoms toDy h rest w1

/-- the `with open_coordinate_file(fname, 'w') as fgro:` block on the two prepared molecules; `__exit__`
    calls `close()` also when the body raised (an exception of `close` then replaces the body's) -/
def writeBlock (toDy : α → Option PyStr.Dy) (h : Heap α) (ds de : Nat) : Gro.WState × Option PyErr :=
  match molView h ds, molView h de with
  | some vs, some ve =>
    if vs.tops.length ≠ vs.gros.length ∨ ve.tops.length ≠ ve.gros.length then (Gro.WState.init, some .internal)
    else
      let (w1, e1) := writeAtoms toDy h (vs.tops.zip vs.gros) Gro.WState.init
      let (w2, e2) :=
        match e1 with
        | some e => (w1, some e)
        | none => writeAtoms toDy h (ve.tops.zip ve.gros) w1
      match Gro.closeOp w2 with
      | (w3, some ce) => (w3, some (ofGroErr ce))
      | (w3, none) => (w3, e2)
  | _, _ => (Gro.WState.init, some .internal)

/-- outcome of `write_comparative_gro` -/
structure CmpResult (α : Type) where
  heap : Heap α
  /-- the file that was opened for writing (created or truncated), if the method got that far -/
  file : Option String
  /-- its contents when the method returns or raises -/
  bytes : List Nat
  err : Option PyErr

/-- `Alignment.write_comparative_gro(fname)` -/
def writeComparative {F P : Type} [Scalar α] (toDy : α → Option PyStr.Dy) (h : Heap α) (a : Ali F P)
    (fname : Option String) : CmpResult α :=
  match a.start, a.end_ with
  | some s, some e =>
    let name : Option String :=
      match fname with
      | some f => some f
      | none => (molView h s).map (fun v => defaultName v.name)
    match name with
    | none => ⟨h, none, [], some .internal⟩
    | some f =>
      match comparativeCopies h s e with
      | (h1, .error err) => ⟨h1, none, [], some err⟩
      | (h1, .ok (ds, de)) =>
        if !extOk f then ⟨h1, none, [], some .valueError⟩      -- "No parser available for extension …"
        else
          let (w, err) := writeBlock toDy h1 ds de
          ⟨h1, some f, w.bytes, err⟩
  | _, _ => ⟨h, none, [], some .valueError⟩

end Cmp
