import GMModel.Manager
import GMModel.Gro
/-
  GMModel.ManagerGro — the abstract writer operations of `Manager.extrapolate_system` (C05,
  `GMModel.Manager`) translated into the client operations of the byte-level `GroFile` model
  (C13, `GMModel.Gro`):

      with open_coordinate_file(fgro_out, 'w') as fgro:      openW    ↦ (a fresh `GroFile`, `WState.init`)
          fgro.comment = self.system.system_gro.comment_line  comment  ↦ setComment
          fgro.box_matrix = self.system.system_gro.box_matrix box      ↦ setBox (3×3 array)
          … fgro.writeline(line)                              line     ↦ writeLine
                                                              close    ↦ close   (`__exit__`)

  C05's abstract coordinate type `P` is instantiated at exact dyadic numbers (`PV`: position and — used
  only when the atom has velocities — velocity), its box type at `Gro.Box`.
  Mathlib-free; total and computable.
-/

namespace MgrGro
open PyStr Gro Mgr

/-- position and velocity of an atom as exact doubles (`vel` is written only when `hasVel`) -/
structure PV where
  x : Dy
  y : Dy
  z : Dy
  vel : Dy × Dy × Dy
deriving Repr, Inhabited

/-- a Python `str` as its code points -/
def codes (s : String) : List Nat := s.toList.map (·.toNat)

/-- the tuple handed to `GroFile.writeline`: `atom.gro_line()` with `line[3] = atom_index`
    (length 10 when the atom has velocities, else 7) -/
def toRec (r : GroRec PV) : Rec :=
  ⟨r.resid, codes r.resname, codes r.name, (r.number : Int), r.pos.x, r.pos.y, r.pos.z,
    if r.hasVel then some r.pos.vel else none⟩

def toOp : WOp Box PV → List Op
  | .openW => []
  | .comment s => [.setComment (codes s)]
  | .box b => [.setBox (.mat b)]
  | .line r => [.writeLine (toRec r)]
  | .close => [.close]

/-- the client script `extrapolate_system` runs against the `GroFile` it opened -/
def toOps (ops : List (WOp Box PV)) : List Op := ops.flatMap toOp

/-- the bytes of the output file after a run of `extrapolate_system` -/
def fileBytes (r : Run Box PV) : List Nat := (run WState.init (toOps r.ops)).1.bytes

end MgrGro
