/-
  GMModel.Scalar — the arithmetic interface the numeric model code is written against.

  Every numeric definition of the model is a single polymorphic `def` over a type `α`
  with a `Scalar α` instance.  Two instances exist:

  * `Scalar Float`  (below, computable): what the driver executes in the correspondence run;
  * `Scalar ℝ`      (in `GMProofs.RealScalar`, noncomputable): what the theorems are about.

  The operations are exactly those numpy performs in the modelled code:
  `+ - * /`, unary minus, `sqrt`, `cos`, `sin`, the exact tests `x == 0`, `a < b`, `a <= b`,
  and `round` (half-to-even, `np.round`).
-/

class Scalar (α : Type) extends Add α, Sub α, Mul α, Div α, Neg α where
  zero : α
  one : α
  /-- exact embedding of integers (used for literals like `2`, `3`) -/
  ofInt : Int → α
  /-- exact decimal literal `m / 10^e` (e.g. `1.1 = ofDec 11 1`, `0.01 = ofDec 1 2`) -/
  ofDec : Int → Nat → α
  sqrt : α → α
  cos : α → α
  sin : α → α
  /-- `x == 0` (false for NaN, true for `-0.0`) -/
  isZero : α → Bool
  lt : α → α → Bool
  le : α → α → Bool
  /-- `np.round`: round half to even -/
  round : α → α
  /-- `abs` -/
  abs : α → α

namespace Scalar
variable {α : Type} [Scalar α]

/-- `np.hypot a b` : sqrt(a²+b²) (the Float instance is the same expression; inputs in the
    modelled code are components of a unit vector, so no overflow/underflow care is needed). -/
def hypot (a b : α) : α := Scalar.sqrt (a * a + b * b)

/-- repeated multiplication `x ^ n` as numpy's `**` with a non-negative integer exponent
    is *not* computed this way (numpy calls `pow`); see `Chi2` for how the penalty factor is handled. -/
def npow (x : α) : Nat → α
  | 0 => Scalar.one
  | n + 1 => npow x n * x

end Scalar

/-- IEEE round-half-to-even for `Float` (Lean's `Float.round` rounds half away from zero). -/
def Float.roundEven (x : Float) : Float :=
  let r := x.round
  if (r - x).abs == 0.5 then
    -- tie: pick the even neighbour
    let h := r / 2.0
    if h.floor == h then r else r - (if x < 0.0 then -1.0 else 1.0)
  else r

instance : Scalar Float where
  zero := 0.0
  one := 1.0
  ofInt n := Float.ofInt n
  ofDec m e := Float.ofInt m / Float.ofNat (10 ^ e)
  sqrt := Float.sqrt
  cos := Float.cos
  sin := Float.sin
  isZero x := x == 0.0
  lt a b := a < b
  le a b := a ≤ b
  round := Float.roundEven
  abs := Float.abs
