import GMModel.Itp
import GMModel.SystemRec
/-
  GMModel.SystemTop — `System.add_ftop(path)` / `System(fgro, *ftops)` with the topologies given as
  `.itp` TEXT: the composition of the topology reader of `GMModel.Itp` (C15/C16: `read_topology` =
  `ItpFile` + `ItpParser`) with `System.add_molecule_top` of `GMModel.SystemRec` (C11).

  `MoleculeTop.__init__` turns the `(name, resname, resid)` triples `read_topology` returns into `AtomTop`
  objects in the same order (`topOfInfo`); the bonds play no role in recognition.
-/

namespace SRec
open SGro

/-- `MoleculeTop(ftop)` as far as `System` looks at it: the molecule name and, per atom in file order,
    atom name, residue name, residue number -/
def topOfInfo (T : Itp.TopInfo) : Top :=
  ⟨T.name, T.atoms.map (fun a => ⟨a.name, a.resname, a.resid⟩)⟩

inductive LoadErr
  /-- `MoleculeTop(ftop)` raised -/
  | itp (e : Itp.PyErr)
  /-- `add_molecule_top` raised -/
  | sys (e : PyErr)
  deriving DecidableEq, Repr

/-- `System.add_ftop(ftop)` on the decoded text of the file -/
def addFtopText (s : Sys) (text : Itp.Str) : Except LoadErr Unit × Sys :=
  match Itp.readTopology text with
  | .error e => (.error (.itp e), s)
  | .ok T =>
    match addMoleculeTop s (topOfInfo T) with
    | (.ok (), s') => (.ok (), s')
    | (.error e, s') => (.error (.sys e), s')

/-- `for ftop in ftops: self.add_ftop(ftop)`, recording every outcome (a caller that catches a refusal
    goes on with the next topology, as the harness does) -/
def loadTexts : Sys → List Itp.Str → List (Except LoadErr Unit) × Sys
  | s, [] => ([], s)
  | s, t :: ts =>
    let (r, s1) := addFtopText s t
    let (rs, s2) := loadTexts s1 ts
    (r :: rs, s2)

end SRec
