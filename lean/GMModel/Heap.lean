import GMModel.Vec3
/-
  GMModel.Heap — the object heap used to model aliasing in `gaddlemaps/components`
  (C18, C04; DESIGN.md §2.2.4).

  A heap is a finite map address → cell.  Addresses are indices into an array, allocation appends
  (so "fresh" = `≥ size`), cells are never freed (Python objects that become garbage are simply
  never looked at again).

  Cell kinds
    gro   : an `AtomGro`   (resid, resname, name, atomid, position, velocity-or-None)
    res   : a `Residue`    (the list object `_atoms_gro` of AtomGro addresses)
    top   : an `AtomTop`   (name, resname, resid, index, bonds)
    mtop  : a `MoleculeTop`(name, list `atoms` of AtomTop addresses)
    mol   : a `Molecule`   (`_molecule_top`, `_residues`, `_each_atom_resid`)

  Coordinate arrays are held BY VALUE inside the `gro` cell: no modelled library operation mutates a
  stored numpy array in place (every setter *replaces* the `position` / `velocity` attribute; all
  `+= -= /=` in the package act on fresh temporaries).  The harness checks this on every run with
  byte snapshots of the arrays it handed in.

  Only `gro` and `top` cells are ever overwritten by the operations of `GMModel.HeapOps`; `res`,
  `mtop` and `mol` cells are immutable there.  `GMModel.HeapX` extends the operation set with
  `Residue.remove_atom` (the one operation that rewrites a `res` cell: `Residue(atoms)` keeps the
  very list it is given and `remove_atom` mutates it), `+`, named attribute access and `==`;
  `AtomTop.connect` stays outside.
-/

namespace GMHeap

/-- the Python exception classes the modelled code raises (+ `internal`: the model met an
    ill-formed heap — never a Python behaviour, the harness treats it as a protocol error) -/
inductive PyErr where
  | typeError | valueError | indexError | ioError | attributeError | keyError | internal
  | notImplementedError | stopIteration
deriving DecidableEq, Repr, Inhabited

def PyErr.toString : PyErr → String
  | .typeError => "TypeError"
  | .valueError => "ValueError"
  | .indexError => "IndexError"
  | .ioError => "OSError"
  | .attributeError => "AttributeError"
  | .keyError => "KeyError"
  | .internal => "Internal"
  | .notImplementedError => "NotImplementedError"
  | .stopIteration => "StopIteration"

structure AtomGroC (α : Type) where
  resid : Int
  resname : String
  name : String
  atomid : Int
  pos : V3 α
  vel : Option (V3 α)

structure AtomTopC where
  name : String
  resname : String
  resid : Int
  index : Nat
  /-- the `set` of bonded atom hashes (= indices); only `len(bonds)` and `sorted(bonds)` are used
      by the modelled code, so the set is kept as its sorted list -/
  bonds : List Nat

inductive Cell (α : Type) where
  | gro (a : AtomGroC α)
  | res (atoms : List Nat)
  | top (a : AtomTopC)
  | mtop (name : String) (atoms : List Nat)
  | mol (top : Nat) (residues : List Nat) (each : List Nat)

structure Heap (α : Type) where
  cells : Array (Cell α)

variable {α : Type}

namespace Heap

def empty : Heap α := ⟨#[]⟩
def size (h : Heap α) : Nat := h.cells.size
def get? (h : Heap α) (a : Nat) : Option (Cell α) := h.cells[a]?
/-- allocate a new cell; its address is the old size -/
def alloc (h : Heap α) (c : Cell α) : Heap α × Nat := (⟨h.cells.push c⟩, h.cells.size)
def set (h : Heap α) (a : Nat) (c : Cell α) : Heap α := ⟨h.cells.setIfInBounds a c⟩

def gro? (h : Heap α) (a : Nat) : Option (AtomGroC α) :=
  match h.get? a with | some (.gro g) => some g | _ => none
def top? (h : Heap α) (a : Nat) : Option AtomTopC :=
  match h.get? a with | some (.top t) => some t | _ => none
def res? (h : Heap α) (a : Nat) : Option (List Nat) :=
  match h.get? a with | some (.res l) => some l | _ => none
def mtop? (h : Heap α) (a : Nat) : Option (String × List Nat) :=
  match h.get? a with | some (.mtop n l) => some (n, l) | _ => none
def mol? (h : Heap α) (a : Nat) : Option (Nat × List Nat × List Nat) :=
  match h.get? a with | some (.mol t rs e) => some (t, rs, e) | _ => none

/-- attribute assignment on an AtomGro object (no-op on anything else) -/
def modGro (h : Heap α) (a : Nat) (f : AtomGroC α → AtomGroC α) : Heap α :=
  match h.gro? a with | some g => h.set a (.gro (f g)) | none => h
/-- attribute assignment on an AtomTop object -/
def modTop (h : Heap α) (a : Nat) (f : AtomTopC → AtomTopC) : Heap α :=
  match h.top? a with | some t => h.set a (.top (f t)) | none => h

/-- allocate a list of cells, in order -/
def allocList (h : Heap α) : List (Cell α) → Heap α × List Nat
  | [] => (h, [])
  | c :: cs =>
    let (h1, a) := h.alloc c
    let (h2, as) := allocList h1 cs
    (h2, a :: as)

end Heap

/-! ### traversals -/

/-- the AtomGro cells at a list of addresses (none if one is not an AtomGro) -/
def readGros (h : Heap α) : List Nat → Option (List (AtomGroC α))
  | [] => some []
  | g :: gs =>
    match h.gro? g, readGros h gs with
    | some c, some cs => some (c :: cs)
    | _, _ => none

def readTops (h : Heap α) : List Nat → Option (List AtomTopC)
  | [] => some []
  | t :: ts =>
    match h.top? t, readTops h ts with
    | some c, some cs => some (c :: cs)
    | _, _ => none

/-- the atom lists of a list of residues (none if one address is not a Residue) -/
def readRess (h : Heap α) : List Nat → Option (List (List Nat))
  | [] => some []
  | r :: rs =>
    match h.res? r, readRess h rs with
    | some l, some ls => some (l :: ls)
    | _, _ => none

/-- `[res_index] * len(res)` for each residue, concatenated: `Molecule._each_atom_resid` -/
def eachOf : Nat → List (List Nat) → List Nat
  | _, [] => []
  | k, l :: ls => List.replicate l.length k ++ eachOf (k + 1) ls

/-- everything reachable from a Molecule object -/
structure MolView where
  top : Nat
  name : String
  tops : List Nat
  residues : List Nat
  each : List Nat
  parts : List (List Nat)
  /-- AtomGro addresses in iteration order (residue by residue) -/
  gros : List Nat
deriving DecidableEq, Repr

def molView (h : Heap α) (m : Nat) : Option MolView :=
  match h.mol? m with
  | none => none
  | some (t, rs, each) =>
    match h.mtop? t, readRess h rs with
    | some (name, tops), some parts => some ⟨t, name, tops, rs, each, parts, parts.flatten⟩
    | _, _ => none

/-- handles the harness can hold: a Molecule, a Residue, an AtomGro, or an `Atom` (the live pair
    `(atom_top, atom_gro)` handed out by `Molecule.__getitem__` / `__iter__`) -/
inductive Obj where
  | mol (a : Nat)
  | res (a : Nat)
  | agro (a : Nat)
  | atom (t g : Nat)
deriving DecidableEq, Repr

/-- `Atom.__init__`: IOError unless gro and top agree on resname and name -/
def matchErr (h : Heap α) (t g : Nat) : Option PyErr :=
  match h.top? t, h.gro? g with
  | some tc, some gc =>
    if gc.resname = tc.resname ∧ gc.name = tc.name then none else some .ioError
  | _, _ => some .internal

/-- `'{}{}'.format(resid, resname)` -/
def residname (g : AtomGroC α) : String := toString g.resid ++ g.resname

/-- `Residue.__init__` validation: non-empty, a single residname -/
def residueInitErr : List (AtomGroC α) → Option PyErr
  | [] => some .valueError
  | g :: gs => if gs.all (fun x => residname x = residname g) then none else some .valueError

/-! ### one assignment loop

Every setter of the modelled API is a `for atom in self: atom.<attr> = value` loop.  `W` is one
iteration: the AtomGro (and, for an `Atom` view, the AtomTop) that is written.  With `check = true`
the loop iterates a *Molecule*, which constructs an `Atom(top, gro)` per iteration and therefore
raises IOError at the first atom whose labels disagree — AFTER the earlier atoms were written. -/

structure W (α : Type) where
  top : Option Nat
  gro : Nat
  fg : AtomGroC α → AtomGroC α
  /-- `none`: the AtomTop is not assigned to (it is only read by the `Atom` constructor) -/
  ft : Option (AtomTopC → AtomTopC)

def W.checkErr (h : Heap α) (w : W α) : Option PyErr :=
  match w.top with
  | some t => matchErr h t w.gro
  | none => none

def W.write (h : Heap α) (w : W α) : Heap α :=
  let h1 := match w.top, w.ft with
    | some t, some f => h.modTop t f
    | _, _ => h
  h1.modGro w.gro w.fg

def applyW (check : Bool) (h : Heap α) : List (W α) → Heap α × Option PyErr
  | [] => (h, none)
  | w :: ws =>
    match (if check then w.checkErr h else none) with
    | some e => (h, some e)
    | none => applyW check (w.write h) ws

end GMHeap
