import GMModel.EMapHeap
import GMModel.ExchangeMap
/-
  GMModel.EMapGeo — the concrete geometry of `gaddlemaps/_exchage_map.py` as an instance of the
  parameter `Geo` of the heap model (C04), built from the numeric model of C01–C03
  (`GMModel.ExchangeMap`: `calculeBase`, `project`, `restore`, `closestAnchorAux`).
  This is what `gmdriver` runs at `Float` for the C04 correspondence and what
  `GMProofs/Lemmas/HeapGeoLink.lean` links to `EMap.build` / `EMap.apply`.
-/

namespace GMHeap

variable {α : Type} [Scalar α]

/-- `_find_closest_ref` over the candidate list `[(index, position of self._refmolecule[index]) for
    index in self._refsystems]`: lexicographic minimum of (distance, index) — the loop of
    `closestAnchorAux` with the positions already looked up -/
def closestCandAux (t : V3 α) : List (Nat × V3 α) → Option (α × Nat) → Option (α × Nat)
  | [], best => best
  | (a, pa) :: rest, best =>
    let d := euclid t pa
    match best with
    | none => closestCandAux t rest (some (d, a))
    | some (db, ab) =>
      if Scalar.lt d db || (!Scalar.lt db d && decide (a < ab)) then
        closestCandAux t rest (some (d, a))
      else closestCandAux t rest (some (db, ab))

def closestCand (cands : List (Nat × V3 α)) (t : V3 α) : Option Nat :=
  (closestCandAux t cands none).map (·.2)

/-- the library's geometry with scale factor `s` -/
def concreteGeo (s : α) : Geo α (Frame α) (V3 α) where
  frameOf := calculeBase
  project F p := project F s p
  restore := restore
  closest := closestCand

end GMHeap
