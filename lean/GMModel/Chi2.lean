import GMModel.Vec3
/-
  GMModel.Chi2 — `gaddlemaps/_backend.py`, class `Chi2Calculator`.

  ```
  def __init__(self, mol1, mol2, restrictions=None):
      self._mol1_positions = mol1
      if restrictions is None or len(restrictions) == 0:
          self._meth_to_call = self.chi2_molecules                       # path `plain`
      else:
          self.restrictions = np.array(restrictions)
          restriction1, self.restriction2 = self.restrictions.T
          self.set_restriction2 = set(self.restriction2)
          self._meth_to_call = self._chi2_molecules_with_restrains       # path `withRestr`
          self.len_mol2 = len(mol2)
          mol1_not_restriction_mask = np.ones(len(mol1), dtype=np.bool)
          mol1_not_restriction_mask[restriction1] = False                # IndexError when out of range
          self._mol1_not_restriction = mol1[mol1_not_restriction_mask]
          self._mol1_restriction = mol1[restriction1]
          if not mol1_not_restriction_mask.any():
              self._meth_to_call = self._chi2_molecules_only_restrains   # path `onlyRestr`
              self.n_cg_far_fact = 1.1**(self.len_mol2 - len(self.set_restriction2))
  ```

  numpy semantics modelled: `cdist(…, 'sqeuclidean')`, `min(axis=1)`, `argmin(axis=1)` = FIRST
  minimum, boolean-mask indexing, fancy indexing with duplicates, `mask[idx] = False`, `set`,
  `set.union`, `len`, `1.1**n` (n a Python int of either sign).

  Indices are natural numbers here.  Python would accept negative indices (wrap-around); they are
  outside the property's quantifier and the driver answers `err OutOfDomain` for them without
  entering the model.  An index `≥ len` is the `IndexError` numpy raises.
-/

namespace Chi2

inductive Err where
  | indexError   -- numpy IndexError (fancy index out of bounds)
  | valueError   -- numpy ValueError (min over a zero-size axis)
deriving Repr, DecidableEq, Inhabited

def Err.name : Err → String
  | .indexError => "IndexError"
  | .valueError => "ValueError"

variable {α : Type} [Scalar α]

/-- one entry of `cdist(A, B, 'sqeuclidean')` : `Σ (a_i − b_i)²` -/
def sqdist (a b : V3 α) : α := V3.norm2 (a - b)

/-- `np.sum` of a 1-d array (left to right; numpy is pairwise for ≥ 8 elements — compared with
    tolerance in the correspondence, equal over ℝ) -/
def sumList (l : List α) : α := l.foldl (· + ·) Scalar.zero

/-- scan for `(min, argmin)` of a row: a later element replaces the incumbent only when it is
    strictly smaller, so the index returned is that of the FIRST minimum (numpy `argmin`). -/
def rowMinAux : List α → α → Nat → Nat → α × Nat
  | [], best, bi, _ => (best, bi)
  | x :: xs, best, bi, i =>
    if Scalar.lt x best then rowMinAux xs x i (i + 1) else rowMinAux xs best bi (i + 1)

/-- `A[idx]` fancy indexing on the first axis (duplicates allowed); IndexError when out of range -/
def gather {β : Type} (l : List β) : List Nat → Except Err (List β)
  | [] => .ok []
  | i :: is =>
    match l[i]? with
    | none => .error .indexError
    | some x => match gather l is with
      | .error e => .error e
      | .ok xs => .ok (x :: xs)

/-- `mask[idx] = False` (all indices already known to be in range) -/
def maskClear (mask : List Bool) (idx : List Nat) : List Bool :=
  idx.foldl (fun m i => m.set i false) mask

/-- `A[mask]` boolean indexing (`mask` has the length of `A`) -/
def boolIndex {β : Type} (l : List β) (mask : List Bool) : List β :=
  (l.zip mask).filterMap (fun p => if p.2 then some p.1 else none)

/-- `s.add(x)` on a set of ints represented as a duplicate-free list -/
def setAdd (s : List Nat) (x : Nat) : List Nat := if s.contains x then s else x :: s

/-- `s.union(xs)` ; `set(xs) = setUnion [] xs` -/
def setUnion (s : List Nat) (xs : List Nat) : List Nat := xs.foldl setAdd s

/-- `base ** n` for a Python int `n` of either sign (numpy/CPython call `pow`; modelled as repeated
    multiplication, compared at relative 1e-9 in the correspondence) -/
def powInt (base : α) (n : Int) : α :=
  if n < 0 then Scalar.one / Scalar.npow base (-n).toNat else Scalar.npow base n.toNat

/-- the literal `1.1` -/
def penaltyBase : α := Scalar.ofDec 11 1

/-- the state a constructed `Chi2Calculator` reads on each of its three call paths -/
inductive Calc (α : Type) where
  /-- `chi2_molecules` : `_mol1_positions` -/
  | plain (mol1 : List (V3 α))
  /-- `_chi2_molecules_with_restrains` : `restriction2`, `set_restriction2`, `len_mol2`,
      `_mol1_not_restriction`, `_mol1_restriction` -/
  | withRestr (restriction2 setRestriction2 : List Nat) (lenMol2 : Nat)
      (mol1NotRestriction mol1Restriction : List (V3 α))
  /-- `_chi2_molecules_only_restrains` : `restriction2`, `_mol1_restriction`, `n_cg_far_fact` -/
  | onlyRestr (restriction2 : List Nat) (mol1Restriction : List (V3 α)) (nCgFarFact : α)

/-- which path: 0 `chi2_molecules`, 1 `_chi2_molecules_with_restrains`, 2 `_chi2_molecules_only_restrains` -/
def Calc.pathId : Calc α → Nat
  | .plain _ => 0
  | .withRestr .. => 1
  | .onlyRestr .. => 2

/-- `Chi2Calculator.__init__(mol1, mol2, restrictions)` -/
def Calc.new (mol1 mol2 : List (V3 α)) (restrictions : List (Nat × Nat)) : Except Err (Calc α) :=
  if restrictions.isEmpty then .ok (.plain mol1) else
  let restriction1 := restrictions.map Prod.fst
  let restriction2 := restrictions.map Prod.snd
  let setRestriction2 := setUnion [] restriction2
  let lenMol2 := mol2.length
  -- mask = ones ; mask[restriction1] = False
  if restriction1.any (fun i => decide (mol1.length ≤ i)) then .error .indexError else
  let mask := maskClear (List.replicate mol1.length true) restriction1
  let notRestr := boolIndex mol1 mask
  match gather mol1 restriction1 with
  | .error e => .error e
  | .ok restr =>
    if !(mask.any id) then
      .ok (.onlyRestr restriction2 restr
            (powInt penaltyBase ((lenMol2 : Int) - (setRestriction2.length : Int))))
    else
      .ok (.withRestr restriction2 setRestriction2 lenMol2 notRestr restr)

/-- `_chi2_molecules_restrains_contrib` : `np.sum((self._mol1_restriction - mol2[self.restriction2])**2)` -/
def restrContrib (mol1Restriction : List (V3 α)) (restriction2 : List Nat) (mol2 : List (V3 α)) :
    Except Err α :=
  match gather mol2 restriction2 with
  | .error e => .error e
  | .ok sel => .ok (sumList (List.zipWith sqdist mol1Restriction sel))

/-- `distances = cdist(rows, mol2, 'sqeuclidean')` followed by `distances.min(axis=1)` and
    `distances.argmin(axis=1)`.  A zero-size reduction axis (`mol2` empty) raises ValueError
    whatever the number of rows. -/
def nearest (rows : List (V3 α)) : List (V3 α) → Except Err (List (α × Nat))
  | [] => .error .valueError
  | m :: ms => .ok (rows.map (fun f => rowMinAux (ms.map (sqdist f)) (sqdist f m) 0 1))

/-- `if n_cg_far: chi2 *= 1.1**n_cg_far` -/
def penalise (chi2 : α) (nCgFar : Int) : α :=
  if nCgFar == 0 then chi2 else chi2 * powInt penaltyBase nCgFar

/-- `Chi2Calculator.__call__(mol2)` -/
def Calc.call (c : Calc α) (mol2 : List (V3 α)) : Except Err α :=
  match c with
  | .plain mol1 =>
    match nearest mol1 mol2 with
    | .error e => .error e
    | .ok mins =>
      let chi2 := sumList (mins.map Prod.fst)
      let nCgFar : Int := (mol2.length : Int) - ((setUnion [] (mins.map Prod.snd)).length : Int)
      .ok (penalise chi2 nCgFar)
  | .withRestr restriction2 setRestriction2 lenMol2 notRestr restr =>
    match restrContrib restr restriction2 mol2 with
    | .error e => .error e
    | .ok chi2r =>
      match nearest notRestr mol2 with
      | .error e => .error e
      | .ok mins =>
        let chi2 := chi2r + sumList (mins.map Prod.fst)
        let nCgFar : Int :=
          (lenMol2 : Int) - ((setUnion setRestriction2 (mins.map Prod.snd)).length : Int)
        .ok (penalise chi2 nCgFar)
  | .onlyRestr restriction2 restr fact =>
    match restrContrib restr restriction2 mol2 with
    | .error e => .error e
    | .ok chi2r => .ok (chi2r * fact)

/-- the exponent `n_cg_far` used by the call (for the evidence / branch counters; `none` on error) -/
def Calc.nCgFar (c : Calc α) (mol2 : List (V3 α)) : Option Int :=
  match c with
  | .plain mol1 =>
    match nearest mol1 mol2 with
    | .error _ => none
    | .ok mins => some ((mol2.length : Int) - ((setUnion [] (mins.map Prod.snd)).length : Int))
  | .withRestr _ setRestriction2 lenMol2 notRestr _ =>
    match nearest notRestr mol2 with
    | .error _ => none
    | .ok mins => some ((lenMol2 : Int) - ((setUnion setRestriction2 (mins.map Prod.snd)).length : Int))
  | .onlyRestr .. => none

end Chi2
