import GMModel.SysGro
/-
  GMModel.SystemRec — `gaddlemaps/components/_system.py : System` (C11): recognition of molecule
  instances in the kind stream of `SystemGro`, plus the pieces of
  `components/_components.py` (`Molecule.__init__`, `_molecule_top_and_residues_match`) and
  `components/_components_top.py` (`MoleculeTop.resname_len_list`) it goes through.

  Where the model starts.  A topology is the parsed atom list of a `MoleculeTop`
  (`(name, resname, resid)` per atom, as produced by `read_topology`) plus the molecule name; reading
  `.itp` text is C15/C16's business.  The coordinate file is the `SGro` model of C12.

  Two layers:
  * `RecState`/`addPattern`: the recognition algorithm on the integer kind stream with the
    `Molecule(...)` construction abstracted as a function `check : start ↦ len_mol | error`;
    this is what the C11 theorems are about;
  * `Sys`/`addMoleculeTop`/…: the concrete `System`, which computes the pattern from the topology by
    the `(resname, len)` dictionary, instantiates `check` with the real residue read + name check, and
    delegates to `addPattern` (`Sys.toRec` is the projection).
-/

namespace SRec
open SGro

/-! ### numpy pieces -/

/-- `(w == p).all()` for 1-d integer arrays: elementwise when the shapes agree, broadcast when one
    side has exactly one element, `ValueError` ("operands could not be broadcast together") otherwise
    (numpy ≥ 1.25) -/
def npAllEq (w p : List Int) : Except PyErr Bool :=
  if w.length = p.length then .ok (decide (w = p))
  else
    match w, p with
    | [x], _ => .ok (p.all (fun y => decide (y = x)))
    | _, [y] => .ok (w.all (fun x => decide (x = y)))
    | _, _ => .error .ValueError

/-- `System._check_index_in_available_mgro`:
    ```
    for mgro_index, mgro_pk in enumerate(self._available_mgro_ordered):
        if mgro_pk == index_array[0]:
            if (self._available_mgro_ordered[mgro_index:mgro_index+len_array] == index_array).all():
                start_index = mgro_index; break
    if start_index is None: raise IOError
    ```
    the second argument of `Go` is the suffix `av[mgro_index:]`; near the end of the array the window
    is shorter than the pattern and numpy broadcasts or raises (`npAllEq`). -/
def firstMatchGo (p : List Int) : Nat → List Int → Except PyErr Nat
  | _, [] => .error .IOError
  | i, x :: xs =>
    match p with
    | [] => .error .IndexError
    | p0 :: _ =>
      if x = p0 then
        match npAllEq ((x :: xs).take p.length) p with
        | .error e => .error e
        | .ok true => .ok i
        | .ok false => firstMatchGo p (i + 1) xs
      else firstMatchGo p (i + 1) xs

def firstMatch (av p : List Int) : Except PyErr Nat := firstMatchGo p 0 av

/-- `(mol_index, gro_start, amount)` -/
abbrev Entry := Nat × Nat × Nat

/-- `self._molecules_ordered[-1][2] += 1` -/
def bumpLast (ord : List Entry) : Except PyErr (List Entry) :=
  match ord.getLast? with
  | none => .error .IndexError
  | some (m, s, a) => .ok (ord.dropLast ++ [(m, s, a + 1)])

/-- `System._find_all_molecules_and_replace`; `suffix` is `av_gro[start_index:]`, the result is its
    new content and the new `_molecules_ordered`:
    ```
    new_block = True
    while (start_index+l_index_mol) <= len(av_gro):
        if (av_gro[start_index:start_index+l_index_mol] == index_mol_gro).all():
            if new_block: self._molecules_ordered.append([mol_index, start_index, 1]); new_block = False
            else:         self._molecules_ordered[-1][2] += 1
            av_gro[start_index:start_index+l_index_mol] = -1
            start_index += l_index_mol
        else:
            new_block = True
            start_index += 1
    ```
    Fuel `len(suffix) + 1` suffices for a non-empty pattern (`findAll_fuel`); with an empty pattern the
    Python does not terminate and the model runs out of fuel. -/
def findAll (p : List Int) (molIdx : Nat) :
    Nat → Nat → List Int → Bool → List Entry → Except PyErr (List Int × List Entry)
  | 0, _, _, _, _ => .error .ModelFuel
  | fuel + 1, start, suffix, nb, ord =>
    if p.length ≤ suffix.length then
      if suffix.take p.length = p then
        match (if nb then .ok (ord ++ [(molIdx, start, 1)]) else bumpLast ord) with
        | .error e => .error e
        | .ok ord' =>
          match findAll p molIdx fuel (start + p.length) (suffix.drop p.length) false ord' with
          | .error e => .error e
          | .ok (s', o') => .ok (List.replicate p.length (-1) ++ s', o')
      else
        match suffix with
        | [] => .ok ([], ord)
        | x :: xs =>
          match findAll p molIdx fuel (start + 1) xs true ord with
          | .error e => .error e
          | .ok (s', o') => .ok (x :: s', o')
    else .ok (suffix, ord)

/-- `self._molecules_ordered.sort(key=lambda x: x[1])` (stable) -/
def sortByStart (l : List Entry) : List Entry := l.mergeSort (fun a b => decide (a.2.1 ≤ b.2.1))

structure RecState where
  /-- `_available_mgro_ordered` -/
  avail : List Int
  /-- `_molecules_ordered` -/
  ordered : List Entry
  /-- `len(self.different_molecules[i].resnames)` for every loaded species -/
  lens : List Nat
  deriving Repr

/-- the part of `add_molecule_top` after the signature lookup; `check start` stands for
    `Molecule(mol_top, self.system_gro[start:start+len(index_mol_gro)])` and returns the number of
    residues of the stored molecule -/
def addPattern (st : RecState) (p : List Int) (check : Nat → Except PyErr Nat) : Except PyErr RecState :=
  match firstMatch st.avail p with
  | .error e => .error e
  | .ok start =>
    match check start with
    | .error e => .error e
    | .ok lenMol =>
      match findAll p st.lens.length (st.avail.length + 1) start (st.avail.drop start) true st.ordered with
      | .error e => .error e
      | .ok (tl, ord) =>
        .ok { avail := st.avail.take start ++ tl, ordered := sortByStart ord, lens := st.lens ++ [lenMol] }

/-- `System._molecules_ordered_all_gen`: `(index, gro_start, gro_end)` for every instance -/
def instancesGo (lens : List Nat) : List Entry → Except PyErr (List Entry)
  | [] => .ok []
  | (m, s, amt) :: rest =>
    match lens[m]? with
    | none => .error .IndexError
    | some L =>
      match instancesGo lens rest with
      | .error e => .error e
      | .ok tl => .ok ((List.range amt).map (fun i => (m, s + i * L, s + (i + 1) * L)) ++ tl)

def RecState.instances (st : RecState) : Except PyErr (List Entry) := instancesGo st.lens st.ordered

/-- `System.__len__` -/
def RecState.len (st : RecState) : Nat := (st.ordered.map (·.2.2)).sum

/-! ### topology side -/

structure TopAtom where
  name : Str
  resname : Str
  resid : Int
  deriving DecidableEq, Repr

structure Top where
  name : Str
  atoms : List TopAtom
  deriving Repr

/-- `'{:5}'.format(s)`: pad on the right to width 5, never truncates -/
def pad5 (s : Str) : Str := s ++ List.replicate (5 - s.length) ' '

/-- `'{:5}{}'.format(atom.resname, atom.resid)` -/
def topKey (a : TopAtom) : Str := pad5 a.resname ++ intDigits a.resid

def isSpace (c : Char) : Bool :=
  c == ' ' || c == '\t' || c == '\n' || c == '\r' || c == '\x0b' || c == '\x0c'

/-- `str.strip()` -/
def strip (s : Str) : Str := ((s.dropWhile isSpace).reverse.dropWhile isSpace).reverse

/-- loop of `MoleculeTop.resname_len_list` -/
def resnameLenGo : Option (Str × Nat) → List Str → List (Str × Nat) → Except PyErr (List (Str × Nat))
  | none, [], _ => .error .IndexError                 -- `old_resname[0]` on `[]` (no atoms)
  | some (k, c), [], acc => .ok (acc ++ [(strip (k.take 5), c)])
  | none, k :: rest, acc => resnameLenGo (some (k, 1)) rest acc
  | some (k0, c), k :: rest, acc =>
    if k ≠ k0 then resnameLenGo (some (k, 1)) rest (acc ++ [(strip (k0.take 5), c)])
    else resnameLenGo (some (k0, c + 1)) rest acc

def resnameLenList (t : Top) : Except PyErr (List (Str × Nat)) :=
  resnameLenGo none (t.atoms.map topKey) []

/-- `_molecule_top_and_residues_match` -/
def molMatch (t : Top) (residues : List Residue) : Bool :=
  t.atoms.length == (residues.map List.length).sum &&
  (List.zipWith (fun (ta : TopAtom) (a : AtomRec) => a.resname == ta.resname && a.name == ta.name)
    t.atoms residues.flatten).all id

/-- a `Molecule`: the topology (by value; identity is the index in `different_molecules`) and the
    stored copies of the residues -/
structure Mol where
  top : Top
  residues : List Residue
  deriving Repr

/-- `Molecule.__init__`: `IOError` unless `_molecule_top_and_residues_match`; every residue is copied
    through `Residue(self.atoms)` -/
def mkMolecule (t : Top) (residues : List Residue) : Except PyErr Mol :=
  if molMatch t residues then
    match residues.mapM mkResidue with
    | .ok rs => .ok ⟨t, rs⟩
    | .error e => .error e
  else .error .IOError

/-! ### System -/

structure Sys where
  gro : GroRd
  sg : SG
  cur : Cursor
  /-- `different_molecules` -/
  mols : List Mol
  ordered : List Entry
  avail : List Int
  deriving Repr

def Sys.toRec (s : Sys) : RecState := ⟨s.avail, s.ordered, s.mols.map (fun m => m.residues.length)⟩

/-- `System.__init__` before the topologies are added -/
def Sys.init (f : GroRd) : Except PyErr Sys :=
  match SGro.init f ⟨0, 0⟩ with
  | (.error e, _) => .error e
  | (.ok sg, c) => .ok ⟨f, sg, c, [], [], sg.kinds.map (fun (k : Nat) => (k : Int))⟩

/-- the lookup loop at the top of `add_molecule_top`: `IOError` when a `(resname, len)` is not a key -/
def lookupPattern (pk : List ((Str × Nat) × Nat)) : List (Str × Nat) → Except PyErr (List Int)
  | [] => .ok []
  | k :: rest =>
    match pk.lookup k with
    | none => .error .IOError
    | some i =>
      match lookupPattern pk rest with
      | .error e => .error e
      | .ok tl => .ok ((i : Int) :: tl)

/-- `Molecule(mol_top, self.system_gro[start:start+L])` → (molecule, new cursor) -/
def buildAt (s : Sys) (t : Top) (L start : Nat) : Except PyErr Mol × Cursor :=
  match getSlice s.gro s.sg s.cur (some (start : Int)) (some ((start + L : Nat) : Int)) none with
  | (.error e, c) => (.error e, c)
  | (.ok residues, c) => (mkMolecule t residues, c)

/-- `System.add_molecule_top`.  Returns the state also on failure: nothing but the file cursor has
    been touched when the exception leaves the method. -/
def addMoleculeTop (s : Sys) (t : Top) : Except PyErr Unit × Sys :=
  match resnameLenList t with
  | .error e => (.error e, s)
  | .ok rl =>
    match lookupPattern s.sg.pk rl with
    | .error e => (.error e, s)
    | .ok p =>
      match firstMatch s.avail p with
      | .error e => (.error e, s)
      | .ok start =>
        match buildAt s t p.length start with
        | (.error e, c) => (.error e, { s with cur := c })
        | (.ok mol, c) =>
          let s1 : Sys := { s with cur := c, mols := s.mols ++ [mol] }
          match findAll p s.mols.length (s.avail.length + 1) start (s.avail.drop start) true s.ordered with
          | .error e => (.error e, s1)
          | .ok (tl, ord) =>
            (.ok (), { s1 with avail := s.avail.take start ++ tl, ordered := sortByStart ord })

/-- `System.composition` as an association list (harness sorts) -/
def Sys.composition (s : Sys) : Except PyErr (List (Str × Nat)) :=
  s.ordered.foldlM (fun (acc : List (Str × Nat)) (e : Entry) =>
    match s.mols[e.1]? with
    | some m => .ok (counterAdd acc m.top.name e.2.2)
    | none => .error .IndexError) []

/-- body shared by `__iter__` and `__getitem__`:
    `residues = self.system_gro[gro_start:gro_end]; mol = self.different_molecules[index].copy(residues)` -/
def molAt (s : Sys) (c : Cursor) (e : Entry) : Except PyErr (Nat × Mol) × Cursor :=
  match s.mols[e.1]? with
  | none => (.error .IndexError, c)
  | some m =>
    match getSlice s.gro s.sg c (some (e.2.1 : Int)) (some (e.2.2 : Int)) none with
    | (.error er, c1) => (.error er, c1)
    | (.ok residues, c1) =>
      match mkMolecule m.top residues with
      | .error er => (.error er, c1)
      | .ok mol => (.ok (e.1, mol), c1)

def molsAt (s : Sys) : List Entry → Cursor → Except PyErr (List (Nat × Mol)) × Cursor
  | [], c => (.ok [], c)
  | e :: rest, c =>
    match molAt s c e with
    | (.error er, c1) => (.error er, c1)
    | (.ok m, c1) =>
      match molsAt s rest c1 with
      | (.ok ms, c2) => (.ok (m :: ms), c2)
      | (.error er, c2) => (.error er, c2)

inductive SOp
  | get (i : Int)
  | slice (a b s : Option Int)
  | iterAll
  deriving Repr

/-- `System.__getitem__` / `list(System)`; the result lists `(index in different_molecules, molecule)` -/
def Sys.access (s : Sys) : SOp → Except PyErr (List (Nat × Mol)) × Sys
  | .get i =>
    match s.toRec.instances with
    | .error e => (.error e, s)
    | .ok inst =>
      match pickInt inst i with
      | .error e => (stopToIndex (.error e), s)
      | .ok e =>
        let (r, c) := molAt s s.cur e
        (stopToIndex (r.map (fun x => [x])), { s with cur := c })
  | .slice a b st =>
    match s.toRec.instances with
    | .error e => (.error e, s)
    | .ok inst =>
      match isliceExt inst a b st with
      | .error e => (.error e, s)
      | .ok sel =>
        let (r, c) := molsAt s sel s.cur
        (stopToIndex r, { s with cur := c })
  | .iterAll =>
    match s.toRec.instances with
    | .error e => (.error e, s)
    | .ok inst =>
      let (r, c) := molsAt s inst s.cur
      (r, { s with cur := c })

end SRec
