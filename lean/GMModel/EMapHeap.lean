import GMModel.HeapOps
import GMModel.Frame
/-
  GMModel.EMapHeap — `gaddlemaps/_exchage_map.py` on the object heap (C04).

  The numeric mathematics (frame of three points, projection, restoration, nearest anchor) is a
  PARAMETER `Geo`: the theorems of C04 hold for all such functions; the driver instantiates it
  with `calcule_base` etc. at `Float` (`concreteGeo`, `GMModel/EMapGeo.lean`).

  State of an `ExchangeMap` object:
    ref, tgt      : the construction molecules (`_refmolecule`, `_targetmolecule` — stored by
                    reference, NOT copied)
    table         : `_refsystems`  {anchor index → frame}, OVERWRITTEN on every call
    equiv         : `_equivalences` {target atom index → anchor index}, written once
    tcoords       : `_target_coordinates` {target atom index → projection}, written once
  Python dicts are association lists here (`dictSet` replaces, `List.lookup` reads); iteration order
  of a dict is only used under `sorted(...)`, so it is not modelled.
-/

namespace GMHeap

variable {α : Type}

structure Geo (α F P : Type) where
  /-- `calcule_base([atom, neighbour1, neighbour2])` -/
  frameOf : V3 α → V3 α → V3 α → F
  /-- `_proyect_point` (including the scale factor) -/
  project : F → V3 α → P
  /-- `_restore_point` -/
  restore : F → P → V3 α
  /-- `_find_closest_ref`: candidates are (anchor index, position of that atom in the reference);
      `none` for an empty candidate list (`sorted([])[0]` raises IndexError) -/
  closest : List (Nat × V3 α) → V3 α → Option Nat

structure EMap (F P : Type) where
  ref : Nat
  tgt : Nat
  table : List (Nat × F)
  equiv : List (Nat × Nat)
  tcoords : List (Nat × P)

def dictSet {β : Type} (d : List (Nat × β)) (k : Nat) (v : β) : List (Nat × β) :=
  (k, v) :: d.filter (fun e => e.1 != k)

variable {F P : Type}

/-- `molecule[k].position` : `Molecule.__getitem__` (IndexError), `Atom(...)` (IOError) -/
def itemPos (h : Heap α) (v : MolView) (k : Nat) : Except PyErr (V3 α) :=
  match molItem v k with
  | .error e => .error e
  | .ok (t, g) =>
    match matchErr h t g with
    | some e => .error e
    | none =>
      match h.gro? g with
      | some c => .ok c.pos
      | none => .error .internal

/-- the loop of `_calculate_refsystems_general` over the remaining atoms `(top, gro)`;
    returns the table and the error that interrupted the loop (table writes made so far persist) -/
def calcLoop (G : Geo α F P) (h : Heap α) (v : MolView) :
    List (Nat × Nat) → List (Nat × F) → List (Nat × F) × Option PyErr
  | [], tb => (tb, none)
  | (t, g) :: rest, tb =>
    match matchErr h t g with
    | some e => (tb, some e)
    | none =>
      match h.top? t, h.gro? g with
      | some tc, some gc =>
        if tc.bonds.length ≥ 2 then
          match tc.bonds with
          | i1 :: i2 :: _ =>
            match itemPos h v i1 with
            | .error e => (tb, some e)
            | .ok p1 =>
              match itemPos h v i2 with
              | .error e => (tb, some e)
              | .ok p2 => calcLoop G h v rest (dictSet tb tc.index (G.frameOf gc.pos p1 p2))
          | _ => (tb, some .internal)
        else calcLoop G h v rest tb
      | _, _ => (tb, some .internal)

/-- `_calculate_refsystems(molecule)` for molecules of ≥ 3 atoms (1- and 2-atom molecules use
    `np.random` and are outside C04: reported as `internal`) -/
def calcRefs (G : Geo α F P) (h : Heap α) (m : Nat) (tb : List (Nat × F)) :
    List (Nat × F) × Option PyErr :=
  match molView h m with
  | none => (tb, some .internal)
  | some v =>
    if v.each.length < 3 then (tb, some .internal)
    else if v.tops.length ≠ v.gros.length then (tb, some .internal)
    else calcLoop G h v (v.tops.zip v.gros) tb

/-- `Atom.__eq__` on the i-th atoms of two molecules, inside `Molecule.__eq__`'s `zip` loop -/
def eqLoop (h : Heap α) : List (Nat × Nat) → List (Nat × Nat) → Except PyErr Bool
  | (t1, g1) :: r1, (t2, g2) :: r2 =>
    match matchErr h t1 g1 with
    | some e => .error e
    | none =>
      match matchErr h t2 g2 with
      | some e => .error e
      | none =>
        match h.top? t1, h.gro? g1, h.top? t2, h.gro? g2 with
        | some a1, some c1, some a2, some c2 =>
          if c1.resname = c2.resname ∧ c1.name = c2.name ∧ a1.index = a2.index ∧ a1.resid = a2.resid
          then eqLoop h r1 r2 else .ok false
        | _, _, _, _ => .error .internal
  | _, _ => .ok true

/-- `Molecule.__eq__(self, other)` for two Molecule objects: name, length, then atom by atom
    (gro resname, gro name, top index, top resid) — bonds are NOT compared -/
def molEq (h : Heap α) (a b : Nat) : Except PyErr Bool :=
  match molView h a, molView h b with
  | some va, some vb =>
    if va.name = vb.name ∧ va.each.length = vb.each.length then
      eqLoop h (va.tops.zip va.gros) (vb.tops.zip vb.gros)
    else .ok false
  | _, _ => .error .internal

/-- `[res.resid for res in residues]` (the `resids` getter) -/
def residsOf (h : Heap α) : List (List Nat) → Option (List Int)
  | [] => some []
  | p :: ps =>
    match p with
    | [] => none
    | g :: _ =>
      match h.gro? g, residsOf h ps with
      | some c, some l => some (c.resid :: l)
      | _, _ => none

/-- the loop of `_restore_molecule` over the atoms `(top, gro)` of the new molecule -/
def restoreLoop (G : Geo α F P) (E : EMap F P) (h : Heap α) :
    List (Nat × Nat) → Heap α × Option PyErr
  | [] => (h, none)
  | (t, g) :: rest =>
    match matchErr h t g with
    | some e => (h, some e)
    | none =>
      match h.top? t with
      | none => (h, some .internal)
      | some tc =>
        match E.equiv.lookup tc.index, E.tcoords.lookup tc.index with
        | some a, some p =>
          match E.table.lookup a with
          | some f => restoreLoop G E (h.modGro g (fun c => { c with pos := G.restore f p })) rest
          | none => (h, some .keyError)
        | _, _ => (h, some .keyError)

/-- result of an exchange-map operation: heap, map state, returned molecule or error -/
structure CallR (α F P : Type) where
  heap : Heap α
  emap : EMap F P
  ret : Option Nat
  err : Option PyErr

/-- the part of `__call__` after `_calculate_refsystems`:
    `new_mol = self._restore_molecule(); new_mol.resids = refmolecule.resids; return new_mol`
    (`E1` already carries the updated frame table) -/
def finishCall (G : Geo α F P) (h : Heap α) (E1 : EMap F P) (m : Nat) : CallR α F P :=
  -- new_mol = self._targetmolecule.copy()
  match h.mol? E1.tgt with
  | none => ⟨h, E1, none, some .internal⟩
  | some (t, rs, _) =>
    match molInit h t rs with
    | .error e => ⟨h, E1, none, some e⟩
    | .ok (h1, nm) =>
      match molView h1 nm, molView h1 m with
      | some nv, some av =>
        if nv.tops.length ≠ nv.gros.length then ⟨h, E1, none, some .internal⟩ else
        match restoreLoop G E1 h1 (nv.tops.zip nv.gros) with
        | (_, some e) => ⟨h, E1, none, some e⟩
        | (h2, none) =>
          -- new_mol.resids = refmolecule.resids
          match residsOf h2 av.parts with
          | none => ⟨h, E1, none, some .internal⟩
          | some l =>
            match setResidsList h2 nm l with
            | (h3, none) => ⟨h3, E1, some nm, none⟩
            | (h3, some e) =>
              -- a failing `resids=` may already have rewritten some SHARED AtomTop cells:
              -- keep the heap (the new molecule itself is garbage)
              ⟨h3, E1, none, some e⟩
      | _, _ => ⟨h, E1, none, some .internal⟩

/-- `ExchangeMap.__call__(refmolecule)`: isinstance check, species check (`!=`), then — and only
    then — the frame table is rewritten -/
def call (G : Geo α F P) (h : Heap α) (E : EMap F P) (arg : Option Obj) : CallR α F P :=
  match arg with
  | some (.mol m) =>
    match molEq h E.ref m with
    | .error e => ⟨h, E, none, some e⟩
    | .ok false => ⟨h, E, none, some .typeError⟩
    | .ok true =>
      -- self._calculate_refsystems(refmolecule)
      match calcRefs G h m E.table with
      | (tb, some e) => ⟨h, { E with table := tb }, none, some e⟩
      | (tb, none) => finishCall G h { E with table := tb } m
  | _ => ⟨h, E, none, some .typeError⟩      -- not isinstance(…, Molecule)

/-- `_find_closest_ref`: positions of `self._refmolecule[index]` for `index in self._refsystems` -/
def candsOf (h : Heap α) (refv : MolView) : List (Nat × F) → Except PyErr (List (Nat × V3 α))
  | [] => .ok []
  | (k, _) :: ks =>
    match itemPos h refv k with
    | .error e => .error e
    | .ok p =>
      match candsOf h refv ks with
      | .error e => .error e
      | .ok l => .ok ((k, p) :: l)

/-- the loop of `_make_map` over the atoms `(top, gro)` of the target -/
def makeMapLoop (G : Geo α F P) (h : Heap α) (refv : MolView) (E : EMap F P) :
    List (Nat × Nat) → EMap F P × Option PyErr
  | [] => (E, none)
  | (t, g) :: rest =>
    match matchErr h t g with
    | some e => (E, some e)
    | none =>
      match h.top? t, h.gro? g with
      | some tc, some gc =>
        match candsOf h refv E.table with
        | .error e => (E, some e)
        | .ok cs =>
          match G.closest cs gc.pos with
          | none => (E, some .indexError)
          | some a =>
            match E.table.lookup a with
            | none => (E, some .keyError)
            | some f =>
              makeMapLoop G h refv
                { E with equiv := dictSet E.equiv tc.index a,
                         tcoords := dictSet E.tcoords tc.index (G.project f gc.pos) } rest
      | _, _ => (E, some .internal)

/-- `ExchangeMap.__init__(refmolecule, targetmolecule, scale_factor)` (the scale factor lives
    inside `G.project`) -/
def build (G : Geo α F P) (h : Heap α) (ref tgt : Nat) : EMap F P × Option PyErr :=
  let E0 : EMap F P := ⟨ref, tgt, [], [], []⟩
  let (tb, e1) := calcRefs G h ref []
  let E1 := { E0 with table := tb }
  match e1 with
  | some e => (E1, some e)
  | none =>
    match molView h ref, molView h tgt with
    | some rv, some tv =>
      if tv.tops.length ≠ tv.gros.length then (E1, some .internal)
      else makeMapLoop G h rv E1 (tv.tops.zip tv.gros)
    | _, _ => (E1, some .internal)

/-! ### operation lists for C04 -/

inductive EOp (α : Type) where
  /-- `emap(env[i])` -/
  | call (i : Nat)
  /-- `emap(x)` for a Python object that is not a component (None, a string, a MoleculeTop …) -/
  | callOther
  /-- any operation of `HeapOps` on the environment (the generators use coordinate assignments on
      the construction molecules, the arguments and earlier results, and copies) -/
  | op (o : Op α)

structure EState (α F P : Type) where
  heap : Heap α
  env : List Obj
  emap : EMap F P

variable [Scalar α]

def estep (G : Geo α F P) (s : EState α F P) : EOp α → EState α F P × Option PyErr
  | .call i =>
    match s.env[i]? with
    | none => (s, some .internal)
    | some o =>
      let r := call G s.heap s.emap (some o)
      (⟨r.heap, (match r.ret with | some m => s.env ++ [.mol m] | none => s.env), r.emap⟩, r.err)
  | .callOther =>
    let r := call G s.heap s.emap none
    (⟨r.heap, s.env, r.emap⟩, r.err)
  | .op o =>
    let r := step s.heap s.env o
    (⟨r.heap, pushRet s.env r, s.emap⟩, r.err)

def erun (G : Geo α F P) (s : EState α F P) : List (EOp α) → EState α F P
  | [] => s
  | o :: os => erun G (estep G s o).1 os

end GMHeap
