import Driver.Main
