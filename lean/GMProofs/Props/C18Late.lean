import GMProofs.Props.C18
/-!
# C18 (work package WPK) — the views an iteration hands out are kept apart

`list(mol)` (the model's `iterAtom i 0, …, iterAtom i (n-1)`) and `[mol[0], …, mol[n-1]]` (`getAtom i k`) on a
well-formed molecule: the heap is untouched, the environment grows by exactly the views
`Atom(tops[k], gros[k])`, `k = 0 … n-1`, in order.  Hence the k-th view refers to the k-th AtomGro cell of the
molecule, the views refer to pairwise DISTINCT AtomGro cells, and handing out later views never changes what an
earlier view refers to (a flyweight iterator that re-points one wrapper object breaks exactly this: seed C18-12).

`C18.view_writes_through` (one view, obtained by one call) is the single-step fact; this file is the statement
over the whole run.  Only property theorems and non-vacuity examples live here.
-/
open GMHeap

namespace C18

section views
variable {α : Type} [Scalar α]

private theorem run_append (ops1 ops2 : List (Op α)) : ∀ (h : Heap α) (env : List Obj),
    run h env (ops1 ++ ops2) = run (run h env ops1).1 (run h env ops1).2 ops2 := by
  induction ops1 with
  | nil => intro h env; rfl
  | cons op ops ih => intro h env; simp only [List.cons_append, run]; exact ih _ _

omit [Scalar α] in
private theorem iterCheck_none (h : Heap α) : ∀ (l : List (Nat × Nat)) (k : Nat),
    (∀ p ∈ l, matchErr h p.1 p.2 = none) → iterCheck h l k = none
  | [], _, _ => rfl
  | (t, g) :: rest, k, hm => by
    have h0 : matchErr h t g = none := hm (t, g) (List.mem_cons_self ..)
    cases k with
    | zero => simp only [iterCheck, h0]
    | succ k =>
      simp only [iterCheck, h0]
      exact iterCheck_none h rest k (fun p hp => hm p (List.mem_cons_of_mem _ hp))

/-- one `mol[k]` / one step of the iteration on a well-formed molecule whose labels agree: no write, and the
    view returned is the pair (k-th AtomTop, k-th AtomGro) -/
private theorem view_step {h : Heap α} {m : Nat} {v : MolView} {cs : List (AtomGroC α)} (w : MolWF h m v cs)
    (hm : ∀ p ∈ v.tops.zip v.gros, matchErr h p.1 p.2 = none) (viaIter : Bool) (i k : Nat) (t g : Nat)
    (hk : (v.tops.zip v.gros)[k]? = some (t, g)) (env : List Obj) (hi : env[i]? = some (.mol m)) :
    step h env (if viaIter then .iterAtom i k else .getAtom i k) = ⟨h, some (.atom t g), none⟩ := by
  have hmatch : matchErr h t g = none := hm (t, g) (List.mem_of_getElem? hk)
  cases viaIter with
  | true =>
    simp only [if_true, step, Op.target, hi, stepOn, w.view]
    rw [if_neg (by simpa using w.len), iterCheck_none h _ k hm]
    simp only [hk]
  | false =>
    simp only [Bool.false_eq_true, if_false, step, Op.target, hi, stepOn, w.view]
    have hg : v.gros = v.parts.flatten := (molView_gros w.view).1
    rw [List.getElem?_zip_eq_some] at hk
    have hkl : k < v.parts.flatten.length := by
      rw [← hg]; exact (List.getElem?_eq_some_iff.mp hk.2).1
    obtain ⟨t1, g1, a1, a2, a3⟩ := molItem_eq w.each hkl (by rw [← hg]; exact w.len)
    rw [hk.1] at a1
    rw [← hg, hk.2] at a2
    injection a1 with a1
    injection a2 with a2
    subst a1; subst a2
    simp only [a3, hmatch]

/-- the operation list of `list(mol)` (`viaIter = true`) resp. `[mol[k] for k in range(n)]` -/
def viewOps (viaIter : Bool) (i n : Nat) : List (Op α) :=
  (List.range n).map (fun k => if viaIter then Op.iterAtom i k else Op.getAtom i k)

/-- **the run.**  On a well-formed molecule whose topology and coordinate labels agree (every molecule as
    constructed; a molecule relabelled through a shared topology raises `IOError` instead — `shallow_shares_top`),
    asking for the first `n` views leaves the heap literally unchanged and appends to the environment exactly the
    views `Atom(tops[k], gros[k])`, `k < n`, in order; everything that was in the environment stays. -/
theorem views_run (h : Heap α) (env : List Obj) (i m : Nat) (v : MolView) (cs : List (AtomGroC α))
    (w : MolWF h m v cs) (hi : env[i]? = some (.mol m))
    (hm : ∀ p ∈ v.tops.zip v.gros, matchErr h p.1 p.2 = none) (viaIter : Bool) (n : Nat)
    (hn : n ≤ v.gros.length) :
    run h env (viewOps viaIter i n) =
      (h, env ++ ((v.tops.zip v.gros).take n).map (fun p => Obj.atom p.1 p.2)) := by
  induction n with
  | zero => simp [viewOps, run]
  | succ n ih =>
    have hlen : (v.tops.zip v.gros).length = v.gros.length := by
      rw [List.length_zip, w.len]; simp
    have hlt : n < (v.tops.zip v.gros).length := by omega
    have hk : (v.tops.zip v.gros)[n]? = some ((v.tops.zip v.gros)[n].1, (v.tops.zip v.gros)[n].2) :=
      List.getElem?_eq_getElem hlt
    have hi' : (env ++ ((v.tops.zip v.gros).take n).map (fun p => Obj.atom p.1 p.2))[i]? = some (.mol m) := by
      rw [List.getElem?_append_left (List.getElem?_eq_some_iff.mp hi).1]; exact hi
    unfold viewOps at ih ⊢
    rw [List.range_succ, List.map_append, run_append, ih (by omega)]
    simp only [List.map_cons, List.map_nil, run]
    rw [view_step w hm viaIter i n _ _ hk _ hi']
    simp only [pushRet, List.append_assoc, Prod.mk.injEq, true_and, List.append_cancel_left_eq]
    rw [List.take_add_one, List.map_append, hk]
    simp

/-- one `mol[k]` on a well-formed molecule, labels agreeing or not: no write; `IOError` exactly when the labels of
    the k-th pair disagree, otherwise the view of the k-th pair -/
private theorem getAtom_step {h : Heap α} {m : Nat} {v : MolView} {cs : List (AtomGroC α)} (w : MolWF h m v cs)
    (i k : Nat) (t g : Nat) (hk : (v.tops.zip v.gros)[k]? = some (t, g)) (env : List Obj)
    (hi : env[i]? = some (.mol m)) :
    step h env (.getAtom i k) = match matchErr h t g with
      | some e => ⟨h, none, some e⟩
      | none => ⟨h, some (.atom t g), none⟩ := by
  simp only [step, Op.target, hi, stepOn, w.view]
  have hg : v.gros = v.parts.flatten := (molView_gros w.view).1
  rw [List.getElem?_zip_eq_some] at hk
  have hkl : k < v.parts.flatten.length := by
    rw [← hg]; exact (List.getElem?_eq_some_iff.mp hk.2).1
  obtain ⟨t1, g1, a1, a2, a3⟩ := molItem_eq w.each hkl (by rw [← hg]; exact w.len)
  rw [hk.1] at a1
  rw [← hg, hk.2] at a2
  injection a1 with a1
  injection a2 with a2
  subst a1; subst a2
  simp only [a3]
  cases matchErr h t g <;> rfl

/-- **`[mol[k] for k in range(n)]` without any hypothesis on the labels.**  The heap is unchanged; the requests
    at atoms whose topology and coordinate labels disagree raise (`IOError`) and hand out nothing; every other
    request hands out `Atom(tops[k], gros[k])` — the views appended are exactly those of the agreeing pairs, in
    order.  So a view never refers to another atom's cell even in a molecule relabelled through a shared topology. -/
theorem getitem_views_run (h : Heap α) (env : List Obj) (i m : Nat) (v : MolView) (cs : List (AtomGroC α))
    (w : MolWF h m v cs) (hi : env[i]? = some (.mol m)) (n : Nat) (hn : n ≤ v.gros.length) :
    run h env (viewOps false i n) =
      (h, env ++ (((v.tops.zip v.gros).take n).filter (fun p => (matchErr h p.1 p.2).isNone)).map
        (fun p => Obj.atom p.1 p.2)) := by
  induction n with
  | zero => simp [viewOps, run]
  | succ n ih =>
    have hlen : (v.tops.zip v.gros).length = v.gros.length := by
      rw [List.length_zip, w.len]; simp
    have hlt : n < (v.tops.zip v.gros).length := by omega
    obtain ⟨t, g, hk⟩ : ∃ t g, (v.tops.zip v.gros)[n]? = some (t, g) :=
      ⟨_, _, List.getElem?_eq_getElem hlt⟩
    have hi' : (env ++ (((v.tops.zip v.gros).take n).filter (fun p => (matchErr h p.1 p.2).isNone)).map
        (fun p => Obj.atom p.1 p.2))[i]? = some (.mol m) := by
      rw [List.getElem?_append_left (List.getElem?_eq_some_iff.mp hi).1]; exact hi
    unfold viewOps at ih ⊢
    rw [List.range_succ, List.map_append, run_append, ih (by omega)]
    simp only [List.map_cons, List.map_nil, run, Bool.false_eq_true, if_false]
    rw [getAtom_step w i n t g hk _ hi', List.take_add_one, hk]
    cases hme : matchErr h t g with
    | none => simp [pushRet, List.filter_append, hme]
    | some e => simp [pushRet, List.filter_append, hme]

/-- **kept_views_are_of_their_atoms.**  After `list(mol)` / `[mol[k] …]` for the first `n` atoms:
    (1) the k-th view handed out is `Atom(t, g)` with `t` the k-th AtomTop and `g` the k-th AtomGro cell of the
        molecule (the k-th entry of its gro side, in iteration order), for every `k < n`;
    (2) two different views refer to different AtomGro cells;
    (3) a view handed out earlier is not changed by handing out later ones: the environment after the first
        `n' ≤ n` requests is a prefix of the environment after all `n`. -/
theorem kept_views_are_of_their_atoms (h : Heap α) (env : List Obj) (i m : Nat) (v : MolView)
    (cs : List (AtomGroC α)) (w : MolWF h m v cs) (hi : env[i]? = some (.mol m))
    (hm : ∀ p ∈ v.tops.zip v.gros, matchErr h p.1 p.2 = none) (viaIter : Bool) (n : Nat)
    (hn : n ≤ v.gros.length) :
    (run h env (viewOps viaIter i n)).1 = h ∧
    (run h env (viewOps viaIter i n)).2.length = env.length + n ∧
    (∀ k, k < n → ∃ t g, (run h env (viewOps viaIter i n)).2[env.length + k]? = some (.atom t g) ∧
      v.tops[k]? = some t ∧ v.gros[k]? = some g) ∧
    (∀ k k' t g t' g', k < k' → k' < n →
      (run h env (viewOps viaIter i n)).2[env.length + k]? = some (.atom t g) →
      (run h env (viewOps viaIter i n)).2[env.length + k']? = some (.atom t' g') → g ≠ g') ∧
    (∀ n', n' ≤ n → ∀ j, j < env.length + n' →
      (run h env (viewOps viaIter i n')).2[j]? = (run h env (viewOps viaIter i n)).2[j]?) := by
  have hlen : (v.tops.zip v.gros).length = v.gros.length := by
    rw [List.length_zip, w.len]; simp
  have hrun := fun n' (hn' : n' ≤ v.gros.length) => views_run h env i m v cs w hi hm viaIter n' hn'
  -- the entry at position `env.length + k`
  have entry : ∀ k, k < n → (run h env (viewOps viaIter i n)).2[env.length + k]? =
      some (.atom (v.tops.zip v.gros)[k]!.1 (v.tops.zip v.gros)[k]!.2) ∧
      v.tops[k]? = some (v.tops.zip v.gros)[k]!.1 ∧ v.gros[k]? = some (v.tops.zip v.gros)[k]!.2 := by
    intro k hk
    have hkz : k < (v.tops.zip v.gros).length := by omega
    have hz : (v.tops.zip v.gros)[k]? = some ((v.tops.zip v.gros)[k]!.1, (v.tops.zip v.gros)[k]!.2) := by
      rw [getElem!_pos _ k hkz]; exact List.getElem?_eq_getElem hkz
    refine ⟨?_, (List.getElem?_zip_eq_some.mp hz).1, (List.getElem?_zip_eq_some.mp hz).2⟩
    rw [hrun n hn]
    simp only
    rw [List.getElem?_append_right (by omega), Nat.add_sub_cancel_left, List.getElem?_map,
      List.getElem?_take_of_lt hk, hz]
    rfl
  refine ⟨by rw [hrun n hn], ?_, ?_, ?_, ?_⟩
  · rw [hrun n hn]; simp [hlen]; omega
  · intro k hk
    exact ⟨_, _, (entry k hk).1, (entry k hk).2.1, (entry k hk).2.2⟩
  · intro k k' t g t' g' hkk hk' e1 e2 hgg
    obtain ⟨a1, _, a3⟩ := entry k (by omega)
    obtain ⟨b1, _, b3⟩ := entry k' hk'
    rw [a1] at e1
    rw [b1] at e2
    simp only [Option.some.injEq, Obj.atom.injEq] at e1 e2
    rw [e1.2] at a3
    rw [e2.2, ← hgg] at b3
    have h1 : k < v.gros.length := (List.getElem?_eq_some_iff.mp a3).1
    have h2 : k' < v.gros.length := (List.getElem?_eq_some_iff.mp b3).1
    have e3 : v.gros[k] = g := (List.getElem?_eq_some_iff.mp a3).2
    have e4 : v.gros[k'] = g := (List.getElem?_eq_some_iff.mp b3).2
    have := (List.Nodup.getElem_inj_iff w.nodup).mp (e3.trans e4.symm)
    omega
  · intro n' hn' j hj
    rw [hrun n hn, hrun n' (by omega)]
    simp only
    by_cases hje : j < env.length
    · rw [List.getElem?_append_left hje, List.getElem?_append_left hje]
    · rw [List.getElem?_append_right (by omega), List.getElem?_append_right (by omega), List.getElem?_map,
        List.getElem?_map, List.getElem?_take_of_lt (by omega), List.getElem?_take_of_lt (by omega)]

end views

/-! ### non-vacuity -/

namespace NonVacuityLate

local instance : Scalar Int where
  add := Int.add
  sub := Int.sub
  mul := Int.mul
  div := fun a b => a / b
  neg := Int.neg
  zero := 0
  one := 1
  ofInt n := n
  ofDec m _ := m
  sqrt x := x
  cos x := x
  sin x := x
  isZero x := x == 0
  lt a b := a < b
  le a b := a ≤ b
  round x := x
  abs x := x.natAbs

/-- a three-atom, two-residue molecule: AtomTops 0–2, MoleculeTop 3, AtomGros 4, 5, 7, Residues 6, 8,
    Molecule 9 -/
def hV : Heap Int :=
  ⟨#[.top ⟨"A1", "RA", 1, 0, [1]⟩, .top ⟨"A2", "RA", 1, 1, [0, 2]⟩, .top ⟨"B1", "RB", 2, 2, [1]⟩,
     .mtop "M" [0, 1, 2],
     .gro ⟨1, "RA", "A1", 1, ⟨0, 0, 0⟩, none⟩, .gro ⟨1, "RA", "A2", 2, ⟨1, 0, 0⟩, none⟩, .res [4, 5],
     .gro ⟨2, "RB", "B1", 3, ⟨1, 1, 0⟩, none⟩, .res [7],
     .mol 3 [6, 8] [0, 0, 1]]⟩

def vV : MolView := ⟨3, "M", [0, 1, 2], [6, 8], [0, 0, 1], [[4, 5], [7]], [4, 5, 7]⟩

theorem hV_wf : MolWF hV 9 vV
    [⟨1, "RA", "A1", 1, ⟨0, 0, 0⟩, none⟩, ⟨1, "RA", "A2", 2, ⟨1, 0, 0⟩, none⟩, ⟨2, "RB", "B1", 3, ⟨1, 1, 0⟩, none⟩] :=
  ⟨by decide, by decide, by decide, by decide, rfl⟩

theorem hV_match : ∀ p ∈ vV.tops.zip vV.gros, matchErr hV p.1 p.2 = none := by decide

/-- the theorem applied: `list(mol)` with the molecule at position 0 of the environment … -/
example := kept_views_are_of_their_atoms hV [.mol 9] 0 9 vV _ hV_wf rfl hV_match true 3 (by decide)
example := kept_views_are_of_their_atoms hV [.mol 9] 0 9 vV _ hV_wf rfl hV_match false 3 (by decide)
example := getitem_views_run hV [.mol 9] 0 9 vV _ hV_wf rfl 3 (by decide)

/-- a molecule whose second atom was renamed on the coordinate side only (the labels of pair 1 now disagree):
    `mol[1]` raises, `mol[0]` and `mol[2]` are still the views of cells 4 and 7 (evaluated — a test) -/
example : (run (hV.modGro 5 (fun c => { c with name := "ZZ" })) [.mol 9] (viewOps false 0 3)).2 =
    [.mol 9, .atom 0 4, .atom 2 7] := by decide

/-- … and the run evaluated on the model (a test): three views on the three different AtomGro cells 4, 5, 7 -/
example : (run hV [.mol 9] (viewOps true 0 3)).2 = [.mol 9, .atom 0 4, .atom 1 5, .atom 2 7] ∧
    (run hV [.mol 9] (viewOps false 0 3)).2 = [.mol 9, .atom 0 4, .atom 1 5, .atom 2 7] := by decide

end NonVacuityLate

end C18
