import GMProofs.Props.C11
import GMProofs.Props.C12
import GMProofs.Lemmas.SystemTopL
/-!
# C11 (work package WPK) — indexing agrees with iteration after EVERY load history

`C11.len_comp_index_agree` is stated for one state `s` under two hypotheses: the coordinate-file view is
`Loaded`, and the instance generator succeeds on `s` (`s.toRec.instances = .ok inst`).  Here both are shown to be
INVARIANTS of the life of a `System`: whatever sequence of `add_molecule_top` calls (accepted or refused) and
of accesses (`system[i]`, slices, iteration — they move the file cursor) has happened since `System.__init__`,
the instance generator succeeds, and `system[k]` is the k-th element of `list(system)`.

A `System` that kept a position (a cursor into `_molecules_ordered`, a cached instance list …) across loads would
break exactly this (seed C11-9).  Only property theorems, the two definitions that make "history" a term
(`HOp`, `hstep`), and non-vacuity examples live here.
-/
open SGro SRec

namespace C11

/-- one event in the life of a `System` object: a topology is offered (`add_molecule_top`, which may raise), or
    the system is read (`system[i]`, `system[a:b:s]`, `list(system)`) -/
inductive HOp
  | add (t : Top)
  | access (o : SOp)

/-- the state after the event (the exception, if any, is raised to the caller, who carries on) -/
def hstep (s : Sys) : HOp → Sys
  | .add t => (addMoleculeTop s t).2
  | .access o => (s.access o).2

/-- every entry of `_molecules_ordered` points into `different_molecules` -/
def IdxOK (s : Sys) : Prop := ∀ e ∈ s.ordered, e.1 < s.mols.length

private theorem bumpLast_idx (P : Nat → Prop) (ord ord' : List Entry) (ho : ∀ e ∈ ord, P e.1)
    (h : bumpLast ord = .ok ord') : ∀ e ∈ ord', P e.1 := by
  unfold bumpLast at h
  cases hl : ord.getLast? with
  | none => rw [hl] at h; cases h
  | some x =>
    obtain ⟨m, s, a⟩ := x
    rw [hl] at h
    simp only [Except.ok.injEq] at h
    subst h
    intro e he
    rcases List.mem_append.mp he with he | he
    · exact ho e (List.dropLast_subset _ he)
    · simp only [List.mem_singleton] at he
      subst he
      exact ho (m, s, a) (List.mem_of_getLast? hl)

/-- the scan only appends entries for the species being loaded and bumps amounts -/
private theorem findAll_idx (P : Nat → Prop) (p : List Int) (m : Nat) (hm : P m) :
    ∀ (fuel start : Nat) (suffix : List Int) (nb : Bool) (ord : List Entry) (r : List Int × List Entry),
    (∀ e ∈ ord, P e.1) → findAll p m fuel start suffix nb ord = .ok r → ∀ e ∈ r.2, P e.1
  | 0, _, _, _, _, _, _, h => by simp [findAll] at h
  | fuel + 1, start, suffix, nb, ord, r, ho, h => by
    rw [findAll_succ] at h
    by_cases h1 : p.length ≤ suffix.length
    · rw [if_pos h1] at h
      by_cases h2 : suffix.take p.length = p
      · rw [if_pos h2] at h
        cases hb : (if nb = true then (Except.ok (ord ++ [(m, start, 1)]) : Except PyErr (List Entry))
            else bumpLast ord) with
        | error e => rw [hb] at h; cases h
        | ok ord' =>
          rw [hb] at h
          simp only at h
          have ho' : ∀ e ∈ ord', P e.1 := by
            cases nb with
            | true =>
              simp only [if_true, Except.ok.injEq] at hb
              subst hb
              intro e he
              rcases List.mem_append.mp he with he | he
              · exact ho e he
              · simp only [List.mem_singleton] at he; subst he; exact hm
            | false =>
              simp only [Bool.false_eq_true, if_false] at hb
              exact bumpLast_idx P ord ord' ho hb
          cases hr : findAll p m fuel (start + p.length) (suffix.drop p.length) false ord' with
          | error e => rw [hr] at h; cases h
          | ok r' =>
            obtain ⟨s', o'⟩ := r'
            rw [hr] at h
            simp only [Except.ok.injEq] at h
            subst h
            exact findAll_idx P p m hm fuel _ _ _ ord' (s', o') ho' hr
      · rw [if_neg h2] at h
        cases suffix with
        | nil =>
          simp only [Except.ok.injEq] at h
          subst h; exact ho
        | cons x xs =>
          simp only at h
          cases hr : findAll p m fuel (start + 1) xs true ord with
          | error e => rw [hr] at h; cases h
          | ok r' =>
            obtain ⟨s', o'⟩ := r'
            rw [hr] at h
            simp only [Except.ok.injEq] at h
            subst h
            exact findAll_idx P p m hm fuel _ _ _ ord (s', o') ho hr
    · rw [if_neg h1] at h
      simp only [Except.ok.injEq] at h
      subst h; exact ho

/-- `add_molecule_top`, accepted or refused, keeps `IdxOK` and never touches the coordinate-file view -/
theorem addMoleculeTop_inv (s : Sys) (t : Top) (h : IdxOK s) :
    IdxOK (addMoleculeTop s t).2 ∧ (addMoleculeTop s t).2.gro = s.gro ∧ (addMoleculeTop s t).2.sg = s.sg := by
  unfold addMoleculeTop
  cases h1 : resnameLenList t with
  | error e1 => exact ⟨h, rfl, rfl⟩
  | ok rl =>
    simp only
    cases h2 : lookupPattern s.sg.pk rl with
    | error e2 => exact ⟨h, rfl, rfl⟩
    | ok p =>
      simp only
      cases h3 : firstMatch s.avail p with
      | error e3 => exact ⟨h, rfl, rfl⟩
      | ok start =>
        simp only
        cases h4 : buildAt s t p.length start with
        | mk r c =>
          cases r with
          | error e4 => exact ⟨h, rfl, rfl⟩
          | ok mol =>
            simp only
            have hlt : ∀ e ∈ s.ordered, e.1 < (s.mols ++ [mol]).length := by
              intro e he
              have := h e he
              simp only [List.length_append, List.length_singleton]; omega
            cases h5 : findAll p s.mols.length (s.avail.length + 1) start (s.avail.drop start) true s.ordered with
            | error e5 => exact ⟨hlt, rfl, rfl⟩
            | ok r =>
              obtain ⟨tl, ord⟩ := r
              refine ⟨?_, rfl, rfl⟩
              intro e he
              have he' : e ∈ ord := by
                simp only [sortByStart] at he
                exact List.mem_mergeSort.mp he
              exact findAll_idx (fun i => i < (s.mols ++ [mol]).length) p s.mols.length (by simp)
                _ _ _ _ s.ordered (tl, ord) hlt h5 e he'

/-- an access changes nothing but the file cursor -/
theorem access_inv (s : Sys) (o : SOp) :
    (s.access o).2.mols = s.mols ∧ (s.access o).2.ordered = s.ordered ∧ (s.access o).2.avail = s.avail ∧
    (s.access o).2.gro = s.gro ∧ (s.access o).2.sg = s.sg := by
  cases o with
  | get i =>
    simp only [Sys.access]
    cases s.toRec.instances with
    | error e => exact ⟨rfl, rfl, rfl, rfl, rfl⟩
    | ok inst =>
      simp only
      cases pickInt inst i with
      | error e => exact ⟨rfl, rfl, rfl, rfl, rfl⟩
      | ok e => exact ⟨rfl, rfl, rfl, rfl, rfl⟩
  | slice a b st =>
    simp only [Sys.access]
    cases s.toRec.instances with
    | error e => exact ⟨rfl, rfl, rfl, rfl, rfl⟩
    | ok inst =>
      simp only
      cases isliceExt inst a b st with
      | error e => exact ⟨rfl, rfl, rfl, rfl, rfl⟩
      | ok sel => exact ⟨rfl, rfl, rfl, rfl, rfl⟩
  | iterAll =>
    simp only [Sys.access]
    cases s.toRec.instances with
    | error e => exact ⟨rfl, rfl, rfl, rfl, rfl⟩
    | ok inst => exact ⟨rfl, rfl, rfl, rfl, rfl⟩

/-- the invariant over histories: `IdxOK`, and the coordinate-file view is the one `__init__` built -/
theorem history_inv (s0 : Sys) (h0 : IdxOK s0) : ∀ (hist : List HOp),
    IdxOK (hist.foldl hstep s0) ∧ (hist.foldl hstep s0).gro = s0.gro ∧ (hist.foldl hstep s0).sg = s0.sg := by
  intro hist
  induction hist generalizing s0 with
  | nil => exact ⟨h0, rfl, rfl⟩
  | cons x l ih =>
    simp only [List.foldl_cons]
    have step : IdxOK (hstep s0 x) ∧ (hstep s0 x).gro = s0.gro ∧ (hstep s0 x).sg = s0.sg := by
      cases x with
      | add t => exact addMoleculeTop_inv s0 t h0
      | access o =>
        obtain ⟨a1, a2, _, a4, a5⟩ := access_inv s0 o
        refine ⟨?_, a4, a5⟩
        intro e he
        simp only [hstep] at he ⊢
        rw [a2] at he
        rw [a1]
        exact h0 e he
    obtain ⟨i1, i2, i3⟩ := ih (hstep s0 x) step.1
    exact ⟨i1, i2.trans step.2.1, i3.trans step.2.2⟩

private theorem instancesGo_ok (lens : List Nat) : ∀ (ord : List Entry), (∀ e ∈ ord, e.1 < lens.length) →
    ∃ inst, instancesGo lens ord = .ok inst
  | [], _ => ⟨[], rfl⟩
  | (m, s, amt) :: rest, h => by
    obtain ⟨tl, htl⟩ := instancesGo_ok lens rest (fun e he => h e (List.mem_cons_of_mem _ he))
    have hm : m < lens.length := h (m, s, amt) (List.mem_cons_self ..)
    have : instancesGo lens ((m, s, amt) :: rest) =
        .ok ((List.range amt).map (fun i => (m, s + i * lens[m], s + (i + 1) * lens[m])) ++ tl) := by
      rw [instancesGo, List.getElem?_eq_getElem hm]
      simp only [htl]
    exact ⟨_, this⟩

/-- the instance generator never fails on a state whose entries point into `different_molecules` -/
theorem instances_ok (s : Sys) (h : IdxOK s) : ∃ inst, s.toRec.instances = .ok inst := by
  apply instancesGo_ok
  intro e he
  simpa [Sys.toRec] using h e he

private theorem molsPure_get (mols : List Mol) (gs : List Residue) : ∀ (sel : List Entry) (ms : List (Nat × Mol)),
    molsPure mols gs sel = .ok ms → ms.length = sel.length ∧
      ∀ k (h1 : k < sel.length) (h2 : k < ms.length), molPure mols gs sel[k] = .ok ms[k]
  | [], ms, h => by
    simp only [molsPure, Except.ok.injEq] at h
    subst h
    exact ⟨rfl, fun k h1 => absurd h1 (by simp)⟩
  | e :: rest, ms, h => by
    rw [molsPure] at h
    cases h1 : molPure mols gs e with
    | error er => rw [h1] at h; cases h
    | ok x =>
      rw [h1] at h
      simp only at h
      cases h2 : molsPure mols gs rest with
      | error er => rw [h2] at h; cases h
      | ok xs =>
        rw [h2] at h
        simp only [Except.ok.injEq] at h
        subst h
        obtain ⟨hl, hk⟩ := molsPure_get mols gs rest xs h2
        refine ⟨by simp [hl], ?_⟩
        intro k k1 k2
        cases k with
        | zero => simpa using h1
        | succ k =>
          simp only [List.getElem_cons_succ]
          exact hk k (by simpa using k1) (by simpa using k2)

/-- **index_agrees_with_iteration_after_every_load.**  Start from any `System` state `s0` whose coordinate-file
    view is the built one (`Loaded`) and whose entries point into `different_molecules` (true of the state
    `System.__init__` leaves: `index_agrees_from_init`).  After ANY history of `add_molecule_top` calls — accepted
    or refused — and accesses:
    * the instance generator succeeds, `len(system)` is the number of instances;
    * iteration builds the molecules of all instances in order, `system[k]` builds the molecule of the k-th
      instance (each possibly raising — `Molecule(...)` can refuse), independently of the file cursor;
    * hence whenever `list(system)` succeeds with `ms`: `len(ms) = len(system)` and, for every `k < len(ms)`,
      `system[k]` and `system[k - len]` both return `ms[k]`. -/
theorem index_agrees_with_iteration_after_every_load (s0 : Sys) (gs : List Residue)
    (hL : Loaded s0.gro s0.sg gs) (h0 : IdxOK s0) (hist : List HOp) :
    ∃ inst, (hist.foldl hstep s0).toRec.instances = .ok inst ∧
      (hist.foldl hstep s0).toRec.len = inst.length ∧
      ((hist.foldl hstep s0).access .iterAll).1 = molsPure (hist.foldl hstep s0).mols gs inst ∧
      (∀ k (hk : k < inst.length), ((hist.foldl hstep s0).access (.get (k : Int))).1 =
        (molPure (hist.foldl hstep s0).mols gs inst[k]).map (fun x => [x])) ∧
      (∀ ms, ((hist.foldl hstep s0).access .iterAll).1 = .ok ms →
        ms.length = (hist.foldl hstep s0).toRec.len ∧
        ∀ k (hk : k < ms.length),
          ((hist.foldl hstep s0).access (.get (k : Int))).1 = .ok [ms[k]] ∧
          ((hist.foldl hstep s0).access (.get ((k : Int) - ms.length))).1 = .ok [ms[k]]) := by
  obtain ⟨i1, i2, i3⟩ := history_inv s0 h0 hist
  generalize hist.foldl hstep s0 = s at i1 i2 i3 ⊢
  have hL' : Loaded s.gro s.sg gs := by rw [i2, i3]; exact hL
  obtain ⟨inst, hi⟩ := instances_ok s i1
  obtain ⟨a1, _, a3, _, a5⟩ := len_comp_index_agree s gs hL' inst hi
  have hget : ∀ k (hk : k < inst.length), (s.access (.get (k : Int))).1 =
      (molPure s.mols gs inst[k]).map (fun x => [x]) := by
    intro k hk
    rw [a3 (k : Int) (by intro e; subst e; simp at hk)]
    have : pyIndex inst (k : Int) = some inst[k] := by
      unfold pyIndex
      rw [if_pos (by omega)]
      simp [hk]
    rw [this]
  refine ⟨inst, hi, a1, a5, hget, ?_⟩
  intro ms hms
  rw [a5] at hms
  obtain ⟨hl, hk⟩ := molsPure_get s.mols gs inst ms hms
  refine ⟨by rw [a1, hl], ?_⟩
  intro k hkm
  have hki : k < inst.length := by omega
  refine ⟨by rw [hget k hki, hk k hki hkm]; rfl, ?_⟩
  rw [a3 _ (by intro e; subst e; simp at hki)]
  have : pyIndex inst ((k : Int) - ms.length) = some inst[k] := by
    unfold pyIndex
    rw [if_neg (by omega), if_pos (by omega)]
    have : ((k : Int) - ms.length + inst.length).toNat = k := by omega
    rw [this]
    simp [hki]
  rw [this]
  simp only
  rw [hk k hki hkm]; rfl

/-- … in particular for every `System` since its construction: `System(fgro)` (no topology yet) followed by any
    history -/
theorem index_agrees_from_init (f : GroRd) (sg : SG) (c : Cursor) (gs : List Residue) (hB : C12.Built f sg c gs)
    (hist : List HOp) :
    ∃ s0, Sys.init f = .ok s0 ∧
      ∀ ms, ((hist.foldl hstep s0).access .iterAll).1 = .ok ms →
        ms.length = (hist.foldl hstep s0).toRec.len ∧
        ∀ k (hk : k < ms.length),
          ((hist.foldl hstep s0).access (.get (k : Int))).1 = .ok [ms[k]] ∧
          ((hist.foldl hstep s0).access (.get ((k : Int) - ms.length))).1 = .ok [ms[k]] := by
  refine ⟨⟨f, sg, c, [], [], sg.kinds.map (fun (k : Nat) => (k : Int))⟩, by unfold Sys.init; rw [hB.1], ?_⟩
  obtain ⟨_, _, _, _, _, h⟩ := index_agrees_with_iteration_after_every_load
    ⟨f, sg, c, [], [], sg.kinds.map (fun (k : Nat) => (k : Int))⟩ gs (C12.built_loaded hB)
    (fun e he => by simp at he) hist
  exact h

/-! ### non-vacuity -/

/-- a file with residues `A(a) A(a) B(b)` -/
def exFileL : GroRd := ⟨['t'], [⟨1, ['A'], ['a'], 0⟩, ⟨2, ['A'], ['a'], 1⟩, ⟨3, ['B'], ['b'], 2⟩], 0⟩

/-- a history: `A` is loaded (accepted: two instances), `system[1]` is read, `Q` is offered (REFUSED: no such
    residue), `A` is offered again (REFUSED: its residues are consumed), the system is iterated -/
def exHist : List HOp :=
  [.add ⟨['A'], [⟨['a'], ['A'], 1⟩]⟩, .access (.get 1), .add ⟨['Q'], [⟨['a'], ['Q'], 1⟩]⟩,
   .add ⟨['A'], [⟨['a'], ['A'], 1⟩]⟩, .access .iterAll]

/-- evaluated on the model (a test): one load accepted, two refused; two instances afterwards and iteration
    succeeds with two molecules — so the last clause of the theorem is not vacuous -/
example : (match Sys.init exFileL with
    | .error _ => none
    | .ok s0 =>
      let s := exHist.foldl hstep s0
      some (s.toRec.instances.toOption, ((s.access .iterAll).1.toOption.map (fun ms => ms.map (·.1))),
        (addMoleculeTop s0 ⟨['Q'], [⟨['a'], ['Q'], 1⟩]⟩).1.toOption.isNone,
        (addMoleculeTop s ⟨['A'], [⟨['a'], ['A'], 1⟩]⟩).1.toOption.isNone)) =
    some (some [(0, 0, 1), (0, 1, 2)], some [0, 0], true, true) := by decide +kernel

example := index_agrees_from_init exFileL _ ⟨4, 3⟩ _ ⟨rfl, rfl⟩ exHist

/-! ### the residue signature groups by the PAIR (residue name, residue number) -/

/-- number of positions where two consecutive keys differ -/
def boundaries : List Str → Nat
  | a :: b :: r => (if a ≠ b then 1 else 0) + boundaries (b :: r)
  | _ => 0

private theorem resnameLenGo_groups : ∀ (ks : List Str) (k0 : Str) (c : Nat) (acc : List (Str × Nat)),
    ∃ g, resnameLenGo (some (k0, c)) ks acc = .ok (acc ++ g) ∧ g.length = 1 + boundaries (k0 :: ks) ∧
      (g.map (·.2)).sum = c + ks.length
  | [], k0, c, acc => ⟨[(strip (k0.take 5), c)], by simp [resnameLenGo], by simp [boundaries], by simp⟩
  | k :: rest, k0, c, acc => by
    by_cases hk : k = k0
    · subst hk
      obtain ⟨g, h1, h2, h3⟩ := resnameLenGo_groups rest k (c + 1) acc
      refine ⟨g, ?_, ?_, ?_⟩
      · simp only [resnameLenGo, ne_eq, not_true_eq_false, if_false]; exact h1
      · rw [h2]; simp [boundaries]
      · rw [h3]; simp only [List.length_cons]; omega
    · obtain ⟨g, h1, h2, h3⟩ := resnameLenGo_groups rest k 1 (acc ++ [(strip (k0.take 5), c)])
      refine ⟨(strip (k0.take 5), c) :: g, ?_, ?_, ?_⟩
      · simp only [resnameLenGo, ne_eq, hk, not_false_eq_true, if_true]
        rw [h1, List.append_assoc]; rfl
      · have hk' : k0 ≠ k := fun e => hk e.symm
        simp only [List.length_cons, h2, boundaries, ne_eq, hk', not_false_eq_true, if_true]
        omega
      · simp only [List.map_cons, List.sum_cons, h3, List.length_cons]; omega

/-- **signature_groups_by_pair.**  `MoleculeTop.resname_len_list` of a topology with at least one atom never
    raises; it starts a new entry exactly where two CONSECUTIVE atoms have different keys
    `'{:5}{}'.format(resname, resid)` (so: as many entries as key changes, plus one; the counts add up to the
    number of atoms); and for residue names that fit the column (`NameFits`: at most five characters, no white
    space) two atoms have the same key iff they have the same PAIR (residue name, residue number) — the key is
    injective in the pair.  (Grouping by the concatenation `'{}{}'.format(resid, resname)` is not: residue 1 `1MA`
    and residue 11 `MA` both give `11MA` — seed C11-10; see the example below.) -/
theorem signature_groups_by_pair (t : Top) (hne : t.atoms ≠ []) :
    (∃ rl, resnameLenList t = .ok rl ∧ rl.length = 1 + boundaries (t.atoms.map topKey) ∧
      (rl.map (·.2)).sum = t.atoms.length) ∧
    (∀ a b : TopAtom, NameFits a.resname → NameFits b.resname →
      (topKey a = topKey b ↔ (a.resname = b.resname ∧ a.resid = b.resid))) := by
  refine ⟨?_, topKey_eq_iff⟩
  unfold resnameLenList
  cases h : t.atoms with
  | nil => exact absurd h hne
  | cons a0 rest =>
    obtain ⟨g, h1, h2, h3⟩ := resnameLenGo_groups (rest.map topKey) (topKey a0) 1 []
    refine ⟨g, ?_, ?_, ?_⟩
    · simp only [List.map_cons, resnameLenGo]; rw [h1]; rfl
    · rw [h2]; rfl
    · rw [h3]; simp only [List.length_map, List.length_cons]; omega

/-- residue 1 `1MA` followed by residue 11 `MA`: TWO entries (the keys are `1MA  1` and `MA   11`), although the
    concatenations `'{}{}'.format(resid, resname)` coincide (`11MA`) — evaluated on the model (a test) -/
example : resnameLenList ⟨['T'], [⟨['a'], ['1', 'M', 'A'], 1⟩, ⟨['b'], ['M', 'A'], 11⟩]⟩ =
      .ok [(['1', 'M', 'A'], 1), (['M', 'A'], 1)] ∧
    intDigits 1 ++ ['1', 'M', 'A'] = intDigits 11 ++ ['M', 'A'] ∧
    boundaries ([⟨['a'], ['1', 'M', 'A'], 1⟩, ⟨['b'], ['M', 'A'], 11⟩].map topKey) = 1 :=
  ⟨by rfl, by decide, by decide⟩

/-- same pair on consecutive atoms: one entry of two atoms; a different number with the same name: a new entry -/
example : resnameLenList ⟨['T'], [⟨['a'], ['M', 'A'], 1⟩, ⟨['b'], ['M', 'A'], 1⟩, ⟨['a'], ['M', 'A'], 2⟩]⟩ =
    .ok [(['M', 'A'], 2), (['M', 'A'], 1)] := by rfl

example := signature_groups_by_pair ⟨['T'], [⟨['a'], ['1', 'M', 'A'], 1⟩, ⟨['b'], ['M', 'A'], 11⟩]⟩ (by simp)

end C11
