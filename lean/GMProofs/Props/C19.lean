import GMProofs.Lemmas.PbcL
/-
  C19 — Periodic distance is the minimum-image distance.

  Model: `GMModel.Pbc` (`Residue.distance_to` as repaired by fixes/C19-D8.patch) instantiated at ℝ;
  `np.round` is `Real.roundHalfEven`, `np.linalg.inv` is adjugate/determinant.
  "Distance between residues" is the distance between their geometric centres (`targetPos`,
  `V3.mean`), exactly what the code computes; a bare point is used as it is.
  Only property theorems and their non-vacuity examples live here.
-/
open Pbc PbcL

namespace C19

/-- **Orthorhombic box `diag(L)`, `L > 0`: the result is the minimum over ALL periodic images
    `n ∈ ℤ³` of `‖v − n∘L‖`** (`v` = separation of the centres): it is a lower bound of every image
    distance and it is attained by one. -/
theorem pbc_orthorhombic_min_image (self : List (V3 ℝ)) (other : Target ℝ) (L : V3 ℝ)
    (hs : self ≠ []) (ho : TargetOk other) (hL : 0 < L.x ∧ 0 < L.y ∧ 0 < L.z) :
    ∃ d, distanceTo self other (some (diagBox L, false)) = .ok d ∧
      (∀ n1 n2 n3 : ℤ, d ≤ V3.norm (image (targetPos other - V3.mean self) L n1 n2 n3)) ∧
      (∃ n1 n2 n3 : ℤ, d = V3.norm (image (targetPos other - V3.mean self) L n1 n2 n3)) := by
  obtain ⟨hx, hy, hz⟩ := hL
  have hdet : M3.det (diagBox L) ≠ 0 := by
    rw [det_diagBox]; exact (mul_pos (mul_pos hx hy) hz).ne'
  refine ⟨V3.norm (wrap (targetPos other - V3.mean self) (diagBox L) (invR (diagBox L))), ?_, ?_, ?_⟩
  · unfold distanceTo
    rw [separation_box hs ho hdet false]
    simp only [Bool.false_eq_true, if_false]
  · intro n1 n2 n3
    rw [wrap_diagBox _ hx.ne' hy.ne' hz.ne']
    exact norm_le_of_abs_le (comp_min hx n1) (comp_min hy n2) (comp_min hz n3)
  · rw [wrap_diagBox _ hx.ne' hy.ne' hz.ne']
    obtain ⟨k1, e1⟩ := rhe_int ((targetPos other - V3.mean self).x / L.x)
    obtain ⟨k2, e2⟩ := rhe_int ((targetPos other - V3.mean self).y / L.y)
    obtain ⟨k3, e3⟩ := rhe_int ((targetPos other - V3.mean self).z / L.z)
    refine ⟨k1, k2, k3, ?_⟩
    rw [e1, e2, e3]
    unfold image
    congr 1
    apply V3.ext' <;> simp only <;> field_simp

/-- hence the periodic distance never exceeds the non-periodic one -/
theorem pbc_le_nonperiodic (self : List (V3 ℝ)) (other : Target ℝ) (L : V3 ℝ)
    (hs : self ≠ []) (ho : TargetOk other) (hL : 0 < L.x ∧ 0 < L.y ∧ 0 < L.z) :
    ∃ d d0, distanceTo self other (some (diagBox L, false)) = .ok d ∧
      distanceTo self other none = .ok d0 ∧ d ≤ d0 := by
  obtain ⟨d, hd, hmin, _⟩ := pbc_orthorhombic_min_image self other L hs ho hL
  refine ⟨d, V3.norm (targetPos other - V3.mean self), hd, ?_, ?_⟩
  · unfold distanceTo; rw [separation_none hs ho]
  · have := hmin 0 0 0
    unfold image at this
    simpa using this

/-- for every non-singular box (triclinic included) the result is the length of a periodic image
    of the separation: `‖v − (n1 b0 + n2 b1 + n3 b2)‖` for some integers `n` -/
theorem pbc_is_image (self : List (V3 ℝ)) (other : Target ℝ) (B : M3 ℝ)
    (hs : self ≠ []) (ho : TargetOk other) (hdet : M3.det B ≠ 0) :
    ∃ n1 n2 n3 : ℤ, distanceTo self other (some (B, false)) =
      .ok (V3.norm ((targetPos other - V3.mean self) - latticeVec n1 n2 n3 B)) := by
  obtain ⟨k1, e1⟩ := rhe_int (M3.vecMul (targetPos other - V3.mean self) (invR B)).x
  obtain ⟨k2, e2⟩ := rhe_int (M3.vecMul (targetPos other - V3.mean self) (invR B)).y
  obtain ⟨k3, e3⟩ := rhe_int (M3.vecMul (targetPos other - V3.mean self) (invR B)).z
  refine ⟨k1, k2, k3, ?_⟩
  unfold distanceTo
  rw [separation_box hs ho hdet false]
  simp only [Bool.false_eq_true, if_false]
  congr 2
  have hsub : subRound (M3.vecMul (targetPos other - V3.mean self) (invR B)) =
      M3.vecMul (targetPos other - V3.mean self) (invR B) - intVec k1 k2 k3 := by
    generalize M3.vecMul (targetPos other - V3.mean self) (invR B) = sv at e1 e2 e3 ⊢
    apply V3.ext' <;> simp only [subRound, intVec, e1, e2, e3, gm]
  unfold wrap latticeVec
  rw [hsub, vecMul_sub, vecMul_assoc, invR_mul hdet, vecMul_eye]

/-- symmetric in its two (residue) arguments, for every box (singular ones and the error cases
    included), with or without the inverse flag -/
theorem pbc_symmetric (a b : List (V3 ℝ)) (box : Option (M3 ℝ × Bool)) :
    distanceTo a (.residue b) box = distanceTo b (.residue a) box := by
  rw [distanceTo_eq, distanceTo_eq]
  cases a with
  | nil => cases b <;> rfl
  | cons x xs =>
    cases b with
    | nil => rfl
    | cons y ys =>
      show distOf (V3.mean (y :: ys) - V3.mean (x :: xs)) box =
        distOf (V3.mean (x :: xs) - V3.mean (y :: ys)) box
      have hneg : V3.mean (x :: xs) - V3.mean (y :: ys) = -(V3.mean (y :: ys) - V3.mean (x :: xs)) := by
        apply V3.ext' <;> simp only [gm] <;> ring
      rw [hneg, distOf_neg]

/-- symmetric when the other argument is a bare point: the distance from `a` to the point `p` is
    the distance from the one-atom residue `[p]` to the centre of `a` -/
theorem pbc_symmetric_point (a : List (V3 ℝ)) (p : V3 ℝ) (box : Option (M3 ℝ × Bool)) (ha : a ≠ []) :
    distanceTo a (.point p) box = distanceTo [p] (.point (V3.mean a)) box := by
  have hp : V3.mean [p] = p := by
    apply V3.ext' <;> simp [V3.mean, V3.sum, gm]
  rw [distanceTo_eq, distanceTo_eq, center_ok ha, center_ok (List.cons_ne_nil p [])]
  show distOf (p - V3.mean a) box = distOf (V3.mean a - V3.mean [p]) box
  have hneg : V3.mean a - V3.mean [p] = -(p - V3.mean a) := by
    rw [hp]; apply V3.ext' <;> simp only [gm] <;> ring
  rw [hneg, distOf_neg]

/-- unchanged when either argument is shifted by any integer combination of the box vectors
    (`det B ≠ 0`; no fractional coordinate of the separation exactly half-way, where two images tie
    and `np.round` resolves the tie by parity) -/
theorem pbc_lattice_shift (self : List (V3 ℝ)) (other : Target ℝ) (B : M3 ℝ)
    (n1 n2 n3 m1 m2 m3 : ℤ) (hs : self ≠ []) (ho : TargetOk other) (hdet : M3.det B ≠ 0)
    (hhalf : NoHalf (M3.vecMul (targetPos other - V3.mean self) (invR B))) :
    distanceTo (self.map (· + latticeVec m1 m2 m3 B)) (shiftTarget (latticeVec n1 n2 n3 B) other)
        (some (B, false)) =
      distanceTo self other (some (B, false)) := by
  have hs' : self.map (· + latticeVec m1 m2 m3 B) ≠ [] := fun e => hs (List.map_eq_nil_iff.mp e)
  unfold distanceTo
  rw [separation_box hs' (shiftTarget_ok _ ho) hdet, separation_box hs ho hdet,
    targetPos_shift _ ho, mean_map_shift _ hs]
  simp only [Bool.false_eq_true, if_false]
  have e : targetPos other + latticeVec n1 n2 n3 B - (V3.mean self + latticeVec m1 m2 m3 B) =
      (targetPos other - V3.mean self) + latticeVec (n1 - m1) (n2 - m2) (n3 - m3) B := by
    apply V3.ext' <;> simp only [latticeVec, intVec, gm] <;> push_cast <;> ring
  rw [e, wrap_add_lattice _ _ _ (mul_invR hdet) _ _ _ hhalf]

/-- passing the inverse box with `inv=True` gives the same value as passing the box -/
theorem pbc_inverse_flag (self : List (V3 ℝ)) (other : Target ℝ) (B Bi : M3 ℝ)
    (hdet : M3.det B ≠ 0) (hBi : inv3 B = some Bi) :
    distanceTo self other (some (Bi, true)) = distanceTo self other (some (B, false)) := by
  have e : Bi = invR B := by
    rw [inv3_of_det_ne hdet] at hBi; exact (Option.some.inj hBi).symm
  subst e
  unfold distanceTo separation
  cases other.position with
  | error err => rfl
  | ok q =>
    cases center self with
    | error err => rfl
    | ok c =>
      simp only [inv3_of_det_ne hdet, inv3_of_det_ne (det_invR_ne hdet), invR_invR hdet, if_true,
        Bool.false_eq_true, if_false]

/-- a singular box is rejected (numpy: `LinAlgError`), never silently used -/
theorem pbc_singular_rejected (self : List (V3 ℝ)) (other : Target ℝ) (B : M3 ℝ) (inv : Bool)
    (hs : self ≠ []) (ho : TargetOk other) (hdet : M3.det B = 0) :
    distanceTo self other (some (B, inv)) = .error .linAlgError := by
  unfold distanceTo separation
  rw [position_ok ho, center_ok hs]
  simp only [inv3_of_det_eq hdet]

/-- **D8, the unrepaired code** (back-transform with the inverse box): for the box `diag(2,3,4)` and
    the separation `(1.8, 0, 0)` it returns `0.05`, which is *smaller* than the minimum image
    distance `0.2` — so it is not a minimum over images. -/
theorem pbc_d8_counterexample :
    V3.norm (wrapD8 (⟨9 / 5, 0, 0⟩ : V3 ℝ) (invR (diagBox ⟨2, 3, 4⟩))) = 1 / 20 ∧
    V3.norm (wrap (⟨9 / 5, 0, 0⟩ : V3 ℝ) (diagBox ⟨2, 3, 4⟩) (invR (diagBox ⟨2, 3, 4⟩))) = 1 / 5 := by
  have hf : ⌊(9 / 10 : ℝ)⌋ = 0 := by rw [Int.floor_eq_iff]; norm_num
  have hr : Real.roundHalfEven (9 / 10 : ℝ) = 1 := by
    rw [rhe_of_gt (by rw [hf]; norm_num), hf]; norm_num
  have h0f : ⌊(0 : ℝ)⌋ = 0 := Int.floor_zero
  have hr0 : Real.roundHalfEven (0 : ℝ) = 0 := by
    rw [rhe_of_lt (by rw [h0f]; norm_num), h0f]; norm_num
  constructor
  · rw [invR_diagBox (by norm_num) (by norm_num) (by norm_num)]
    simp only [wrapD8, subRound, diagBox, gm, mul_zero, add_zero, zero_add, zero_mul]
    rw [show (9 / 5 : ℝ) * (1 / 2) = 9 / 10 by norm_num, hr, hr0]
    rw [show ((9 / 10 - 1) * (1 / 2) * ((9 / 10 - 1) * (1 / 2)) + (0 - 0) * (1 / 3) * ((0 - 0) * (1 / 3)) +
        (0 - 0) * (1 / 4) * ((0 - 0) * (1 / 4)) : ℝ) = (1 / 20) ^ 2 by norm_num]
    exact Real.sqrt_sq (by norm_num)
  · rw [wrap_diagBox _ (by norm_num) (by norm_num) (by norm_num)]
    simp only [gm, zero_div]
    rw [show (9 / 5 : ℝ) / 2 = 9 / 10 by norm_num, hr, hr0]
    rw [show ((9 / 10 - 1) * 2 * ((9 / 10 - 1) * 2) + (0 - 0) * 3 * ((0 - 0) * 3) +
        (0 - 0) * 4 * ((0 - 0) * 4) : ℝ) = (1 / 5) ^ 2 by norm_num]
    exact Real.sqrt_sq (by norm_num)

/-! ### non-vacuity -/

/-- an orthorhombic box with positive edges, a two-atom residue and a point -/
example : ([⟨0, 0, 0⟩, ⟨1, 0, 0⟩] : List (V3 ℝ)) ≠ [] ∧ TargetOk (.point (⟨19 / 10, 1 / 5, 3 / 10⟩ : V3 ℝ)) ∧
    (0 : ℝ) < (⟨2, 3, 4⟩ : V3 ℝ).x ∧ (0 : ℝ) < (⟨2, 3, 4⟩ : V3 ℝ).y ∧ (0 : ℝ) < (⟨2, 3, 4⟩ : V3 ℝ).z := by
  refine ⟨by simp, trivial, ?_, ?_, ?_⟩ <;> norm_num

/-- a triclinic non-singular box and a separation none of whose fractional coordinates is half-way:
    `B = [[2,0,0],[1,3,0],[0,1,4]]`, `det = 24`, `v = (1/2, 0, 0)`, `v B⁻¹ = (1/4, 0, 0)` -/
example : M3.det (⟨⟨2, 0, 0⟩, ⟨1, 3, 0⟩, ⟨0, 1, 4⟩⟩ : M3 ℝ) ≠ 0 ∧
    NoHalf (M3.vecMul (⟨1 / 2, 0, 0⟩ : V3 ℝ) (invR ⟨⟨2, 0, 0⟩, ⟨1, 3, 0⟩, ⟨0, 1, 4⟩⟩)) := by
  have hq : ⌊(1 / 4 : ℝ)⌋ = 0 := by rw [Int.floor_eq_iff]; norm_num
  constructor
  · simp only [gm]; norm_num
  · simp only [NoHalf, invR, adjugate, gm]
    norm_num [hq]

/-- the inverse of a non-singular box exists in the model (hypothesis of `pbc_inverse_flag`) -/
example : inv3 (diagBox (⟨2, 3, 4⟩ : V3 ℝ)) = some (invR (diagBox ⟨2, 3, 4⟩)) :=
  inv3_of_det_ne (by rw [det_diagBox]; norm_num)

end C19
