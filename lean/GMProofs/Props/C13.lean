import GMProofs.Lemmas.GroSessionL
import GMProofs.Lemmas.GroNumL
/-
  C13 — Writing then reading a .gro file returns the same system.

  Model: `GMModel.PyStr` (Python string primitives, exact arithmetic) and `GMModel.Gro` (writer state
  machine, reader) — of `gaddlemaps/parsers/__init__.py` AS REPAIRED for D2 (velocity flag initialised
  independently of the position format) and D3 (numbers wrap modulo 100000).
  Only property theorems and their non-vacuity examples live here.

  Values: a double is the exact rational `dyVal x = ± m·2^e`; what `float()` returns for a decimal text is
  modelled as that decimal's exact value `numVal q = ± n·10^k` (CPython then rounds it to the nearest double:
  at most half an ulp more, which the harness allows for).
-/
open PyStr PyStrL Gro GroL GroNum

namespace C13

/-- `|read − written| ≤ ½·10^(−d)`, and what is read is a finite number -/
def Within (d : Nat) (x : Dy) (q : PyNum) : Prop :=
  isFin q = true ∧ |numVal q - dyVal x| ≤ 1 / (2 * (10 : ℚ) ^ d)

/-! ### formatting primitives -/

/-- `int('{:wd}'.format(n)) = n` for every width and every integer -/
theorem fmt_int_roundtrip (w : Nat) (n : Int) : pyInt (fmtD w n) = .ok n := pyInt_fmtD' w n

/-- `float('{:w.df}'.format(x))` is within half a unit of the last decimal of `x` (for every width:
    a value that does not fit widens the text, it is never truncated) -/
theorem fmt_fixed_roundtrip (w d : Nat) (x : Dy) (hd : 1 ≤ d) :
    ∃ q, pyFloat (fmtFixed w d x) = .ok q ∧ Within d x q :=
  ⟨roundDec d x, pyFloat_fmtFixed' w d x hd, roundDec_isFin d x, roundDec_close d x⟩

/-- a value that fits its field is written with exactly `w` characters -/
theorem fmt_fixed_width (w d : Nat) (x : Dy) (h : fitsFixed w d x = true) : (fmtFixed w d x).length = w :=
  fmtFixed_length h

/-- every number — of any size or sign — occupies exactly five columns: lines never widen -/
theorem wrap_width (n : Int) : (fmtD 5 (wrap5 n)).length = 5 := fmtD5_wrap_length n

/-- numbers that fit five digits are read back unchanged (true since the D3 repair: 99999 ↦ 99999) -/
theorem wrap_identity (n : Int) (h0 : 0 ≤ n) (h1 : n ≤ 99999) : pyInt (fmtD 5 (wrap5 n)) = .ok n := by
  have : wrap5 n = n := by unfold wrap5; omega
  rw [this]; exact pyInt_fmtD' 5 n

/-- larger numbers are wrapped modulo 100000 (GROMACS convention), into the same five columns -/
theorem wrap_large (n : Int) : pyInt (fmtD 5 (wrap5 n)) = .ok (n % 100000) ∧ (fmtD 5 (wrap5 n)).length = 5 :=
  ⟨pyInt_fmtD' 5 _, fmtD5_wrap_length n⟩

/-! ### one atom line -/

/-- every atom line written with the same format and velocity presence has the same length,
    `20 + 3·w` (`20 + 6·w` with velocities) -/
theorem line_lengths_equal (w d : Nat) (vel : Bool) (r : Rec) (h : RecOk w d vel r) :
    ∃ line, parseAtomlist (w, d) (some vel) r = .ok line ∧ line.length = 20 + 3 * w * (if vel then 2 else 1) :=
  ⟨lineOf w d r, parseAtomlist_ok w d vel r h, lineOf_length h⟩

/-- from a written line the reader recovers the width, `width − 5` decimals (= the decimals written when
    `w = d + 5`) and the velocity flag -/
theorem determine_format_recovers (w d : Nat) (vel : Bool) (r : Rec) (h : RecOk w d vel r) (hd : 1 ≤ d)
    (hw : w = d + 5) :
    ∃ line, parseAtomlist (w, d) (some vel) r = .ok line ∧
      determineFormat (line ++ [nl]) = .ok (w, (d : Int), vel) := by
  refine ⟨lineOf w d r, parseAtomlist_ok w d vel r h, ?_⟩
  rw [determineFormat_lineOf h hd, hw]
  have : ((d + 5 : Nat) : Int) - 5 = (d : Int) := by omega
  rw [this]

/-- per-line round trip: names identical, numbers wrapped, every value within half a unit of its last
    written decimal (velocities have one decimal more) -/
theorem line_roundtrip (w d : Nat) (vel : Bool) (r : Rec) (h : RecOk w d vel r) (hd : 1 ≤ d) (e : Int) :
    ∃ line q, parseAtomlist (w, d) (some vel) r = .ok line ∧
      parseAtomline stdParsers (w, e, vel) (line ++ [nl]) = .ok q ∧
      q.resname = r.resname ∧ q.name = r.name ∧
      q.resnum = r.resnum % 100000 ∧ q.atomnum = r.atomnum % 100000 ∧
      Within d r.x q.x ∧ Within d r.y q.y ∧ Within d r.z q.z ∧
      (match r.vel, q.vel with
        | none, none => True
        | some (a, b, c), some (a', b', c') => Within (d + 1) a a' ∧ Within (d + 1) b b' ∧ Within (d + 1) c c'
        | _, _ => False) := by
  refine ⟨lineOf w d r, roundRec d r, parseAtomlist_ok w d vel r h, parseAtomline_lineOf h hd e,
    rfl, rfl, rfl, rfl, ⟨rfl, roundDec_close _ _⟩, ⟨rfl, roundDec_close _ _⟩, ⟨rfl, roundDec_close _ _⟩, ?_⟩
  cases hv : r.vel with
  | none => simp [roundRec, roundVel, hv]
  | some t =>
    obtain ⟨a, b, c⟩ := t
    simp only [roundRec, roundVel, hv]
    exact ⟨⟨rfl, roundDec_close _ _⟩, ⟨rfl, roundDec_close _ _⟩, ⟨rfl, roundDec_close _ _⟩⟩

/-! ### the lattice line -/

/-- entry-wise closeness of a box read back: `5e-6 = ½·10⁻⁵` -/
def BoxWithin (b : Box) (q : RBox) : Prop :=
  Within 5 b.m00 q.m00 ∧ Within 5 b.m01 q.m01 ∧ Within 5 b.m02 q.m02 ∧
  Within 5 b.m10 q.m10 ∧ Within 5 b.m11 q.m11 ∧ Within 5 b.m12 q.m12 ∧
  Within 5 b.m20 q.m20 ∧ Within 5 b.m21 q.m21 ∧ Within 5 b.m22 q.m22

theorem within_zero (d : Nat) (x : Dy) (h : x.isZero = true) : Within d x PyNum.zero := by
  refine ⟨rfl, ?_⟩
  have hm : x.man = 0 := by simpa [Dy.isZero] using h
  simp only [numVal, dyVal, PyNum.zero, hm]
  simp

theorem roundBox_within (b : Box) : BoxWithin b (roundBox b) := by
  unfold roundBox
  split
  · exact ⟨⟨rfl, roundDec_close _ _⟩, ⟨rfl, roundDec_close _ _⟩, ⟨rfl, roundDec_close _ _⟩,
      ⟨rfl, roundDec_close _ _⟩, ⟨rfl, roundDec_close _ _⟩, ⟨rfl, roundDec_close _ _⟩,
      ⟨rfl, roundDec_close _ _⟩, ⟨rfl, roundDec_close _ _⟩, ⟨rfl, roundDec_close _ _⟩⟩
  · rename_i hz
    simp only [List.any_cons, List.any_nil, Bool.or_false, Bool.or_eq_true, Bool.not_eq_true', not_or,
      Bool.not_eq_false] at hz
    obtain ⟨h1, h2, h3, h4, h5, h6⟩ := hz
    exact ⟨⟨rfl, roundDec_close _ _⟩, within_zero _ _ h1, within_zero _ _ h2, within_zero _ _ h3,
      ⟨rfl, roundDec_close _ _⟩, within_zero _ _ h4, within_zero _ _ h5, within_zero _ _ h6,
      ⟨rfl, roundDec_close _ _⟩⟩

/-- `extract_lattice_gro(dump_lattice_gro(box) + "\n")` returns the box to 5e-6 — 3-vector, diagonal and
    triclinic boxes, entries of any size (a long entry widens the line, the fields stay blank-separated) -/
theorem lattice_roundtrip (arg : BoxArg) :
    ∃ q, extractLattice pyFloat (dumpLattice arg.toBox ++ [nl]) = .ok q ∧ BoxWithin arg.toBox q :=
  ⟨roundBox arg.toBox, extractLattice_dumpLattice _, roundBox_within _⟩

/-! ### the whole file -/

/-- the clauses of the property relating a written record `r` and the record `q` read back
    (numbers that fit five digits unchanged; in general: wrapped modulo 100000) -/
def RecSame (d : Nat) (r : Rec) (q : RRec) : Prop :=
  q.resname = r.resname ∧ q.name = r.name ∧
  (0 ≤ r.resnum → r.resnum ≤ 99999 → q.resnum = r.resnum) ∧
  (0 ≤ r.atomnum → r.atomnum ≤ 99999 → q.atomnum = r.atomnum) ∧
  q.resnum = r.resnum % 100000 ∧ q.atomnum = r.atomnum % 100000 ∧
  Within d r.x q.x ∧ Within d r.y q.y ∧ Within d r.z q.z ∧
  (match r.vel, q.vel with
    | none, none => True
    | some (a, b, c), some (a', b', c') => Within (d + 1) a a' ∧ Within (d + 1) b b' ∧ Within (d + 1) c c'
    | _, _ => False)

theorem roundRec_same (d : Nat) (r : Rec) : RecSame d r (roundRec d r) := by
  refine ⟨rfl, rfl, ?_, ?_, rfl, rfl, ⟨rfl, roundDec_close _ _⟩, ⟨rfl, roundDec_close _ _⟩,
    ⟨rfl, roundDec_close _ _⟩, ?_⟩
  · intro h0 h1; show wrap5 r.resnum = _; unfold wrap5; omega
  · intro h0 h1; show wrap5 r.atomnum = _; unfold wrap5; omega
  · cases hv : r.vel with
    | none => simp [roundRec, roundVel, hv]
    | some t =>
      obtain ⟨a, b, c⟩ := t
      simp only [roundRec, roundVel, hv]
      exact ⟨⟨rfl, roundDec_close _ _⟩, ⟨rfl, roundDec_close _ _⟩, ⟨rfl, roundDec_close _ _⟩⟩

/-- **Round trip.** For every client script of the shape
    *setters in any order and number (title, box, declared count, position format) · one or more
    `writeline` · `close`* such that — in the state `s` the setters lead to — the title is one (possibly
    empty) line, the declared count (if any) equals the number of records (if none: fewer than 10⁹ records, the
    back-filled field has nine columns), the position format is `(w, d)` with `d ≥ 1`, and every record has
    names of 1–5 non-blank characters, values that fit `w` columns and the same velocity presence `vel`:

    no operation raises, and reading the written bytes succeeds and returns
    * the title, as the raw first line (i.e. WITH its line terminator — observation O6),
    * the same number of records, each with identical names, numbers `≤ 99999` unchanged, positions within
      `½·10^(−d)` and velocities within `½·10^(−d−1)`,
    * the box within `5e-6` entry-wise. -/
theorem gro_roundtrip (setters : List Op) (r0 : Rec) (rest : List Rec) (w d : Nat) (vel : Bool) (s : WState)
    (hset : ∀ op ∈ setters, IsSetter op)
    (hs : s = (run WState.init setters).1)
    (hfmt : s.effFormat = (w, d)) (hd : 1 ≤ d)
    (htitle : TitleOk s.effComment)
    (hcount : CountOk s (r0 :: rest).length)
    (hrec : ∀ r ∈ r0 :: rest, RecOk w d vel r) :
    let res := run WState.init (setters ++ ((r0 :: rest).map Op.writeLine ++ [Op.close]))
    (∀ e ∈ res.2, e = none) ∧
    ∃ data, groRead stdParsers res.1.bytes = .ok data ∧
      data.title = s.effComment ++ [nl] ∧
      data.recs.length = (r0 :: rest).length ∧
      List.Forall₂ (RecSame d) (r0 :: rest) data.recs ∧
      BoxWithin s.box data.box := by
  intro res
  obtain ⟨hp, he⟩ := pristine_run setters pristine_init hset
  rw [← hs] at hp
  obtain ⟨hb, he2⟩ := session_bytes hp r0 rest w d vel hfmt hrec htitle hcount
  have hres : res = ((run s ((r0 :: rest).map Op.writeLine ++ [Op.close])).1,
      (run WState.init setters).2 ++ (run s ((r0 :: rest).map Op.writeLine ++ [Op.close])).2) := by
    show run WState.init _ = _
    rw [run_append, ← hs]
  constructor
  · intro e hm
    rw [hres] at hm
    rcases List.mem_append.mp hm with h | h
    · exact he e h
    · exact he2 e h
  · refine ⟨⟨s.effComment ++ [nl], (r0 :: rest).map (roundRec d), roundBox s.box⟩, ?_, rfl, by simp, ?_,
      roundBox_within _⟩
    · rw [hres]
      show groRead stdParsers (run s _).1.bytes = _
      rw [hb]
      exact session_read r0 rest w d vel hd hrec htitle hcount
    · show List.Forall₂ (RecSame d) (r0 :: rest) ((r0 :: rest).map (roundRec d))
      generalize (r0 :: rest) = l
      induction l with
      | nil => exact List.Forall₂.nil
      | cons r t ih => exact List.Forall₂.cons (roundRec_same d r) ih

/-- what the `comment` setter stores: the argument without one trailing line terminator; this is the
    title the round trip returns (plus terminator) -/
theorem title_stored (s : WState) (v : List Nat) :
    (step s (.setComment v)).1.effComment = chopNl v := rfl

/-! ### non-vacuity -/

section examples

/-- 0.0625 (a rounding tie at three decimals), -0.0004 (rounds to -0.000), 1.5 -/
private def rA : Rec :=
  ⟨99999, [82, 69, 83], [65, 49], 100000, ⟨false, 1, -4⟩, ⟨true, 7378697629483821, -64⟩, ⟨false, 3, -1⟩,
   some (⟨false, 1, -2⟩, ⟨true, 1, -1⟩, ⟨false, 0, 0⟩)⟩
private def rB : Rec :=
  ⟨1, [87], [79, 87, 49, 50, 51], 10000000, ⟨true, 1999, -1⟩, ⟨false, 0, 0⟩, ⟨true, 0, 0⟩,
   some (⟨false, 5, 0⟩, ⟨false, 1, -20⟩, ⟨true, 3, 3⟩)⟩

private theorem rA_ok : RecOk 9 4 true rA := by
  constructor
  · exact ⟨by decide, by decide, by decide⟩
  · exact ⟨by decide, by decide, by decide⟩
  all_goals
    simp [rA, VelOk, fitsFixed, fixedBody, scaledRound, roundHalfEvenDiv, natDigits, digitChar, padZeros]

private theorem rB_ok : RecOk 9 4 true rB := by
  constructor
  · exact ⟨by decide, by decide, by decide⟩
  · exact ⟨by decide, by decide, by decide⟩
  all_goals
    simp [rB, VelOk, fitsFixed, fixedBody, scaledRound, roundHalfEvenDiv, natDigits, digitChar, padZeros]

private def settersEx : List Op :=
  [.setPosFmt 9 4, .setComment [84, 105, 116, 108, 101, 10], .setNatoms 2,
   .setBox (.mat ⟨⟨false, 1, 0⟩, .zero, .zero, ⟨false, 1, -1⟩, ⟨false, 2, 0⟩, .zero, .zero, .zero, ⟨false, 3, 0⟩⟩)]

/-- the hypotheses of `gro_roundtrip` are satisfiable: position format set BEFORE the first record (the D2
    situation), count declared, triclinic box, velocities, numbers 99999 / 100000 / 10⁷, a rounding tie -/
example : ∃ (setters : List Op) (r0 : Rec) (rest : List Rec) (w d : Nat) (vel : Bool) (s : WState),
    (∀ op ∈ setters, IsSetter op) ∧ s = (run WState.init setters).1 ∧ s.effFormat = (w, d) ∧ 1 ≤ d ∧
    TitleOk s.effComment ∧ CountOk s (r0 :: rest).length ∧ (∀ r ∈ r0 :: rest, RecOk w d vel r) ∧ rest ≠ [] := by
  refine ⟨settersEx, rA, [rB], 9, 4, true, (run WState.init settersEx).1, ?_, rfl, rfl, by decide, ?_, ?_, ?_,
    by simp⟩
  · intro op h
    simp only [settersEx, List.mem_cons, List.not_mem_nil, or_false] at h
    rcases h with h | h | h | h <;> subst h <;> simp [IsSetter]
  · show nl ∉ _; decide
  · show ((2 : Int) = ((2 : Nat) : Int)); rfl
  · intro r h
    simp only [List.mem_cons, List.not_mem_nil, or_false] at h
    rcases h with h | h <;> subst h
    · exact rA_ok
    · exact rB_ok

/-- … and with everything defaulted: no setter at all, count back-filled, no velocities -/
example : ∃ (r0 : Rec) (s : WState), s = (run WState.init []).1 ∧ s.effFormat = (8, 3) ∧
    TitleOk s.effComment ∧ CountOk s [r0].length ∧ RecOk 8 3 false r0 := by
  refine ⟨⟨5, [82], [65], 7, ⟨false, 1, -3⟩, ⟨true, 1, -1⟩, ⟨false, 3, 0⟩, none⟩, _, rfl, rfl, ?_, ?_, ?_⟩
  · show nl ∉ _; decide
  · show (1 < 10 ^ 9); decide
  · constructor
    · exact ⟨by decide, by decide, by decide⟩
    · exact ⟨by decide, by decide, by decide⟩
    all_goals
      simp [VelOk, fitsFixed, fixedBody, scaledRound, roundHalfEvenDiv, natDigits, digitChar, padZeros]

/-- a value that does NOT fit: `fitsFixed` is a real restriction (12345.678 in `8.3`) -/
example : fitsFixed 8 3 ⟨false, 12345678, 0⟩ = false ∧ fitsFixed 8 3 ⟨false, 1, -3⟩ = true := by
  constructor <;>
    simp [fitsFixed, fixedBody, scaledRound, roundHalfEvenDiv, natDigits, digitChar, padZeros]

end examples

end C13
