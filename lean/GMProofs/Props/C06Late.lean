import GMModel.Itp
/-!
# C06 (determinism clause) — what the topology reader hands the alignment does not depend on WHERE the
bonded sections stand in the file, nor on anything but the three sections it names

`find_atom_random_displ` / `move_mol_atom` take the neighbours of an atom in the order the topology lists them,
so the alignment is a deterministic function of its inputs only if that order is a function of the FILE.  In the
model it is: `parseItpBonds` walks `constraints`, `bonds`, `pairs` in this fixed order (`bondKeys`), whatever the
order of the sections in the file.  A reader that walks the sections in the iteration order of a set of strings
(seed C06-11) is not a function of the file at all — it differs between interpreter runs with different
string-hash salts; the correspondence side of this is the `hash-salt` stream of `harness/props/c06.py`.
Only property theorems and non-vacuity examples live here.
-/
open Itp

namespace C06L

/-- two readings of a file that agree on the three bonded sections list the same bonds, in the same order -/
theorem bonds_depend_on_three_sections (lk lk' : Lookup) (h : ∀ k ∈ bondKeys, lk k = lk' k) :
    parseItpBonds lk = parseItpBonds lk' := by
  have h1 := h _ (by simp [bondKeys] : (['c', 'o', 'n', 's', 't', 'r', 'a', 'i', 'n', 't', 's'] : Str) ∈ bondKeys)
  have h2 := h _ (by simp [bondKeys] : (['b', 'o', 'n', 'd', 's'] : Str) ∈ bondKeys)
  have h3 := h _ (by simp [bondKeys] : (['p', 'a', 'i', 'r', 's'] : Str) ∈ bondKeys)
  simp only [parseItpBonds, bondKeys, List.mapM_cons, List.mapM_nil, sectionBonds, h1, h2, h3]

/-- looking a section up by name does not depend on the order of sections whose names are pairwise different -/
theorem find_section_perm {l l' : List ItpSection} (h : l.Perm l')
    (hd : l.Pairwise (fun a b => a.name ≠ b.name)) (n : Str) :
    l.find? (·.name = n) = l'.find? (·.name = n) := by
  induction h with
  | nil => rfl
  | cons x _ ih =>
    simp only [List.find?_cons]
    rw [ih (List.pairwise_cons.mp hd).2]
  | swap x y l =>
    have hxy : y.name ≠ x.name := by
      have := (List.pairwise_cons.mp hd).1 x (by simp)
      exact this
    simp only [List.find?_cons]
    by_cases hx : x.name = n <;> by_cases hy : y.name = n <;> simp [hx, hy]
    exact absurd (hy.trans hx.symm) hxy
  | trans p _ ih1 ih2 =>
    rw [ih1 hd]
    exact ih2 ((p.pairwise_iff (fun h => Ne.symm h)).mp hd)

/-- THE TOPOLOGY IS A FUNCTION OF THE SECTIONS, NOT OF THEIR ORDER IN THE FILE.  Two files with the same sections
    (names pairwise different) in any order give the same reading of every section … -/
theorem secTokens_perm (f f' : ItpFile) (h : f.secs.Perm f'.secs)
    (hd : f.secs.Pairwise (fun a b => a.name ≠ b.name)) : f.secTokens = f'.secTokens := by
  funext n
  simp only [ItpFile.secTokens, ItpFile.get?]
  rw [find_section_perm h hd n]

/-- … hence the same molecule name, atoms and bond list IN THE SAME ORDER (or the same error) -/
theorem topology_independent_of_section_order (f f' : ItpFile) (h : f.secs.Perm f'.secs)
    (hd : f.secs.Pairwise (fun a b => a.name ≠ b.name)) : topInfo f = topInfo f' := by
  simp only [topInfo, secTokens_perm f f' h hd]

/-- the listed bonds are those of `constraints`, then `bonds`, then `pairs` — whatever else the lookup holds -/
theorem bonds_order_fixed (lk : Lookup) (c b p : List (Int × Int))
    (hc : sectionBonds lk ['c', 'o', 'n', 's', 't', 'r', 'a', 'i', 'n', 't', 's'] = .ok c)
    (hb : sectionBonds lk ['b', 'o', 'n', 'd', 's'] = .ok b)
    (hp : sectionBonds lk ['p', 'a', 'i', 'r', 's'] = .ok p) :
    parseItpBonds lk = .ok (c ++ b ++ p) := by
  simp [parseItpBonds, bondKeys, List.mapM_cons, List.mapM_nil, hc, hb, hp, bind, Except.bind, pure, Except.pure]

/-! non-vacuity: a file with `bonds` BEFORE `constraints`; the constraint is listed first all the same -/
private def secB : ItpSection := ⟨['b', 'o', 'n', 'd', 's'], []⟩
private def secC : ItpSection := ⟨['c', 'o', 'n', 's', 't', 'r', 'a', 'i', 'n', 't', 's'], []⟩

example : ([secB, secC] : List ItpSection).Perm [secC, secB] ∧
    ([secB, secC] : List ItpSection).Pairwise (fun a b => a.name ≠ b.name) := by
  refine ⟨List.Perm.swap _ _ _, ?_⟩
  simp [secB, secC]

end C06L
