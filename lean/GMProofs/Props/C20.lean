import GMProofs.Lemmas.CliL
/-
  C20 — Command-line mapping equals the library workflow; discovery is deterministic.

  Model: `GMModel.Cli` (`Cli.sortMolecules … (repaired := true)` = `sort_molecules` with the repairs
  of D9 and O-a, `Cli.mainMolecules`, `Cli.outPath`, `Cli.autoMap`, `Cli.libraryWorkflow`).
  Python `set`s are duplicate-free lists standing for their iteration order; the theorems quantify
  over ALL permutations of them, i.e. over every hash seed and every order of the `--auto` list.
  Only property theorems and their non-vacuity examples live here.
-/

namespace C20

open Cli
open Mgr (PyErr)

/-- the candidates left after the files of the `--mol` species have been removed -/
def candTops (tops : List String) (known : List (String × String × String)) : List String :=
  tops.filter (fun f => !isKnownTop known f)

def candCoords (coords : List String) (known : List (String × String × String)) : List String :=
  coords.filter (fun f => !isKnownCoord known f)

/-- the candidate lists are well formed: they are sets; every candidate topology file either IS a
    molecule topology (its molecule name is `nm f`) or is not one at all (`MoleculeTop` raises
    `OSError`: force-field include, empty file, … — an ordinary distractor); among the candidates that
    are molecule topologies (`parsed env T`), whether one loads does not depend on the candidates
    loaded before it, and no two that load carry the same molecule name -/
structure WellFormed (env : Env) (base T : List String) (nm : String → String) : Prop where
  nodup : T.Nodup
  parse : ∀ f ∈ T, env.parseTop f = .ok (nm f) ∨ env.parseTop f = .error .IOError
  stable : Stable env base (parsed env T)
  oneStart : ∀ f ∈ parsed env T, ∀ g ∈ parsed env T, env.loadsAfter base f = true →
    env.loadsAfter base g = true → nm f = nm g → f = g

/-- `Unambiguous`: each species of the system (= each candidate that loads) has exactly one
    candidate start topology that loads (`oneStart`), at most one OTHER candidate topology carrying
    its name (`oneEnd`), and at most one candidate coordinate file that loads with that topology
    (`oneCoord`).  Nothing is assumed about the remaining (distractor) candidates — in particular
    they need not be molecule topologies. -/
structure Unambiguous (env : Env) (base T K : List String) (nm : String → String) : Prop
    extends WellFormed env base T nm where
  oneEnd : ∀ f ∈ parsed env T, env.loadsAfter base f = true → ∀ a ∈ parsed env T,
    ∀ b ∈ parsed env T, env.loadsAfter base a = false → env.loadsAfter base b = false →
    nm a = nm f → nm b = nm f → a = b
  oneCoord : ∀ f ∈ parsed env T, env.loadsAfter base f = true → ∀ a ∈ parsed env T,
    env.loadsAfter base a = false → nm a = nm f →
    ∀ c ∈ K, ∀ c' ∈ K, env.fromFiles c a = true → env.fromFiles c' a = true → c = c'

/-- "its files": the end topology of the species whose start topology is `f` -/
def endTop (env : Env) (base T : List String) (nm : String → String) (f : String) : Option String :=
  T.find? (fun a => !env.loadsAfter base a && nm a == nm f)

/-- … and the end coordinates that load with end topology `a` -/
def endCoord (env : Env) (K : List String) (a : String) : Option String :=
  K.find? (fun c => env.fromFiles c a)

def specInfo (env : Env) (base T K : List String) (nm : String → String) (f : String) : Info :=
  ⟨f, endTop env base T nm f, (endTop env base T nm f).bind (endCoord env K)⟩

/-- the dictionary discovery must return: one entry per candidate that loads, in loading order -/
def specDict (env : Env) (base T K : List String) (nm : String → String) : Dict :=
  (T.filter (fun f => env.loadsAfter base f)).map (fun f => (nm f, specInfo env base T K nm f))

/-! ### discovery -/

private theorem map_fst_pairs (T : List String) (nm : String → String) :
    (T.map (fun f => (f, nm f))).map (·.1) = T := by
  simp [List.map_map, Function.comp_def]

private theorem usedOf_pairs (env : Env) (base T : List String) (nm : String → String) :
    usedOf env base (T.map (fun f => (f, nm f))) = T.filter (fun f => env.loadsAfter base f) := by
  simp [usedOf, List.filter_map, List.map_map, Function.comp_def]

private theorem dict1_pairs (env : Env) (base T : List String) (nm : String → String) :
    dict1 env base (T.map (fun f => (f, nm f)))
      = (T.filter (fun f => env.loadsAfter base f)).map (fun f => (nm f, ⟨f, none, none⟩)) := by
  simp [dict1, List.filter_map, List.map_map, Function.comp_def]

private theorem aaFor_pairs (env : Env) (base T : List String) (nm : String → String) (n : String) :
    aaFor (T.filter (fun f => env.loadsAfter base f)) (T.map (fun f => (f, nm f))) n
      = T.find? (fun a => !env.loadsAfter base a && nm a == n) := by
  unfold aaFor
  rw [List.find?_map, Option.map_map]
  have : ((fun p : String × String => p.1) ∘ fun f => (f, nm f)) = id := rfl
  rw [this, Option.map_id]
  apply find?_congr'
  intro a ha
  simp [List.mem_filter, ha]

/-- the three loops on a list `T0` of molecule topologies, once the first loop is in closed form -/
private theorem loops_spec (env : Env) (base T0 K0 : List String) (nm : String → String) :
    loop3 env true K0
        (loop2 (usedOf env base (T0.map (fun f => (f, nm f)))) (T0.map (fun f => (f, nm f)))
          (dict1 env base (T0.map (fun f => (f, nm f)))))
      = .ok (specDict env base T0 K0 nm) := by
  simp only [loop2_spec, loop3_spec]
  congr 1
  rw [usedOf_pairs, dict1_pairs, List.map_map, List.map_map]
  unfold specDict
  apply List.map_congr_left
  intro f _
  have haa := aaFor_pairs env base T0 nm (nm f)
  simp only [Function.comp_def, fillAA, Option.isNone_none, if_true, haa, fillCo, specInfo, endTop]
  cases hfind : List.find? (fun a => !env.loadsAfter base a && nm a == nm f) T0 with
  | none => simp
  | some a => simp [coFor, endCoord]

/-- **exact** (`discovery_exact`): on well-formed candidate lists discovery returns, for every
    candidate molecule topology that loads (in loading order), its name with exactly: that file as
    `top_CG`, the first remaining candidate molecule topology carrying its name as `top_AA`, the
    first remaining coordinate file that loads with it as `coor_AA` — and nothing else.  Candidate
    files that are not molecule topologies are ignored. -/
theorem discovery_exact (env : Env) (tops coords : List String)
    (known : List (String × String × String)) (nm : String → String)
    (h : WellFormed env (known.map (·.1)) (candTops tops known) nm) :
    sortMolecules env true tops coords known true =
      .ok (specDict env (known.map (·.1)) (parsed env (candTops tops known))
            (candCoords coords known) nm) := by
  have hparse := parseAll_repaired env nm (candTops tops known) h.parse
  have hl1 := loop1_spec env (known.map (·.1))
    ((parsed env (candTops tops known)).map (fun f => (f, nm f)))
    (by rw [map_fst_pairs]; exact h.stable) (by rw [map_fst_pairs]; exact h.nodup.filter _)
    (by
      intro p hp q hq hlp hlq hn
      simp only [List.mem_map] at hp hq
      obtain ⟨f, hf, rfl⟩ := hp
      obtain ⟨g, hg, rfl⟩ := hq
      have := h.oneStart f hf g hg hlp hlq hn
      subst this; rfl)
  unfold candTops at hparse hl1
  simp only [sortMolecules, Bool.not_true, Bool.false_eq_true, if_false, hparse, hl1]
  exact loops_spec env _ _ _ nm

/-- **total** (`discovery_total`): with the repairs of D9 and O-a, discovery never raises once the
    known topologies load — whatever the candidates: not for a species that has a start topology
    among the candidates but no end topology (solvent), and not for candidate files that are not
    molecule topologies.  The only hypothesis left is that a candidate fails to parse only by
    `OSError` (a CORRUPT molecule topology — `ValueError`/`IndexError`/`KeyError` from a malformed
    `[ atoms ]`/`[ bonds ]` line — still propagates: the repair deliberately catches `OSError` only). -/
theorem discovery_total (env : Env) (tops coords : List String)
    (known : List (String × String × String))
    (hos : ∀ f ∈ candTops tops known, ∀ e, env.parseTop f = .error e → e = .IOError) :
    ∃ d, sortMolecules env true tops coords known true = .ok d := by
  obtain ⟨tm, hp⟩ := parseAll_total env (candTops tops known) hos
  unfold candTops at hp
  simp only [sortMolecules, Bool.not_true, Bool.false_eq_true, if_false, hp, loop3_spec]
  exact ⟨_, rfl⟩

/-- the files of the result are candidates that survived the removal of the known files -/
theorem discovery_skips_known (env : Env) (tops coords : List String)
    (known : List (String × String × String)) (nm : String → String)
    (h : WellFormed env (known.map (·.1)) (candTops tops known) nm) (d : Dict)
    (hd : sortMolecules env true tops coords known true = .ok d) :
    ∀ e ∈ d,
      (isKnownTop known e.2.topCG = false ∧ e.2.topCG ∈ tops) ∧
      (∀ a, e.2.topAA = some a → isKnownTop known a = false ∧ a ∈ tops) ∧
      (∀ c, e.2.coorAA = some c → isKnownCoord known c = false ∧ c ∈ coords) := by
  rw [discovery_exact env tops coords known nm h] at hd
  cases hd
  intro e he
  simp only [specDict, List.mem_map, List.mem_filter] at he
  obtain ⟨f, ⟨hf, _⟩, rfl⟩ := he
  have memT : ∀ x, x ∈ parsed env (candTops tops known) →
      isKnownTop known x = false ∧ x ∈ tops := by
    intro x hx
    have hx' := mem_parsed hx
    simp only [candTops, List.mem_filter] at hx'
    exact ⟨by simpa using hx'.2, hx'.1⟩
  refine ⟨memT f hf, ?_, ?_⟩
  · intro a ha
    exact memT a (List.mem_of_find?_eq_some ha)
  · intro c hc
    simp only [specInfo, Option.bind_eq_some_iff] at hc
    obtain ⟨a, _, hca⟩ := hc
    have := List.mem_of_find?_eq_some hca
    simp only [candCoords, List.mem_filter] at this
    exact ⟨by simpa using this.2, this.1⟩

/-- candidates that are not molecule topologies never appear in the result -/
theorem discovery_ignores_unparseable (env : Env) (tops coords : List String)
    (known : List (String × String × String)) (nm : String → String)
    (h : WellFormed env (known.map (·.1)) (candTops tops known) nm) (d : Dict)
    (hd : sortMolecules env true tops coords known true = .ok d) :
    ∀ e ∈ d, parses env e.2.topCG = true ∧ ∀ a, e.2.topAA = some a → parses env a = true := by
  rw [discovery_exact env tops coords known nm h] at hd
  cases hd
  intro e he
  simp only [specDict, List.mem_map, List.mem_filter] at he
  obtain ⟨f, ⟨hf, _⟩, rfl⟩ := he
  refine ⟨(List.mem_filter.mp hf).2, ?_⟩
  intro a ha
  exact (List.mem_filter.mp (List.mem_of_find?_eq_some ha)).2

/-- the uniqueness conditions on the list `P` of candidate molecule topologies -/
private structure Core (env : Env) (base P K : List String) (nm : String → String) : Prop where
  nodup : P.Nodup
  oneStart : ∀ f ∈ P, ∀ g ∈ P, env.loadsAfter base f = true → env.loadsAfter base g = true →
    nm f = nm g → f = g
  oneEnd : ∀ f ∈ P, env.loadsAfter base f = true → ∀ a ∈ P, ∀ b ∈ P,
    env.loadsAfter base a = false → env.loadsAfter base b = false →
    nm a = nm f → nm b = nm f → a = b
  oneCoord : ∀ f ∈ P, env.loadsAfter base f = true → ∀ a ∈ P, env.loadsAfter base a = false →
    nm a = nm f → ∀ c ∈ K, ∀ c' ∈ K, env.fromFiles c a = true → env.fromFiles c' a = true → c = c'

private theorem Unambiguous.core {env : Env} {base T K : List String} {nm : String → String}
    (h : Unambiguous env base T K nm) : Core env base (parsed env T) K nm :=
  ⟨h.nodup.filter _, h.oneStart, h.oneEnd, h.oneCoord⟩

private theorem unambiguous_perm {env : Env} {base T T' K K' : List String} {nm : String → String}
    (hT : T.Perm T') (hK : K.Perm K') (h : Unambiguous env base T K nm) :
    Unambiguous env base T' K' nm := by
  have hP : ∀ x, x ∈ parsed env T' → x ∈ parsed env T :=
    fun x hx => (hT.filter (parses env)).mem_iff.mpr hx
  exact {
    nodup := hT.nodup_iff.mp h.nodup
    parse := fun f hf => h.parse f (hT.mem_iff.mpr hf)
    stable := fun added f hf hna => h.stable added f (hP f hf) hna
    oneStart := fun f hf g hg => h.oneStart f (hP f hf) g (hP g hg)
    oneEnd := fun f hf hl a ha b hb => h.oneEnd f (hP f hf) hl a (hP a ha) b (hP b hb)
    oneCoord := fun f hf hl a ha hla hn c hc c' hc' =>
      h.oneCoord f (hP f hf) hl a (hP a ha) hla hn c (hK.mem_iff.mpr hc) c' (hK.mem_iff.mpr hc') }

private theorem specDict_perm {env : Env} {base T T' K K' : List String} {nm : String → String}
    (hT : T.Perm T') (hK : K.Perm K') (h : Core env base T K nm) :
    (specDict env base T K nm).Perm (specDict env base T' K' nm) := by
  unfold specDict
  have hfun : ∀ f ∈ T.filter (fun f => env.loadsAfter base f),
      (nm f, specInfo env base T K nm f) = (nm f, specInfo env base T' K' nm f) := by
    intro f hf
    rw [List.mem_filter] at hf
    obtain ⟨hfT, hfl⟩ := hf
    have hend : endTop env base T nm f = endTop env base T' nm f := by
      apply find?_perm_unique _ hT
      intro a ha b hb hpa hpb
      simp only [Bool.and_eq_true, Bool.not_eq_true', beq_iff_eq] at hpa hpb
      exact h.oneEnd f hfT hfl a ha b hb hpa.1 hpb.1 hpa.2 hpb.2
    have hco : (endTop env base T nm f).bind (endCoord env K)
        = (endTop env base T nm f).bind (endCoord env K') := by
      cases ha : endTop env base T nm f with
      | none => rfl
      | some a =>
        have haT : a ∈ T := List.mem_of_find?_eq_some ha
        have hpa := List.find?_some ha
        simp only [Bool.and_eq_true, Bool.not_eq_true', beq_iff_eq] at hpa
        simp only [Option.bind_some, endCoord]
        apply find?_perm_unique _ hK
        intro c hc c' hc' hp hp'
        exact h.oneCoord f hfT hfl a haT hpa.1 hpa.2 c hc c' hc' hp hp'
    simp only [specInfo, ← hend, hco]
  rw [List.map_congr_left hfun]
  exact (hT.filter _).map _

/-- names are keys: every entry of the specified dictionary is what a look-up of its name gives -/
private theorem specDict_lookup {env : Env} {base T K : List String} {nm : String → String}
    (hu : Core env base T K nm) :
    ∀ e, e ∈ specDict env base T K nm → (specDict env base T K nm).lookup e.1 = some e.2 := by
  intro e he
  unfold specDict at he ⊢
  have hnd : (T.filter (fun f => env.loadsAfter base f)).Nodup := hu.nodup.filter _
  have hinj : ∀ f ∈ T.filter (fun f => env.loadsAfter base f),
      ∀ g ∈ T.filter (fun f => env.loadsAfter base f), nm f = nm g → f = g := by
    intro f hf g hg hn
    rw [List.mem_filter] at hf hg
    exact hu.oneStart f hf.1 g hg.1 hf.2 hg.2 hn
  generalize T.filter (fun f => env.loadsAfter base f) = l at he hnd hinj
  induction l with
  | nil => simp at he
  | cons x xs ih =>
    simp only [List.map_cons, List.mem_cons] at he
    rcases he with rfl | he
    · simp
    · have hx : x ∉ xs := (List.nodup_cons.mp hnd).1
      obtain ⟨g, hg, rfl⟩ := List.mem_map.mp he
      have hne : (nm g == nm x) = false := by
        simp only [beq_eq_false_iff_ne, ne_eq]
        intro hn
        have := hinj g (List.mem_cons_of_mem _ hg) x (List.mem_cons_self ..) hn
        exact hx (this ▸ hg)
      simp only [List.map_cons, List.lookup, hne]
      exact ih (List.mem_map_of_mem hg) (List.nodup_cons.mp hnd).2
        (fun f hf g' hg' => hinj f (List.mem_cons_of_mem _ hf) g' (List.mem_cons_of_mem _ hg'))

/-- **permutation invariance** (`discovery_perm_invariant`): on an unambiguous directory the
    name ↦ {top_CG, top_AA, coor_AA} dictionary is the same for EVERY permutation of the two
    candidate lists (the results are permutations of each other: same entries, and since names are
    unique, the same map) — candidate files that are not molecule topologies included. -/
theorem discovery_perm_invariant (env : Env) (tops tops' coords coords' : List String)
    (known : List (String × String × String)) (nm : String → String)
    (hT : tops.Perm tops') (hK : coords.Perm coords')
    (h : Unambiguous env (known.map (·.1)) (candTops tops known) (candCoords coords known) nm) :
    ∃ d d', sortMolecules env true tops coords known true = .ok d ∧
            sortMolecules env true tops' coords' known true = .ok d' ∧
            d.Perm d' ∧ ∀ n, d.lookup n = d'.lookup n := by
  have hT' : (candTops tops known).Perm (candTops tops' known) := hT.filter _
  have hK' : (candCoords coords known).Perm (candCoords coords' known) := hK.filter _
  have hP' : (parsed env (candTops tops known)).Perm (parsed env (candTops tops' known)) :=
    hT'.filter _
  have h' := unambiguous_perm hT' hK' h
  have hperm := specDict_perm hP' hK' h.core
  refine ⟨_, _, discovery_exact env tops coords known nm h.toWellFormed,
    discovery_exact env tops' coords' known nm h'.toWellFormed, hperm, ?_⟩
  -- names are unique, so equal entries give equal look-ups
  intro n
  cases hl : (specDict env (known.map (·.1)) (parsed env (candTops tops known))
      (candCoords coords known) nm).lookup n with
  | some i =>
    have hmem := mem_of_lookup hl   -- (n, i) ∈ d
    have hmem' := hperm.mem_iff.mp hmem
    exact (specDict_lookup h'.core (n, i) hmem').symm
  | none =>
    cases hl' : (specDict env (known.map (·.1)) (parsed env (candTops tops' known))
        (candCoords coords' known) nm).lookup n with
    | none => rfl
    | some i =>
      have hmem' := mem_of_lookup hl'
      have hmem := hperm.mem_iff.mpr hmem'
      have := specDict_lookup h.core (n, i) hmem
      rw [hl] at this
      exact absurd this (by simp)

/-! ### `main` -/

/-- **exclude** (`exclude_filters`): the species handed to `auto_map` are the explicit ones first,
    in the order given, followed only by discovered species that have all three files and are NOT
    named in `--exclude`; each with its own (start topology, end coordinates, end topology). -/
theorem exclude_filters (explicit : List (String × String × String)) (info : Dict)
    (exclude : Option (List String)) :
    ∃ rest, mainMolecules explicit (some info) exclude = explicit ++ rest ∧
      ∀ t ∈ rest, ∃ e ∈ info, (∀ ex, exclude = some ex → e.1 ∉ ex) ∧
        e.2.topAA = some t.2.2 ∧ e.2.coorAA = some t.2.1 ∧ e.2.topCG = t.1 := by
  refine ⟨discovered info exclude, rfl, ?_⟩
  intro t ht
  simp only [discovered, List.mem_filterMap] at ht
  obtain ⟨e, he, hsome⟩ := ht
  refine ⟨e, he, ?_⟩
  have tail : (match e.2.coorAA, e.2.topAA with
      | some c, some a => some (e.2.topCG, c, a)
      | _, _ => none) = some t →
      e.2.topAA = some t.2.2 ∧ e.2.coorAA = some t.2.1 ∧ e.2.topCG = t.1 := by
    intro hx
    cases hc : e.2.coorAA with
    | none => simp [hc] at hx
    | some c =>
      cases ha : e.2.topAA with
      | none => simp [hc, ha] at hx
      | some a =>
        simp only [hc, ha, Option.some.injEq] at hx
        subst hx
        exact ⟨rfl, rfl, rfl⟩
  by_cases hlen : (e.2.len == 3) = true
  · rw [if_pos hlen] at hsome
    cases hex : exclude with
    | none =>
      simp only [hex, Bool.false_eq_true, if_false] at hsome
      exact ⟨by simp, tail hsome⟩
    | some ex =>
      simp only [hex] at hsome
      by_cases hin : ex.contains e.1 = true
      · rw [if_pos hin] at hsome
        exact absurd hsome (by simp)
      · rw [if_neg hin] at hsome
        refine ⟨?_, tail hsome⟩
        intro ex' hex'
        cases hex'
        simpa using hin
  · rw [if_neg hlen] at hsome
    exact absurd hsome (by simp)

/-- every discovered species with all three files that is not excluded IS handed over -/
theorem exclude_keeps (explicit : List (String × String × String)) (info : Dict)
    (exclude : Option (List String)) (e : String × Info) (he : e ∈ info) (a c : String)
    (haa : e.2.topAA = some a) (hco : e.2.coorAA = some c)
    (hex : ∀ ex, exclude = some ex → e.1 ∉ ex) :
    (e.2.topCG, c, a) ∈ mainMolecules explicit (some info) exclude := by
  simp only [mainMolecules, List.mem_append]
  right
  simp only [discovered, List.mem_filterMap]
  refine ⟨e, he, ?_⟩
  have hlen : (e.2.len == 3) = true := by simp [Info.len, haa, hco]
  cases hx : exclude with
  | none => simp [hlen, haa, hco]
  | some ex =>
    have hn : e.1 ∉ ex := hex ex hx
    simp [hlen, haa, hco, hn]

/-- without `--auto` nothing is added -/
theorem no_auto (explicit : List (String × String × String)) (exclude : Option (List String)) :
    mainMolecules explicit none exclude = explicit := rfl

/-- **default output name** (`default_outfile`): `mapped_<input name>` beside the input;
    an explicit `-o` path is used as given. -/
theorem default_outfile (base : List Char) (hb : '/' ∉ base) :
    outPath base none = mappedPrefix ++ base ∧
    (∀ dir : List Char, dir ≠ [] → dir.getLast? ≠ some '/' →
      outPath (dir ++ '/' :: base) none = dir ++ '/' :: (mappedPrefix ++ base)) ∧
    (∀ ref o, outPath ref (some o) = o) := by
  have hh : ((mappedPrefix ++ base).head? == some '/') = false := by
    simp [mappedPrefix]
  refine ⟨?_, ?_, fun _ _ => rfl⟩
  · have hs : splitPath base = ([], base) := by
      simp [splitPath, splitLast_none_of_not_mem _ _ hb]
    show joinPath (splitPath base).1 (mappedPrefix ++ (splitPath base).2) = _
    rw [hs]
    unfold joinPath
    rw [if_neg (by rw [hh]; simp)]
    simp
  · intro dir hne hlast
    have hs : splitLast '/' (dir ++ '/' :: base) = some (dir, base) := splitLast_append _ _ _ hb
    have hall : (dir ++ ['/']).all (· == '/') = false := by
      -- the last character of `dir` is not a '/'
      obtain ⟨c, hc⟩ : ∃ c, dir.getLast? = some c := by
        cases h : dir.getLast? with
        | none => simp [List.getLast?_eq_none_iff] at h; exact absurd h hne
        | some c => exact ⟨c, rfl⟩
      have hcm : c ∈ dir := List.mem_of_getLast? hc
      have hcn : c ≠ '/' := fun e => hlast (e ▸ hc)
      rw [List.all_eq_false]
      exact ⟨c, by simp [hcm], by simpa using hcn⟩
    have hstrip : rstrip '/' (dir ++ ['/']) = dir := rstrip_append_sep _ _ hne hlast
    have hsp : splitPath (dir ++ '/' :: base) = (dir, base) := by
      simp only [splitPath, hs, hall, hstrip, Bool.false_eq_true, if_false]
    have hde : dir.isEmpty = false := by
      cases dir with
      | nil => exact absurd rfl hne
      | cons _ _ => rfl
    have hdl : (dir.getLast? == some '/') = false := by simpa using hlast
    show joinPath (splitPath _).1 (mappedPrefix ++ (splitPath _).2) = _
    rw [hsp]
    unfold joinPath
    rw [if_neg (by rw [hh]; simp), if_neg (by rw [hde, hdl]; simp)]

deriving instance DecidableEq for Except

/-! ### command line = library -/

variable {Mol Mg T S Out : Type}

/-- every `--mol` triple loads: the `i`-th start topology has molecule name `nm[i].1`, the `i`-th
    pair of end files gives the molecule `nm[i].2` -/
def Loads (L : Lib Mol Mg T S Out) :
    List (String × String × String) → List (String × Mol) → Prop
  | [], [] => True
  | sp :: sps, x :: xs =>
    L.topName sp.1 = .ok x.1 ∧ L.molFromFiles sp.2.1 sp.2.2 = .ok x.2 ∧ Loads L sps xs
  | _, _ => False

private theorem loadMols_ok (L : Lib Mol Mg T S Out) :
    ∀ (species : List (String × String × String)) (nm : List (String × Mol)),
      Loads L species nm → loadMols L species = .ok (nm.map (·.2)) := by
  intro species
  induction species with
  | nil => intro nm h; cases nm with
    | nil => rfl
    | cons _ _ => exact absurd h (by simp [Loads])
  | cons sp sps ih =>
    intro nm h
    cases nm with
    | nil => exact absurd h (by simp [Loads])
    | cons x xs =>
      obtain ⟨_, h2, h3⟩ := h
      simp [loadMols, h2, ih xs h3]

private theorem loadPairs_ok (L : Lib Mol Mg T S Out) :
    ∀ (species : List (String × String × String)) (nm : List (String × Mol)),
      Loads L species nm → loadPairs L species = .ok nm := by
  intro species
  induction species with
  | nil => intro nm h; cases nm with
    | nil => rfl
    | cons _ _ => exact absurd h (by simp [Loads])
  | cons sp sps ih =>
    intro nm h
    cases nm with
    | nil => exact absurd h (by simp [Loads])
    | cons x xs =>
      obtain ⟨h1, h2, h3⟩ := h
      simp [loadPairs, h1, h2, ih xs h3]

private theorem endSet_new (d : List (String × Mol)) (k : String) (v : Mol)
    (h : ∀ e ∈ d, e.1 ≠ k) : endSet d k v = d ++ [(k, v)] := by
  have : d.any (fun p => p.1 == k) = false := by
    rw [List.any_eq_false]
    intro e he
    simpa using h e he
  simp [endSet, this]

private theorem loadEnds_ok (L : Lib Mol Mg T S Out) :
    ∀ (species : List (String × String × String)) (nm : List (String × Mol)) (d : List (String × Mol)),
      Loads L species nm → ((d ++ nm).map (·.1)).Nodup → loadEnds L species d = .ok (d ++ nm) := by
  intro species
  induction species with
  | nil => intro nm d h _; cases nm with
    | nil => simp [loadEnds]
    | cons _ _ => exact absurd h (by simp [Loads])
  | cons sp sps ih =>
    intro nm d h hnd
    cases nm with
    | nil => exact absurd h (by simp [Loads])
    | cons x xs =>
      obtain ⟨h1, h2, h3⟩ := h
      have hnew : ∀ e ∈ d, e.1 ≠ x.1 := by
        intro e he heq
        rw [List.map_append, List.map_cons] at hnd
        exact (List.nodup_append.mp hnd).2.2 e.1 (List.mem_map_of_mem he) x.1
          (List.mem_cons_self ..) heq
      have := ih xs (d ++ [x]) h3 (by simpa using hnd)
      simp only [loadEnds, h1, h2, endSet_new d x.1 x.2 hnew]
      simpa using this

private theorem attach_eq (L : Lib Mol Mg T S Out) :
    ∀ (nm : List (String × Mol)) (m : Mg), (∀ e ∈ nm, L.molName e.2 = e.1) →
      attachByKey L nm m = addEndMolecules L (nm.map (·.2)) m := by
  intro nm
  induction nm with
  | nil => intro _ _; rfl
  | cons e rest ih =>
    intro m h
    obtain ⟨k, mol⟩ := e
    have hk : L.molName mol = k := h (k, mol) (List.mem_cons_self ..)
    simp only [attachByKey, List.map_cons, addEndMolecules, hk]
    cases L.hasSpecies m k with
    | false => rfl
    | true =>
      simp only [Bool.not_true, Bool.false_eq_true, if_false]
      cases L.setEnd m k mol with
      | error e => rfl
      | ok m' => exact ih m' (fun e he => h e (List.mem_cons_of_mem _ he))

/-- **command line = library** (`cli_equals_library`): when every `--mol` triple loads and the
    start topologies carry pairwise different molecule names, `auto_map` IS the library workflow
    `Manager.from_files → attach each end molecule to the species of ITS triple's start topology →
    align_molecules → calculate_exchange_maps(scale) → extrapolate_system(out)` on the same random
    state, with `out` the requested path or `mapped_<input name>` beside the input — including every
    error raised after loading.  Nothing is assumed about the name the end molecule carries in its own
    topology (it may differ from the start topology's: the explicit triple is what pairs the files).
    `hnodup` cannot be dropped: two triples for one species make `auto_map` keep the last one only
    (dictionary), whereas attaching twice raises `ValueError` in `Alignment.end`. -/
theorem cli_equals_library (L : Lib Mol Mg T S Out) (ref : List Char)
    (species : List (String × String × String)) (scale : S) (outfile : Option (List Char)) (t : T)
    (nm : List (String × Mol))
    (hload : Loads L species nm) (hnodup : (nm.map (·.1)).Nodup) :
    autoMap L ref species scale outfile t =
      libraryWorkflow L ref species scale (outPath ref outfile) t := by
  have h1 := loadEnds_ok L species nm [] hload (by simpa using hnodup)
  have h2 := loadPairs_ok L species nm hload
  simp only [List.nil_append] at h1
  simp only [autoMap, libraryWorkflow, h1, h2]

/-- … and when, in addition, each end molecule carries the same name as its start topology, that
    library workflow is the README's `add_end_molecules` form (`add_end_molecule` looks the species up
    by the END molecule's own name, so this hypothesis is exactly what it needs) -/
theorem library_own_name (L : Lib Mol Mg T S Out) (ref : List Char)
    (species : List (String × String × String)) (scale : S) (out : List Char) (t : T)
    (nm : List (String × Mol))
    (hload : Loads L species nm) (hsame : ∀ e ∈ nm, L.molName e.2 = e.1) :
    libraryWorkflow L ref species scale out t = libraryWorkflowOwnName L ref species scale out t := by
  have h1 := loadPairs_ok L species nm hload
  have h2 := loadMols_ok L species nm hload
  simp only [libraryWorkflow, libraryWorkflowOwnName, h1, h2]
  cases L.managerFromFiles (String.ofList ref) (species.map (·.1)) with
  | error e => rfl
  | ok m => simp only [attach_eq L _ m hsame]

/-- a library in which the end molecule of the only triple is called differently from its start
    topology (`"VTE"` vs `"E"`): the hypotheses of `cli_equals_library` hold, `add_end_molecules` would
    raise `KeyError`, `auto_map` and the by-start-name workflow succeed -/
private def libEx : Lib String (List (String × String)) Unit Unit (List (String × String)) where
  topName := fun f => if f == "vitamin_E_CG.itp" then .ok "E" else .error .IOError
  molFromFiles := fun g t => if g == "VTE_AA.gro" && t == "VTE_AA.itp" then .ok "VTE" else .error .IOError
  molName := id
  managerFromFiles := fun _ _ => .ok []
  hasSpecies := fun _ n => n == "E"
  setEnd := fun m n mol => .ok (m ++ [(n, mol)])
  align := fun m t => .ok (m, t)
  maps := fun _ m t => .ok (m, t)
  extrapolate := fun m _ => .ok m

example : Loads libEx [("vitamin_E_CG.itp", "VTE_AA.gro", "VTE_AA.itp")] [("E", "VTE")] := by
  simp [Loads, libEx]

example :
    autoMap libEx "s.gro".toList [("vitamin_E_CG.itp", "VTE_AA.gro", "VTE_AA.itp")] () none ()
      = .ok [("E", "VTE")] ∧
    libraryWorkflowOwnName libEx "s.gro".toList [("vitamin_E_CG.itp", "VTE_AA.gro", "VTE_AA.itp")] ()
      "mapped_s.gro".toList () = .error .KeyError := by
  decide

/-! ### non-vacuity -/


/-- a directory with species `A` (start `a.itp`, end `A.itp` + `A.gro`), a solvent `W` with a start
    topology only (`w.itp`), a distractor topology `x.itp` of a species not in the system, a
    force-field include `ff.itp` that is not a molecule topology (`MoleculeTop` raises `OSError`) and
    an unrelated coordinate file `z.gro`.  The model environment: -/
private def envEx : Env where
  parseTop := fun f =>
    if f == "a.itp" || f == "A.itp" then .ok "A" else if f == "w.itp" then .ok "W"
    else if f == "x.itp" then .ok "X" else .error .IOError
  loadsAfter := fun added f => (f == "a.itp" || f == "w.itp") && !added.contains f
  fromFiles := fun c t => c == "A.gro" && t == "A.itp"

private def nmEx (f : String) : String :=
  if f == "a.itp" || f == "A.itp" then "A" else if f == "w.itp" then "W" else "X"

private def topsEx : List String := ["A.itp", "ff.itp", "w.itp", "x.itp", "a.itp"]
private def coordsEx : List String := ["z.gro", "A.gro"]

private theorem parsedEx : parsed envEx topsEx = ["A.itp", "w.itp", "x.itp", "a.itp"] := by decide

/-- the hypotheses of `discovery_perm_invariant` hold for it -/
example : Unambiguous envEx [] (candTops topsEx []) (candCoords coordsEx []) nmEx := by
  have hT : candTops topsEx [] = topsEx := by simp [candTops, isKnownTop]
  have hK : candCoords coordsEx [] = coordsEx := by simp [candCoords, isKnownCoord]
  rw [hT, hK]
  refine { nodup := by decide, parse := ?_, stable := ?_, oneStart := ?_, oneEnd := ?_, oneCoord := ?_ }
  · intro f hf
    simp only [topsEx, List.mem_cons, List.not_mem_nil, or_false] at hf
    rcases hf with rfl | rfl | rfl | rfl | rfl <;> simp [envEx, nmEx]
  · intro added f hf hna
    simp [envEx, hna]
  · intro f hf g hg hlf hlg hn
    rw [parsedEx] at hf hg
    simp only [List.mem_cons, List.not_mem_nil, or_false] at hf hg
    rcases hf with rfl | rfl | rfl | rfl <;> rcases hg with rfl | rfl | rfl | rfl <;>
      first | rfl | (exfalso; revert hlf hlg hn; decide)
  · intro f hf hlf a ha b hb hla hlb hna hnb
    rw [parsedEx] at hf ha hb
    simp only [List.mem_cons, List.not_mem_nil, or_false] at hf ha hb
    rcases hf with rfl | rfl | rfl | rfl <;> rcases ha with rfl | rfl | rfl | rfl <;>
      rcases hb with rfl | rfl | rfl | rfl <;>
      first | rfl | (exfalso; revert hlf hla hlb hna hnb; decide)
  · intro f hf hlf a ha hla hna c hc c' hc' h1 h2
    simp only [coordsEx, List.mem_cons, List.not_mem_nil, or_false] at hc hc'
    rcases hc with rfl | rfl <;> rcases hc' with rfl | rfl <;>
      first | rfl | (exfalso; revert h1 h2; simp [envEx])

/-- the repaired discovery returns `A ↦ all three files`, `W ↦ start topology only`, and ignores the
    force-field include … -/
example : sortMolecules envEx true topsEx coordsEx [] true =
    .ok [("W", ⟨"w.itp", none, none⟩), ("A", ⟨"a.itp", some "A.itp", some "A.gro"⟩)] := by
  decide

/-- … whereas the code as found raises `IOError` on the force-field include (defect O-a) … -/
example : sortMolecules envEx false topsEx coordsEx [] true = .error .IOError := by
  decide

/-- … and, without it, `KeyError: 'top_AA'` on the solvent (defect D9) -/
example : sortMolecules envEx false ["A.itp", "w.itp", "x.itp", "a.itp"] coordsEx [] true
    = .error .KeyError := by
  decide

/-- a corrupt molecule topology (`ValueError`) still aborts the repaired discovery -/
example : sortMolecules { envEx with parseTop := fun f => if f == "bad.itp" then .error .ValueError
                                                        else envEx.parseTop f }
    true ("bad.itp" :: topsEx) coordsEx [] true = .error .ValueError := by
  decide

/-- `--exclude W` and the "all three files" rule: only `A` reaches `auto_map`, after the explicit one -/
example : mainMolecules [("b.itp", "B.gro", "B.itp")]
    (some [("W", ⟨"w.itp", none, none⟩), ("A", ⟨"a.itp", some "A.itp", some "A.gro"⟩)]) (some ["W"])
    = [("b.itp", "B.gro", "B.itp"), ("a.itp", "A.gro", "A.itp")] := by
  decide

example : String.ofList (outPath "run/conf.gro".toList none) = "run/mapped_conf.gro" := by decide

end C20
