import GMProofs.Lemmas.ManagerL
/-
  C05 — System extrapolation conserves molecules, order, numbering, box and title.

  Model: `GMModel.Manager` (`Mgr.extrapolate` = `Manager.extrapolate_system`).  The exchange map is a
  parameter (`Mgr.EMap`; its laws are C01–C04), the molecule list is what `System.__iter__` yields
  (C11/C12), the result is the list of abstract writer operations (their bytes are C13).
  Only property theorems and their non-vacuity examples live here.
-/

namespace C05

open Mgr

variable {C P B : Type}

/-- the pre-flight checks of `extrapolate_system` pass: something is complete, and every complete
    species has its exchange map -/
def Ready (corr : Corr C P) : Prop :=
  completeCorrespondence corr ≠ [] ∧ ∀ p ∈ completeCorrespondence corr, p.2.emap.isSome = true

private theorem ready_tests {corr : Corr C P} (h : Ready corr) :
    (completeCorrespondence corr).isEmpty = false ∧
    (completeCorrespondence corr).any (fun p => p.2.emap.isNone) = false := by
  constructor
  · cases hc : completeCorrespondence corr with
    | nil => exact absurd hc h.1
    | cons _ _ => rfl
  · rw [List.any_eq_false]
    intro p hp
    have := h.2 p hp
    cases he : p.2.emap <;> simp_all

/-- **records**: the file receives `open, comment, box`, then — for the input molecules in FILE ORDER —
    the atoms of `map species mol` for every molecule whose species has a complete correspondence and
    nothing for the others (`Mgr.mapped`), numbered consecutively from 1 across molecules, then
    `close`; no exception. -/
theorem extrapolate_records (corr : Corr C P) (sys : List (MolInst C)) (title : String) (box : B)
    (v : Bool) (hready : Ready corr)
    (hok : ∀ mol ∈ sys, MolOk (completeCorrespondence corr) v mol) :
    extrapolate corr sys title box true =
      ⟨.openW :: .comment title :: .box box ::
        ((number 1 (sys.flatMap (mapped (completeCorrespondence corr)))).map .line ++ [.close]),
       none⟩ := by
  obtain ⟨h1, h2⟩ := ready_tests hready
  obtain ⟨hr, he⟩ := loop_ok (completeCorrespondence corr) v sys ⟨[], 1, none⟩ hok (Or.inl rfl)
  simp only [extrapolate, h1, h2, Bool.not_true, Bool.false_eq_true, if_false, hr, he,
    List.nil_append]

/-- … and the atom numbers written are exactly `1, 2, …, n` -/
theorem extrapolate_numbering (complete : Corr C P) (sys : List (MolInst C)) :
    (number 1 (sys.flatMap (mapped complete))).map (·.number)
      = List.range' 1 (sys.flatMap (mapped complete)).length :=
  number_numbers 1 _

/-- … while residue number, residue name, atom name, velocity flag and coordinates are those of
    the mapped atoms, untouched -/
theorem extrapolate_payload (complete : Corr C P) (sys : List (MolInst C)) :
    (number 1 (sys.flatMap (mapped complete))).map
        (fun r => (r.resid, r.resname, r.name, r.hasVel, r.pos))
      = (sys.flatMap (mapped complete)).map
        (fun x => (x.1, x.2.resname, x.2.name, x.2.hasVel, x.2.pos)) :=
  number_fields 1 _

/-- nothing is written for a species that is not a key of the complete correspondence (no end
    molecule attached, or no topology loaded at all) -/
theorem extrapolate_skips_incomplete (complete : Corr C P) (mol : MolInst C)
    (h : ∀ p ∈ complete, p.1 ≠ mol.species) : mapped complete mol = [] := by
  apply mapped_of_lookup_none
  induction complete with
  | nil => rfl
  | cons p ps ih =>
    have hp : p.1 ≠ mol.species := h p (List.mem_cons_self ..)
    have hne : (mol.species == p.1) = false := by
      simp only [beq_eq_false_iff_ne, ne_eq]
      exact fun e => hp e.symm
    obtain ⟨k, a⟩ := p
    simp only [List.lookup, hne]
    exact ih (fun q hq => h q (List.mem_cons_of_mem _ hq))

/-- **count**: the number of atom lines is the sum, over the input molecules of complete species,
    of the size of the species' target (`size`), provided the map returns a molecule of that size -/
theorem extrapolate_count (complete : Corr C P) (sys : List (MolInst C)) (v : Bool)
    (size : String → Nat)
    (hok : ∀ mol ∈ sys, MolOk complete v mol)
    (hsize : ∀ mol ∈ sys, ∀ al m, complete.lookup mol.species = some al → al.emap = some m →
      ((m.restore mol).map List.length).sum = size mol.species) :
    (number 1 (sys.flatMap (mapped complete))).length =
      ((sys.filter (fun mol => (complete.lookup mol.species).isSome)).map
        (fun mol => size mol.species)).sum := by
  rw [number_length]
  induction sys with
  | nil => rfl
  | cons mol rest ih =>
    have ih' := ih (fun m hm => hok m (List.mem_cons_of_mem _ hm))
      (fun m hm => hsize m (List.mem_cons_of_mem _ hm))
    simp only [List.flatMap_cons, List.length_append, ih']
    cases hl : complete.lookup mol.species with
    | none => simp [hl, mapped_of_lookup_none hl]
    | some al =>
      obtain ⟨m, hm, _, _, hlen, _⟩ := hok mol (List.mem_cons_self ..) al hl
      have hs := hsize mol (List.mem_cons_self ..) al m hl hm
      have : mapped complete mol = assignResids mol.resids (m.restore mol) := by
        simp [mapped, hl, hm]
      simp [hl, this, assignResids_length _ _ hlen, hs]

/-- **residue numbers**: when both resolutions of the species have the same number of residues, the
    written molecule consists of exactly the atoms of the restored target, in order, and every atom
    of its `i`-th residue carries the `i`-th residue number of the INPUT molecule -/
theorem extrapolate_resids (resids : List Int) (rs : List (List (TAtom P)))
    (h : resids.length = rs.length) :
    (assignResids resids rs).map (·.2) = rs.flatten ∧
    (assignResids resids rs).map (·.1) =
      (resids.zip rs).flatMap (fun p => List.replicate p.2.length p.1) := by
  induction resids generalizing rs with
  | nil =>
    cases rs with
    | nil => simp [assignResids]
    | cons _ _ => simp at h
  | cons r rest ih =>
    cases rs with
    | nil => simp at h
    | cons a as =>
      have h' : rest.length = as.length := by simpa using h
      obtain ⟨i1, i2⟩ := ih as h'
      have hfst : ∀ l : List (TAtom P),
          (l.map (fun x => (r, x))).map (·.1) = List.replicate l.length r := by
        intro l
        induction l with
        | nil => rfl
        | cons x xs ihx => simpa [List.replicate_succ, Function.comp_def] using ihx
      rw [assignResids_cons]
      constructor
      · simp [i1, Function.comp_def]
      · simp only [List.map_append, i2, List.zip_cons_cons, List.flatMap_cons, hfst]

/-- and it IS the map's result that is written for a molecule of a complete species -/
theorem extrapolate_molecule (complete : Corr C P) (mol : MolInst C) (al : Align C P) (m : EMap C P)
    (hl : complete.lookup mol.species = some al) (hm : al.emap = some m) :
    mapped complete mol = assignResids mol.resids (m.restore mol) := by
  simp [mapped, hl, hm]

/-- **residue-count mismatch**: if, after a prefix that maps without error, a molecule's species is
    complete but its two resolutions have a different number of residues, `resids=` raises
    `ValueError`; the file then holds the header, the lines of the prefix, and is closed. -/
theorem extrapolate_resids_mismatch (corr : Corr C P) (pre post : List (MolInst C)) (mol : MolInst C)
    (title : String) (box : B) (v : Bool) (al : Align C P) (m : EMap C P)
    (hready : Ready corr)
    (hpre : ∀ x ∈ pre, MolOk (completeCorrespondence corr) v x)
    (hl : (completeCorrespondence corr).lookup mol.species = some al) (hm : al.emap = some m)
    (hacc : m.accepts mol = true) (hne : mol.resids ≠ [])
    (hlen : mol.resids.length ≠ (m.restore mol).length) :
    extrapolate corr (pre ++ mol :: post) title box true =
      ⟨.openW :: .comment title :: .box box ::
        ((number 1 (pre.flatMap (mapped (completeCorrespondence corr)))).map .line ++ [.close]),
       some .ValueError⟩ := by
  obtain ⟨h1, h2⟩ := ready_tests hready
  obtain ⟨vel', _, heq⟩ :=
    loop_prefix_ok (completeCorrespondence corr) v pre ⟨[], 1, none⟩ (mol :: post) hpre (Or.inl rfl)
  have h3 : mol.resids.isEmpty = false := by
    cases h : mol.resids with
    | nil => exact absurd h hne
    | cons _ _ => rfl
  have happly : applyMap m mol = .error .ValueError := by
    simp [applyMap, hacc, h3, hlen]
  simp only [extrapolate, h1, h2, Bool.not_true, Bool.false_eq_true, if_false, heq, loop, hl, hm,
    happly, List.nil_append]

/-- **header**: whenever the pre-flight checks pass, the operations performed on the output start
    with `open`, the INPUT's title line, the INPUT's box — before any atom line — and end with `close`,
    whatever happens in between (including an exception half way). -/
theorem extrapolate_header (corr : Corr C P) (sys : List (MolInst C)) (title : String) (box : B)
    (hready : Ready corr) :
    ∃ lines : List (GroRec P),
      (extrapolate corr sys title box true).ops =
        .openW :: .comment title :: .box box :: (lines.map .line ++ [.close]) := by
  obtain ⟨h1, h2⟩ := ready_tests hready
  exact ⟨(loop (completeCorrespondence corr) ⟨[], 1, none⟩ sys).1.recs,
    by simp only [extrapolate, h1, h2, Bool.not_true, Bool.false_eq_true, if_false]⟩

/-- the title line that reaches the file is the input's first line, unchanged: the reader keeps the
    line terminator (`comment_line = t ++ "\n"`), the `comment` setter strips it, the writer adds it
    back — also for an empty title (`t = []`). -/
theorem title_roundtrip (t : List Char) (hlast : t.getLast? ≠ some '\n') :
    writtenTitle (t ++ ['\n']) = some (t ++ ['\n']) := by
  have h : (t.getLast? == some '\n') = false := by simpa using hlast
  simp [writtenTitle, h]

/-- **pre-flight**: if no species is complete, or some complete species has no exchange map, the
    call raises `SystemError` and performs NO operation on the output — the file is not even opened
    (whatever the output name). -/
theorem extrapolate_preflight (corr : Corr C P) (sys : List (MolInst C)) (title : String) (box : B)
    (extOk : Bool)
    (h : completeCorrespondence corr = [] ∨
         ∃ p ∈ completeCorrespondence corr, p.2.emap = none) :
    extrapolate corr sys title box extOk = ⟨[], some .SystemError⟩ := by
  rcases h with h | ⟨p, hp, hnone⟩
  · simp [extrapolate, h]
  · have hany : (completeCorrespondence corr).any (fun p => p.2.emap.isNone) = true := by
      rw [List.any_eq_true]
      exact ⟨p, hp, by simp [hnone]⟩
    by_cases he : (completeCorrespondence corr).isEmpty = true
    · simp [extrapolate, he]
    · simp [extrapolate, he, hany]

/-- an output name without a registered coordinate extension: `ValueError`, nothing opened -/
theorem extrapolate_bad_extension (corr : Corr C P) (sys : List (MolInst C)) (title : String)
    (box : B) (hready : Ready corr) :
    extrapolate corr sys title box false = ⟨[], some .ValueError⟩ := by
  obtain ⟨h1, h2⟩ := ready_tests hready
  simp [extrapolate, h1, h2]

/-! ### non-vacuity: a 3-species interleaved system with an unmapped species and a second residue

  species `A` (two residues in both resolutions, target 2+1 atoms), `B` (target 2 atoms), `U` loaded
  but without end molecule; file order `A B U A U B`.  Configurations are `Nat`s, positions `Nat`s. -/

private def mA : EMap Nat Nat :=
  ⟨fun _ => true, fun mol => [[⟨"RA", "C1", 1, false, 10 * mol.conf⟩, ⟨"RA", "H2", 2, false, 10 * mol.conf + 1⟩],
                              [⟨"RB", "C3", 3, false, 10 * mol.conf + 2⟩]]⟩
private def mB : EMap Nat Nat :=
  ⟨fun _ => true, fun mol => [[⟨"RC", "N1", 1, false, 10 * mol.conf⟩, ⟨"RC", "O2", 2, false, 10 * mol.conf + 1⟩]]⟩
private def corr3 : Corr Nat Nat :=
  [("A", ⟨true, true, some mA⟩), ("U", ⟨true, false, none⟩), ("B", ⟨true, true, some mB⟩)]
private def sys3 : List (MolInst Nat) :=
  [⟨"A", [1, 2], 1⟩, ⟨"B", [3], 2⟩, ⟨"U", [4], 3⟩, ⟨"A", [5, 6], 4⟩, ⟨"U", [7], 5⟩, ⟨"B", [9], 6⟩]

private theorem complete3 :
    completeCorrespondence corr3 = [("A", ⟨true, true, some mA⟩), ("B", ⟨true, true, some mB⟩)] := by
  simp [completeCorrespondence, corr3]

/-- the hypotheses of `extrapolate_records` hold for this system -/
example : Ready corr3 ∧ ∀ mol ∈ sys3, MolOk (completeCorrespondence corr3) false mol := by
  unfold Ready
  rw [complete3]
  refine ⟨⟨by simp, by simp⟩, ?_⟩
  intro mol hmol
  simp only [sys3, List.mem_cons, List.not_mem_nil, or_false] at hmol
  rcases hmol with rfl | rfl | rfl | rfl | rfl | rfl <;>
    simp [MolOk, List.lookup, mA, mB]

/-- and the run writes 10 atoms numbered 1…10: `A`(3) `B`(2) — `A`(3) — `B`(2), nothing for `U`,
    with the input residue numbers 1 1 2 | 3 3 | 5 5 6 | 9 9 -/
example :
    ((extrapolate (B := Unit) corr3 sys3 "title\n" () true).ops.filterMap
        (fun o => match o with | .line r => some (r.number, r.resid, r.name) | _ => none))
      = [(1, 1, "C1"), (2, 1, "H2"), (3, 2, "C3"), (4, 3, "N1"), (5, 3, "O2"),
         (6, 5, "C1"), (7, 5, "H2"), (8, 6, "C3"), (9, 9, "N1"), (10, 9, "O2")]
    ∧ (extrapolate (B := Unit) corr3 sys3 "title\n" () true).err = none := by
  simp [extrapolate, complete3, sys3, loop, List.lookup, applyMap, mA, mB, assignResids, writeLines,
    velOk, mkRec]

/-- the pre-flight hypothesis is met by the same system once `B`'s map is missing -/
example : ∃ p ∈ completeCorrespondence
      ([("A", ⟨true, true, some mA⟩), ("B", ⟨true, true, none⟩)] : Corr Nat Nat), p.2.emap = none :=
  ⟨("B", ⟨true, true, none⟩), by simp [completeCorrespondence], rfl⟩

end C05
