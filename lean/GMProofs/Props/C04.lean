import GMProofs.Lemmas.HeapGeoLink
import GMProofs.Props.C01
import GMProofs.Props.C03
/-
  C04 — Applying an exchange map is pure, history-independent and species-checked.

  Model: `GMModel.EMapHeap` (`build` = `ExchangeMap.__init__`, `call` = `__call__`, `erun` = an
  operation list of calls, rejected calls and heap operations) on the object heap of
  `GMModel.Heap`.  The numeric mathematics — frame of three points, projection, restoration,
  nearest anchor — is the PARAMETER `G : Geo α F P`; every theorem below holds for ALL such
  functions (C01–C03 are about the concrete ones).
  Only property theorems and their non-vacuity examples live here.
-/
open GMHeap

namespace C04

variable {α F P : Type}

/-- SPECIES CHECK FIRST.  A non-molecule, or a molecule that `Molecule.__eq__` tells apart from the
    reference, is rejected with TypeError and NOTHING changes: not the heap, not the frame table
    (`_calculate_refsystems` runs only after the check), not the construction data. -/
theorem bad_call_is_noop (G : Geo α F P) (h : Heap α) (E : EMap F P) (arg : Option Obj)
    (hbad : (∀ m, arg ≠ some (.mol m)) ∨ ∃ m, arg = some (.mol m) ∧ molEq h E.ref m = .ok false) :
    call G h E arg = ⟨h, E, none, some .typeError⟩ :=
  call_rejected G h E arg hbad

/-- FRAME CONDITION.  Whatever the argument and whatever the outcome, a call
    (1) frees nothing, (2) leaves every existing cell literally unchanged except the topology atoms
    of the TARGET, (3) in which only the residue number may be rewritten (the documented sharing:
    `new_mol.resids = …` on a shallow copy of the target), and (4) changes no existing AtomGro cell at
    all — no coordinate, velocity, atom number, residue number or label of the argument, of the
    construction molecules, or of any earlier result. -/
theorem call_frame_condition (G : Geo α F P) (h : Heap α) (E : EMap F P) (arg : Option Obj) :
    h.size ≤ (call G h E arg).heap.size ∧
    (∀ a, a < h.size → a ∉ (Obj.mol E.tgt).topCells h → (call G h E arg).heap.get? a = h.get? a) ∧
    (∀ a tc, h.top? a = some tc →
      ∃ tc', (call G h E arg).heap.top? a = some tc' ∧ tc' = { tc with resid := tc'.resid }) ∧
    (∀ a, a < h.size → (call G h E arg).heap.gro? a = h.gro? a) := by
  have pack : ∀ h' : Heap α,
      Frame (Rc : Rel α) (fun a => a ∈ (Obj.mol E.tgt).topCells h ∨ h.size ≤ a) h h' ∧
        (∀ a, a < h.size → h'.gro? a = h.gro? a) →
      h.size ≤ h'.size ∧
      (∀ a, a < h.size → a ∉ (Obj.mol E.tgt).topCells h → h'.get? a = h.get? a) ∧
      (∀ a tc, h.top? a = some tc → ∃ tc', h'.top? a = some tc' ∧ tc' = { tc with resid := tc'.resid }) ∧
      (∀ a, a < h.size → h'.gro? a = h.gro? a) := by
    intro h' ⟨fr, hg⟩
    refine ⟨fr.size_le, ?_, ?_, hg⟩
    · intro a ha hn
      exact fr.same a ha (fun w => w.elim hn (fun hle => by omega))
    · intro a tc htc
      obtain ⟨tc', h1, h2⟩ := fr.top?_isSome htc
      exact ⟨tc', h1, h2⟩
  have triv := pack h ⟨Frame.refl _ _ _, fun _ _ => rfl⟩
  cases arg with
  | none => exact triv
  | some o =>
    cases o with
    | res r => exact triv
    | agro g => exact triv
    | atom t g => exact triv
    | mol m =>
      simp only [call]
      cases molEq h E.ref m with
      | error e => exact triv
      | ok b =>
        cases b with
        | false => exact triv
        | true =>
          simp only
          rcases calcRefs G h m E.table with ⟨tb, _ | er⟩
          · exact pack _ (finishCall_frame G h { E with table := tb } m)
          · exact triv

/-- HISTORY INDEPENDENCE.  The frame table is the only state a call carries over from earlier calls.
    Whatever it contains — whichever molecules were mapped before, in whichever order — the call
    yields the same heap, the same returned molecule and the same error, provided every anchor the
    construction assigned is an anchor of this argument (`Covered`; see `covered_of_anchors`). -/
theorem call_history_independent (G : Geo α F P) (h : Heap α) (E : EMap F P) (arg : Option Obj)
    (T1 T2 : List (Nat × F)) (hcov : ∀ m, arg = some (.mol m) → Covered G h m E.equiv) :
    (call G h { E with table := T1 } arg).heap = (call G h { E with table := T2 } arg).heap ∧
    (call G h { E with table := T1 } arg).ret = (call G h { E with table := T2 } arg).ret ∧
    (call G h { E with table := T1 } arg).err = (call G h { E with table := T2 } arg).err :=
  call_table_irrelevant G h E arg T1 T2 hcov

/-- the hypothesis `Covered`, in terms of topology: it holds when every anchor the construction
    assigned is an atom with at least two bonds in the ARGUMENT's topology (and the argument's frames
    can be computed).  This is what the species check is meant to guarantee; `Molecule.__eq__` compares
    name, length and per atom (resname, name, index, topology residue number) — NOT the bonds. -/
theorem covered_of_anchors (G : Geo α F P) (h : Heap α) (m : Nat) (equiv : List (Nat × Nat))
    (hok : (calcRefs G h m []).2 = none)
    (hanch : ∀ idx a, equiv.lookup idx = some a → a ∈ anchorKeys h m) : Covered G h m equiv :=
  fun idx a hl => (pureTable_keys G h m hok a).mpr (hanch idx a hl)

/-- and the construction only ever assigns anchors of the REFERENCE's topology: so an argument whose
    anchor set (bond graph) is the reference's is covered -/
theorem anchors_of_reference (G : Geo α F P) (h : Heap α) (ref tgt : Nat) (E : EMap F P)
    (hok : build G h ref tgt = (E, none)) :
    E.ref = ref ∧ E.tgt = tgt ∧ ∀ idx a, E.equiv.lookup idx = some a → a ∈ anchorKeys h ref :=
  build_equiv_anchors G h ref tgt E hok

/-- `call` REFINES A PURE FUNCTION.  If the call returns normally, the returned molecule `nm`
    * lives in cells allocated by this call and shares the target's topology atoms (`nv.tops = tv.tops`),
    * has, atom by atom in the target's order, the target's AtomGro record (`tcs`: residue name, atom
      name, atom number, velocity) with
        position      := `restore (frame of the anchor, computed from the ARGUMENT alone) (projection)`
                         — `purePos` over `pureTable G h m`, the table obtained from the EMPTY table,
        residue number := the argument's residue number of the corresponding residue (`vals`).
    Nothing else enters: not the frame table, not the coordinates of the construction molecules. -/
theorem call_refines_pure (G : Geo α F P) (h : Heap α) (E : EMap F P) (m : Nat) (av : MolView)
    (l0 : List Int) (hav : molView h m = some av) (hl0 : residsOf h av.parts = some l0)
    (hargold : ∀ g ∈ av.parts.flatten, g < h.size) (hcov : Covered G h m E.equiv)
    (hok : (call G h E (some (.mol m))).err = none) :
    ∃ nm nv tv tcs ttcs poss vals,
      (call G h E (some (.mol m))).ret = some nm ∧
      molView h E.tgt = some tv ∧ readGros h tv.gros = some tcs ∧ readTops h tv.tops = some ttcs ∧
      ttcs.map (fun tc => purePos G E.equiv E.tcoords (pureTable G h m) tc.index) = poss.map some ∧
      perAtom l0 (eachOf 0 tv.parts) = some vals ∧
      molView (call G h E (some (.mol m))).heap nm = some nv ∧ nv.tops = tv.tops ∧
      (∀ g ∈ nv.gros, h.size ≤ g) ∧ poss.length = tcs.length ∧ vals.length = tcs.length ∧
      readGros (call G h E (some (.mol m))).heap nv.gros =
        some (List.zipWith (fun (n : Int) (g : AtomGroC α) => ({ g with resid := n } : AtomGroC α)) vals
          (List.zipWith (fun (c : AtomGroC α) (p : V3 α) => ({ c with pos := p } : AtomGroC α)) tcs poss)) :=
  call_refines_pure_core G h E m av l0 hav hl0 hargold hcov hok

/-- RESULT LABELS, read off `call_refines_pure`: the returned molecule has the target's atom count
    and order, the target's residue names, atom names (and atom numbers, velocities), and the
    argument's residue numbers. -/
theorem result_labels (vals : List Int) (tcs : List (AtomGroC α)) (poss : List (V3 α))
    (hp : poss.length = tcs.length) (hv : vals.length = tcs.length) :
    let res := List.zipWith (fun (n : Int) (g : AtomGroC α) => ({ g with resid := n } : AtomGroC α)) vals
      (List.zipWith (fun (c : AtomGroC α) (p : V3 α) => ({ c with pos := p } : AtomGroC α)) tcs poss)
    res.length = tcs.length ∧
    res.map (fun c => (c.resname, c.name, c.atomid, c.vel)) =
      tcs.map (fun c => (c.resname, c.name, c.atomid, c.vel)) ∧
    res.map (·.resid) = vals ∧ res.map (·.pos) = poss := by
  intro res
  induction tcs generalizing vals poss with
  | nil =>
    cases vals with
    | nil => cases poss with
      | nil => exact ⟨rfl, rfl, rfl, rfl⟩
      | cons p ps => simp at hp
    | cons v vs => simp at hv
  | cons c cs ih =>
    cases vals with
    | nil => simp at hv
    | cons v vs =>
      cases poss with
      | nil => simp at hp
      | cons p ps =>
        simp only [List.length_cons, Nat.add_right_cancel_iff] at hp hv
        obtain ⟨a1, a2, a3, a4⟩ := ih vs ps hp hv
        refine ⟨?_, ?_, ?_, ?_⟩
        · simp only [res, List.zipWith_cons_cons, List.length_cons]; simpa using a1
        · simp only [res, List.zipWith_cons_cons, List.map_cons]; rw [a2]
        · simp only [res, List.zipWith_cons_cons, List.map_cons]; rw [a3]
        · simp only [res, List.zipWith_cons_cons, List.map_cons]; rw [a4]

section histories
variable [Scalar α]

/-- over ANY operation list (calls, rejected calls, arbitrary heap operations) the construction data of
    the map — reference, target, equivalences, projections — never changes; only the frame table does -/
theorem construction_data_constant (G : Geo α F P) (s : EState α F P) (ops : List (EOp α)) :
    (erun G s ops).emap.ref = s.emap.ref ∧ (erun G s ops).emap.tgt = s.emap.tgt ∧
    (erun G s ops).emap.equiv = s.emap.equiv ∧ (erun G s ops).emap.tcoords = s.emap.tcoords := by
  have callc : ∀ (h : Heap α) (E : EMap F P) (arg : Option Obj),
      (call G h E arg).emap.ref = E.ref ∧ (call G h E arg).emap.tgt = E.tgt ∧
      (call G h E arg).emap.equiv = E.equiv ∧ (call G h E arg).emap.tcoords = E.tcoords := by
    intro h E arg
    have fin : ∀ (E1 : EMap F P) (m : Nat),
        (finishCall G h E1 m).emap = E1 := by
      intro E1 m
      simp only [finishCall]
      cases h.mol? E1.tgt with
      | none => rfl
      | some p =>
        obtain ⟨t, rs, e⟩ := p
        simp only
        cases molInit h t rs with
        | error e => rfl
        | ok q =>
          obtain ⟨h1, nm⟩ := q
          simp only
          cases molView h1 nm with
          | none => rfl
          | some nv =>
            cases molView h1 m with
            | none => rfl
            | some av =>
              simp only
              split
              · rfl
              · rcases restoreLoop G E1 h1 (nv.tops.zip nv.gros) with ⟨h2, _ | e⟩
                · simp only
                  cases residsOf h2 av.parts with
                  | none => rfl
                  | some l =>
                    simp only
                    rcases setResidsList h2 nm l with ⟨h3, _ | e⟩ <;> rfl
                · rfl
    cases arg with
    | none => exact ⟨rfl, rfl, rfl, rfl⟩
    | some o =>
      cases o with
      | res r => exact ⟨rfl, rfl, rfl, rfl⟩
      | agro g => exact ⟨rfl, rfl, rfl, rfl⟩
      | atom t g => exact ⟨rfl, rfl, rfl, rfl⟩
      | mol m =>
        simp only [call]
        cases molEq h E.ref m with
        | error e => exact ⟨rfl, rfl, rfl, rfl⟩
        | ok b =>
          cases b with
          | false => exact ⟨rfl, rfl, rfl, rfl⟩
          | true =>
            simp only
            rcases calcRefs G h m E.table with ⟨tb, _ | er⟩
            · simp only [fin]; exact ⟨trivial, trivial, trivial, trivial⟩
            · exact ⟨rfl, rfl, rfl, rfl⟩
  induction ops generalizing s with
  | nil => exact ⟨rfl, rfl, rfl, rfl⟩
  | cons op ops ih =>
    simp only [erun]
    obtain ⟨a1, a2, a3, a4⟩ := ih (estep G s op).1
    have st : (estep G s op).1.emap.ref = s.emap.ref ∧ (estep G s op).1.emap.tgt = s.emap.tgt ∧
        (estep G s op).1.emap.equiv = s.emap.equiv ∧ (estep G s op).1.emap.tcoords = s.emap.tcoords := by
      cases op with
      | call i =>
        simp only [estep]
        cases s.env[i]? with
        | none => exact ⟨rfl, rfl, rfl, rfl⟩
        | some o => exact callc _ _ _
      | callOther => exact callc _ _ _
      | op o => exact ⟨rfl, rfl, rfl, rfl⟩
    exact ⟨a1.trans st.1, a2.trans st.2.1, a3.trans st.2.2.1, a4.trans st.2.2.2⟩

/-- hence, in EVERY reachable state — after any history of accepted calls, rejected calls and heap
    operations — a call is the pure function of `call_refines_pure` of the CONSTRUCTION-TIME
    equivalences and projections (`s0.emap.equiv`, `s0.emap.tcoords`) and of the argument -/
theorem call_refines_pure_reachable (G : Geo α F P) (s0 : EState α F P) (ops : List (EOp α)) (m : Nat)
    (av : MolView) (l0 : List Int)
    (hav : molView (erun G s0 ops).heap m = some av)
    (hl0 : residsOf (erun G s0 ops).heap av.parts = some l0)
    (hargold : ∀ g ∈ av.parts.flatten, g < (erun G s0 ops).heap.size)
    (hcov : Covered G (erun G s0 ops).heap m s0.emap.equiv)
    (hok : (call G (erun G s0 ops).heap (erun G s0 ops).emap (some (.mol m))).err = none) :
    let s := erun G s0 ops
    ∃ nm nv tv tcs ttcs poss vals,
      (call G s.heap s.emap (some (.mol m))).ret = some nm ∧
      molView s.heap s0.emap.tgt = some tv ∧ readGros s.heap tv.gros = some tcs ∧
      readTops s.heap tv.tops = some ttcs ∧
      ttcs.map (fun tc => purePos G s0.emap.equiv s0.emap.tcoords (pureTable G s.heap m) tc.index) =
        poss.map some ∧
      perAtom l0 (eachOf 0 tv.parts) = some vals ∧
      molView (call G s.heap s.emap (some (.mol m))).heap nm = some nv ∧ nv.tops = tv.tops ∧
      (∀ g ∈ nv.gros, s.heap.size ≤ g) ∧ poss.length = tcs.length ∧ vals.length = tcs.length ∧
      readGros (call G s.heap s.emap (some (.mol m))).heap nv.gros =
        some (List.zipWith (fun (n : Int) (g : AtomGroC α) => ({ g with resid := n } : AtomGroC α)) vals
          (List.zipWith (fun (c : AtomGroC α) (p : V3 α) => ({ c with pos := p } : AtomGroC α)) tcs poss)) := by
  intro s
  obtain ⟨c1, c2, c3, c4⟩ := construction_data_constant G s0 ops
  have := call_refines_pure G s.heap s.emap m av l0 hav hl0 hargold (by rw [c3]; exact hcov) hok
  rw [c2, c3, c4] at this
  exact this

/-- … and of the CONSTRUCTION-TIME labels of the target: over any history of calls (accepted or
    rejected) and coordinate assignments / copies / views (`CoordOp`: move, move_to, rotate,
    atoms_positions=, position= through a view, copy, deep_copy, hand-outs, views — on the construction
    molecules, the arguments, earlier results, anything), the target keeps its structure, every AtomGro
    of it keeps residue number, residue name, atom name, atom number and velocity (`groLabels`), every
    AtomTop keeps name, residue name, index and bonds (`topLabels`); only positions and the
    topology-side residue number move.  So the `tcs`, `ttcs` that `call_refines_pure_reachable` reads
    in the current state carry the construction-time labels and indices. -/
theorem target_labels_constant (G : Geo α F P) (s0 : EState α F P) (ops : List (EOp α))
    (hops : ∀ op ∈ ops, CoordOp op) (tv : MolView) (tcs0 : List (AtomGroC α)) (ttcs0 : List AtomTopC)
    (hv : molView s0.heap s0.emap.tgt = some tv) (hg : readGros s0.heap tv.gros = some tcs0)
    (ht : readTops s0.heap tv.tops = some ttcs0) :
    molView (erun G s0 ops).heap s0.emap.tgt = some tv ∧
    ∃ tcs ttcs, readGros (erun G s0 ops).heap tv.gros = some tcs ∧
      tcs.map groLabels = tcs0.map groLabels ∧
      readTops (erun G s0 ops).heap tv.tops = some ttcs ∧ ttcs.map topLabels = ttcs0.map topLabels := by
  have e := evolves_erun G s0 ops hops
  obtain ⟨tcs, h1, h2⟩ := e.readGros hg
  obtain ⟨ttcs, h3, h4⟩ := e.readTops ht
  exact ⟨e.molView hv, tcs, ttcs, h1, h2, h3, h4⟩

end histories

/-! ### composition with C01–C03: the concrete geometry

`concreteGeo s` (`GMModel/EMapGeo.lean`) instantiates the parameter `G` with `calcule_base`,
`_proyect_point`, `_restore_point` and `_find_closest_ref` of the numeric model
`GMModel/ExchangeMap.lean`; it is what `gmdriver` runs for the C04 correspondence.
`NumWF h m v cs tcs`: `m` is a well-formed molecule (`MolWF`) with AtomGro records `cs`, readable
topology atoms `tcs` whose `index` is their position and whose bond list is sorted. -/

section concrete

/-- (a) THE FRAME TABLE IS `refsystemsGeneral`.  For a `NumWF` molecule of ≥ 3 atoms on which
    `_calculate_refsystems` does not raise, the table the heap model computes from the empty table and
    `refsystemsGeneral positions bonds` of the list model are the same finite map (same keys — the atoms
    with ≥ 2 bonds — and the same frame under every key; only the list order differs). -/
theorem pureTable_is_refsystems {α : Type} [Scalar α] (s : α) {h : Heap α} {m : Nat} {v : MolView}
    {cs : List (AtomGroC α)} {tcs : List AtomTopC} (nw : NumWF h m v cs tcs) (h3 : 3 ≤ cs.length)
    (hok : (calcRefs (concreteGeo s) h m []).2 = none) :
    ∃ tab, refsystemsGeneral (cs.map (·.pos)) (tcs.map (·.bonds)) = some tab ∧
      ∀ a, (pureTable (concreteGeo s) h m).lookup a = lookupFrame tab a :=
  GMHeap.pureTable_is_refsystems s nw h3 hok

/-- (b) A CALL IS `EMap.apply`.  Under the hypotheses of `call_refines_pure` (+ `Covered`), the
    positions of the molecule returned by `call (concreteGeo s) h E (some (.mol m))` are exactly
    `EMap.apply ⟨equiv, proj, s⟩ bonds argPos []` of `GMModel/ExchangeMap.lean`, with `equiv` / `proj`
    the map's stored tables read in target-atom order, `bonds` / `argPos` the argument's. -/
theorem call_is_exchange_apply {α : Type} [Scalar α] (s : α) (h : Heap α)
    (E : GMHeap.EMap (_root_.Frame α) (V3 α)) (m : Nat)
    {av : MolView} {acs : List (AtomGroC α)} {atcs : List AtomTopC} (nw : NumWF h m av acs atcs)
    (h3 : 3 ≤ acs.length) (l0 : List Int) (hl0 : residsOf h av.parts = some l0)
    (hcov : Covered (concreteGeo s) h m E.equiv)
    (hok : (call (concreteGeo s) h E (some (.mol m))).err = none) :
    ∃ nm nv cs' tv ttcs equivL projL,
      (call (concreteGeo s) h E (some (.mol m))).ret = some nm ∧
      molView (call (concreteGeo s) h E (some (.mol m))).heap nm = some nv ∧
      readGros (call (concreteGeo s) h E (some (.mol m))).heap nv.gros = some cs' ∧
      molView h E.tgt = some tv ∧ readTops h tv.tops = some ttcs ∧
      ttcs.map (fun tc => E.equiv.lookup tc.index) = equivL.map some ∧
      ttcs.map (fun tc => E.tcoords.lookup tc.index) = projL.map some ∧
      equivL.length = projL.length ∧
      _root_.EMap.apply (_root_.EMap.mk equivL projL s) (atcs.map (·.bonds)) (acs.map (·.pos)) [] =
        some (cs'.map (·.pos)) :=
  call_is_exchange_apply_aux s h E m nw h3 l0 hl0 hcov hok

/-- construction on the heap is `EMap.build` of the list model (tables read in target-atom order) -/
theorem build_is_exchange_build (s : ℝ) (h : Heap ℝ) (ref tgt : Nat)
    (E : GMHeap.EMap (_root_.Frame ℝ) (V3 ℝ)) (hb : build (concreteGeo s) h ref tgt = (E, none))
    {rv : MolView} {rcs : List (AtomGroC ℝ)} {rtcs : List AtomTopC} (nwr : NumWF h ref rv rcs rtcs)
    (h3 : 3 ≤ rcs.length)
    {tv : MolView} {tcs : List (AtomGroC ℝ)} {ttcs : List AtomTopC} (nwt : NumWF h tgt tv tcs ttcs) :
    ∃ m : _root_.EMap ℝ,
      _root_.EMap.build (rcs.map (·.pos)) (rtcs.map (·.bonds)) [] (tcs.map (·.pos)) s = some m ∧
      ttcs.map (fun tc => E.equiv.lookup tc.index) = m.equiv.map some ∧
      ttcs.map (fun tc => E.tcoords.lookup tc.index) = m.proj.map some ∧ m.scale = s :=
  GMHeap.build_is_exchange_build s h ref tgt E hb nwr h3 nwt

/-- (c) ANCHOR-AND-SCALE ON THE HEAP (C04 ∘ C01/C03).  A map is constructed on the heap
    (`build`, = `ExchangeMap(ref, tgt, s)`) from a `NumWF` reference of ≥ 3 atoms with `DistinctFrames`
    and a `NumWF` target.  After ANY history `ops` of calls (accepted or rejected) and coordinate
    assignments / copies / views (`CoordOp`) it is called on a `NumWF` molecule `m` that has the
    reference's bond lists (`hbonds`) and `DistinctFrames`, and the call returns normally.  Then the
    returned molecule places target atom `j` (construction position `t`) at distance exactly
    `|s| · ‖t − pa‖` from the ARGUMENT's position `pa'` of the anchor `a`, where `a` is the reference
    atom with ≥ 2 bonds closest to `t` at construction (ties → lowest index) and `pa` its construction
    position; and if the argument is in the construction conformation, at `pa + s (t − pa)` exactly. -/
theorem call_anchor_scale (s : ℝ) (s0 : EState ℝ (_root_.Frame ℝ) (V3 ℝ)) (ref tgt : Nat)
    (hb : build (concreteGeo s) s0.heap ref tgt = (s0.emap, none))
    {rv : MolView} {rcs : List (AtomGroC ℝ)} {rtcs : List AtomTopC}
    (nwr : NumWF s0.heap ref rv rcs rtcs) (h3 : 3 ≤ rcs.length)
    (hdr : DistinctFrames (rcs.map (·.pos)) (rtcs.map (·.bonds)))
    {tv : MolView} {tcs : List (AtomGroC ℝ)} {ttcs : List AtomTopC} (nwt : NumWF s0.heap tgt tv tcs ttcs)
    (ops : List (EOp ℝ)) (hops : ∀ op ∈ ops, CoordOp op) (m : Nat)
    {av : MolView} {acs : List (AtomGroC ℝ)} {atcs : List AtomTopC}
    (nwa : NumWF (erun (concreteGeo s) s0 ops).heap m av acs atcs)
    (hbonds : atcs.map (·.bonds) = rtcs.map (·.bonds)) (hlen : acs.length = rcs.length)
    (hda : DistinctFrames (acs.map (·.pos)) (atcs.map (·.bonds)))
    (l0 : List Int) (hl0 : residsOf (erun (concreteGeo s) s0 ops).heap av.parts = some l0)
    (hok : (call (concreteGeo s) (erun (concreteGeo s) s0 ops).heap (erun (concreteGeo s) s0 ops).emap
      (some (.mol m))).err = none) :
    let r := call (concreteGeo s) (erun (concreteGeo s) s0 ops).heap (erun (concreteGeo s) s0 ops).emap
      (some (.mol m))
    ∃ nm nv cs', r.ret = some nm ∧ molView r.heap nm = some nv ∧ readGros r.heap nv.gros = some cs' ∧
      ∀ (j : Nat) (t : V3 ℝ), (tcs.map (·.pos))[j]? = some t →
        ∃ (a : Nat) (pa pa' o : V3 ℝ),
          closestAnchor (rcs.map (·.pos)) (anchorsOf (rtcs.map (·.bonds))) t = some a ∧
          (rcs.map (·.pos))[a]? = some pa ∧ (acs.map (·.pos))[a]? = some pa' ∧
          (cs'.map (·.pos))[j]? = some o ∧
          V3.norm (o - pa') = |s| * V3.norm (t - pa) ∧
          (acs.map (·.pos) = rcs.map (·.pos) → o = pa + V3.smul s (t - pa)) := by
  intro r
  have h3a : 3 ≤ acs.length := by omega
  -- the list-model map of the construction
  obtain ⟨mm, hmb, hme, hmp, hms⟩ := GMHeap.build_is_exchange_build s s0.heap ref tgt s0.emap hb nwr h3 nwt
  obtain ⟨_, htgt, _⟩ := build_equiv_anchors _ s0.heap ref tgt s0.emap hb
  -- state after the history: construction data and target labels are those of the construction
  obtain ⟨_, c2, c3, c4⟩ := construction_data_constant (concreteGeo s) s0 ops
  obtain ⟨tl1, tcsS, ttcsS, _, _, tl4, tl5⟩ := target_labels_constant (concreteGeo s) s0 ops hops tv tcs ttcs
    (htgt ▸ nwt.wf.view) (nwt.wf.cells) (nwt.tops)
  have hcr := call_ok_calcRefs _ _ _ m hok
  have hcov : Covered (concreteGeo s) (erun (concreteGeo s) s0 ops).heap m
      (erun (concreteGeo s) s0 ops).emap.equiv := by
    rw [c3]
    exact covered_of_same_bonds s hb nwr h3 nwa h3a hbonds hcr
  obtain ⟨nm, nv, cs', tv', ttcs', el, pl, r1, r2, r3, r4, r5, r6, r7, _, r9⟩ :=
    call_is_exchange_apply_aux s _ _ m nwa h3a l0 hl0 hcov hok
  -- the target seen by the call is the construction target (same cells, same indices)
  rw [c2, tl1] at r4
  injection r4 with r4
  subst r4
  rw [tl4] at r5
  injection r5 with r5
  subst r5
  have hidx : ttcsS.map (·.index) = ttcs.map (·.index) := by
    have := congrArg (List.map (fun x : String × String × Nat × List Nat => x.2.2.1)) tl5
    rw [List.map_map, List.map_map] at this
    exact this
  have hel : el = mm.equiv := by
    have e1 : ttcsS.map (fun tc => s0.emap.equiv.lookup tc.index) =
        ttcs.map (fun tc => s0.emap.equiv.lookup tc.index) := by
      have := congrArg (List.map (fun i => s0.emap.equiv.lookup i)) hidx
      rw [List.map_map, List.map_map] at this
      exact this
    rw [c3, e1, hme] at r6
    exact (List.map_injective_iff.mpr (Option.some_injective _) r6).symm
  have hpl : pl = mm.proj := by
    have e1 : ttcsS.map (fun tc => s0.emap.tcoords.lookup tc.index) =
        ttcs.map (fun tc => s0.emap.tcoords.lookup tc.index) := by
      have := congrArg (List.map (fun i => s0.emap.tcoords.lookup i)) hidx
      rw [List.map_map, List.map_map] at this
      exact this
    rw [c4, e1, hmp] at r7
    exact (List.map_injective_iff.mpr (Option.some_injective _) r7).symm
  have hmm : _root_.EMap.mk el pl s = mm := by
    subst hel; subst hpl; subst hms; cases mm; rfl
  rw [hmm, hbonds] at r9
  refine ⟨nm, nv, cs', r1, r2, r3, ?_⟩
  intro j t ht
  have h3p : 3 ≤ (rcs.map (·.pos)).length := by simpa using h3
  have h3q : 3 ≤ (acs.map (·.pos)).length := by simpa using h3a
  obtain ⟨a, pa, pa', o, q1, q2, q3, q4, q5⟩ :=
    C03.exchange_anchor_distance _ _ _ [] [] _ s h3p h3q hdr (hbonds ▸ hda) mm hmb _ r9 j t ht
  -- the anchor is the closest anchor of the construction
  obtain ⟨tab, htab, _, hbs⟩ := build_spec hmb
  rw [refsystems_general _ _ h3p] at htab
  obtain ⟨a', F, hja, hca, _, _⟩ := hbs j t ht
  rw [q1] at hja
  injection hja with hja
  subst hja
  rw [refsystemsGeneral_keys htab] at hca
  refine ⟨a, pa, pa', o, hca, q2, q3, q4, q5, ?_⟩
  intro hsame
  rw [hsame] at r9
  obtain ⟨a2, pa2, u1, _, u3, u4⟩ :=
    C01.exchange_anchor_scale _ _ [] [] _ s h3p hdr mm hmb _ r9 j t ht
  rw [q1] at u1
  injection u1 with u1
  subst u1
  rw [q2] at u3
  injection u3 with u3
  subst u3
  rw [q4] at u4
  injection u4

end concrete

/-! ### non-vacuity: a concrete map, an accepted call, a rejected call, and the O5 observation -/

namespace NonVacuity

/-- an exact computable scalar, used ONLY to evaluate the concrete heaps of these examples -/
local instance : Scalar Int where
  add := Int.add
  sub := Int.sub
  mul := Int.mul
  div := fun a b => a / b
  neg := Int.neg
  zero := 0
  one := 1
  ofInt n := n
  ofDec m _ := m
  sqrt x := x
  cos x := x
  sin x := x
  isZero x := x == 0
  lt a b := a < b
  le a b := a ≤ b
  round x := x
  abs x := x.natAbs

def g (resid : Int) (rn n : String) (id : Int) (x y z : Int) : AtomGroC Int :=
  ⟨resid, rn, n, id, ⟨x, y, z⟩, none⟩

/-- a toy geometry (frame = the anchor's position); the theorems hold for every `Geo` -/
def G0 : Geo Int (V3 Int) (V3 Int) :=
  ⟨fun p0 _ _ => p0, fun f q => q - f, fun f p => f + p, fun cs _ => cs.head?.map (·.1)⟩

def chain : List AtomTopC := [⟨"A0", "RA", 1, 0, [1]⟩, ⟨"A1", "RA", 1, 1, [0, 2]⟩, ⟨"A2", "RA", 1, 2, [1]⟩]
def star : List AtomTopC := [⟨"A0", "RA", 1, 0, [1, 2]⟩, ⟨"A1", "RA", 1, 1, [0]⟩, ⟨"A2", "RA", 1, 2, [0]⟩]

/-- reference `.mol 12` (chain A0–A1–A2), target `.mol 22`, an argument of the species `.mol 35`
    (other coordinates, residue number 5), and `.mol 48`: same names, STAR bond graph -/
def hp : Heap Int :=
  (newMol (newMol (newMol (newMol (Heap.empty : Heap Int) "REF" chain
      [[g 1 "RA" "A0" 1 0 0 0, g 1 "RA" "A1" 2 1 0 0, g 1 "RA" "A2" 3 1 1 0]]).heap
    "TGT" [⟨"B0", "RB", 1, 0, [1]⟩, ⟨"B1", "RB", 1, 1, [0]⟩]
      [[g 1 "RB" "B0" 1 0 0 1, g 1 "RB" "B1" 2 1 1 1]]).heap
    "REF" chain [[g 5 "RA" "A0" 7 4 0 0, g 5 "RA" "A1" 8 5 0 0, g 5 "RA" "A2" 9 5 1 0]]).heap
    "REF" star [[g 6 "RA" "A0" 7 4 0 0, g 6 "RA" "A1" 8 5 0 0, g 6 "RA" "A2" 9 5 1 0]]).heap

def E0 : EMap (V3 Int) (V3 Int) := (build G0 hp 12 22).1

theorem build_ok : build G0 hp 12 22 = (E0, none) := Prod.ext rfl (by decide)

theorem arg_covered : Covered G0 hp 35 E0.equiv := by
  refine covered_of_anchors G0 hp 35 E0.equiv (by decide) ?_
  intro idx a hl
  have := (anchors_of_reference G0 hp 12 22 E0 build_ok).2.2 idx a hl
  rw [show anchorKeys hp 35 = anchorKeys hp 12 by decide]
  exact this

/-- the hypotheses of `call_refines_pure` are satisfiable, and the call is accepted -/
example := call_refines_pure G0 hp E0 35 ⟨26, "REF", [23, 24, 25], [34], [0, 0, 0], [[31, 32, 33]], [31, 32, 33]⟩
  [5] (by decide) (by decide) (by decide) arg_covered (by decide)
example : (call G0 hp E0 (some (.mol 35))).ret = some 52 := by decide

/-- a rejected call: the target itself is another species -/
example : (molEq hp E0.ref 22).toOption = some false := by decide
example : (call G0 hp E0 (some (.mol 22))).err = some .typeError ∧
    (call G0 hp E0 (some (.res 34))).err = some .typeError ∧ (call G0 hp E0 none).err = some .typeError := by
  decide

/-- OBSERVATION O5 (outside the property's quantifier): `.mol 48` has the reference's name, atom names,
    indices and residue numbers but a STAR bond graph; `Molecule.__eq__` does not look at bonds, so the
    species check passes — although its anchor set `[0]` differs from the reference's `[1]`, i.e. the
    coverage hypothesis of `call_history_independent` fails for it. -/
example : (molEq hp E0.ref 48).toOption = some true ∧ anchorKeys hp 48 = [0] ∧ anchorKeys hp 12 = [1] := by
  decide

/-! #### the composition theorems over ℝ: a bent 3-atom reference chain `.mol 12`, a 2-atom target
`.mol 22`, an argument of the species in another conformation `.mol 35`; scale 1/2; history = a
rejected call, then the TARGET is moved.  All hypotheses of `call_anchor_scale` are met (the
control flow of `build` / `call` does not depend on real comparisons here, so `rfl` evaluates it). -/

def gR (resid : Int) (rn n : String) (id : Int) (x y z : ℝ) : AtomGroC ℝ :=
  ⟨resid, rn, n, id, ⟨x, y, z⟩, none⟩

noncomputable def hR : Heap ℝ :=
  (newMol (newMol (newMol (Heap.empty : Heap ℝ) "REF" chain
      [[gR 1 "RA" "A0" 1 0 0 0, gR 1 "RA" "A1" 2 1 0 0, gR 1 "RA" "A2" 3 1 1 0]]).heap
    "TGT" [⟨"B0", "RB", 1, 0, [1]⟩, ⟨"B1", "RB", 1, 1, [0]⟩]
      [[gR 1 "RB" "B0" 1 0 0 1, gR 1 "RB" "B1" 2 1 1 1]]).heap
    "REF" chain [[gR 5 "RA" "A0" 7 4 0 0, gR 5 "RA" "A1" 8 5 0 0, gR 5 "RA" "A2" 9 5 2 0]]).heap

noncomputable def ER : GMHeap.EMap (_root_.Frame ℝ) (V3 ℝ) := (build (concreteGeo (1 / 2 : ℝ)) hR 12 22).1

noncomputable def sR : EState ℝ (_root_.Frame ℝ) (V3 ℝ) := ⟨hR, [.mol 12, .mol 22, .mol 35], ER⟩

noncomputable def opsR : List (EOp ℝ) := [.callOther, .op (.move 1 ⟨1, 2, 3⟩)]

theorem buildR_ok : build (concreteGeo (1 / 2 : ℝ)) sR.heap 12 22 = (sR.emap, none) := Prod.ext rfl rfl

private theorem chain_index : ∀ (i : Nat) (tc : AtomTopC), chain[i]? = some tc → tc.index = i := by
  intro i tc h
  match i, h with
  | 0, h => simp [chain] at h; subst h; rfl
  | 1, h => simp [chain] at h; subst h; rfl
  | 2, h => simp [chain] at h; subst h; rfl
  | (n + 3), h => simp [chain] at h

private theorem chain_distinct (p0 p1 p2 : V3 ℝ) (hne : p1 ≠ p2) :
    DistinctFrames [p0, p1, p2] (chain.map (·.bonds)) := by
  intro a pa nb i1 i2 q2 hpa hnb hc hq2
  match a, hnb with
  | 0, h => simp [chain] at h; subst h; simp [closestTwo, sortNat, insertSorted] at hc
  | 1, h =>
    simp [chain] at h; subst h
    simp [closestTwo, sortNat, insertSorted] at hc
    obtain ⟨rfl, rfl⟩ := hc
    simp at hpa hq2; subst hpa; subst hq2
    exact hne
  | 2, h => simp [chain] at h; subst h; simp [closestTwo, sortNat, insertSorted] at hc
  | (n + 3), h => simp [chain] at h

theorem refR_wf : NumWF sR.heap 12 ⟨3, "REF", [0, 1, 2], [11], [0, 0, 0], [[8, 9, 10]], [8, 9, 10]⟩
    [gR 1 "RA" "A0" 1 0 0 0, gR 1 "RA" "A1" 2 1 0 0, gR 1 "RA" "A2" 3 1 1 0] chain :=
  ⟨⟨rfl, rfl, rfl, by decide, rfl⟩, rfl, chain_index, by decide⟩

theorem tgtR_wf : NumWF sR.heap 22 ⟨15, "TGT", [13, 14], [21], [0, 0], [[19, 20]], [19, 20]⟩
    [gR 1 "RB" "B0" 1 0 0 1, gR 1 "RB" "B1" 2 1 1 1]
    [⟨"B0", "RB", 1, 0, [1]⟩, ⟨"B1", "RB", 1, 1, [0]⟩] := by
  refine ⟨⟨rfl, rfl, rfl, by decide, rfl⟩, rfl, ?_, by decide⟩
  intro i tc h
  match i, h with
  | 0, h => simp at h; subst h; rfl
  | 1, h => simp at h; subst h; rfl
  | (n + 2), h => simp at h

theorem argR_wf : NumWF (erun (concreteGeo (1 / 2 : ℝ)) sR opsR).heap 35
    ⟨26, "REF", [23, 24, 25], [34], [0, 0, 0], [[31, 32, 33]], [31, 32, 33]⟩
    [gR 5 "RA" "A0" 7 4 0 0, gR 5 "RA" "A1" 8 5 0 0, gR 5 "RA" "A2" 9 5 2 0] chain :=
  ⟨⟨rfl, rfl, rfl, by decide, rfl⟩, rfl, chain_index, by decide⟩

/-- `call_anchor_scale` applies: after the history the returned molecule has its two atoms at
    distance `|1/2| · ‖t_j − (1,0,0)‖` from the argument's anchor position `(5,0,0)` -/
example := call_anchor_scale (1 / 2) sR 12 22 buildR_ok refR_wf (by decide)
  (chain_distinct _ _ _ (by intro e; have := congrArg V3.y e; simp [gR] at this)) tgtR_wf opsR
  (by intro op h; simp only [opsR, List.mem_cons, List.not_mem_nil, or_false] at h
      rcases h with rfl | rfl <;> trivial)
  35 argR_wf rfl rfl
  (chain_distinct _ _ _ (by intro e; have := congrArg V3.y e; simp [gR] at this)) [5] rfl rfl

/-- hypotheses of (a) and (b) on the same heap -/
example := C04.pureTable_is_refsystems (1 / 2 : ℝ) refR_wf (by decide) rfl

end NonVacuity

end C04
