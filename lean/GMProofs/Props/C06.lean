import GMProofs.Lemmas.AlignL
import GMProofs.Props.C17
/-
  C06 — Alignment moves molecules only by structure-preserving transformations.

  Model: `GMModel.Align` (`alignMolecules` = `alignPrepare` → `mcMinimize` → `alignFinish`) over
  `GMModel.Metropolis`, instantiated at ℝ.  Molecules are values `(positions, names, bond table)`.
  The overlap measure `chi2Of` is arbitrary (`∀ chi2Of`); the single-atom move `moveOf` is arbitrary
  too, and where the property needs it (bond lengths with single-atom moves enabled) C07's guarantee
  is an explicit hypothesis `MovePreservesTreeBonds`.  All theorems are `∀ tape` (random stream),
  `∀` restraint list, deformation tuple, hydrogen setting, step factor.

  Vocabulary (`GMProofs.Lemmas.AlignL`): `pairDist a i j` — distance between atoms `i`, `j` of a
  configuration (`none` if one is missing); `SameShape a b` — same atoms, all pairwise distances equal;
  `SameBondLengths bonds a b` — same number of atoms and every bond of the table equally long;
  `AxesNonzero steps` — no rotation step drew the zero vector as axis (a probability-zero draw for which
  `rotation_matrix` divides by zero).
  Only property theorems and their non-vacuity examples live here.
-/
open MC AL

namespace C06

variable {chi2Of : List (V3 ℝ) → Config ℝ → List (Int × Int) → Config ℝ → ℝ}
variable {moveOf : BondsInfo ℝ → ℝ → MoveFn ℝ}
variable {chi2Fn : Config ℝ → ℝ} {moveFn : MoveFn ℝ} {simType : List Int}

/-! ### the two rigid moves are isometries -/

/-- a translation keeps every distance -/
theorem translation_isometry (d p q : V3 ℝ) : V3.norm ((p + d) - (q + d)) = V3.norm (p - q) :=
  translate_dist d p q

/-- the rotation proposal `(x − c)·R + c` with `R = rotation_matrix(axis, θ)`, `axis ≠ 0`, keeps
    every distance — for any centre `c`, in particular the centroid of the held configuration —
    and fixes `c` -/
theorem rotation_about_centroid_isometry (axis : V3 ℝ) (theta : ℝ) (ha : axis ≠ V3.zero) (c p q : V3 ℝ) :
    V3.norm ((M3.vecMul (p - c) (rotationMatrix axis theta) + c) -
             (M3.vecMul (q - c) (rotationMatrix axis theta) + c)) = V3.norm (p - q) ∧
    M3.vecMul (c - c) (rotationMatrix axis theta) + c = c := by
  refine ⟨rotate_dist _ (C17.rot_orthogonal axis theta ha).1 c p q, ?_⟩
  apply V3.ext' <;> simp only [gm] <;> ring

/-! ### the search keeps the structure of the mobile molecule -/

/-- every reachable held configuration has every bond at its initial length: the invariant is kept by
    translation, by rotation (orthogonal `R`), by the atom move (hypothesis = C07's guarantee for the
    bond table computed from the initial geometry) and trivially by rejection -/
theorem loop_preserves_tree_bonds {bonds : List (List Nat)} {held0 : Config ℝ}
    {steps : List (StepRec ℝ)} {st : MCState ℝ}
    (h : Reaches chi2Fn moveFn simType held0 steps st)
    (hmove : MovePreservesTreeBonds moveFn bonds held0) (hax : AxesNonzero steps) :
    SameBondLengths bonds held0 st.held := by
  refine reaches_invariant (P := SameBondLengths bonds held0) h (SameBondLengths.refl _ _) ?_
  intro s hs hok hpre
  obtain ⟨_, _, t, t1, _, hp, _⟩ := hok.spec
  have hspec := propose_spec hp
  cases hk : s.kind with
  | transl d =>
    rw [hk] at hspec
    rw [hspec.1]
    exact hpre.trans ((translateCfg_sameShape _ d).bonds bonds)
  | rot a th =>
    rw [hk] at hspec
    rw [hspec.1]
    exact hpre.trans ((rotateCfg_sameShape _ a th (C17.rot_orthogonal a th (hax s hs a th hk)).1).bonds bonds)
  | move =>
    rw [hk] at hspec
    obtain ⟨_, t0, _, hm⟩ := hspec
    exact hmove _ _ _ _ hm hpre

/-- with single-atom moves disabled every reachable held configuration is congruent to the initial
    one: ALL pairwise distances are preserved (no hypothesis on the move, any bond graph) -/
theorem loop_rigid_without_atom_moves {held0 : Config ℝ} {steps : List (StepRec ℝ)} {st : MCState ℝ}
    (h : Reaches chi2Fn moveFn simType held0 steps st)
    (h2 : (2 : Int) ∉ simType) (hax : AxesNonzero steps) :
    SameShape held0 st.held := by
  refine reaches_invariant (P := SameShape held0) h (SameShape.refl _) ?_
  intro s hs hok hpre
  obtain ⟨_, _, t, t1, _, hp, _⟩ := hok.spec
  have hspec := propose_spec hp
  cases hk : s.kind with
  | transl d =>
    rw [hk] at hspec
    rw [hspec.1]
    exact hpre.trans (translateCfg_sameShape _ d)
  | rot a th =>
    rw [hk] at hspec
    rw [hspec.1]
    exact hpre.trans (rotateCfg_sameShape _ a th (C17.rot_orthogonal a th (hax s hs a th hk)).1)
  | move =>
    rw [hk] at hspec
    exact absurd hspec.1 h2

/-- the zero-axis side condition, read off the random tape: if the move only consumes draws, the
    axes of the rotation steps of a run are `uniform(-1,1,3)` draws of its tape -/
theorem axes_nonzero_of_tape {nSteps : Nat} {held0 : Config ℝ} {tape : Tape ℝ} {r : MCResult ℝ}
    (h : Ran chi2Fn moveFn simType nSteps held0 tape r) (hm : MoveTapeSuffix moveFn)
    (ht : ∀ a, Draw.uniform3 a ∈ tape → a ≠ V3.zero) : AxesNonzero r.steps := by
  obtain ⟨fuel, h⟩ := h
  intro s hs a th hk
  obtain ⟨t, t', hsuf, hst⟩ := mcLoop_steps_on_tape hm h s hs
  obtain ⟨_, _, _, t1, hp, _⟩ := mcStep_ok hst
  have hspec := propose_spec hp
  rw [hk] at hspec
  apply ht
  obtain ⟨pre, hpre⟩ := hsuf
  rw [← hpre, hspec.2.2]
  simp

/-! ### the alignment as a whole -/

section whole
variable {sf : Nat} {sigma : ℝ} {start end_ s' e' : Mol ℝ} {restr : List (Int × Int)}
variable {deform : Option (List Int)} {ignoreH : Bool} {tape rest : Tape ℝ}

/-- the molecule with more atoms (ties: the start molecule) is only translated: if it is the start
    molecule it ends as its initial coordinates plus `centre(end) − centre(start)`; if it is the end
    molecule it is unchanged (also on the early return for a one-atom end molecule) -/
theorem align_big_translated
    (h : alignMolecules chi2Of moveOf sf sigma start end_ restr deform ignoreH tape = .ok (s', e', rest)) :
    (end_.size ≤ start.size → s'.pos = start.pos.map (fun p => p + (end_.center - start.center))) ∧
    (start.size < end_.size → e' = end_) := by
  rcases alignMolecules_ok h with ⟨hp, he, _⟩ | ⟨p, r, hp, _, _, hf⟩
  · obtain ⟨hs, h1⟩ := alignPrepare_early hp
    subst hs; subst he
    exact ⟨fun _ => rfl, fun _ => rfl⟩
  · obtain ⟨hs, hsm, _⟩ := alignPrepare_plan hp
    obtain ⟨hft, hff⟩ := alignFinish_ok hf
    constructor
    · intro hle
      have : p.smallIsStart = false := by rw [hsm]; simpa using hle
      rw [(hff this).1, hs]
      rfl
    · intro hlt
      have : p.smallIsStart = true := by rw [hsm]; simpa using hlt
      exact (hft this).2.1

/-- atom order and names (and the bond tables, and the number of atoms) of both molecules are
    untouched — trivial in the value model; on the real code it is checked by the oracle -/
theorem align_order_names
    (h : alignMolecules chi2Of moveOf sf sigma start end_ restr deform ignoreH tape = .ok (s', e', rest)) :
    s'.names = start.names ∧ s'.bonds = start.bonds ∧ s'.pos.length = start.pos.length ∧
    e'.names = end_.names ∧ e'.bonds = end_.bonds ∧ e'.pos.length = end_.pos.length := by
  rcases alignMolecules_ok h with ⟨hp, he, _⟩ | ⟨p, r, hp, _, _, hf⟩
  · obtain ⟨hs, _⟩ := alignPrepare_early hp
    subst hs; subst he
    simp [Mol.moveTo]
  · obtain ⟨hs, _⟩ := alignPrepare_plan hp
    obtain ⟨hft, hff⟩ := alignFinish_ok hf
    cases hsm : p.smallIsStart
    · obtain ⟨h1, h2, h3⟩ := hff hsm
      rw [h1, h2, hs]
      simp [Mol.moveTo, h3, Mol.size]
    · obtain ⟨h1, h2, h3⟩ := hft hsm
      rw [h1, h2]
      simp only [and_self, and_true]
      rw [h3, hs]
      simp [Mol.moveTo, Mol.size]

/-- the molecule with fewer atoms keeps every bonded distance at its initial value, provided the
    atom move has C07's guarantee for the bond table the alignment computes (acyclic bond graph) —
    `hmove` — and no rotation step drew a zero axis — `hax` (see `axes_nonzero_of_tape`) -/
theorem align_small_bonds
    (h : alignMolecules chi2Of moveOf sf sigma start end_ restr deform ignoreH tape = .ok (s', e', rest))
    (hmove : ∀ binfo, bondsDistance (mobileOf start end_) = .ok binfo →
      MovePreservesTreeBonds (moveOf binfo sigma) (mobileOf start end_).bonds (mobileOf start end_).pos)
    (hax : ∀ p r, alignPrepare sf start end_ restr deform ignoreH = .ok (.plan p) →
      Ran (chi2Of p.fixedPos p.mobilePos p.restr) (moveOf p.bondsInfo sigma) p.simType p.nSteps
        p.mobilePos tape r → AxesNonzero r.steps) :
    (start.size < end_.size → SameBondLengths start.bonds start.pos s'.pos) ∧
    (end_.size ≤ start.size → SameBondLengths end_.bonds end_.pos e'.pos) := by
  rcases alignMolecules_ok h with ⟨hp, he, _⟩ | ⟨p, r, hp, hran, _, hf⟩
  · obtain ⟨hs, h1⟩ := alignPrepare_early hp
    subst hs; subst he
    exact ⟨fun _ => (sameShape_map (fun p q => translate_dist _ p q) _).bonds _,
      fun _ => SameBondLengths.refl _ _⟩
  · obtain ⟨hs, hsm, hmob, _, _, _, hbd⟩ := alignPrepare_plan hp
    obtain ⟨hft, hff⟩ := alignFinish_ok hf
    have hinv := loop_preserves_tree_bonds (bonds := (mobileOf start end_).bonds) hran.reaches
      (by rw [hmob]; exact hmove _ hbd) (hax p r hp hran)
    rw [hmob] at hinv
    constructor
    · intro hlt
      have hsmall : p.smallIsStart = true := by rw [hsm]; simpa using hlt
      rw [(hft hsmall).1]
      simp only [mobileOf, hlt, if_true] at hinv
      exact ((sameShape_map (fun p q => translate_dist _ p q) _).bonds _).trans hinv
    · intro hle
      have hsmall : p.smallIsStart = false := by rw [hsm]; simpa using hle
      rw [(hff hsmall).2.1]
      simp only [mobileOf, Nat.not_lt.mpr hle, if_false] at hinv
      exact hinv

/-- with single-atom moves disabled the molecule with fewer atoms keeps ALL its pairwise distances -/
theorem align_small_rigid
    (h : alignMolecules chi2Of moveOf sf sigma start end_ restr deform ignoreH tape = .ok (s', e', rest))
    (h2 : (2 : Int) ∉ defaultDeform start end_ deform)
    (hax : ∀ p r, alignPrepare sf start end_ restr deform ignoreH = .ok (.plan p) →
      Ran (chi2Of p.fixedPos p.mobilePos p.restr) (moveOf p.bondsInfo sigma) p.simType p.nSteps
        p.mobilePos tape r → AxesNonzero r.steps) :
    (start.size < end_.size → SameShape start.pos s'.pos) ∧
    (end_.size ≤ start.size → SameShape end_.pos e'.pos) := by
  rcases alignMolecules_ok h with ⟨hp, he, _⟩ | ⟨p, r, hp, hran, _, hf⟩
  · obtain ⟨hs, h1⟩ := alignPrepare_early hp
    subst hs; subst he
    exact ⟨fun _ => sameShape_map (fun p q => translate_dist _ p q) _, fun _ => SameShape.refl _⟩
  · obtain ⟨hs, hsm, hmob, _, hsim, _, _⟩ := alignPrepare_plan hp
    obtain ⟨hft, hff⟩ := alignFinish_ok hf
    have hinv := loop_rigid_without_atom_moves hran.reaches (by rw [hsim]; exact h2) (hax p r hp hran)
    rw [hmob] at hinv
    constructor
    · intro hlt
      have hsmall : p.smallIsStart = true := by rw [hsm]; simpa using hlt
      rw [(hft hsmall).1]
      simp only [mobileOf, hlt, if_true] at hinv
      exact (sameShape_map (fun p q => translate_dist _ p q) _).trans hinv
    · intro hle
      have hsmall : p.smallIsStart = false := by rw [hsm]; simpa using hle
      rw [(hff hsmall).2.1]
      simp only [mobileOf, Nat.not_lt.mpr hle, if_false] at hinv
      exact hinv

/-- every divisor met by the alignment outside the overlap measure and the atom move is non-zero:
    the two centroids (`len(start)`, `len(end)`), and in every iteration of the search the centroid
    of the held configuration, `‖axis‖` of a rotation and the proposal's measure in the accept rule —
    under the side conditions: both molecules non-empty, the move keeps the number of atoms, no
    rotation step drew a zero axis, no proposal has measure exactly 0 -/
theorem align_defined (hs : start.pos ≠ []) (he : end_.pos ≠ []) :
    ((start.pos.length : ℝ) ≠ 0 ∧ (end_.pos.length : ℝ) ≠ 0) ∧
    ∀ p r, alignPrepare sf start end_ restr deform ignoreH = .ok (.plan p) →
      Ran (chi2Of p.fixedPos p.mobilePos p.restr) (moveOf p.bondsInfo sigma) p.simType p.nSteps
        p.mobilePos tape r →
      (∀ held t test t', moveOf p.bondsInfo sigma held t = .ok (test, t') → test.length = held.length) →
      AxesNonzero r.steps → (∀ s ∈ r.steps, s.chi2New ≠ 0) →
      ∀ s ∈ r.steps, acceptDefined s.chi2New = true ∧
        ∀ a th, s.kind = .rot a th → rotateDefined s.pre.held a = true := by
  refine ⟨⟨?_, ?_⟩, ?_⟩
  · exact_mod_cast fun e => hs (List.eq_nil_of_length_eq_zero e)
  · exact_mod_cast fun e => he (List.eq_nil_of_length_eq_zero e)
  · intro p r hp hran hlen hax hchi s hs'
    obtain ⟨_, _, hmob, _⟩ := alignPrepare_plan hp
    have hne : p.mobilePos ≠ [] := by
      rw [hmob]; unfold mobileOf
      split
      · simpa [Mol.moveTo] using hs
      · exact he
    refine ⟨by simp [acceptDefined, hchi s hs'], fun a th hk => ?_⟩
    -- the held configuration of the pre-state has as many atoms as the initial one
    obtain ⟨l1, l2, hl⟩ := List.append_of_mem hs'
    have hreach := (hl ▸ hran.reaches).prefix
    have hlen' : s.pre.held.length = p.mobilePos.length := by
      refine reaches_invariant (P := fun c => c.length = p.mobilePos.length) hreach rfl ?_
      intro x _ hok hpre
      obtain ⟨_, _, t, t1, _, hpx, _⟩ := hok.spec
      have hspec := propose_spec hpx
      cases hkx : x.kind with
      | transl d => rw [hkx] at hspec; rw [hspec.1]; simpa [translateCfg] using hpre
      | rot a' th' => rw [hkx] at hspec; rw [hspec.1]; simpa [rotateCfg] using hpre
      | move =>
        rw [hkx] at hspec
        obtain ⟨_, t0, _, hm⟩ := hspec
        rw [hlen _ _ _ _ hm]; exact hpre
    have hheld : s.pre.held ≠ [] := by
      intro e; rw [e] at hlen'
      exact hne (List.eq_nil_of_length_eq_zero hlen'.symm)
    have hnorm : V3.norm a ≠ 0 := (V3.norm_pos (hax s hs' a th hk)).ne'
    simp [rotateDefined, rotationDefined, hheld, hnorm]

/-- the outcome is a function of the inputs and the random tape (trivial for a model that IS a
    function; that the Python is one is checked on the real code: same seed twice ⇒ identical tape
    and bit-identical result) -/
theorem align_deterministic
    (h1 : alignMolecules chi2Of moveOf sf sigma start end_ restr deform ignoreH tape = .ok (s', e', rest))
    {s'' e'' : Mol ℝ} {rest' : Tape ℝ}
    (h2 : alignMolecules chi2Of moveOf sf sigma start end_ restr deform ignoreH tape = .ok (s'', e'', rest')) :
    s'' = s' ∧ e'' = e' ∧ rest' = rest := by
  rw [h1] at h2
  simp only [Except.ok.injEq, Prod.mk.injEq] at h2
  exact ⟨h2.1.symm, h2.2.1.symm, h2.2.2.symm⟩

end whole

/-! ### non-vacuity -/

/-- a three-atom start molecule (the larger one: only translated) and a two-atom end molecule
    (the one the search moves) -/
noncomputable def exStart : Mol ℝ := ⟨[⟨0, 0, 0⟩, ⟨1, 0, 0⟩, ⟨2, 0, 0⟩], ["C1", "H1", "C2"], [[1], [0, 2], [1]]⟩
noncomputable def exEnd : Mol ℝ := ⟨[⟨0, 1, 0⟩, ⟨0, 3, 0⟩], ["B1", "B2"], [[1], [0]]⟩

/-- hypotheses of the whole-alignment theorems are satisfiable: a run with budget 0·2 = 0 steps
    (STEPS_FACTOR = 0) succeeds and returns the translated start molecule and the end molecule -/
example : ∃ s' e' rest, alignMolecules (fun _ _ _ _ => (1 : ℝ)) (fun _ _ h t => .ok (h, t)) 0 (1 / 2)
    exStart exEnd [] none false [] = .ok (s', e', rest) ∧ e'.pos = exEnd.pos := by
  simp [alignMolecules, alignPrepare, planFor, fixedInputs, defaultDeform, exStart, exEnd, Mol.size,
    Mol.moveTo, Mol.center, Mol.bondsInRange, areConnected, reachIter, reachStep, bondsDistance, bondsRows,
    bondsRow, translationWidth, minList, mcMinimize, mcRun, mcLoop, mcInit, mcContinue, alignFinish]

/-- a proper rotation exists for the isometry theorem; the invariants hold non-trivially for a
    translated configuration -/
example : (⟨0, 0, 1⟩ : V3 ℝ) ≠ V3.zero ∧
    SameShape [⟨0, 0, 0⟩, ⟨1, 0, 0⟩] (translateCfg [⟨0, 0, 0⟩, ⟨1, 0, 0⟩] ⟨3, 4, 5⟩) := by
  constructor
  · intro h; have := congrArg V3.z h; simp [gm] at this
  · exact translateCfg_sameShape _ _

/-- C07's guarantee is satisfiable (here by the move that changes nothing), and so is the axis
    side condition for a history with a rotation step about the z axis -/
example : MovePreservesTreeBonds (fun h t => .ok (h, t)) [[1], [0]] [⟨0, 0, 0⟩, ⟨1, 0, 0⟩] ∧
    AxesNonzero [(⟨⟨[], 0, 0, 0⟩, .rot ⟨0, 0, 1⟩ 0, [], 0, true, ⟨[], 0, 0, 0⟩⟩ : StepRec ℝ)] := by
  constructor
  · intro held t test t' h hp
    simp only [Except.ok.injEq, Prod.mk.injEq] at h
    rw [← h.1]; exact hp
  · intro s hs a th hk
    simp only [List.mem_singleton] at hs
    subst hs
    simp only [PropKind.rot.injEq] at hk
    rw [← hk.1]
    intro h; have := congrArg V3.z h; simp [gm] at this

end C06
