import GMProofs.Lemmas.CmpL
import GMProofs.Lemmas.RestrL
import GMProofs.Lemmas.HeapEMap
import GMProofs.Props.C13
import GMProofs.Props.C13Extra
import GMModel.Comparative
import GMModel.AlignFull
/-!
# C06 (work package WPH) — the `Alignment` object: `write_comparative_gro`, `init_exchange_map`,
# the `restrictions=None` path

Model: `GMModel/Comparative.lean` (`Cmp.*`: the object on the C18 heap, the method as the composition it
is — two `deep_copy`, six assignments, a C13 writer session) and `GMModel/AlignFull.lean`.
Only property theorems and their non-vacuity examples live here; helper lemmas are `private` above them.
-/

open GMHeap

namespace C06X

variable {α : Type}

/-! ### refusals -/

section refusals
variable {F P : Type}

/-- **`init_exchange_map` on an object with an unset side** raises `ValueError` and leaves the object —
    including a map built earlier — exactly as it was. -/
theorem init_map_unset_refused (G : Geo α F P) (h : Heap α) (a : Cmp.Ali F P)
    (hu : a.start = none ∨ a.end_ = none) :
    Cmp.initExchangeMap G h a = (a, some .valueError) := by
  unfold Cmp.initExchangeMap
  rcases hu with hu | hu
  · rw [hu]
  · rw [hu]; cases a.start <;> rfl

/-- … and when both sides are set the stored map is `ExchangeMap(start, end, scale)` of the CURRENT stored
    molecules: built on the heap as it is now, referring to the stored objects themselves -/
theorem init_map_current (G : Geo α F P) (h : Heap α) (a : Cmp.Ali F P) (s e : Nat)
    (hs : a.start = some s) (he : a.end_ = some e) :
    (∀ E, build G h s e = (E, none) →
      Cmp.initExchangeMap G h a = ({ a with emap := some E }, none)) ∧
    (∀ E err, build G h s e = (E, some err) → Cmp.initExchangeMap G h a = (a, some err)) ∧
    (∀ a' , Cmp.initExchangeMap G h a = (a', none) →
      ∃ E, a'.emap = some E ∧ E.ref = s ∧ E.tgt = e ∧ a'.start = a.start ∧ a'.end_ = a.end_) := by
  unfold Cmp.initExchangeMap
  rw [hs, he]
  refine ⟨fun E hb => by simp [hb], fun E err hb => by simp [hb], ?_⟩
  intro a' ha
  cases hb : build G h s e with
  | mk E oe =>
    cases oe with
    | some err => simp [hb] at ha
    | none =>
      simp only [hb, Prod.mk.injEq, and_true] at ha
      subst ha
      obtain ⟨r1, r2, _⟩ := build_equiv_anchors G h s e E hb
      exact ⟨E, rfl, r1, r2, rfl, rfl⟩

end refusals

/-! ### `write_comparative_gro` -/

section comparative
variable {F P : Type} [Scalar α]

/-- `write_comparative_gro` on an object with an unset side raises `ValueError` before anything is copied,
    opened or written -/
theorem comparative_unset_refused (toDy : α → Option PyStr.Dy) (h : Heap α) (a : Cmp.Ali F P)
    (fname : Option String) (hu : a.start = none ∨ a.end_ = none) :
    Cmp.writeComparative toDy h a fname = ⟨h, none, [], some .valueError⟩ := by
  unfold Cmp.writeComparative
  rcases hu with hu | hu
  · rw [hu]
  · rw [hu]; cases a.start <;> rfl

/-- `r` is the record the file must hold for the atom `c` of a stored molecule: the given residue number and
    residue name, the atom's OWN name, number and coordinates (`toDy` = the exact value of the double), and
    no velocities — whatever residue number, residue name and velocity the stored atom carries -/
def IsRecordOf (toDy : α → Option PyStr.Dy) (resid : Int) (resname : String) (c : AtomGroC α)
    (r : Gro.Rec) : Prop :=
  r.resnum = resid ∧ r.resname = Cmp.strBytes resname ∧ r.name = Cmp.strBytes c.name ∧ r.atomnum = c.atomid ∧
  toDy c.pos.x = some r.x ∧ toDy c.pos.y = some r.y ∧ toDy c.pos.z = some r.z ∧ r.vel = none

private theorem recsOf_stamp (toDy : α → Option PyStr.Dy) (resid : Int) (resname : String) :
    ∀ {cs : List (AtomGroC α)} {rs : List Gro.Rec}, List.Forall₂ (IsRecordOf toDy resid resname) cs rs →
      RecsOf toDy (cs.map (stamp resname resid)) rs
  | _, _, .nil => trivial
  | _, _, .cons (a := c) (b := r) h t => by
    refine ⟨?_, recsOf_stamp toDy resid resname t⟩
    obtain ⟨h1, h2, h3, h4, h5, h6, h7, h8⟩ := h
    obtain ⟨rn, rname, nm, an, x, y, z, v⟩ := r
    simp only at h1 h2 h3 h4 h5 h6 h7 h8
    subst h1; subst h2; subst h3; subst h4; subst h8
    simp only [Cmp.groRec, stamp, h5, h6, h7]

private theorem forall₂_right {β γ : Type} {R : β → γ → Prop} :
    ∀ {l1 : List β} {l2 : List γ}, List.Forall₂ R l1 l2 → ∀ q ∈ l2, ∃ r ∈ l1, R r q
  | _, _, .nil => fun _ hq => by cases hq
  | _, _, .cons h t => fun q hq => by
    rcases List.mem_cons.mp hq with rfl | hq
    · exact ⟨_, List.mem_cons_self .., h⟩
    · obtain ⟨r, hr, hR⟩ := forall₂_right t q hq
      exact ⟨r, List.mem_cons_of_mem _ hr, hR⟩

/-- the file name the method uses -/
def fileName (fname : Option String) (molName : String) : String :=
  match fname with
  | some f => f
  | none => Cmp.defaultName molName

/-- **The comparative file.**  `s`, `e`: the molecules the Alignment stores, in ANY state a stored molecule can
    be in (`MolState`: well formed, labels of topology and coordinates agreeing), with atoms `cs`, `ce`;
    `rs`, `re`: for each of them, in order, the record described by `IsRecordOf` with `1 START` / `2 END`.
    Given that the two `deep_copy()` calls succeed and the file name has a registered extension: if the C13
    writer session *`writeline(r)` for every `r` of `rs ++ re`, `close()`* on a fresh file raises nowhere,
    then `write_comparative_gro` returns normally and the file it leaves is byte for byte the file of that
    session — `len(start) + len(end)` records, start first, in atom order. -/
theorem comparative_records (toDy : α → Option PyStr.Dy) (h h1 h2 : Heap α) (a : Cmp.Ali F P) (s e ds de : Nat)
    (fname : Option String) (hs : a.start = some s) (he : a.end_ = some e)
    {vs ve : MolView} {ts te : List AtomTopC} {cs ce : List (AtomGroC α)}
    (Ss : MolState h s vs ts cs) (Se : MolState h e ve te ce)
    (d1 : Cmp.deepCopyMol h s = (h1, .ok ds)) (d2 : Cmp.deepCopyMol h1 e = (h2, .ok de))
    (hext : Cmp.extOk (fileName fname vs.name) = true)
    (rs re : List Gro.Rec) (hrs : List.Forall₂ (IsRecordOf toDy 1 "START") cs rs)
    (hre : List.Forall₂ (IsRecordOf toDy 2 "END") ce re)
    (hok : ∀ x ∈ (Gro.run Gro.WState.init ((rs ++ re).map Gro.Op.writeLine ++ [Gro.Op.close])).2, x = none) :
    let res := Cmp.writeComparative toDy h a fname
    res.err = none ∧ res.file = some (fileName fname vs.name) ∧
    res.bytes = (Gro.run Gro.WState.init ((rs ++ re).map Gro.Op.writeLine ++ [Gro.Op.close])).1.bytes ∧
    (rs ++ re).length = cs.length + ce.length := by
  intro res
  obtain ⟨h3, vs', ve', hc, A, B, _, _⟩ := comparativeCopies_ok Ss Se d1 d2
  have hb := writeBlock_eq_session toDy A B rs re (recsOf_stamp toDy 1 "START" hrs)
    (recsOf_stamp toDy 2 "END" hre) hok
  have hres : res = ⟨h3, some (fileName fname vs.name),
      (Gro.run Gro.WState.init ((rs ++ re).map Gro.Op.writeLine ++ [Gro.Op.close])).1.bytes, none⟩ := by
    show Cmp.writeComparative toDy h a fname = _
    unfold Cmp.writeComparative
    simp only [hs, he]
    cases fname with
    | some f =>
      simp only [fileName] at hext
      simp only [hc, hext, Bool.not_true, Bool.false_eq_true, ↓reduceIte, hb, fileName]
    | none =>
      simp only [fileName] at hext
      simp only [Ss.wf.view, Option.map_some, hc, hext, Bool.not_true, Bool.false_eq_true, ↓reduceIte, hb, fileName]
  rw [hres]
  refine ⟨rfl, rfl, rfl, ?_⟩
  rw [List.length_append, hrs.length_eq, hre.length_eq]

/-- **… for every pair of stored molecules.**  The two `deep_copy()` calls succeed whenever every residue of the
    stored molecules is uniform (`UniformResidues`: one residue number and name per residue — what
    `Residue.__init__` demands); so, under that condition alone, for EVERY pair of stored molecules in a
    `MolState`: the six assignments raise nowhere and the conclusion of `comparative_records` holds. -/
theorem comparative_succeeds (toDy : α → Option PyStr.Dy) (h : Heap α) (a : Cmp.Ali F P) (s e : Nat)
    (fname : Option String) (hs : a.start = some s) (he : a.end_ = some e)
    {vs ve : MolView} {ts te : List AtomTopC} {cs ce : List (AtomGroC α)}
    (Ss : MolState h s vs ts cs) (Se : MolState h e ve te ce)
    (us : UniformResidues h vs) (ue : UniformResidues h ve)
    (hext : Cmp.extOk (fileName fname vs.name) = true)
    (rs re : List Gro.Rec) (hrs : List.Forall₂ (IsRecordOf toDy 1 "START") cs rs)
    (hre : List.Forall₂ (IsRecordOf toDy 2 "END") ce re)
    (hok : ∀ x ∈ (Gro.run Gro.WState.init ((rs ++ re).map Gro.Op.writeLine ++ [Gro.Op.close])).2, x = none) :
    let res := Cmp.writeComparative toDy h a fname
    res.err = none ∧ res.file = some (fileName fname vs.name) ∧
    res.bytes = (Gro.run Gro.WState.init ((rs ++ re).map Gro.Op.writeLine ++ [Gro.Op.close])).1.bytes ∧
    (rs ++ re).length = cs.length + ce.length := by
  obtain ⟨h1, ds, d1⟩ := deepCopyMol_succeeds Ss us
  obtain ⟨_, _, _, _, F1⟩ := deepCopy_state Ss (deepCopyMol_ok d1)
  have Se1 : MolState h1 e ve te ce := Se.frame_other (F1 Rel.any) (fun _ _ w => w)
  have ue1 : UniformResidues h1 ve := by
    intro p hp
    obtain ⟨c, hc1, hc2⟩ := ue p hp
    exact ⟨c, readGros_frame (F1 Rel.any) hc1 (fun _ _ w => w), hc2⟩
  obtain ⟨h2, de, d2⟩ := deepCopyMol_succeeds Se1 ue1
  exact comparative_records toDy h h1 h2 a s e ds de fname hs he Ss Se d1 d2 hext rs re hrs hre hok

/-- **Purity.**  Whatever `write_comparative_gro` does — on every path, including a `deep_copy()` that raises,
    a wrong extension, a failing write — NO cell that existed before the call is changed: the Alignment's stored
    molecules (coordinate side and topology side), the caller's molecules, every other object are literally
    as they were.  (The method works on deep copies made of fresh cells only.) -/
theorem comparative_pure (toDy : α → Option PyStr.Dy) (h : Heap α) (a : Cmp.Ali F P) (s e : Nat)
    (fname : Option String) (hs : a.start = some s) (he : a.end_ = some e)
    {vs ve : MolView} {ts te : List AtomTopC} {cs ce : List (AtomGroC α)}
    (Ss : MolState h s vs ts cs) (Se : MolState h e ve te ce) :
    ∀ addr, addr < h.size → (Cmp.writeComparative toDy h a fname).heap.get? addr = h.get? addr := by
  intro addr haddr
  have hp := comparativeCopies_pure Ss Se addr haddr
  unfold Cmp.writeComparative
  simp only [hs, he]
  cases fname with
  | some f =>
    simp only
    cases hc : Cmp.comparativeCopies h s e with
    | mk h1 r =>
      rw [hc] at hp
      cases r with
      | error err => exact hp
      | ok p =>
        obtain ⟨ds, de⟩ := p
        simp only
        split
        · exact hp
        · exact hp
  | none =>
    simp only [Ss.wf.view, Option.map_some]
    cases hc : Cmp.comparativeCopies h s e with
    | mk h1 r =>
      rw [hc] at hp
      cases r with
      | error err => exact hp
      | ok p =>
        obtain ⟨ds, de⟩ := p
        simp only
        split
        · exact hp
        · exact hp

/-- … in observable terms: the records of the stored molecules (and of any molecule that was there before) read
    the same afterwards -/
theorem comparative_pure_observables (toDy : α → Option PyStr.Dy) (h : Heap α) (a : Cmp.Ali F P) (s e : Nat)
    (fname : Option String) (hs : a.start = some s) (he : a.end_ = some e)
    {vs ve : MolView} {ts te : List AtomTopC} {cs ce : List (AtomGroC α)}
    (Ss : MolState h s vs ts cs) (Se : MolState h e ve te ce) :
    let h' := (Cmp.writeComparative toDy h a fname).heap
    MolState h' s vs ts cs ∧ MolState h' e ve te ce ∧
    ∀ (x : Nat) (vx : MolView) (tx : List AtomTopC) (cx : List (AtomGroC α)),
      MolState h x vx tx cx → readGros h' vx.gros = some cx ∧ readTops h' vx.tops = some tx := by
  intro h'
  have pure := comparative_pure toDy h a s e fname hs he Ss Se
  have keepG : ∀ {gs : List Nat} {c : List (AtomGroC α)}, readGros h gs = some c → readGros h' gs = some c := by
    intro gs c hr
    rw [← hr]
    apply readGros_congr
    intro g hg
    obtain ⟨c0, hc0⟩ := readGros_mem hr g hg
    unfold Heap.gro?
    rw [pure g (gro?_lt hc0)]
  have keepT : ∀ {gs : List Nat} {c : List AtomTopC}, readTops h gs = some c → readTops h' gs = some c := by
    intro gs c hr
    rw [← hr]
    apply readTops_congr
    intro g hg
    obtain ⟨c0, hc0⟩ := readTops_mem hr g hg
    unfold Heap.top?
    rw [pure g (top?_lt hc0)]
  have keepV : ∀ {m : Nat} {v : MolView} {t : List AtomTopC} {c : List (AtomGroC α)},
      MolState h m v t c → MolState h' m v t c := by
    intro m v t c S
    obtain ⟨g1, g2, g3, g4⟩ := molView_gros S.wf.view
    have hm : h'.mol? m = some (v.top, v.residues, v.each) := by
      unfold Heap.mol? at g3 ⊢
      rw [pure m (by
        cases hx : h.get? m with
        | none => simp [hx] at g3
        | some cell => exact Heap.lt_size_of_get? hx)]
      exact g3
    have hmt : h'.mtop? v.top = some (v.name, v.tops) := by
      unfold Heap.mtop? at g4 ⊢
      rw [pure v.top (by
        cases hx : h.get? v.top with
        | none => simp [hx] at g4
        | some cell => exact Heap.lt_size_of_get? hx)]
      exact g4
    have hrs : readRess h' v.residues = some v.parts := by
      have : ∀ (rs : List Nat) (ps : List (List Nat)), readRess h rs = some ps → readRess h' rs = some ps := by
        intro rs
        induction rs with
        | nil => intro ps hr; simpa [readRess] using hr
        | cons r rs ih =>
          intro ps hr
          simp only [readRess] at hr ⊢
          cases e1 : h.res? r with
          | none => simp [e1] at hr
          | some l =>
            cases e2 : readRess h rs with
            | none => simp [e1, e2] at hr
            | some ls =>
              simp only [e1, e2] at hr
              have : h'.res? r = some l := by
                unfold Heap.res? at e1 ⊢
                rw [pure r (res?_lt (by unfold Heap.res?; exact e1))]
                exact e1
              simp only [this, ih ls e2]
              exact hr
      exact this _ _ g2
    have hview : molView h' m = some v := by
      have := molView_of_parts hm hmt hrs
      rw [this]
      congr 1
      obtain ⟨a1, a2, a3, a4, a5, a6, a7⟩ := v
      simp only at g1
      subst g1
      rfl
    exact ⟨⟨hview, S.wf.each, S.wf.len, S.wf.nodup, keepG S.wf.cells⟩, keepT S.tops, S.ndT, S.agree⟩
  exact ⟨keepV Ss, keepV Se, fun x vx tx cx Sx => ⟨keepG Sx.wf.cells, keepT Sx.tops⟩⟩

/-- **Round trip.**  If moreover every record satisfies C13's precondition for the default position format
    (`RecOk 8 3 false`: atom names of 1–5 non-blank characters — `START` / `END` are —, coordinates that fit
    eight columns with three decimals), the stored start molecule has at least one atom and the file holds fewer
    than 10⁹ records, then `write_comparative_gro` returns normally and READING THE FILE BACK with the C13
    reader succeeds and returns exactly `len(start) + len(end)` records which are, in order, those records:
    identical names, the numbers `1` / `2` and the atom numbers (below 100000 unchanged), every coordinate within
    `0.0005` of the stored one, no velocities; the default title and a zero box. -/
theorem comparative_roundtrip (toDy : α → Option PyStr.Dy) (h h1 h2 : Heap α) (a : Cmp.Ali F P)
    (s e ds de : Nat) (fname : Option String) (hs : a.start = some s) (he : a.end_ = some e)
    {vs ve : MolView} {ts te : List AtomTopC} {cs ce : List (AtomGroC α)}
    (Ss : MolState h s vs ts cs) (Se : MolState h e ve te ce)
    (d1 : Cmp.deepCopyMol h s = (h1, .ok ds)) (d2 : Cmp.deepCopyMol h1 e = (h2, .ok de))
    (hext : Cmp.extOk (fileName fname vs.name) = true)
    (rs re : List Gro.Rec) (hrs : List.Forall₂ (IsRecordOf toDy 1 "START") cs rs)
    (hre : List.Forall₂ (IsRecordOf toDy 2 "END") ce re)
    (hrec : ∀ r ∈ rs ++ re, GroL.RecOk 8 3 false r) (hne : cs ≠ []) (hcount : (rs ++ re).length < 10 ^ 9) :
    let res := Cmp.writeComparative toDy h a fname
    res.err = none ∧
    ∃ data, Gro.groRead Gro.stdParsers res.bytes = .ok data ∧
      data.recs.length = cs.length + ce.length ∧
      List.Forall₂ (C13.RecSame 3) (rs ++ re) data.recs ∧
      (∀ q ∈ data.recs, q.vel = none) ∧
      data.title = Gro.defaultComment ++ [PyStr.nl] ∧ C13.BoxWithin Gro.Box.zeros data.box := by
  intro res
  -- the record list is not empty
  obtain ⟨r0, rest, hcons⟩ : ∃ r0 rest, rs ++ re = r0 :: rest := by
    cases hrs with
    | nil => exact absurd rfl hne
    | cons h t => exact ⟨_, _, rfl⟩
  have rt := C13.gro_roundtrip [] r0 rest 8 3 false Gro.WState.init (fun _ hm => by cases hm) rfl rfl
    (by decide) (by show PyStr.nl ∉ Gro.defaultComment; decide)
    (by show (r0 :: rest).length < 10 ^ 9; rw [← hcons]; exact hcount)
    (by rw [← hcons]; exact hrec)
  simp only [List.nil_append] at rt
  rw [← hcons] at rt
  obtain ⟨hok, data, hread, htitle, hlen, hsame, hbox⟩ := rt
  obtain ⟨e1, _, e3, e4⟩ := comparative_records toDy h h1 h2 a s e ds de fname hs he Ss Se d1 d2 hext rs re hrs hre hok
  refine ⟨e1, data, ?_, ?_, hsame, ?_, htitle, hbox⟩
  · show Gro.groRead Gro.stdParsers (Cmp.writeComparative toDy h a fname).bytes = _
    rw [e3]; exact hread
  · rw [hlen]; exact e4
  · -- none of the written records has velocities, so none of the records read has
    intro q hq
    have hvel : ∀ r ∈ rs ++ re, r.vel = none := by
      intro r hr
      rcases List.mem_append.mp hr with hr | hr
      · obtain ⟨c, _, hc⟩ := forall₂_right hrs r hr
        exact hc.2.2.2.2.2.2.2
      · obtain ⟨c, _, hc⟩ := forall₂_right hre r hr
        exact hc.2.2.2.2.2.2.2
    obtain ⟨r, hr, hR⟩ := forall₂_right hsame q hq
    have hv := hR.2.2.2.2.2.2.2.2.2
    rw [hvel r hr] at hv
    cases hqv : q.vel with
    | none => rfl
    | some v => simp [hqv] at hv

end comparative

/-! ### `AtomGro.gro_line` -/

/-- **`AtomGro.gro_line(parsed=False)`** of an atom whose record `r` (= `gro_line()`, `parsed=True`) meets C13's
    precondition is the line the writer emits for `r` under the default position format — 44 characters, 68 with
    velocities — and `parse_atomline` of that line (format inferred from the line itself) returns the record
    rounded to three decimals (four for velocities): names identical, numbers modulo 100000 -/
theorem gro_line_text_roundtrip (toDy : α → Option PyStr.Dy) (c : AtomGroC α) (r : Gro.Rec) (vel : Bool)
    (hr : Cmp.groRec toDy c = some r) (hok : GroL.RecOk 8 3 vel r) :
    Cmp.groLineText toDy c = .ok (GroL.lineOf 8 3 r) ∧
    (GroL.lineOf 8 3 r).length = 20 + 3 * 8 * (if vel then 2 else 1) ∧
    Gro.parseAtomlineAuto Gro.stdParsers (GroL.lineOf 8 3 r ++ [PyStr.nl]) = .ok (GroL.roundRec 3 r) ∧
    C13.RecSame 3 r (GroL.roundRec 3 r) := by
  obtain ⟨e1, _, e3⟩ := C13.atomlist_default_format vel r hok
  refine ⟨?_, e3, C13.line_roundtrip_auto 8 3 vel r hok (by decide), C13.roundRec_same 3 r⟩
  unfold Cmp.groLineText
  simp only [hr, e1]

/-! ### the `restrictions=None` path of `align_molecules` -/

section guess
variable [Scalar α]

/-- with an explicit restraint list `align_molecules` is C06's `alignMolecules` (every theorem of `Props/C06.lean`
    is about it, for ALL restraint lists) … -/
theorem align_explicit_restrictions
    (chi2Of : List (V3 α) → Config α → List (Int × Int) → Config α → α) (moveOf : BondsInfo α → α → MoveFn α)
    (sf : Nat) (sigma : α) (start end_ : Mol α) (ls le : ResLayout) (r : List (Int × Int))
    (deform : Option (List Int)) (ignoreH autoGuess : Bool) (tape : Tape α) :
    alignMoleculesG chi2Of moveOf sf sigma start end_ ls le (some r) deform ignoreH autoGuess tape =
      alignMolecules chi2Of moveOf sf sigma start end_ r deform ignoreH tape := rfl

/-- … and with `restrictions=None` it either is `alignMolecules` on the guessed list (so the same theorems
    apply), or raises `IOError` BEFORE anything is moved and before any random number is drawn -/
theorem align_none_reduces
    (chi2Of : List (V3 α) → Config α → List (Int × Int) → Config α → α) (moveOf : BondsInfo α → α → MoveFn α)
    (sf : Nat) (sigma : α) (start end_ : Mol α) (ls le : ResLayout)
    (deform : Option (List Int)) (ignoreH autoGuess : Bool) (tape : Tape α) :
    (∃ r, guessRestrictions ls le autoGuess = .ok r ∧
      alignMoleculesG chi2Of moveOf sf sigma start end_ ls le none deform ignoreH autoGuess tape =
        alignMolecules chi2Of moveOf sf sigma start end_ r deform ignoreH tape) ∨
    (guessRestrictions ls le autoGuess = .error .cannotGuess ∧
      alignMoleculesG chi2Of moveOf sf sigma start end_ ls le none deform ignoreH autoGuess tape =
        .error .ioError) := by
  unfold alignMoleculesG effectiveRestrictions
  cases hg : guessRestrictions ls le autoGuess with
  | ok r => exact Or.inl ⟨r, rfl, rfl⟩
  | error e => cases e; exact Or.inr ⟨rfl, rfl⟩

omit [Scalar α] in
/-- no guess for a single-residue start molecule or with the switch off: the empty list -/
theorem guess_not_attempted (ls le : ResLayout) (autoGuess : Bool) (h : ls.length ≤ 1 ∨ autoGuess = false) :
    guessRestrictions ls le autoGuess = .ok [] := by
  unfold guessRestrictions
  rcases h with h | h
  · have : ¬ (ls.length > 1) := by omega
    simp [this]
  · simp [h]

omit [Scalar α] in
/-- different residue counts: the guess is refused (C10: `guess_protein_restrains` raises `IOError`; the `except`
    clause re-raises it with the advice to switch the guess off) -/
theorem guess_count_mismatch_refused (ls le : ResLayout) (h1 : 1 < ls.length) (hne : ls.length ≠ le.length) :
    guessRestrictions ls le true = .error .cannotGuess := by
  unfold guessRestrictions
  have hm : Restr.guessProtein ls.toRestr le.toRestr = .error .ioError :=
    Restr.guessProtein_count_mismatch _ _ (by simpa [ResLayout.toRestr] using hne)
  simp [h1, hm]

omit [Scalar α] in
/-- equal counts and compatible names (equal lists, or pairwise one contained in the other): accepted -/
theorem guess_compatible_accepted (ls le : ResLayout) (autoGuess : Bool) (hlen : ls.length = le.length)
    (hc : Restr.NamesCompatible ls.toRestr le.toRestr) : ∃ r, guessRestrictions ls le autoGuess = .ok r := by
  unfold guessRestrictions
  split
  · rw [Restr.guessProtein_ok _ _ (by simpa [ResLayout.toRestr] using hlen) hc]
    exact ⟨_, rfl⟩
  · exact ⟨_, rfl⟩

end guess

/-! ### non-vacuity: a concrete Alignment object (evaluated by the kernel) -/

namespace NonVacuity

/-- an exact computable scalar, used ONLY to evaluate the concrete heap of this example -/
local instance : Scalar Int where
  add := Int.add
  sub := Int.sub
  mul := Int.mul
  div := fun a b => a / b
  neg := Int.neg
  zero := 0
  one := 1
  ofInt n := n
  ofDec m _ := m
  sqrt x := x
  cos x := x
  sin x := x
  isZero x := x == 0
  lt a b := a < b
  le a b := a ≤ b
  round x := x
  abs x := x.natAbs

/-- an integer coordinate as the dyadic `± n · 2⁰` -/
def toDy (n : Int) : Option PyStr.Dy := some ⟨decide (n < 0), n.natAbs, 0⟩

def g (resid : Int) (rn n : String) (id : Int) (x y z : Int) (v : Option (V3 Int)) : AtomGroC Int :=
  ⟨resid, rn, n, id, ⟨x, y, z⟩, v⟩

/-- caller's start molecule: three atoms in two residues, two of them with velocities -/
def stX : StepR Int := newMol Heap.empty "M"
  [⟨"A1", "RA", 1, 0, [1]⟩, ⟨"A2", "RA", 1, 1, [0, 2]⟩, ⟨"B1", "RB", 2, 2, [1]⟩]
  [[g 1 "RA" "A1" 1 0 0 0 (some ⟨1, 2, 3⟩), g 1 "RA" "A2" 2 1 0 0 (some ⟨0, 0, 0⟩)],
   [g 2 "RB" "B1" 3 1 (-1) 0 none]]

/-- caller's end molecule: residue number 7, an atom number above 99999 -/
def stY : StepR Int := newMol stX.heap "N"
  [⟨"C1", "RC", 1, 0, [1]⟩, ⟨"C2", "RC", 1, 1, [0]⟩]
  [[g 7 "RC" "C1" 100001 5 5 5 none, g 7 "RC" "C2" 2 6 5 5 none]]

/-- `Alignment(start, end)`: the two copy-on-set assignments (`.mol 14` and `.mol 24` are the caller's) -/
def set1 := Cmp.setStart (F := Unit) (P := Unit) stY.heap {} (.mol 14)
def set2 := Cmp.setEnd (F := Unit) (P := Unit) set1.1 set1.2.1 (.mol 24)
def hA : Heap Int := set2.1
def ali : Cmp.Ali Unit Unit := set2.2.1

example : ali.start = some 30 ∧ ali.end_ = some 34 ∧ set1.2.2 = none ∧ set2.2.2 = none := by decide

def vS : MolView := ⟨3, "M", [0, 1, 2], [27, 29], [0, 0, 1], [[25, 26], [28]], [25, 26, 28]⟩
def vE : MolView := ⟨17, "N", [15, 16], [33], [0, 0], [[31, 32]], [31, 32]⟩
def tsS : List AtomTopC := [⟨"A1", "RA", 1, 0, [1]⟩, ⟨"A2", "RA", 1, 1, [0, 2]⟩, ⟨"B1", "RB", 2, 2, [1]⟩]
def tsE : List AtomTopC := [⟨"C1", "RC", 1, 0, [1]⟩, ⟨"C2", "RC", 1, 1, [0]⟩]
def csS : List (AtomGroC Int) :=
  [g 1 "RA" "A1" 1 0 0 0 (some ⟨1, 2, 3⟩), g 1 "RA" "A2" 2 1 0 0 (some ⟨0, 0, 0⟩), g 2 "RB" "B1" 3 1 (-1) 0 none]
def csE : List (AtomGroC Int) := [g 7 "RC" "C1" 100001 5 5 5 none, g 7 "RC" "C2" 2 6 5 5 none]

theorem stateS : MolState hA 30 vS tsS csS :=
  ⟨⟨by decide, by decide, by decide, by decide, rfl⟩, rfl, by decide,
   ⟨⟨rfl, rfl⟩, ⟨rfl, rfl⟩, ⟨rfl, rfl⟩, trivial⟩⟩

theorem stateE : MolState hA 34 vE tsE csE :=
  ⟨⟨by decide, by decide, by decide, by decide, rfl⟩, rfl, by decide,
   ⟨⟨rfl, rfl⟩, ⟨rfl, rfl⟩, trivial⟩⟩

private theorem ok_eta (p : Heap Int × Except PyErr Nat) (c : Nat)
    (h : (match p.2 with | .ok a => decide (a = c) | .error _ => false) = true) : p = (p.1, .ok c) := by
  obtain ⟨p1, p2⟩ := p
  cases p2 with
  | error e => simp at h
  | ok a => simp at h; subst h; rfl

theorem copy1 : Cmp.deepCopyMol hA 30 = ((Cmp.deepCopyMol hA 30).1, .ok 44) := ok_eta _ _ (by decide)
theorem copy2 : Cmp.deepCopyMol (Cmp.deepCopyMol hA 30).1 34 =
    ((Cmp.deepCopyMol (Cmp.deepCopyMol hA 30).1 34).1, .ok 51) := ok_eta _ _ (by decide)

def d (n : Int) : PyStr.Dy := ⟨decide (n < 0), n.natAbs, 0⟩
def rsS : List Gro.Rec :=
  [⟨1, Cmp.strBytes "START", Cmp.strBytes "A1", 1, d 0, d 0, d 0, none⟩,
   ⟨1, Cmp.strBytes "START", Cmp.strBytes "A2", 2, d 1, d 0, d 0, none⟩,
   ⟨1, Cmp.strBytes "START", Cmp.strBytes "B1", 3, d 1, d (-1), d 0, none⟩]
def rsE : List Gro.Rec :=
  [⟨2, Cmp.strBytes "END", Cmp.strBytes "C1", 100001, d 5, d 5, d 5, none⟩,
   ⟨2, Cmp.strBytes "END", Cmp.strBytes "C2", 2, d 6, d 5, d 5, none⟩]

theorem recsS : List.Forall₂ (IsRecordOf toDy 1 "START") csS rsS :=
  .cons ⟨rfl, rfl, rfl, rfl, rfl, rfl, rfl, rfl⟩ (.cons ⟨rfl, rfl, rfl, rfl, rfl, rfl, rfl, rfl⟩
    (.cons ⟨rfl, rfl, rfl, rfl, rfl, rfl, rfl, rfl⟩ .nil))
theorem recsE : List.Forall₂ (IsRecordOf toDy 2 "END") csE rsE :=
  .cons ⟨rfl, rfl, rfl, rfl, rfl, rfl, rfl, rfl⟩ (.cons ⟨rfl, rfl, rfl, rfl, rfl, rfl, rfl, rfl⟩ .nil)

open PyStr in
theorem recsOk : ∀ r ∈ rsS ++ rsE, GroL.RecOk 8 3 false r := by
  intro r hr
  simp only [rsS, rsE, List.cons_append, List.nil_append, List.mem_cons, List.not_mem_nil, or_false] at hr
  rcases hr with rfl | rfl | rfl | rfl | rfl
  all_goals
    constructor
    · exact ⟨by decide, by decide, by decide⟩
    · exact ⟨by decide, by decide, by decide⟩
    all_goals
      simp [d, GroL.VelOk, fitsFixed, fixedBody, scaledRound, roundHalfEvenDiv, natDigits, digitChar, padZeros]

/-- every hypothesis of `comparative_roundtrip` (hence of `comparative_records`) holds for this object, with the
    DEFAULT file name; so the theorem yields: the call returns normally and the file `M_compare.gro`, read back,
    holds five records `1 START` ×3, `2 END` ×2 with the stored names and coordinates and no velocities —
    although the stored start molecule has velocities, two residues `RA`/`RB` and the end molecule residue 7 -/
example :=
  comparative_roundtrip toDy hA _ _ ali 30 34 44 51 none (by decide) (by decide) stateS stateE copy1 copy2
    (by decide) rsS rsE recsS recsE recsOk (by decide) (by decide)

/-- … and `comparative_succeeds`: the residues of both stored molecules are uniform -/
example : UniformResidues hA vS ∧ UniformResidues hA vE := by
  constructor
  · intro p hp
    simp only [vS, List.mem_cons, List.not_mem_nil, or_false] at hp
    rcases hp with rfl | rfl
    · exact ⟨[g 1 "RA" "A1" 1 0 0 0 (some ⟨1, 2, 3⟩), g 1 "RA" "A2" 2 1 0 0 (some ⟨0, 0, 0⟩)], rfl, by decide⟩
    · exact ⟨[g 2 "RB" "B1" 3 1 (-1) 0 none], rfl, by decide⟩
  · intro p hp
    simp only [vE, List.mem_cons, List.not_mem_nil, or_false] at hp
    subst hp
    exact ⟨csE, rfl, by decide⟩

/-- `gro_line_text_roundtrip` on the first stamped atom -/
example := gro_line_text_roundtrip toDy (g 1 "START" "A1" 1 0 0 0 none)
  ⟨1, Cmp.strBytes "START", Cmp.strBytes "A1", 1, d 0, d 0, d 0, none⟩ false rfl
  (recsOk _ (by simp [rsS]))

/-- purity applies to the same object -/
example := comparative_pure toDy hA ali 30 34 none (by decide) (by decide) stateS stateE

/-- the refusals are not vacuous either: an object with only a start molecule -/
example : (Cmp.initExchangeMap (F := Unit) (P := Unit) ⟨fun _ _ _ => (), fun _ _ => (), fun _ _ => ⟨0, 0, 0⟩,
    fun _ _ => none⟩ set1.1 set1.2.1).2 = some .valueError :=
  congrArg Prod.snd (init_map_unset_refused _ _ _ (Or.inr (by decide)))

/-- the guess: two residues against two (accepted), against three (refused) -/
example : guessRestrictions [("ALA", 2), ("GLY", 1)] [("ALAN", 1), ("GLY", 2)] true
      = .ok [(0, 0), (1, 0), (2, 1), (2, 2)] ∧
    guessRestrictions [("ALA", 2), ("GLY", 1)] [("ALA", 1), ("GLY", 2), ("W", 1)] true = .error .cannotGuess :=
  ⟨by decide, guess_count_mismatch_refused _ _ (by decide) (by decide)⟩

end NonVacuity

end C06X
