import GMProofs.Props.C11
import GMProofs.Props.C12Extra
/-!
# C11 (work package WPI) — the rest of the public API of `System`

`__str__` and `__getitem__` with an index that is neither `int` nor `slice`.  Model: `GMModel/SysStr.lean`
(`SRec.Sys.str`, `Sys.accessX`).  Only property theorems and their non-vacuity examples live here.
-/
open SGro SRec

namespace C11

/-- `system[x]` with `x` neither `int` nor `slice` (a numpy integer, a float, a str, `None`, a tuple …) raises
    `TypeError` and leaves the system — including the cursor of its coordinate file — exactly as it was; the
    other operations of the extended language ARE `Sys.access` (`len_comp_index_agree` and the theorems of
    `Props/C11.lean` apply to them unchanged) -/
theorem system_getitem_other (s : Sys) :
    s.accessX .getOther = (.error .TypeError, s) ∧
    (∀ op, s.accessX (.base op) = ((s.access op).1.map SXVal.mols, (s.access op).2)) ∧
    (s.accessX .str).2 = s :=
  ⟨rfl, fun _ => rfl, rfl⟩

/-- the names of `System.composition` are pairwise distinct (a `Counter` keyed by molecule name: species whose
    topologies carry the same name are counted together) -/
theorem composition_names_nodup (s : Sys) (c : List (Str × Nat)) (h : s.composition = .ok c) :
    (c.map (·.1)).Nodup := by
  unfold Sys.composition at h
  have : ∀ (l : List Entry) (acc c : List (Str × Nat)), (acc.map (·.1)).Nodup →
      l.foldlM (fun (acc : List (Str × Nat)) (e : Entry) =>
        match s.mols[e.1]? with
        | some m => (.ok (counterAdd acc m.top.name e.2.2) : Except PyErr _)
        | none => .error .IndexError) acc = .ok c → (c.map (·.1)).Nodup := by
    intro l
    induction l with
    | nil =>
      intro acc c ha hc
      simp only [List.foldlM_nil, pure, Except.pure, Except.ok.injEq] at hc
      subst hc; exact ha
    | cons p l ih =>
      intro acc c ha hc
      simp only [List.foldlM_cons, bind, Except.bind] at hc
      split at hc
      · cases hc
      · rename_i acc' he
        split at he
        · injection he with he
          subst he
          exact ih _ c (C12.counterAdd_keys acc _ _ ha) hc
        · cases he
  exact this s.ordered [] c (by simp) h

/-- **`str(system)`.**  With no recognised molecule it is the sentence `'Simulation system with no loaded
    molecules.'`; otherwise the header `'Simulation system with:\n\n'` followed by one line
    `"{:6}: {}".format(name, count)` per molecule name of the composition, each exactly once, joined by `'\n'`,
    by strictly increasing name. -/
theorem system_str_spec (s : Sys) (c : List (Str × Nat)) (h : s.composition = .ok c) :
    (c = [] → s.str = .ok "Simulation system with no loaded molecules.".toList) ∧
    (c ≠ [] → ∃ items : List (Str × Nat), s.str = .ok (strHeader ++ joinNl (items.map fmtItem)) ∧ items.Perm c ∧
      items.Pairwise (fun a b => a.1 ≤ b.1 ∧ a.1 ≠ b.1)) := by
  refine ⟨fun e => ?_, fun hne => ?_⟩
  · subst e
    simp only [Sys.str, h]
  · obtain ⟨h1, h2⟩ := C12.sorted_items_spec c (composition_names_nodup s c h)
    refine ⟨sortedItems c, ?_, h1, h2⟩
    cases c with
    | nil => exact absurd rfl hne
    | cons p c => simp only [Sys.str, h, compositionStr]

/-! ### non-vacuity -/

/-- an empty `System` and one with two species (test: evaluated on the model) -/
example : (match Sys.init C12.exFile with
    | .error _ => none
    | .ok s => s.str.toOption) = some "Simulation system with no loaded molecules.".toList := by decide

example : (match Sys.init C12.exFile with
    | .error _ => none
    | .ok s => some (s.accessX .getOther).1.toOption.isNone) = some true := by decide

/-- two species in three blocks (BMIM ×3, BF4 ×2, BMIM ×1): names sorted by code point, counts added up -/
example : (Sys.str ⟨C12.exFile, SG.empty, ⟨0, 0⟩, [⟨⟨"BMIM".toList, []⟩, []⟩, ⟨⟨"BF4".toList, []⟩, []⟩],
      [(0, 0, 3), (1, 3, 2), (0, 5, 1)], []⟩).toOption =
    some "Simulation system with:\n\nBF4   : 2\nBMIM  : 4".toList := by decide

end C11
