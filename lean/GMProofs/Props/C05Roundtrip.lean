import GMProofs.Props.C05
import GMProofs.Props.C13
import GMProofs.Lemmas.ManagerGroL
/-
  C05 (continued) — `extrapolate_roundtrip`: the composition of C05's `extrapolate_records`
  (`Mgr.extrapolate` emits header, the mapped atoms numbered 1…n, close) with C13's `gro_roundtrip`
  (the byte-level writer/reader), through the op translation `MgrGro.toOps` (`GMModel.ManagerGro`).
  Only property theorems and their non-vacuity examples live here.
-/
open PyStr PyStrL Gro GroL GroNum Mgr MgrGro

namespace C05

/-- what is read back for one mapped atom `a = (residue number of the INPUT molecule, target atom)`:
    names identical, the residue number modulo 100000, coordinates within `½·10⁻³`, and — iff the atom
    has velocities — velocities within `½·10⁻⁴` -/
def AtomSame (a : Int × TAtom PV) (q : RRec) : Prop :=
  q.resname = codes a.2.resname ∧ q.name = codes a.2.name ∧ q.resnum = a.1 % 100000 ∧
  C13.Within 3 a.2.pos.x q.x ∧ C13.Within 3 a.2.pos.y q.y ∧ C13.Within 3 a.2.pos.z q.z ∧
  ((a.2.hasVel = false ∧ q.vel = none) ∨
   (a.2.hasVel = true ∧ ∃ vx vy vz, q.vel = some (vx, vy, vz) ∧
      C13.Within 4 a.2.pos.vel.1 vx ∧ C13.Within 4 a.2.pos.vel.2.1 vy ∧ C13.Within 4 a.2.pos.vel.2.2 vz))

private theorem atomSame_of_recSame (k : Nat) (a : Int × TAtom PV) (q : RRec)
    (h : C13.RecSame 3 (toRec (mkRec k a)) q) : AtomSame a q ∧ q.atomnum = (k : Int) % 100000 := by
  obtain ⟨h1, h2, -, -, h5, h6, hx, hy, hz, hv⟩ := h
  refine ⟨⟨h1, h2, h5, hx, hy, hz, ?_⟩, h6⟩
  simp only [toRec, mkRec] at hv
  cases hh : a.2.hasVel with
  | false =>
    simp only [hh, Bool.false_eq_true, if_false] at hv
    cases hq : q.vel with
    | none => exact Or.inl ⟨rfl, rfl⟩
    | some t => rw [hq] at hv; exact absurd hv (by simp)
  | true =>
    simp only [hh, if_true] at hv
    cases hq : q.vel with
    | none => rw [hq] at hv; exact absurd hv (by simp)
    | some t =>
      obtain ⟨vx, vy, vz⟩ := t
      rw [hq] at hv
      exact Or.inr ⟨rfl, vx, vy, vz, rfl, hv⟩

private theorem forall2_number (k : Nat) (atoms : List (Int × TAtom PV)) (qs : List RRec)
    (h : List.Forall₂ (C13.RecSame 3) ((number k atoms).map toRec) qs) :
    List.Forall₂ AtomSame atoms qs ∧
      qs.map (·.atomnum) = (List.range' k atoms.length).map (fun (j : Nat) => (j : Int) % 100000) := by
  induction atoms generalizing k qs with
  | nil =>
    simp only [number, List.map_nil] at h
    cases h
    exact ⟨List.Forall₂.nil, rfl⟩
  | cons a t ih =>
    simp only [number, List.map_cons] at h
    cases h with
    | cons hhead htail =>
      obtain ⟨i1, i2⟩ := ih (k + 1) _ htail
      obtain ⟨j1, j2⟩ := atomSame_of_recSame k a _ hhead
      refine ⟨List.Forall₂.cons j1 i1, ?_⟩
      simp only [List.map_cons, List.length_cons, List.range'_succ, j2, i2]

/-- **Read-back of an extrapolated system.** Under the hypotheses of `extrapolate_records` (the pre-flight
    checks pass; every molecule maps without exception and all written atoms have the same velocity
    presence `v`), if moreover the input's title is one line, at least one atom is written (fewer than 10⁹:
    the back-filled count has nine columns) and every mapped atom can be written with the default
    format (`AtomFits`: names of 1–5 non-blank characters, coordinates that fit `8.3`, velocities `8.4`):

    `extrapolate_system` raises nothing, no `GroFile` operation of the script it runs raises, and reading
    the bytes the byte-level writer (C13) produces for that script succeeds and returns
    * the input's title (first line of the input, i.e. with its terminator — as the reader returned it),
    * as many records as the mapped system has atoms (`Σ` target sizes, `extrapolate_count`),
    * atom numbers `1, 2, …, n` modulo 100000,
    * for the `i`-th mapped atom: the target's residue and atom names, the INPUT molecule's residue number
      modulo 100000, coordinates within `½·10⁻³` (velocities `½·10⁻⁴`) of the mapped ones,
    * the input's box within `5e-6` entry-wise. -/
theorem extrapolate_roundtrip {C : Type} (corr : Corr C PV) (sys : List (MolInst C)) (title : String)
    (box : Gro.Box) (v : Bool)
    (hready : Ready corr)
    (hok : ∀ mol ∈ sys, MolOk (completeCorrespondence corr) v mol)
    (htitle : TitleOk (chopNl (codes title)))
    (hne : sys.flatMap (mapped (completeCorrespondence corr)) ≠ [])
    (hN : (sys.flatMap (mapped (completeCorrespondence corr))).length < 10 ^ 9)
    (hfit : ∀ a ∈ sys.flatMap (mapped (completeCorrespondence corr)), AtomFits v a) :
    let atoms := sys.flatMap (mapped (completeCorrespondence corr))
    let r := extrapolate corr sys title box true
    let res := run WState.init (toOps r.ops)
    r.err = none ∧ (∀ e ∈ res.2, e = none) ∧
    ∃ data, groRead stdParsers res.1.bytes = .ok data ∧
      data.title = chopNl (codes title) ++ [nl] ∧
      data.recs.length = atoms.length ∧
      data.recs.map (·.atomnum) = (List.range' 1 atoms.length).map (fun (j : Nat) => (j : Int) % 100000) ∧
      List.Forall₂ AtomSame atoms data.recs ∧
      C13.BoxWithin box data.box := by
  intro atoms r res
  have hrec := extrapolate_records corr sys title box v hready hok
  have hr : r = ⟨.openW :: .comment title :: .box box :: ((number 1 atoms).map .line ++ [.close]), none⟩ := hrec
  have hvel := flatMap_mapped_hasVel hok
  -- the translated records: at least one, all well formed
  obtain ⟨a0, arest, hatoms⟩ : ∃ a0 arest, atoms = a0 :: arest := by
    cases h : atoms with
    | nil => exact absurd h hne
    | cons a t => exact ⟨a, t, rfl⟩
  obtain ⟨r0, rest, hrecs⟩ : ∃ r0 rest, (number 1 atoms).map toRec = r0 :: rest := by
    rw [hatoms]; exact ⟨_, _, rfl⟩
  have hlen : (r0 :: rest).length = atoms.length := by
    rw [← hrecs, List.length_map, number_length]
  have hrecOk : ∀ x ∈ r0 :: rest, RecOk 8 3 v x := by
    intro x hx
    rw [← hrecs] at hx
    obtain ⟨g, hg, rfl⟩ := List.mem_map.mp hx
    obtain ⟨j, a, ha, rfl⟩ := mem_number hg
    exact recOk_of_fits j (hvel a ha) (hfit a ha)
  have hops : toOps r.ops = [Op.setComment (codes title), Op.setBox (.mat box)] ++
      ((r0 :: rest).map Op.writeLine ++ [Op.close]) := by
    rw [hr, ← hrecs]; exact toOps_session title box _
  obtain ⟨hnoerr, data, hread, htit, hcount, hsame, hbox⟩ :=
    C13.gro_roundtrip [Op.setComment (codes title), Op.setBox (.mat box)] r0 rest 8 3 v
      (run WState.init [Op.setComment (codes title), Op.setBox (.mat box)]).1
      (by intro op hop
          simp only [List.mem_cons, List.not_mem_nil, or_false] at hop
          rcases hop with h | h <;> subst h <;> exact trivial)
      rfl rfl (by decide) htitle
      (by show (r0 :: rest).length < 10 ^ 9; rw [hlen]; exact hN) hrecOk
  refine ⟨by rw [hr], ?_, data, ?_, htit, by rw [hcount, hlen], ?_, ?_, hbox⟩
  · show ∀ e ∈ (run WState.init (toOps r.ops)).2, e = none
    rw [hops]; exact hnoerr
  · show groRead stdParsers (run WState.init (toOps r.ops)).1.bytes = .ok data
    rw [hops]; exact hread
  · rw [← hrecs] at hsame
    exact (forall2_number 1 atoms data.recs hsame).2
  · rw [← hrecs] at hsame
    exact (forall2_number 1 atoms data.recs hsame).1

/-! ### non-vacuity: the 3-species interleaved system of `Props/C05.lean`, with dyadic coordinates

  species `A` (two residues, target 2+1 atoms), `B` (target 2 atoms), `U` loaded but without end molecule;
  file order `A B U A U B`; the atom built from the number `n` sits at `(n/8, −n/4, n)`. -/

section example3

private def pv (n : Nat) : PV := ⟨⟨false, n, -3⟩, ⟨true, n, -2⟩, ⟨false, n, 0⟩, (.zero, .zero, .zero)⟩

private def mA : EMap Nat PV :=
  ⟨fun _ => true, fun mol => [[⟨"RA", "C1", 1, false, pv (10 * mol.conf)⟩, ⟨"RA", "H2", 2, false, pv (10 * mol.conf + 1)⟩],
                              [⟨"RB", "C3", 3, false, pv (10 * mol.conf + 2)⟩]]⟩
private def mB : EMap Nat PV :=
  ⟨fun _ => true, fun mol => [[⟨"RC", "N1", 1, false, pv (10 * mol.conf)⟩, ⟨"RC", "O2", 2, false, pv (10 * mol.conf + 1)⟩]]⟩
private def corr3 : Corr Nat PV :=
  [("A", ⟨true, true, some mA⟩), ("U", ⟨true, false, none⟩), ("B", ⟨true, true, some mB⟩)]
private def sys3 : List (MolInst Nat) :=
  [⟨"A", [1, 2], 1⟩, ⟨"B", [3], 2⟩, ⟨"U", [4], 3⟩, ⟨"A", [99999, 100000], 4⟩, ⟨"U", [7], 5⟩, ⟨"B", [9], 6⟩]
private def box3 : Gro.Box := ⟨⟨false, 5, 0⟩, .zero, .zero, ⟨false, 1, -1⟩, ⟨false, 5, 0⟩, .zero, .zero, .zero, ⟨false, 5, 0⟩⟩

private theorem complete3 :
    completeCorrespondence corr3 = [("A", ⟨true, true, some mA⟩), ("B", ⟨true, true, some mB⟩)] := by
  simp [completeCorrespondence, corr3]

private theorem atoms3 : sys3.flatMap (mapped (completeCorrespondence corr3)) =
    [(1, ⟨"RA", "C1", 1, false, pv 10⟩), (1, ⟨"RA", "H2", 2, false, pv 11⟩), (2, ⟨"RB", "C3", 3, false, pv 12⟩),
     (3, ⟨"RC", "N1", 1, false, pv 20⟩), (3, ⟨"RC", "O2", 2, false, pv 21⟩),
     (99999, ⟨"RA", "C1", 1, false, pv 40⟩), (99999, ⟨"RA", "H2", 2, false, pv 41⟩), (100000, ⟨"RB", "C3", 3, false, pv 42⟩),
     (9, ⟨"RC", "N1", 1, false, pv 60⟩), (9, ⟨"RC", "O2", 2, false, pv 61⟩)] := by
  rw [complete3]
  simp [sys3, mapped, List.lookup, mA, mB, assignResids]

/-- the hypotheses of `extrapolate_roundtrip` hold for this system (title `"title⏎"`, triclinic box) … -/
private theorem hyps3 : Ready corr3 ∧ (∀ mol ∈ sys3, MolOk (completeCorrespondence corr3) false mol) ∧
    TitleOk (chopNl (codes "title\n")) ∧ sys3.flatMap (mapped (completeCorrespondence corr3)) ≠ [] ∧
    (sys3.flatMap (mapped (completeCorrespondence corr3))).length < 10 ^ 9 ∧
    ∀ a ∈ sys3.flatMap (mapped (completeCorrespondence corr3)), AtomFits false a := by
  refine ⟨?_, ?_, by show nl ∉ _; decide, by rw [atoms3]; simp, by rw [atoms3]; simp, ?_⟩
  · unfold Ready; rw [complete3]; exact ⟨by simp, by simp⟩
  · rw [complete3]
    intro mol hmol
    simp only [sys3, List.mem_cons, List.not_mem_nil, or_false] at hmol
    rcases hmol with rfl | rfl | rfl | rfl | rfl | rfl <;> simp [MolOk, List.lookup, mA, mB]
  · rw [atoms3]
    intro a ha
    simp only [List.mem_cons, List.not_mem_nil, or_false] at ha
    rcases ha with rfl | rfl | rfl | rfl | rfl | rfl | rfl | rfl | rfl | rfl <;>
      refine ⟨⟨by decide, by decide, by decide⟩, ⟨by decide, by decide, by decide⟩, ?_, ?_, ?_,
        by intro h; cases h⟩ <;>
      simp [pv, fitsFixed, fixedBody, scaledRound, roundHalfEvenDiv, natDigits, digitChar, padZeros]

example : Ready corr3 ∧ (∀ mol ∈ sys3, MolOk (completeCorrespondence corr3) false mol) ∧
    ∀ a ∈ sys3.flatMap (mapped (completeCorrespondence corr3)), AtomFits false a :=
  ⟨hyps3.1, hyps3.2.1, hyps3.2.2.2.2.2⟩

/-- … and the theorem then says: the file written for it reads back with its title, 10 atoms numbered
    1…10, residue numbers 1 1 2 | 3 3 | 99999 99999 0 | 9 9 (100000 wraps to 0) -/
example : ∃ data, groRead stdParsers (fileBytes (extrapolate corr3 sys3 "title\n" box3 true)) = .ok data ∧
    data.title = codes "title\n" ∧ data.recs.length = 10 ∧
    data.recs.map (·.atomnum) = [1, 2, 3, 4, 5, 6, 7, 8, 9, 10] ∧
    data.recs.map (·.resnum) = [1, 1, 2, 3, 3, 99999, 99999, 0, 9, 9] := by
  obtain ⟨h1, h2, h3, h4, h5, h6⟩ := hyps3
  obtain ⟨-, -, data, hread, htitle, hlen, hnum, hsame, -⟩ :=
    extrapolate_roundtrip corr3 sys3 "title\n" box3 false h1 h2 h3 h4 h5 h6
  refine ⟨data, hread, by rw [htitle]; decide, by rw [hlen, atoms3]; rfl, by rw [hnum, atoms3]; decide, ?_⟩
  rw [atoms3] at hsame
  have hres : ∀ (l : List (Int × TAtom PV)) (qs : List RRec), List.Forall₂ AtomSame l qs →
      qs.map (·.resnum) = l.map (fun a => a.1 % 100000) := by
    intro l qs h
    induction h with
    | nil => rfl
    | cons hd _ ih => simp only [List.map_cons, ih, hd.2.2.1]
  rw [hres _ _ hsame]
  decide

end example3

end C05
