import GMProofs.Lemmas.HeapYL
import GMProofs.Lemmas.HeapX
import GMProofs.Props.C13
/-!
# C18 (work package WPI) — the rest of the public API of the component classes

`write_gro`, `update_from_molecule_top`, the attribute routing of `Molecule`, `Atom.__hash__`, `__dir__`,
`Molecule.index`.  Model: `GMModel/HeapY.lean` (third layer over `HeapOps` / `HeapX`), lemmas in
`GMProofs/Lemmas/HeapYL.lean`.  Only property theorems and their non-vacuity examples live here.
-/

open GMHeap

namespace C18

variable {α : Type}

/-! ### `write_gro` -/

/-- `cs` are the AtomGro records of a Residue, or of a Molecule in a state a Molecule can be in (`MolState`:
    well formed, topology and coordinate labels agreeing), in iteration order -/
inductive Atoms (h : Heap α) : Obj → List (AtomGroC α) → Prop
  | res {r : Nat} {gs : List Nat} {cs : List (AtomGroC α)} :
      h.res? r = some gs → readGros h gs = some cs → Atoms h (.res r) cs
  | mol {m : Nat} {v : MolView} {ts : List AtomTopC} {cs : List (AtomGroC α)} :
      MolState h m v ts cs → Atoms h (.mol m) cs

/-- `atom.gro_line()`: the record carries the atom's own residue number, residue name, atom name, atom number
    and coordinates (`toDy` = the exact value of the double) and has velocities IFF the atom has them -/
theorem groRec_faithful (toDy : α → Option PyStr.Dy) (c : AtomGroC α) (r : Gro.Rec)
    (h : Cmp.groRec toDy c = some r) :
    r.resnum = c.resid ∧ r.resname = Cmp.strBytes c.resname ∧ r.name = Cmp.strBytes c.name ∧
    r.atomnum = c.atomid ∧ toDy c.pos.x = some r.x ∧ toDy c.pos.y = some r.y ∧ toDy c.pos.z = some r.z ∧
    r.vel.isSome = c.vel.isSome ∧
    (∀ v, c.vel = some v → ∃ a b d, r.vel = some (a, b, d) ∧ toDy v.x = some a ∧ toDy v.y = some b ∧
      toDy v.z = some d) := by
  unfold Cmp.groRec at h
  cases hx : toDy c.pos.x with
  | none => simp [hx] at h
  | some x =>
    cases hy : toDy c.pos.y with
    | none => simp [hx, hy] at h
    | some y =>
      cases hz : toDy c.pos.z with
      | none => simp [hx, hy, hz] at h
      | some z =>
        simp only [hx, hy, hz] at h
        cases hv : c.vel with
        | none =>
          simp only [hv, Option.some.injEq] at h
          subst h
          exact ⟨rfl, rfl, rfl, rfl, rfl, rfl, rfl, rfl, fun v hv' => by cases hv'⟩
        | some v =>
          simp only [hv] at h
          cases h1 : toDy v.x with
          | none => simp [h1] at h
          | some a =>
            cases h2 : toDy v.y with
            | none => simp [h1, h2] at h
            | some b =>
              cases h3 : toDy v.z with
              | none => simp [h1, h2, h3] at h
              | some d =>
                simp only [h1, h2, h3, Option.some.injEq] at h
                subst h
                refine ⟨rfl, rfl, rfl, rfl, rfl, rfl, rfl, rfl, ?_⟩
                intro v' hv'
                injection hv' with hv'
                subst hv'
                exact ⟨a, b, d, rfl, h1, h2, h3⟩

/-- `write_gro` is the writer session of its records: the loop `fgro.writeline(atom.gro_line())` until the first
    `writeline` that raises, then `close()` (through `__exit__`, also after an exception) -/
theorem writeGroObj_eq (toDy : α → Option PyStr.Dy) {h : Heap α} {o : Obj} {cs : List (AtomGroC α)}
    (A : Atoms h o cs) {rs : List Gro.Rec} (hR : RecsOf toDy cs rs) (fname : String)
    (hext : Cmp.extOk fname = true) :
    writeGroObj toDy h o fname =
      ⟨some fname, (closeAfter (Cmp.writeRecs rs Gro.WState.init)).1.bytes,
        (closeAfter (Cmp.writeRecs rs Gro.WState.init)).2⟩ := by
  cases A with
  | res hr hc =>
    simp only [writeGroObj, hr, hext, Bool.not_true, Bool.false_eq_true, ↓reduceIte,
      writeGros_eq_writeRecs toDy _ _ rs _ hc hR]
  | mol S =>
    simp only [writeGroObj, S.wf.view, hext, Bool.not_true, Bool.false_eq_true, ↓reduceIte]
    rw [if_neg (by simp [S.wf.len])]
    simp only [writeAtoms_eq_writeRecs toDy _ _ _ _ rs _ S.wf.len S.tops S.wf.cells S.agree hR]

/-- **The file of `write_gro`.**  `o` a Residue or a Molecule with atoms `cs`, `rs` the records `gro_line()` returns
    for them, in order (`groRec_faithful`: the atom's own numbers, names and coordinates, velocities iff the atom
    has them).  If the C13 writer session *`writeline(r)` for every `r` of `rs`, `close()`* on a fresh file (default
    title, zero box, default position format, count back-filled) raises nowhere, then `write_gro` returns normally
    and leaves, byte for byte, the file of that session — `len(cs)` records in atom order. -/
theorem write_gro_records (toDy : α → Option PyStr.Dy) {h : Heap α} {o : Obj} {cs : List (AtomGroC α)}
    (A : Atoms h o cs) {rs : List Gro.Rec} (hR : RecsOf toDy cs rs) (fname : String)
    (hext : Cmp.extOk fname = true)
    (hok : ∀ x ∈ (Gro.run Gro.WState.init (rs.map Gro.Op.writeLine ++ [Gro.Op.close])).2, x = none) :
    writeGroObj toDy h o fname =
      ⟨some fname, (Gro.run Gro.WState.init (rs.map Gro.Op.writeLine ++ [Gro.Op.close])).1.bytes, none⟩ ∧
    rs.length = cs.length := by
  refine ⟨?_, hR.length⟩
  rw [writeGroObj_eq toDy A hR fname hext]
  rw [GroL.run_append] at hok ⊢
  have ok1 := fun e he => hok e (List.mem_append_left _ he)
  have ok2 := fun e he => hok e (List.mem_append_right _ he)
  rw [writeRecs_of_run rs Gro.WState.init ok1]
  simp only [Gro.run, Gro.step] at ok2 ⊢
  unfold closeAfter
  cases hc : Gro.closeOp (Gro.run Gro.WState.init (rs.map Gro.Op.writeLine)).1 with
  | mk w3 oe =>
    simp only [hc] at ok2 ⊢
    have : oe = none := ok2 oe (by simp)
    subst this
    rfl

/-- **Velocities on SOME atoms only.**  The first atom fixes whether the file has velocities.  If the records are
    `pre ++ r :: post` with `pre` non-empty and written without an exception, and `r` is the first record whose
    velocity presence differs from that of the first atom, then `write_gro` raises `IOError` at `r` — and the file
    it leaves is the COMPLETE, well-formed file of the records before it (`close()` runs in `__exit__`: count
    back-filled with `len(pre)`, box line written): the bytes of the session `pre`, `close()`. -/
theorem write_gro_mixed_velocities (toDy : α → Option PyStr.Dy) {h : Heap α} {o : Obj} {cs : List (AtomGroC α)}
    (A : Atoms h o cs) (r0 : Gro.Rec) (pre : List Gro.Rec) (r : Gro.Rec) (post : List Gro.Rec)
    (hR : RecsOf toDy cs ((r0 :: pre) ++ r :: post)) (fname : String) (hext : Cmp.extOk fname = true)
    (hok : ∀ x ∈ (Gro.run Gro.WState.init ((r0 :: pre).map Gro.Op.writeLine)).2, x = none)
    (hmix : r.vel.isSome ≠ r0.vel.isSome) :
    let res := writeGroObj toDy h o fname
    let sess := Gro.run Gro.WState.init ((r0 :: pre).map Gro.Op.writeLine ++ [Gro.Op.close])
    res.file = some fname ∧ res.bytes = sess.1.bytes ∧
    ((∀ x ∈ sess.2, x = none) → res.err = some .ioError) := by
  intro res sess
  -- the state after the prefix
  have hW : ∃ i, (Gro.run Gro.WState.init ((r0 :: pre).map Gro.Op.writeLine)).1.initPos = some i ∧
      (Gro.run Gro.WState.init ((r0 :: pre).map Gro.Op.writeLine)).1.fmtPos.isSome = true ∧
      (Gro.run Gro.WState.init ((r0 :: pre).map Gro.Op.writeLine)).1.fmtVel = some r0.vel.isSome := by
    simp only [List.map_cons, Gro.run] at hok ⊢
    cases hp : Gro.step Gro.WState.init (Gro.Op.writeLine r0) with
    | mk s1 oe =>
      simp only [hp] at hok ⊢
      have h0 : oe = none := hok oe (by simp)
      subst h0
      obtain ⟨a, b, c⟩ := writeLine_first rfl hp
      obtain ⟨i, hi⟩ := Option.isSome_iff_exists.mp a
      exact ⟨i, run_writeLines_fields pre s1 _ i hi b c (fun x hx => hok x (by simp [hx]))⟩
  obtain ⟨i, hi, hf, hv⟩ := hW
  obtain ⟨f, hf⟩ := Option.isSome_iff_exists.mp hf
  have hstep := writeLine_mismatch (r := r) hi hf hv (fun e => hmix e.symm)
  have hwr := writeRecs_stops (r0 :: pre) r post Gro.WState.init _ hok hstep
  have hres : res = ⟨some fname, (closeAfter ((Gro.run Gro.WState.init ((r0 :: pre).map Gro.Op.writeLine)).1,
      some .ioError)).1.bytes, (closeAfter ((Gro.run Gro.WState.init ((r0 :: pre).map Gro.Op.writeLine)).1,
      some .ioError)).2⟩ := by
    show writeGroObj toDy h o fname = _
    rw [writeGroObj_eq toDy A hR fname hext, hwr]
    rfl
  have hsess : sess = ((Gro.closeOp (Gro.run Gro.WState.init ((r0 :: pre).map Gro.Op.writeLine)).1).1,
      (Gro.run Gro.WState.init ((r0 :: pre).map Gro.Op.writeLine)).2 ++
        [(Gro.closeOp (Gro.run Gro.WState.init ((r0 :: pre).map Gro.Op.writeLine)).1).2]) := by
    show Gro.run _ _ = _
    rw [GroL.run_append]
    simp only [Gro.run, Gro.step]
  rw [hres, hsess]
  unfold closeAfter
  cases hc : Gro.closeOp (Gro.run Gro.WState.init ((r0 :: pre).map Gro.Op.writeLine)).1 with
  | mk w3 oe =>
    refine ⟨rfl, ?_, ?_⟩
    · cases oe <;> rfl
    · intro hall
      have : oe = none := hall oe (by simp)
      subst this
      rfl

/-- **Round trip.**  If every record meets C13's precondition for the default position format (`RecOk 8 3 vel`:
    names of 1–5 non-blank characters, coordinates that fit eight columns with three decimals, velocities — on ALL
    atoms or on none — that fit with four), the object has at least one atom and fewer than 10⁹, then `write_gro`
    returns normally and READING THE FILE BACK with the C13 reader succeeds and returns exactly `len(cs)` records
    which are, in order, those records: identical names, numbers below 100000 unchanged, every coordinate within
    `0.0005` (velocity within `0.00005`) of the atom's, velocities iff the atoms have them; the default title and a
    zero box. -/
theorem write_gro_roundtrip (toDy : α → Option PyStr.Dy) {h : Heap α} {o : Obj} {cs : List (AtomGroC α)}
    (A : Atoms h o cs) {rs : List Gro.Rec} (hR : RecsOf toDy cs rs) (fname : String)
    (hext : Cmp.extOk fname = true) (vel : Bool)
    (hrec : ∀ r ∈ rs, GroL.RecOk 8 3 vel r) (hne : cs ≠ []) (hcount : rs.length < 10 ^ 9) :
    let res := writeGroObj toDy h o fname
    res.err = none ∧ res.file = some fname ∧
    ∃ data, Gro.groRead Gro.stdParsers res.bytes = .ok data ∧
      data.recs.length = cs.length ∧
      List.Forall₂ (C13.RecSame 3) rs data.recs ∧
      data.title = Gro.defaultComment ++ [PyStr.nl] ∧ C13.BoxWithin Gro.Box.zeros data.box := by
  intro res
  obtain ⟨r0, rest, hcons⟩ : ∃ r0 rest, rs = r0 :: rest := by
    cases rs with
    | nil =>
      cases cs with
      | nil => exact absurd rfl hne
      | cons c cs => exact hR.elim
    | cons r0 rest => exact ⟨_, _, rfl⟩
  have rt := C13.gro_roundtrip [] r0 rest 8 3 vel Gro.WState.init (fun _ hm => by cases hm) rfl rfl
    (by decide) (by show PyStr.nl ∉ Gro.defaultComment; decide)
    (by show (r0 :: rest).length < 10 ^ 9; rw [← hcons]; exact hcount)
    (by rw [← hcons]; exact hrec)
  simp only [List.nil_append] at rt
  rw [← hcons] at rt
  obtain ⟨hok, data, hread, htitle, hlen, hsame, hbox⟩ := rt
  obtain ⟨e1, e2⟩ := write_gro_records toDy A hR fname hext hok
  have hres : res = ⟨some fname, (Gro.run Gro.WState.init (rs.map Gro.Op.writeLine ++ [Gro.Op.close])).1.bytes,
      none⟩ := e1
  rw [hres]
  exact ⟨rfl, rfl, data, hread, by rw [hlen, e2], hsame, htitle, hbox⟩

/-- **A file name with an unregistered extension** (anything but `gro` / `GRO` after the last dot of the base
    name) is refused with `ValueError` before a file is opened -/
theorem write_gro_bad_extension (toDy : α → Option PyStr.Dy) {h : Heap α} {o : Obj} {cs : List (AtomGroC α)}
    (A : Atoms h o cs) (fname : String) (hext : Cmp.extOk fname = false) :
    writeGroObj toDy h o fname = ⟨none, [], some .valueError⟩ := by
  cases A with
  | res hr hc => simp only [writeGroObj, hr, hext, Bool.not_false, ↓reduceIte]
  | mol S =>
    simp only [writeGroObj, S.wf.view, hext, Bool.not_false, ↓reduceIte]
    rw [if_neg (by simp [S.wf.len])]

/-- **Purity.**  `write_gro` changes no cell and creates none, for every handle, every file name and on every
    path (refused extension, an atom with other velocity presence, a failing `close()`): the step leaves the
    heap and the environment literally as they were. -/
theorem write_gro_pure [Scalar α] (toDy : α → Option PyStr.Dy) (h : Heap α) (env : List Obj) (i : Nat)
    (fname : String) :
    (stepY toDy h env (.writeGro i fname)).heap = h ∧ (stepY toDy h env (.writeGro i fname)).ret = none ∧
    pushRetY env (stepY toDy h env (.writeGro i fname)) = env := by
  simp only [stepY]
  cases env[i]? <;> simp [YStepR.fail, pushRetY]

/-- **ill-typed values are refused before anything is assigned**: `atoms_ids = [1.5, …]` (`IndexError` for another
    length, else `TypeError`; a list with at least one element: the empty list on an object without atoms holds no
    ill-typed value and is accepted, assigning nothing) and `resname = 7` (`TypeError`; `AttributeError` on a Molecule) leave heap and
    environment literally as they were -/
theorem bad_values_refused [Scalar α] (toDy : α → Option PyStr.Dy) (h : Heap α) (env : List Obj) (i n : Nat) :
    (stepY toDy h env (.setIdsNonInt i n)).heap = h ∧
    (0 < n → (stepY toDy h env (.setIdsNonInt i n)).err ≠ none) ∧
    (stepY toDy h env (.resnameNonStr i)).heap = h ∧ (stepY toDy h env (.resnameNonStr i)).err ≠ none ∧
    (∀ r gs, env[i]? = some (.res r) → h.res? r = some gs →
      (stepY toDy h env (.setIdsNonInt i n)).err =
        (if gs.length ≠ n then some .indexError else if n = 0 then none else some .typeError)) := by
  refine ⟨?_, ?_, ?_, ?_, ?_⟩
  · simp only [stepY]; cases env[i]? <;> simp [YStepR.fail]
  · intro hn
    have hne : ∀ o, setIdsNonInt h o n ≠ none := by
      intro o
      unfold setIdsNonInt
      repeat' split
      all_goals first | omega | simp
    simp only [stepY]
    cases hi : env[i]? with
    | none => simp [YStepR.fail]
    | some o => exact hne o
  · simp only [stepY]; cases env[i]? <;> simp [YStepR.fail]
  · simp only [stepY]
    cases hi : env[i]? with
    | none => simp [YStepR.fail]
    | some o => cases o <;> simp [resnameNonStr]
  · intro r gs hi hr
    simp only [stepY, hi, setIdsNonInt, hr]

/-! ### `update_from_molecule_top` -/

/-- **Length mismatch, Residue**: `ValueError` (`IndexError` for a residue that lost all its atoms: the message
    evaluates `self[0]`) BEFORE anything is changed -/
theorem update_length_mismatch_residue (h : Heap α) (r mt : Nat) (gs : List Nat) (name : String) (tops2 : List Nat)
    (hr : h.res? r = some gs) (hm : h.mtop? mt = some (name, tops2)) (hne : tops2.length ≠ gs.length) :
    updateFromTop h (.res r) mt = (h, some (if gs.isEmpty then .indexError else .valueError)) := by
  simp only [updateFromTop, hm, hr]
  rw [if_pos hne]

/-- **Length mismatch, Molecule**: the method is inherited and its message evaluates `self.resname`, which a
    Molecule refuses — the exception is `AttributeError`, not the documented `ValueError`; nothing is changed -/
theorem update_length_mismatch_molecule (h : Heap α) (m mt : Nat) (v : MolView) (name : String) (tops2 : List Nat)
    (hv : molView h m = some v) (hl : v.gros.length ≤ v.tops.length)
    (hm : h.mtop? mt = some (name, tops2)) (hne : tops2.length ≠ v.each.length) :
    updateFromTop h (.mol m) mt = (h, some .attributeError) := by
  simp only [updateFromTop, hm, hv]
  rw [if_neg (by omega), if_pos hne]

private theorem eachOf_length' (s : Nat) (ps : List (List Nat)) : (eachOf s ps).length = ps.flatten.length := by
  induction ps generalizing s with
  | nil => rfl
  | cons p ps ih => simp [eachOf, ih]

/-- **`update_names_spec`, Molecule.**  `m` a Molecule in a `MolState` with topology atoms `ts` and coordinate atoms
    `cs`; `mt` a MoleculeTop with as many atoms, read as `ts2`, none of whose LATER atoms is an EARLIER atom of the
    molecule's own topology (`NoBack`: true for the molecule's own topology and for a topology sharing no atom
    with it).  Then the call returns normally and
    * the k-th coordinate atom and the k-th atom of the molecule's (possibly shared) topology carry the name of the
      k-th atom of `mt` and are otherwise exactly as before — the molecule is again in a `MolState`;
    * frame: every AtomGro cell outside the molecule's, every AtomTop cell outside its topology's, every Residue /
      MoleculeTop / Molecule cell is unchanged, and no cell is created. -/
theorem update_names_spec {h : Heap α} {m mt : Nat} {v : MolView} {ts : List AtomTopC} {cs : List (AtomGroC α)}
    (S : MolState h m v ts cs) (name : String) (tops2 : List Nat) (ts2 : List AtomTopC)
    (hm : h.mtop? mt = some (name, tops2)) (hT2 : readTops h tops2 = some ts2)
    (hlen : tops2.length = cs.length) (hnb : NoBack v.tops tops2) :
    ∃ h', updateFromTop h (.mol m) mt = (h', none) ∧
      MolState h' m v (List.zipWith (fun t t2 => setNameT t2.name t) ts ts2)
        (List.zipWith (fun c t2 => setNameG t2.name c) cs ts2) ∧
      (∀ a, a ∉ v.gros → h'.gro? a = h.gro? a) ∧ (∀ a, a ∉ v.tops → h'.top? a = h.top? a) ∧
      Frame Rel.any (· ∈ v.gros ++ v.tops) h h' := by
  have hgl : cs.length = v.gros.length := S.gros_len
  have hel : v.each.length = v.gros.length := by
    rw [S.wf.each, eachOf_length', (molView_gros S.wf.view).1]
  obtain ⟨h', e1, e2, e3, e4, e5, e6⟩ := updLoop_checked v.tops v.gros tops2 h ts cs ts2 S.wf.len
    (by rw [hlen, hgl]) S.ndT S.wf.nodup S.tops S.wf.cells S.agree hT2 hnb
  refine ⟨h', ?_, ?_, e4, e5, e6⟩
  · simp only [updateFromTop, hm, S.wf.view]
    rw [if_neg (by simp [S.wf.len]), if_neg (by rw [hel, hlen, hgl]; simp)]
    simp only [molPairs]
    rw [updTriples_eq]
    exact e1
  · refine ⟨⟨e6.molView S.wf.view, S.wf.each, S.wf.len, S.wf.nodup, e2⟩, e3, S.ndT, ?_⟩
    -- the labels still agree: both names of atom k are the k-th name of `mt`
    have : ∀ (ts : List AtomTopC) (cs : List (AtomGroC α)) (ts2 : List AtomTopC), Agree ts cs →
        ts2.length = cs.length →
        Agree (List.zipWith (fun t t2 => setNameT t2.name t) ts ts2)
          (List.zipWith (fun c t2 => setNameG t2.name c) cs ts2) := by
      intro ts
      induction ts with
      | nil =>
        intro cs ts2 hA _
        cases cs with
        | nil => simp [Agree]
        | cons c cs => exact hA.elim
      | cons t ts ih =>
        intro cs ts2 hA hl
        cases cs with
        | nil => exact hA.elim
        | cons c cs =>
          cases ts2 with
          | nil => simp at hl
          | cons t2 ts2 =>
            simp only [List.zipWith_cons_cons]
            exact ⟨⟨hA.1.1, rfl⟩, ih cs ts2 hA.2 (by simpa using hl)⟩
    exact this ts cs ts2 S.agree ((readTops_length hT2).trans hlen)

/-- … with the molecule's OWN topology nothing changes at all: every atom, on both sides, reads as before -/
theorem update_own_topology_noop {h : Heap α} {m : Nat} {v : MolView} {ts : List AtomTopC} {cs : List (AtomGroC α)}
    (S : MolState h m v ts cs) :
    ∃ h', updateFromTop h (.mol m) v.top = (h', none) ∧ MolState h' m v ts cs := by
  obtain ⟨_, _, _, emt⟩ := molView_gros S.wf.view
  have hl : v.tops.length = cs.length := by rw [S.wf.len, S.gros_len]
  obtain ⟨h', e1, e2, _⟩ := update_names_spec S v.name v.tops ts emt S.tops hl (noBack_self S.ndT)
  refine ⟨h', e1, ?_⟩
  have h1 : List.zipWith (fun t t2 => setNameT t2.name t) ts ts = ts := by
    clear e2 S
    induction ts with
    | nil => rfl
    | cons t ts ih => simp [setNameT, ih]
  have h2 : ∀ (ts : List AtomTopC) (cs : List (AtomGroC α)), Agree ts cs →
      List.zipWith (fun c t2 => setNameG t2.name c) cs ts = cs := by
    intro ts
    induction ts with
    | nil =>
      intro cs hA
      cases cs with
      | nil => rfl
      | cons c cs => exact hA.elim
    | cons t ts ih =>
      intro cs hA
      cases cs with
      | nil => rfl
      | cons c cs =>
        simp only [List.zipWith_cons_cons, ih cs hA.2]
        congr 1
        obtain ⟨a1, a2, a3, a4, a5, a6⟩ := c
        simp only [setNameG]
        rw [← hA.1.2]
  rw [h1, h2 ts cs S.agree] at e2
  exact e2

/-- **`update_names_spec`, Residue** (pairwise distinct atoms `cs`, a topology `ts2` of the same length): the call
    returns normally; the k-th atom gets the name of the k-th atom of the topology and is otherwise as before;
    no AtomTop cell, no other AtomGro cell, no Residue / MoleculeTop / Molecule cell is changed; no cell is created -/
theorem update_names_spec_residue {h : Heap α} {r mt : Nat} {gs : List Nat} {cs : List (AtomGroC α)}
    (hr : h.res? r = some gs) (hc : readGros h gs = some cs) (hnd : gs.Nodup)
    (name : String) (tops2 : List Nat) (ts2 : List AtomTopC)
    (hm : h.mtop? mt = some (name, tops2)) (hT2 : readTops h tops2 = some ts2) (hlen : tops2.length = gs.length) :
    ∃ h', updateFromTop h (.res r) mt = (h', none) ∧
      h'.res? r = some gs ∧
      readGros h' gs = some (List.zipWith (fun c t2 => setNameG t2.name c) cs ts2) ∧
      (∀ a, a ∉ gs → h'.gro? a = h.gro? a) ∧ (∀ a, h'.top? a = h.top? a) ∧
      Frame Rel.any (· ∈ gs) h h' := by
  obtain ⟨h', e1, e2, e4, e5, e6⟩ := updLoop_residue gs tops2 h cs ts2 hlen hnd hc hT2
  refine ⟨h', ?_, e6.res? hr, e2, e4, e5, e6⟩
  simp only [updateFromTop, hm, hr]
  rw [if_neg (by simp [hlen]), updPairs_eq]
  exact e1

/-! ### `Molecule.__setattr__` / `__getattr__`: the routing table -/

/-- the four names through which `setattr(mol, …)` can write a cell -/
def molWritingNames : List String := ["resids", "resnames", "atoms_velocities", "name"]

/-- (test over the finite table) no name occurs twice: the order of the rows is immaterial -/
theorem mol_table_names_nodup : (molRouteTable.map Prod.fst).Nodup := by decide

/-- a route other than `fresh` comes from a row of the table -/
theorem mol_route_row (attr : String) (R : MolRoute) (hR : molRoute attr = R) (hne : R ≠ .fresh) :
    (attr, R) ∈ molRouteTable := by
  unfold molRoute at hR
  cases e : molRouteTable.lookup attr with
  | none => simp only [e] at hR; exact absurd hR.symm hne
  | some r => simp only [e] at hR; subst hR; exact lookup_mem _ _ _ e

/-- (test over the finite table) the rows that can reach a cell — a property with a setter, or the topology's
    `name` — are exactly these names -/
theorem mol_writing_rows : ∀ p ∈ molRouteTable,
    (p.2 = .ownProp .resids ∨ p.2 = .ownProp .resnames ∨ p.2 = .ownProp .atomsVelocities ∨ p.2 = .topName) →
    p.1 ∈ molWritingNames := by decide

/-- **SETATTR ROUTING of a Molecule.**  For EVERY attribute name, value, molecule and heap:
    (i) a name outside the four writing names changes nothing at all, whatever it raises;
    (ii) the three setters reached by name ARE the operations of the base language
         (`mol.resids = n`, `mol.resnames = s`, `mol.atoms_velocities = None`), other values are refused by the
         setter's own test (TypeError / AttributeError / ValueError) with nothing changed;
    (iii) `mol.name = s` rewrites the name of the molecule's MoleculeTop object — shared with every shallow copy —
         and nothing else: every other cell is unchanged, its atom list is unchanged, no cell is created. -/
theorem mol_setattr_routing [Scalar α] (h : Heap α) (m : Nat) (attr : String) (v : PyVal α) :
    (attr ∉ molWritingNames → (molSetAttr h m attr v).1 = h) ∧
    (∀ n, molSetAttr h m "resids" (.int n) =
        ((stepBase h (.mol m) (.setResidsI 0 n)).heap, (stepBase h (.mol m) (.setResidsI 0 n)).err)) ∧
    (∀ s, molSetAttr h m "resnames" (.str s) =
        ((stepBase h (.mol m) (.setResnamesS 0 s)).heap, (stepBase h (.mol m) (.setResnamesS 0 s)).err)) ∧
    (molSetAttr h m "atoms_velocities" .none =
        ((stepBase h (.mol m) (.setVel 0 none)).heap, (stepBase h (.mol m) (.setVel 0 none)).err)) ∧
    (∀ t rs e l name s, h.mol? m = some (t, rs, e) → h.mtop? t = some (name, l) →
        (molSetAttr h m "name" (.str s)).2 = none ∧
        (molSetAttr h m "name" (.str s)).1.mtop? t = some (s, l) ∧
        (molSetAttr h m "name" (.str s)).1.size = h.size ∧
        ∀ a, a ≠ t → (molSetAttr h m "name" (.str s)).1.get? a = h.get? a) := by
  refine ⟨?_, fun n => ?_, fun s => ?_, ?_, ?_⟩
  · intro hn
    unfold molSetAttr
    cases hR : molRoute attr with
    | ownProp p =>
      have hrow := mol_route_row attr _ hR (by simp)
      cases p with
      | resids => exact absurd (mol_writing_rows _ hrow (Or.inl rfl)) hn
      | resnames => exact absurd (mol_writing_rows _ hrow (Or.inr (Or.inl rfl))) hn
      | atomsVelocities => exact absurd (mol_writing_rows _ hrow (Or.inr (Or.inr (Or.inl rfl)))) hn
      | atomsPositions => cases v <;> rfl
      | atomsIds => cases v <;> rfl
    | topName =>
      exact absurd (mol_writing_rows _ (mol_route_row attr _ hR (by simp)) (Or.inr (Or.inr (Or.inr rfl)))) hn
    | excluded => rfl
    | ownSlot => rfl
    | ownState => rfl
    | ownReadOnly => rfl
    | ownTypeErr => rfl
    | ownDict => rfl
    | topOther => rfl
    | topReadOnly => rfl
    | fresh => rfl
  · simp only [molSetAttr, show molRoute "resids" = .ownProp .resids by decide, molPropSet]
  · simp only [molSetAttr, show molRoute "resnames" = .ownProp .resnames by decide, molPropSet]
  · simp only [molSetAttr, show molRoute "atoms_velocities" = .ownProp .atomsVelocities by decide, molPropSet]
  · intro t rs e l name s hmol hmt
    have hget : h.get? t = some (.mtop name l) := Heap.mtop?_eq_some.mp hmt
    simp only [molSetAttr, show molRoute "name" = .topName by decide, hmol, Heap.setMtopName, hmt]
    refine ⟨?_, ?_, ?_, ?_⟩
    · first | rfl | trivial
    · unfold Heap.mtop?
      simp [Heap.get?_set, Heap.lt_size_of_get? hget]
    · simp
    · intro a ha
      simp [Heap.get?_set, Ne.symm ha, ha]

/-- the four names a Molecule refuses (`resname`, `resid`, `residname`, `remove_atom`): assignment and reading
    raise AttributeError for every value and every state, and change nothing — as `GMModel.HeapX` already says -/
theorem mol_excluded_rejected [Scalar α] (h : Heap α) (m : Nat) (attr : String) (v : PyVal α)
    (hx : molExcluded attr = true) :
    molSetAttr h m attr v = (h, some .attributeError) ∧
    setAttrN h (.mol m) attr v = (h, some .attributeError) ∧
    (∀ t rs e name l, h.mol? m = some (t, rs, e) → h.mtop? t = some (name, l) →
      molGetAttr h m attr = .error .attributeError) := by
  have hrow : molRoute attr = .excluded := by
    unfold molExcluded at hx
    simp only [Bool.or_eq_true, decide_eq_true_eq] at hx
    rcases hx with rfl | rfl | rfl | rfl <;> decide
  refine ⟨by simp only [molSetAttr, hrow], by simp only [setAttrN, hx, ↓reduceIte], ?_⟩
  intro t rs e name l hmol hmt
  simp only [molGetAttr, hmol, hmt, hx, ↓reduceIte]

/-- **GETATTR of a Molecule**: `mol.name` is the name of its MoleculeTop object; a name that neither the class nor
    the MoleculeTop knows raises AttributeError -/
theorem mol_getattr_routing (h : Heap α) (m t : Nat) (rs e l : List Nat) (name : String)
    (hmol : h.mol? m = some (t, rs, e)) (hmt : h.mtop? t = some (name, l)) :
    molGetAttr h m "name" = .ok (.str name) ∧
    ∀ attr, molRoute attr = .fresh → molGetAttr h m attr = .error .attributeError := by
  refine ⟨?_, ?_⟩
  · simp [molGetAttr, hmol, hmt, molExcluded, molComputed]
  · intro attr hf
    have h1 : molExcluded attr = false := by
      cases hx : molExcluded attr with
      | false => rfl
      | true =>
        unfold molExcluded at hx
        simp only [Bool.or_eq_true, decide_eq_true_eq] at hx
        rcases hx with rfl | rfl | rfl | rfl <;> exact absurd hf (by decide)
    have h2 : molComputed.contains attr = false := by
      cases hc : molComputed.contains attr with
      | false => rfl
      | true =>
        have hm : attr ∈ molComputed := by simpa using hc
        simp only [molComputed, List.mem_cons, List.not_mem_nil, or_false] at hm
        rcases hm with rfl | rfl | rfl | rfl | rfl | rfl | rfl | rfl | rfl | rfl | rfl | rfl | rfl <;>
          exact absurd hf (by decide)
    have h3 : attr ≠ "name" := by
      rintro rfl
      exact absurd hf (by decide)
    simp only [molGetAttr, hmol, hmt, h1, h2, Bool.false_eq_true, ↓reduceIte, h3, hf]

/-- the documented sharing, by name: after `mol.name = s` EVERY molecule built on the same MoleculeTop object
    (the shallow copies, the molecules a System hands out) reads the new name -/
theorem mol_name_shared [Scalar α] (h : Heap α) (m m2 t : Nat) (rs e rs2 e2 l : List Nat) (name s : String)
    (hmol : h.mol? m = some (t, rs, e)) (hmol2 : h.mol? m2 = some (t, rs2, e2))
    (hmt : h.mtop? t = some (name, l)) :
    molGetAttr (molSetAttr h m "name" (.str s)).1 m2 "name" = .ok (.str s) := by
  obtain ⟨_, _, _, _, h5⟩ := mol_setattr_routing h m "name" (.str s)
  obtain ⟨_, g2, _, g4⟩ := h5 t rs e l name s hmol hmt
  have hne : m2 ≠ t := by
    intro e'
    subst e'
    unfold Heap.mol? at hmol2
    rw [Heap.mtop?_eq_some.mp hmt] at hmol2
    cases hmol2
  have hm2 : (molSetAttr h m "name" (.str s)).1.mol? m2 = some (t, rs2, e2) := by
    unfold Heap.mol? at hmol2 ⊢
    rw [g4 m2 hne]
    exact hmol2
  exact (mol_getattr_routing _ m2 t rs2 e2 l s hm2 g2).1

/-! ### `Atom.__hash__`, `__dir__` -/

/-- hash consistency: atoms that compare equal (`Atom.__eq__`) have equal hashes -/
theorem atom_hash_consistent (h : Heap α) (t1 g1 t2 g2 : Nat) (heq : atomEq h t1 g1 t2 g2 = .ok true) :
    atomHash h t1 = atomHash h t2 ∧ ∃ k, atomHash h t1 = .ok k := by
  unfold atomEq at heq
  cases e1 : h.top? t1 with
  | none => simp [e1] at heq
  | some a =>
    cases e2 : h.gro? g1 with
    | none => simp [e1, e2] at heq
    | some x =>
      cases e3 : h.top? t2 with
      | none => simp [e1, e2, e3] at heq
      | some b =>
        cases e4 : h.gro? g2 with
        | none => simp [e1, e2, e3, e4] at heq
        | some y =>
          simp only [e1, e2, e3, e4, Except.ok.injEq, decide_eq_true_eq] at heq
          have hidx := heq.2.2.1
          refine ⟨?_, a.index % (2 ^ 61 - 1), ?_⟩
          · simp only [atomHash, e1, e3, hidx]
          · simp only [atomHash, e1]

/-- `hash(atom)` is the `index` of its topology atom (an index below `2^61 - 1`) -/
theorem atom_hash_is_index (h : Heap α) (t : Nat) (c : AtomTopC) (ht : h.top? t = some c)
    (hsmall : c.index < 2 ^ 61 - 1) : atomHash h t = .ok c.index := by
  simp only [atomHash, ht, Nat.mod_eq_of_lt hsmall]

private theorem nodup_eraseDups : ∀ (n : Nat) (l : List String), l.length ≤ n → l.eraseDups.Nodup
  | _, [], _ => by simp
  | 0, _ :: _, h => by simp at h
  | n + 1, a :: as, h => by
    rw [List.eraseDups_cons]
    refine List.nodup_cons.mpr ⟨?_, nodup_eraseDups n _ (Nat.le_trans (List.length_filter_le _ _) (by simpa using h))⟩
    rw [List.mem_eraseDups]
    simp

/-- `Atom.__dir__` / `Molecule.__dir__`: set semantics — a name is listed iff one of the parts lists it, and no
    name is listed twice -/
theorem dir_union_set (a b c : List String) :
    (∀ n, n ∈ dirUnion a b c ↔ n ∈ a ∨ n ∈ b ∨ n ∈ c) ∧ (dirUnion a b c).Nodup := by
  unfold dirUnion
  refine ⟨fun n => ?_, nodup_eraseDups _ _ (Nat.le_refl _)⟩
  rw [List.mem_eraseDups]
  simp [or_assoc]

/-! ### `Molecule.index` -/

/-- **`mol.index(x)` returns the first atom equal to `x`**: if it returns `k`, the k-th atom the molecule hands
    out compares equal to `x` (`Atom.__eq__`) and every earlier one was constructed and does not -/
theorem index_first_equal (h : Heap α) (m : Nat) (v : MolView) (t2 g2 k : Nat)
    (hv : molView h m = some v) (hk : molIndex h m (.atom t2 g2) = .ok k) :
    ∃ p, (v.tops.zip v.gros)[k]? = some p ∧ atomEq h p.1 p.2 t2 g2 = .ok true ∧
      ∀ i, i < k → ∃ q, (v.tops.zip v.gros)[i]? = some q ∧ matchErr h q.1 q.2 = none ∧
        atomEq h q.1 q.2 t2 g2 = .ok false := by
  simp only [molIndex, hv] at hk
  split at hk
  · cases hk
  · obtain ⟨j, p, hj, hp, hpe, hall⟩ := molIndexLoop_ok _ 0 k hk
    have : j = k := by omega
    subst this
    exact ⟨p, hp, hpe, hall⟩

/-- **`ValueError` otherwise**: when `mol.index(x)` raises `ValueError` every atom of the molecule was constructed
    and none compares equal to `x`; and an argument that is not an `Atom` (an AtomGro, a Residue, a Molecule) is
    never found in a molecule in a `MolState` -/
theorem index_value_error (h : Heap α) (m : Nat) (v : MolView) (x : Obj) (hv : molView h m = some v) :
    (molIndex h m x = .error .valueError →
      ∀ p ∈ v.tops.zip v.gros, matchErr h p.1 p.2 = none ∧
        ∀ t2 g2, x = .atom t2 g2 → atomEq h p.1 p.2 t2 g2 = .ok false) ∧
    (∀ (ts : List AtomTopC) (cs : List (AtomGroC α)), MolState h m v ts cs → (∀ t g, x ≠ .atom t g) →
      molIndex h m x = .error .valueError) := by
  refine ⟨?_, ?_⟩
  · intro hk
    simp only [molIndex, hv] at hk
    split at hk
    · cases hk
    · exact molIndexLoop_valueError _ 0 hk
  · intro ts cs S hx
    simp only [molIndex, hv]
    rw [if_neg (by simp [S.wf.len])]
    apply molIndexLoop_non_atom hx
    -- every `Atom(top, gro)` of a molecule in a `MolState` can be constructed
    have : ∀ (tops gros : List Nat) (ts : List AtomTopC) (cs : List (AtomGroC α)),
        readTops h tops = some ts → readGros h gros = some cs → Agree ts cs →
        ∀ p ∈ tops.zip gros, matchErr h p.1 p.2 = none := by
      intro tops
      induction tops with
      | nil => intro gros ts cs _ _ _ p hp; simp at hp
      | cons t tops ih =>
        intro gros ts cs hT hG hA p hp
        cases gros with
        | nil => simp at hp
        | cons g gros =>
          obtain ⟨t0, ts', rfl, ht, hT'⟩ := readTops_cons_inv hT
          obtain ⟨c0, cs', e, hg, hG'⟩ := readGros_cons_inv hG
          subst e
          simp only [List.zip_cons_cons, List.mem_cons] at hp
          rcases hp with rfl | hp
          · exact matchErr_none_of_agree ht hg hA.1
          · exact ih gros ts' cs' hT' hG' hA.2 p hp
    exact this v.tops v.gros ts cs S.tops S.wf.cells S.agree

/-- **`mol.index(mol[k]) = k`** for a molecule in a `MolState` whose topology atoms carry pairwise distinct indices
    up to position `k` (the reader numbers them `0, 1, 2, …`) -/
theorem index_of_own_view (h : Heap α) (m : Nat) (v : MolView) (ts : List AtomTopC) (cs : List (AtomGroC α))
    (S : MolState h m v ts cs) (k t g : Nat) (hp : (v.tops.zip v.gros)[k]? = some (t, g))
    (hidx : ∀ i j ti tj, i < j → j ≤ k → ts[i]? = some ti → ts[j]? = some tj → ti.index ≠ tj.index) :
    molIndex h m (.atom t g) = .ok k := by
  -- whatever the loop answers, it is `k`
  have hall : ∀ p ∈ v.tops.zip v.gros, matchErr h p.1 p.2 = none := by
    have := (index_value_error h m v (.mol 0) S.wf.view).2 ts cs S (fun _ _ e => by cases e)
    exact fun p hp' => ((index_value_error h m v (.mol 0) S.wf.view).1 this p hp').1
  -- cells of position i
  have cell : ∀ (i ti gi : Nat), (v.tops.zip v.gros)[i]? = some (ti, gi) →
      ∃ a c, ts[i]? = some a ∧ cs[i]? = some c ∧ h.top? ti = some a ∧ h.gro? gi = some c := by
    have : ∀ (tops gros : List Nat) (ts : List AtomTopC) (cs : List (AtomGroC α)),
        readTops h tops = some ts → readGros h gros = some cs →
        ∀ (i ti gi : Nat), (tops.zip gros)[i]? = some (ti, gi) →
          ∃ a c, ts[i]? = some a ∧ cs[i]? = some c ∧ h.top? ti = some a ∧ h.gro? gi = some c := by
      intro tops
      induction tops with
      | nil => intro gros ts cs _ _ i ti gi hi; simp at hi
      | cons t tops ih =>
        intro gros ts cs hT hG i ti gi hi
        cases gros with
        | nil => simp at hi
        | cons g gros =>
          obtain ⟨t0, ts', rfl, ht, hT'⟩ := readTops_cons_inv hT
          obtain ⟨c0, cs', e, hg, hG'⟩ := readGros_cons_inv hG
          subst e
          cases i with
          | zero =>
            simp only [List.zip_cons_cons, List.getElem?_cons_zero, Option.some.injEq, Prod.mk.injEq] at hi
            obtain ⟨rfl, rfl⟩ := hi
            exact ⟨t0, c0, rfl, rfl, ht, hg⟩
          | succ i =>
            simp only [List.zip_cons_cons, List.getElem?_cons_succ] at hi
            obtain ⟨a, c, h1, h2, h3, h4⟩ := ih gros ts' cs' hT' hG' i ti gi hi
            exact ⟨a, c, by simpa using h1, by simpa using h2, h3, h4⟩
    exact this v.tops v.gros ts cs S.tops S.wf.cells
  obtain ⟨ak, ck, hak, _, htk, hgk⟩ := cell k t g hp
  have hself : atomEq h t g t g = .ok true := by
    simp only [atomEq, htk, hgk]
    simp
  cases hr : molIndex h m (.atom t g) with
  | ok k' =>
    obtain ⟨p, hp', _, hbefore⟩ := index_first_equal h m v t g k' S.wf.view hr
    rcases Nat.lt_trichotomy k' k with hlt | heq | hgt
    · -- an earlier atom equal to the k-th: equal indices, excluded
      exfalso
      obtain ⟨p1, p2⟩ := p
      obtain ⟨a', c', ha', _, hta', hga'⟩ := cell k' p1 p2 hp'
      obtain ⟨_, _, heq'⟩ := index_first_equal h m v t g k' S.wf.view hr
      have heq'' := (index_first_equal h m v t g k' S.wf.view hr)
      obtain ⟨q, hq, hqe, _⟩ := heq''
      rw [hp'] at hq
      injection hq with hq
      subst hq
      simp only [atomEq, hta', hga', htk, hgk, Except.ok.injEq, decide_eq_true_eq] at hqe
      exact hidx k' k a' ak hlt (Nat.le_refl _) ha' hak hqe.2.2.1
    · rw [heq]
    · exfalso
      obtain ⟨q, hq, _, hqe⟩ := hbefore k hgt
      rw [hp] at hq
      injection hq with hq
      subst hq
      rw [hself] at hqe
      cases hqe
  | error e =>
    exfalso
    simp only [molIndex, S.wf.view] at hr
    rw [if_neg (by simp [S.wf.len])] at hr
    -- the loop cannot fail: every Atom is constructed, `atomEq` is defined, and position k answers `true`
    have : ∀ (pairs : List (Nat × Nat)) (k0 : Nat), (∀ p ∈ pairs, matchErr h p.1 p.2 = none) →
        (∀ p ∈ pairs, ∃ b, atomEq h p.1 p.2 t g = .ok b) → (t, g) ∈ pairs →
        ∃ j, molIndexLoop h (.atom t g) pairs k0 = .ok j := by
      intro pairs
      induction pairs with
      | nil => intro k0 _ _ hm; cases hm
      | cons p pairs ih =>
        intro k0 h1 h2 hm
        obtain ⟨p1, p2⟩ := p
        have hm1 := h1 (p1, p2) (List.mem_cons_self ..)
        obtain ⟨b, hb⟩ := h2 (p1, p2) (List.mem_cons_self ..)
        simp only at hm1 hb
        cases b with
        | true => exact ⟨k0, by simp only [molIndexLoop, hm1, hb]⟩
        | false =>
          rcases List.mem_cons.mp hm with e | hm
          · injection e with e1 e2
            subst e1; subst e2
            rw [hself] at hb
            cases hb
          · obtain ⟨j, hj⟩ := ih (k0 + 1) (fun q hq => h1 q (List.mem_cons_of_mem _ hq))
              (fun q hq => h2 q (List.mem_cons_of_mem _ hq)) hm
            exact ⟨j, by simp only [molIndexLoop, hm1, hb, hj]⟩
    obtain ⟨j, hj⟩ := this (v.tops.zip v.gros) 0 hall (by
      intro p hp'
      obtain ⟨i, hi⟩ := List.getElem?_of_mem hp'
      obtain ⟨p1, p2⟩ := p
      obtain ⟨a, c, _, _, hta, hga⟩ := cell i p1 p2 hi
      show ∃ b, atomEq h p1 p2 t g = .ok b
      simp only [atomEq, hta, hga, htk, hgk]
      exact ⟨_, rfl⟩) (List.mem_of_getElem? hp)
    rw [hj] at hr
    cases hr

/-! ### non-vacuity: concrete objects (evaluated by the kernel) -/

namespace NonVacuityY

/-- an exact computable scalar, used ONLY to evaluate the concrete heap of these examples -/
local instance : Scalar Int where
  add := Int.add
  sub := Int.sub
  mul := Int.mul
  div := fun a b => a / b
  neg := Int.neg
  zero := 0
  one := 1
  ofInt n := n
  ofDec m _ := m
  sqrt x := x
  cos x := x
  sin x := x
  isZero x := x == 0
  lt a b := a < b
  le a b := a ≤ b
  round x := x
  abs x := x.natAbs

def toDy (n : Int) : Option PyStr.Dy := some ⟨decide (n < 0), n.natAbs, 0⟩
def d (n : Int) : PyStr.Dy := ⟨decide (n < 0), n.natAbs, 0⟩

def g (resid : Int) (rn n : String) (id : Int) (x y z : Int) (v : Option (V3 Int)) : AtomGroC Int :=
  ⟨resid, rn, n, id, ⟨x, y, z⟩, v⟩

/-- a molecule of three atoms in two residues, all with velocities, atom number 100001 -/
def stM : StepR Int := newMol Heap.empty "M"
  [⟨"A1", "RA", 1, 0, [1]⟩, ⟨"A2", "RA", 1, 1, [0, 2]⟩, ⟨"B1", "RB", 2, 2, [1]⟩]
  [[g 1 "RA" "A1" 1 0 0 0 (some ⟨1, 2, 3⟩), g 1 "RA" "A2" 100001 1 0 0 (some ⟨0, 0, 0⟩)],
   [g 2 "RB" "B1" 3 1 (-1) 0 (some ⟨0, -1, 0⟩)]]

/-- a second topology with as many atoms and other names (its Molecule has two atoms without velocities) -/
def stN : StepR Int := newMol stM.heap "N"
  [⟨"X1", "RA", 1, 0, [1]⟩, ⟨"X2", "RA", 1, 1, [0]⟩, ⟨"Y1", "RB", 2, 2, []⟩]
  [[g 1 "RA" "X1" 1 5 5 5 none, g 1 "RA" "X2" 2 6 5 5 (some ⟨1, 1, 1⟩)], [g 2 "RB" "Y1" 3 7 7 7 none]]

def hY : Heap Int := stN.heap

example : stM.ret = some (.mol 14) ∧ stN.ret = some (.mol 29) := by decide

def vM : MolView := ⟨3, "M", [0, 1, 2], [11, 13], [0, 0, 1], [[9, 10], [12]], [9, 10, 12]⟩
def tsM : List AtomTopC := [⟨"A1", "RA", 1, 0, [1]⟩, ⟨"A2", "RA", 1, 1, [0, 2]⟩, ⟨"B1", "RB", 2, 2, [1]⟩]
def csM : List (AtomGroC Int) :=
  [g 1 "RA" "A1" 1 0 0 0 (some ⟨1, 2, 3⟩), g 1 "RA" "A2" 100001 1 0 0 (some ⟨0, 0, 0⟩),
   g 2 "RB" "B1" 3 1 (-1) 0 (some ⟨0, -1, 0⟩)]

theorem stateM : MolState hY 14 vM tsM csM :=
  ⟨⟨by decide, by decide, by decide, by decide, rfl⟩, rfl, by decide,
   ⟨⟨rfl, rfl⟩, ⟨rfl, rfl⟩, ⟨rfl, rfl⟩, trivial⟩⟩

def rsM : List Gro.Rec :=
  [⟨1, Cmp.strBytes "RA", Cmp.strBytes "A1", 1, d 0, d 0, d 0, some (d 1, d 2, d 3)⟩,
   ⟨1, Cmp.strBytes "RA", Cmp.strBytes "A2", 100001, d 1, d 0, d 0, some (d 0, d 0, d 0)⟩,
   ⟨2, Cmp.strBytes "RB", Cmp.strBytes "B1", 3, d 1, d (-1), d 0, some (d 0, d (-1), d 0)⟩]

theorem recsM : RecsOf toDy csM rsM := ⟨rfl, rfl, rfl, trivial⟩

open PyStr in
theorem recsOkM : ∀ r ∈ rsM, GroL.RecOk 8 3 true r := by
  intro r hr
  simp only [rsM, List.mem_cons, List.not_mem_nil, or_false] at hr
  rcases hr with rfl | rfl | rfl
  all_goals
    constructor
    · exact ⟨by decide, by decide, by decide⟩
    · exact ⟨by decide, by decide, by decide⟩
    all_goals
      simp [d, GroL.VelOk, fitsFixed, fixedBody, scaledRound, roundHalfEvenDiv, natDigits, digitChar, padZeros]

/-- every hypothesis of `write_gro_roundtrip` (hence of `write_gro_records`) holds for this Molecule: the theorem
    yields that `mol.write_gro('m.gro')` returns normally and the file, read back, holds its three records WITH
    velocities, atom number 100001 written as 1 -/
example := write_gro_roundtrip toDy (Atoms.mol stateM) recsM "m.gro" (by decide) true recsOkM (by decide) (by decide)

/-- … and for its first Residue (the live residue object at address 11) -/
example := write_gro_roundtrip toDy (h := hY) (Atoms.res (r := 11) (gs := [9, 10]) (by decide) rfl)
  (show RecsOf toDy _ (rsM.take 2) from ⟨rfl, rfl, trivial⟩) "r.GRO" (by decide) true
  (fun r hr => recsOkM r (List.mem_of_mem_take hr)) (by decide) (by decide)

def vN : MolView := ⟨18, "N", [15, 16, 17], [26, 28], [0, 0, 1], [[24, 25], [27]], [24, 25, 27]⟩
def tsN : List AtomTopC := [⟨"X1", "RA", 1, 0, [1]⟩, ⟨"X2", "RA", 1, 1, [0]⟩, ⟨"Y1", "RB", 2, 2, []⟩]
def csN : List (AtomGroC Int) :=
  [g 1 "RA" "X1" 1 5 5 5 none, g 1 "RA" "X2" 2 6 5 5 (some ⟨1, 1, 1⟩), g 2 "RB" "Y1" 3 7 7 7 none]

theorem stateN : MolState hY 29 vN tsN csN :=
  ⟨⟨by decide, by decide, by decide, by decide, rfl⟩, rfl, by decide,
   ⟨⟨rfl, rfl⟩, ⟨rfl, rfl⟩, ⟨rfl, rfl⟩, trivial⟩⟩

def rN0 : Gro.Rec := ⟨1, Cmp.strBytes "RA", Cmp.strBytes "X1", 1, d 5, d 5, d 5, none⟩
def rN1 : Gro.Rec := ⟨1, Cmp.strBytes "RA", Cmp.strBytes "X2", 2, d 6, d 5, d 5, some (d 1, d 1, d 1)⟩
def rN2 : Gro.Rec := ⟨2, Cmp.strBytes "RB", Cmp.strBytes "Y1", 3, d 7, d 7, d 7, none⟩

open PyStr in
theorem recOkN0 : GroL.RecOk 8 3 false rN0 := by
  constructor
  · exact ⟨by decide, by decide, by decide⟩
  · exact ⟨by decide, by decide, by decide⟩
  all_goals
    simp [rN0, d, GroL.VelOk, fitsFixed, fixedBody, scaledRound, roundHalfEvenDiv, natDigits, digitChar, padZeros]

/-- mixed velocities: the second molecule has velocities on its SECOND atom only.  By
    `write_gro_mixed_velocities`, `write_gro` raises `IOError` at that atom and leaves the complete, well-formed
    one-record file of the first atom -/
example : (writeGroObj toDy hY (.mol 29) "n.gro").err = some .ioError ∧
    (writeGroObj toDy hY (.mol 29) "n.gro").bytes =
      (Gro.run Gro.WState.init [.writeLine rN0, .close]).1.bytes := by
  have rt := C13.gro_roundtrip [] rN0 [] 8 3 false Gro.WState.init (fun _ hm => by cases hm) rfl rfl
    (by decide) (by show PyStr.nl ∉ Gro.defaultComment; decide) (by show [rN0].length < 10 ^ 9; decide)
    (by intro r hr; simp only [List.mem_cons, List.not_mem_nil, or_false] at hr; subst hr; exact recOkN0)
  obtain ⟨hok, _⟩ := rt
  simp only [List.nil_append, List.map_cons, List.map_nil, List.cons_append] at hok
  have hok1 : ∀ x ∈ (Gro.run Gro.WState.init ([rN0].map Gro.Op.writeLine)).2, x = none := by
    intro x hx
    apply hok x
    simp only [List.map_cons, List.map_nil, Gro.run] at hx ⊢
    rcases List.mem_cons.mp hx with rfl | hx
    · simp
    · cases hx
  obtain ⟨_, e2, e3⟩ := write_gro_mixed_velocities toDy (Atoms.mol stateN) rN0 [] rN1 [rN2]
    (show RecsOf toDy csN _ from ⟨rfl, rfl, rfl, trivial⟩) "n.gro" (by decide) hok1 (by decide)
  exact ⟨e3 hok, e2⟩

/-- refused extension, and purity of the step -/
example := write_gro_bad_extension toDy (Atoms.mol stateM) "m.pdb" (by decide)
example := write_gro_pure toDy hY [.mol 14, .mol 29] 0 "m.gro"

/-- `update_names_spec` on the first molecule with the second molecule's topology (address 18: atoms 15 16 17,
    disjoint from 0 1 2): the names become X1 X2 Y1 on both sides -/
example := update_names_spec stateM "N" [15, 16, 17]
  [⟨"X1", "RA", 1, 0, [1]⟩, ⟨"X2", "RA", 1, 1, [0]⟩, ⟨"Y1", "RB", 2, 2, []⟩] (mt := 18) (by decide) rfl rfl
  (noBack_disjoint (by decide))

example : ((updateFromTop hY (.mol 14) 18).1.gro? 10).map (·.name) = some "X2" ∧
    ((updateFromTop hY (.mol 14) 18).1.top? 1).map (·.name) = some "X2" ∧
    (updateFromTop hY (.mol 14) 18).2 = none := by decide

example := update_own_topology_noop stateM

/-- a topology of another length: refused, the heap is the same object -/
example : updateFromTop hY (.res 11) 18 = (hY, some .valueError) :=
  update_length_mismatch_residue hY 11 18 [9, 10] "N" [15, 16, 17] (by decide) (by decide) (by decide)

/-- the routing table at work: `mol.name = 'Q'` is read back through a shallow copy -/
example : (stepOn hY (.mol 14) (.copy 0)).ret = some (.mol 35) ∧
    molGetAttr (molSetAttr (stepOn hY (.mol 14) (.copy 0)).heap 14 "name" (.str "Q")).1 35 "name"
      = .ok (.str "Q") :=
  ⟨by decide, mol_name_shared (stepOn hY (.mol 14) (.copy 0)).heap 14 35 3 [11, 13] [0, 0, 1] [32, 34] [0, 0, 1]
    [0, 1, 2] "M" "Q" (by decide) (by decide) (by decide)⟩

example : molRoute "resids" = .ownProp .resids ∧ molRoute "name" = .topName ∧ molRoute "move" = .ownDict ∧
    molRoute "atoms" = .ownReadOnly ∧ molRoute "resname" = .excluded ∧ molRoute "tag7" = .fresh := by decide

/-- `mol.index(mol[2]) = 2`, an AtomGro is never found -/
example := index_of_own_view hY 14 vM tsM csM stateM 2 2 12 (by decide) (by
  intro i j ti tj hij hj h1 h2
  have hi : i = 0 ∨ i = 1 := by omega
  have hj' : j = 1 ∨ j = 2 := by omega
  rcases hi with rfl | rfl <;> rcases hj' with rfl | rfl <;>
    first
    | omega
    | (simp only [tsM, List.getElem?_cons_zero, List.getElem?_cons_succ, Option.some.injEq] at h1 h2
       subst h1; subst h2; decide))
example : molIndex hY 14 (.agro 12) = .error .valueError :=
  (index_value_error hY 14 vM (.agro 12) (by decide)).2 tsM csM stateM (fun _ _ e => by cases e)

example : atomHash hY 2 = .ok 2 := atom_hash_is_index hY 2 ⟨"B1", "RB", 2, 2, [1]⟩ rfl (by decide)
example : dirUnion ["b", "a"] ["a", "c"] ["c"] = ["b", "a", "c"] := by decide

end NonVacuityY

end C18
