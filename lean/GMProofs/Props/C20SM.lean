import GMProofs.Props.C20
import GMProofs.Props.C05SM
/-
  C20 (continued) — `auto_map`'s library calls on the `Manager` state machine (`GMModel.ManagerSM`).

  `C20.cli_equals_library` is about an ABSTRACT library `Cli.Lib` (any manager type).  Here the
  manager entry points of that library are instantiated with the modelled `Manager`
  (`manager.molecule_correspondence[name].end = mol`, `align_molecules()`,
  `calculate_exchange_maps(scale)`, `extrapolate_system(out)` = `MgrSM.step`), and the pipeline
  `attach → align → maps → extrapolate` of `auto_map` is shown never to trip the pre-flight of
  `extrapolate_system`.
  Only property theorems and their non-vacuity examples live here.
-/

namespace C20

open Cli MgrSM
open Mgr (PyErr)

variable {S : Type}

/-- a call of the state machine as a library entry point: the new manager, or the exception -/
def call (m : State S) (op : Op S) : Except PyErr (State S) :=
  match step m op with
  | (m', none) => .ok m'
  | (_, some e) => .error e

/-- `Cli.Lib` with the modelled `Manager`; file loading (`read_topology`, `Molecule.from_files`,
    `Manager.from_files`) stays a parameter (C11/C12/C15), as does which output names have a
    registered extension -/
def smLib (topName : String → Except PyErr String)
    (molFromFiles : String → String → Except PyErr Mol)
    (managerFromFiles : String → List String → Except PyErr (State S))
    (extOk : List Char → Bool) : Lib Mol (State S) Unit S (State S) where
  topName := topName
  molFromFiles := molFromFiles
  molName := (·.name)
  managerFromFiles := managerFromFiles
  hasSpecies := fun m n => (m.table.lookup n).isSome
  setEnd := fun m n mol => call m (.setEnd n (.mol mol))
  align := fun m t => (call m (.align [])).map (fun m' => (m', t))
  maps := fun s m t => (call m (.calcMaps s)).map (fun m' => (m', t))
  extrapolate := fun m out => call m (.extrapolate (extOk out))

private theorem lookup_isSome_iff {t : Table S} {k : String} :
    (t.lookup k).isSome = true ↔ k ∈ t.map (·.1) := by
  constructor
  · intro h
    cases hl : t.lookup k with
    | none => simp [hl] at h
    | some e => exact List.mem_map.mpr ⟨(k, e), MgrSM.mem_of_lookup hl, rfl⟩
  · intro h
    obtain ⟨p, hp, rfl⟩ := List.mem_map.mp h
    exact lookup_isSome_of_mem hp

private theorem attachByKey_eq (L : Lib Mol (State S) Unit S (State S))
    (hhas : ∀ m n, L.hasSpecies m n = (m.table.lookup n).isSome)
    (hset : ∀ m n mol, L.setEnd m n mol = call m (.setEnd n (.mol mol)))
    (pairs : List (String × Mol)) :
    ∀ st : State S, (∀ p ∈ pairs, (st.table.lookup p.1).isSome = true) →
      (∀ r ∈ trace st (pairs.map (fun p => Op.setEnd p.1 (.mol p.2))), r.1 = none) →
      attachByKey L pairs st = .ok (runOps st (pairs.map (fun p => Op.setEnd p.1 (.mol p.2)))) := by
  induction pairs with
  | nil => intro st _ _; rfl
  | cons x rest ih =>
    intro st hkeys htr
    obtain ⟨k, m⟩ := x
    have hk := hkeys (k, m) (List.mem_cons_self ..)
    have h0 : (step st (.setEnd k (.mol m))).2 = none := by
      have := htr ((step st (.setEnd k (.mol m))).2, (step st (.setEnd k (.mol m))).1)
        (by simp [trace])
      simpa using this
    have hcall : call st (.setEnd k (.mol m)) = .ok (step st (.setEnd k (.mol m))).1 := by
      unfold call
      cases hs : step st (.setEnd k (.mol m)) with
      | mk m' err =>
        rw [hs] at h0
        simp only at h0
        subst h0
        rfl
    have hkeys' : ∀ p ∈ rest, ((step st (.setEnd k (.mol m))).1.table.lookup p.1).isSome = true := by
      intro p hp
      rw [lookup_isSome_iff, keys_step, ← lookup_isSome_iff]
      exact hkeys p (List.mem_cons_of_mem _ hp)
    have htr' : ∀ r ∈ trace (step st (.setEnd k (.mol m))).1
        (rest.map (fun p => Op.setEnd p.1 (.mol p.2))), r.1 = none := by
      intro r hr
      exact htr r (by simp only [List.map_cons, trace]; exact List.mem_cons_of_mem _ hr)
    simp only [attachByKey, hhas, hk, Bool.not_true, Bool.false_eq_true, if_false, hset, hcall,
      List.map_cons, runOps_cons]
    exact ih _ hkeys' htr'

/-- **cli_passes_preflight**: `auto_map`'s manager calls on a FRESH manager, with at least one species
    and pairwise different species names (the hypothesis of `cli_equals_library`): attaching the end
    molecules by key raises `KeyError` iff some name is not a species of the system, otherwise every
    attach succeeds (a fresh `Alignment` accepts any first end molecule), `align_molecules()` and
    `calculate_exchange_maps(scale)` do not raise, and `extrapolate_system` does NOT stop at its
    pre-flight (`SystemError`) — whatever the output name.  (`ValueError` for an unregistered
    extension, or an exception from inside the run, remain possible: `C05.run_outcome_agrees`.) -/
theorem cli_passes_preflight (topName : String → Except PyErr String)
    (molFromFiles : String → String → Except PyErr Mol)
    (managerFromFiles : String → List String → Except PyErr (State S)) (extOk : List Char → Bool)
    (mols : List Mol) (sys : List (String × List Int)) (pairs : List (String × Mol)) (scale : S)
    (out : List Char) (hne : pairs ≠ []) (hnodup : (pairs.map (·.1)).Nodup) :
    let L := smLib topName molFromFiles managerFromFiles extOk
    ((∃ p ∈ pairs, ∀ m ∈ mols, m.name ≠ p.1) → attachByKey L pairs (init mols sys) = .error .KeyError) ∧
    ((∀ p ∈ pairs, ∃ m ∈ mols, m.name = p.1) →
      ∃ m', attachByKey L pairs (init mols sys) = .ok m' ∧
        (∀ p ∈ pairs, ∃ e, m'.table.lookup p.1 = some e ∧ e.end_ = some p.2 ∧ e.map = none) ∧
        finishRun L m' scale out () ≠ .error .SystemError) := by
  intro L
  constructor
  · -- some key is missing: the first such pair raises KeyError, the earlier attaches succeed
    rintro ⟨p, hp, hmiss⟩
    have hkey : p.1 ∉ (initTable mols : Table S).map (·.1) := by
      rw [(keys_initTable mols).2]
      rintro ⟨m, hm, hn⟩
      exact hmiss m hm hn
    -- generalise over the state: keys are constant, entries of the remaining pairs are fresh
    have gen : ∀ (ps : List (String × Mol)) (st : State S), p ∈ ps →
        st.table.map (·.1) = (initTable mols : Table S).map (·.1) →
        (∀ q ∈ ps, ∀ e, st.table.lookup q.1 = some e → e.end_ = none) →
        (ps.map (·.1)).Nodup → attachByKey L ps st = .error .KeyError := by
      intro ps
      induction ps with
      | nil => intro st h; cases h
      | cons x rest ih =>
        intro st hmem hkeys hfresh hnd
        obtain ⟨k, m⟩ := x
        cases hl : st.table.lookup k with
        | none => simp [attachByKey, L, smLib, hl]
        | some e =>
          have hend := hfresh (k, m) (List.mem_cons_self ..) e hl
          have hpne : p ≠ (k, m) := by
            rintro rfl
            apply hkey
            rw [← hkeys]
            exact List.mem_map.mpr ⟨(k, e), MgrSM.mem_of_lookup hl, rfl⟩
          have hprest : p ∈ rest := by
            rcases List.mem_cons.mp hmem with h | h
            · exact absurd h hpne
            · exact h
          have hstep : step st (.setEnd k (.mol m)) =
              ({ st with table := st.table.set k { e with end_ := some m } }, none) := by
            simp [step, setEnd, hl, setEndEntry_first e m hend]
          simp only [List.map_cons, List.nodup_cons] at hnd
          have hne' : ∀ q ∈ rest, q.1 ≠ k := fun q hq h => hnd.1 (List.mem_map.mpr ⟨q, hq, h⟩)
          simp only [attachByKey, L, smLib, hl, Option.isSome_some, Bool.not_true, Bool.false_eq_true,
            if_false, call, hstep]
          apply ih _ hprest
          · simp only [keys_set]; exact hkeys
          · intro q hq e' hl'
            simp only at hl'
            rw [lookup_set_ne _ _ (hne' q hq)] at hl'
            exact hfresh q (List.mem_cons_of_mem _ hq) e' hl'
          · exact hnd.2
    apply gen pairs (init mols sys) hp rfl _ hnodup
    intro q _ e hl
    exact (initTable_fresh (S := S) mols (q.1, e) (MgrSM.mem_of_lookup hl)).2.1
  · intro hall
    have hkeys : ∀ p ∈ pairs, ((init mols sys : State S).table.lookup p.1).isSome = true := by
      intro p hp
      rw [lookup_isSome_iff]
      exact ((keys_initTable mols).2 p.1).mpr (hall p hp)
    have hfresh : ∀ p ∈ pairs, ∃ e, (init mols sys : State S).table.lookup p.1 = some e ∧ e.end_ = none := by
      intro p hp
      cases hl : (init mols sys : State S).table.lookup p.1 with
      | none => have := hkeys p hp; simp [hl] at this
      | some e => exact ⟨e, rfl, (initTable_fresh (S := S) mols (p.1, e) (MgrSM.mem_of_lookup hl)).2.1⟩
    obtain ⟨a1, _, a3⟩ := attach_all pairs (init mols sys : State S) hfresh hnodup
    have heq := attachByKey_eq L (fun _ _ => rfl) (fun _ _ _ => rfl) pairs (init mols sys) hkeys a1
    generalize runOps (init mols sys : State S) (pairs.map (fun p => Op.setEnd p.1 (.mol p.2))) = m'
      at a3 heq
    refine ⟨m', heq, ?_, ?_⟩
    · intro p hp
      obtain ⟨e, hl, hfin⟩ := a3 p hp
      refine ⟨_, hfin, rfl, ?_⟩
      exact (initTable_fresh (S := S) mols (p.1, e) (MgrSM.mem_of_lookup hl)).2.2
    · -- align [] and calcMaps never raise; after calcMaps the table is Ready
      have halign : L.align m' () = .ok (m', ()) := by
        simp [L, smLib, call, step, alignTargets, Except.map]
      have hcalc := C05.maps_after_calc m' scale
      have hmaps : L.maps scale m' () = .ok ((step m' (.calcMaps scale)).1, ()) := by
        simp only [L, smLib, call]
        cases hs : step m' (.calcMaps scale) with
        | mk m2 err =>
          have := hcalc.1
          rw [hs] at this
          simp only at this
          subst this
          simp [Except.map]
      -- some species is complete: the first pair's
      obtain ⟨p0, hp0⟩ := List.exists_mem_of_ne_nil pairs hne
      obtain ⟨e0, hl0, hfin0⟩ := a3 p0 hp0
      have hst0 := (initTable_fresh (S := S) mols (p0.1, e0) (MgrSM.mem_of_lookup hl0)).1
      have hcomplete : ∃ q ∈ m'.table, isComplete q.2 = true :=
        ⟨(p0.1, { e0 with end_ := some p0.2 }), MgrSM.mem_of_lookup hfin0, by simpa [isComplete] using hst0⟩
      have hready := hcalc.2.2.2.2.2 hcomplete
      have hfin : finishRun L m' scale out () =
          call (step m' (.calcMaps scale)).1 (.extrapolate (extOk out)) := by
        simp only [finishRun, halign, hmaps]
        rfl
      rw [hfin]
      intro hbad
      unfold call at hbad
      have hnse := (C05.preflight_iff (step m' (.calcMaps scale)).1 (extOk out)).2.1
      cases hs : step (step m' (.calcMaps scale)).1 (.extrapolate (extOk out)) with
      | mk m3 err =>
        rw [hs] at hbad hnse
        cases err with
        | none => simp at hbad
        | some e =>
          simp only [Except.error.injEq] at hbad
          subst hbad
          exact (hnse.mp rfl) hready

/-! ### non-vacuity -/

private def sE : Mol := ⟨"E", 1000, 500, false, [[⟨"VTE", "B1", 0, 1⟩, ⟨"VTE", "B2", 1, 1⟩]]⟩
private def vte : Mol := ⟨"VTE", 2000, 0, false, [[⟨"VTE", "C1", 0, 1⟩, ⟨"VTE", "O2", 1, 1⟩, ⟨"VTE", "H3", 2, 1⟩]]⟩
private def libSM : Lib Mol (State Nat) Unit Nat (State Nat) :=
  smLib (fun _ => .ok "E") (fun _ _ => .ok vte) (fun _ _ => .ok (init [sE] [("E", [1]), ("E", [2])]))
    (fun out => out == "o.gro".toList)

/-- the documentation's example (species `E` mapped onto a molecule called `VTE`): attached by key the
    pipeline runs through; the README form `add_end_molecules` raises `KeyError` on the same manager -/
example :
    (attachByKey libSM [("E", vte)] (init [sE] [("E", [1]), ("E", [2])])).toOption.map
        (fun m => (finishRun libSM m 5 "o.gro".toList ()).toOption.map
          (fun m' => m'.table.map (fun p => (p.1, p.2.end_.map (·.name), p.2.map.isSome))))
      = some (some [("E", some "VTE", true)]) ∧
    addEndMolecules libSM [vte] (init [sE] [("E", [1]), ("E", [2])]) = .error .KeyError := by
  decide

end C20
