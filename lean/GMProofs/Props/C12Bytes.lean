import GMProofs.Lemmas.SysGroBytesL
import GMProofs.Props.C12
import GMProofs.Props.C13
/-
  C12 ↔ C13 — the coordinate-file view of a file WRITTEN by `GroFile`.

  `SGro.sysGroOfBytes` (GMModel/SysGroBytes.lean) is "open the file, then build the view":
  `Gro.groRead` (C13/C14: bytes → title, atom records, box) followed by `SGro.init` (C12) over the records
  it returns.  The theorem composes C13's writer/reader round trip with C12's `view_exists`,
  `groups_are_runs`, `tiling`, `counts_agree`: the statement no longer starts at "a parsed record list" but
  at the client script that wrote the file.
-/
open PyStr Gro GroL
open SGro hiding Op run step init next PyErr

namespace C12

/-- what the property demands of a record read back, plus what the format does to numbers that do not
    fit five digits: they come back modulo 100000 (GROMACS convention; D3 repair) -/
def RecSameMod (d : Nat) (r : Rec) (q : RRec) : Prop :=
  C13.RecSame d r q ∧ q.resnum = r.resnum % 100000 ∧ q.atomnum = r.atomnum % 100000

/-- **view_of_written_file.**  Under the hypotheses of `C13.gro_roundtrip` (any setters, one or more
    `writeline`, `close`; one-line title; count declared correctly or back-filled; format `(w, d)`, `d ≥ 1`;
    records with 1–5 non-blank name characters and values that fit) and ASCII residue names:

    no operation raises, `SystemGro` on the written BYTES is constructed, and with `gs` = the residues a
    full read of the view returns
    * the view's atom records are exactly the written records in order — number modulo 100000, names
      verbatim, the payload of the i-th being `i` (`writtenAtoms`) — and `gs` concatenated is that list
      (every written record in exactly one residue, in order);
    * the i-th atom line the `GroFile` parsed (`v.data.recs[i]`, which carries the atom number, coordinates
      and velocities of the view atom with payload `i`) corresponds to the i-th written record: names equal,
      numbers ≤ 99999 unchanged and in general modulo 100000, positions within `½·10^(−d)`, velocities within
      `½·10^(−d−1)`;
    * residue boundaries are exactly where `(resnum % 100000, resname)` of the WRITTEN list changes: `gs` is
      the unique decomposition of the records into maximal runs of equal `writtenKey`;
    * `len(view)` = number of residues, the residues hold `natoms` = number of written records atoms, the
      title is the written title (plus its terminator, O6) and the box is the written box within 5e-6.

    Residue numbers ≥ 100000 (or negative): the file format stores them modulo 100000, so two ADJACENT
    written residues with the same name whose numbers differ by a multiple of 100000 (e.g. 5 and 100005)
    become ONE residue of the view — a merge; the wrap can never split a residue (equal written
    (number, name) ⇒ equal wrapped key).  Sequential numbering is unaffected (99999 → 100000 is read as
    99999 → 0: still a boundary).  See the examples below. -/
theorem view_of_written_file (setters : List Op) (r0 : Rec) (rest : List Rec) (w d : Nat) (vel : Bool) (s : WState)
    (hset : ∀ op ∈ setters, IsSetter op)
    (hs : s = (run WState.init setters).1)
    (hfmt : s.effFormat = (w, d)) (hd : 1 ≤ d)
    (htitle : TitleOk s.effComment)
    (hcount : CountOk s (r0 :: rest).length)
    (hrec : ∀ r ∈ r0 :: rest, RecOk w d vel r)
    (hascii : ∀ r ∈ r0 :: rest, ∀ c ∈ r.resname, c < 128) :
    let res := run WState.init (setters ++ ((r0 :: rest).map Op.writeLine ++ [Op.close]))
    (∀ e ∈ res.2, e = none) ∧
    ∃ v gs, sysGroOfBytes res.1.bytes = .ok v ∧ Built v.file v.sg v.cur gs ∧
      v.file.recs = writtenAtoms 0 (r0 :: rest) ∧
      gs.flatten = writtenAtoms 0 (r0 :: rest) ∧
      List.Forall₂ (RecSameMod d) (r0 :: rest) v.data.recs ∧
      IsRunDecomp (writtenKey (r0 :: rest)) (writtenAtoms 0 (r0 :: rest)) gs ∧
      (∀ gs', IsRunDecomp (writtenKey (r0 :: rest)) (writtenAtoms 0 (r0 :: rest)) gs' → gs' = gs) ∧
      v.sg.len = gs.length ∧ (gs.map List.length).sum = (r0 :: rest).length ∧
      v.nAtoms = (r0 :: rest).length ∧
      v.commentLine = s.effComment ++ [nl] ∧ C13.BoxWithin s.box v.boxMatrix := by
  intro res
  -- C13: the bytes and what the reader returns for them
  obtain ⟨hp, he⟩ := pristine_run setters pristine_init hset
  rw [← hs] at hp
  obtain ⟨hb, he2⟩ := session_bytes hp r0 rest w d vel hfmt hrec htitle hcount
  have hres : res = ((run s ((r0 :: rest).map Op.writeLine ++ [Op.close])).1,
      (run WState.init setters).2 ++ (run s ((r0 :: rest).map Op.writeLine ++ [Op.close])).2) := by
    show run WState.init _ = _
    rw [run_append, ← hs]
  have hread : groRead stdParsers res.1.bytes =
      .ok ⟨s.effComment ++ [nl], (r0 :: rest).map (roundRec d), roundBox s.box⟩ := by
    rw [hres]
    show groRead stdParsers (run s _).1.bytes = _
    rw [hb]
    exact session_read r0 rest w d vel hd hrec htitle hcount
  refine ⟨?_, ?_⟩
  · intro e hm
    rw [hres] at hm
    rcases List.mem_append.mp hm with h | h
    · exact he e h
    · exact he2 e h
  -- C12: the view over the records read
  let data : GroData := ⟨s.effComment ++ [nl], (r0 :: rest).map (roundRec d), roundBox s.box⟩
  have hrecs : (fileOfData data).recs = writtenAtoms 0 (r0 :: rest) := atomsFrom_roundRec d (r0 :: rest) 0
  have hne : (fileOfData data).recs ≠ [] := by rw [hrecs]; simp [writtenAtoms]
  obtain ⟨sg, gs, hB⟩ := view_exists (fileOfData data) hne
  have hv : sysGroOfBytes res.1.bytes =
      .ok ⟨data, fileOfData data, sg, ⟨(fileOfData data).recs.length + 1, (fileOfData data).recs.length⟩⟩ := by
    unfold sysGroOfBytes
    rw [hread]
    simp only
    rw [hB.1]
  obtain ⟨hruns, huniq⟩ := groups_are_runs hB
  have htile := tiling hB
  obtain ⟨hlen, hsum⟩ := counts_agree hB
  rw [hrecs] at hruns huniq htile
  have hkey := reskey_iff_writtenKey (r0 :: rest) hascii
  refine ⟨_, gs, hv, hB, hrecs, htile, ?_, ?_, ?_, hlen, ?_, ?_, rfl, C13.roundBox_within _⟩
  · show List.Forall₂ (RecSameMod d) (r0 :: rest) ((r0 :: rest).map (roundRec d))
    generalize (r0 :: rest) = l
    induction l with
    | nil => exact List.Forall₂.nil
    | cons r t ih => exact List.Forall₂.cons ⟨C13.roundRec_same d r, rfl, rfl⟩ ih
  · exact IsRunDecomp.congr AtomRec.reskey (writtenKey (r0 :: rest)) hkey hruns
  · intro gs' h'
    apply huniq
    exact IsRunDecomp.congr (writtenKey (r0 :: rest)) AtomRec.reskey
      (fun a ha b hb => (hkey a ha b hb).symm) h'
  · rw [hsum]
    show (fileOfData data).recs.length = _
    rw [hrecs, writtenAtoms_length]
  · show (fileOfData data).recs.length = _
    rw [hrecs, writtenAtoms_length]

/-! ### residue numbers beyond five digits (evaluated in the kernel: tests) -/

private def recN (n : Int) (nm : List Nat) : Rec := ⟨n, nm, [65], 1, .zero, .zero, .zero, none⟩
private def viewLens (l : List Rec) : Option (List Nat) :=
  match SGro.init ⟨[], writtenAtoms 0 l, 0⟩ ⟨0, 0⟩ with
  | (.ok sg, c) => (getSlice ⟨[], writtenAtoms 0 l, 0⟩ sg c none none none).1.toOption.map (·.map List.length)
  | _ => none

/-- a MERGE: residues 5 and 100005, both `SOL`, adjacent in the written list, are one residue of the view
    (both are stored as `    5SOL`); 99999 → 100000 stays a boundary (read as 99999 → 0); equal numbers with
    different names stay apart -/
example : viewLens [recN 5 [83, 79, 76], recN 100005 [83, 79, 76]] = some [2] ∧
    viewLens [recN 99999 [83, 79, 76], recN 100000 [83, 79, 76]] = some [1, 1] ∧
    viewLens [recN 5 [83, 79, 76], recN 100005 [87]] = some [1, 1] := by decide

/-- never a SPLIT: records with equal written (number, name) have equal `writtenKey` wherever they are -/
example (l : List Rec) (i j : Nat) (ri rj : Rec) (hi : l[i]? = some ri) (hj : l[j]? = some rj)
    (h : (ri.resnum, ri.resname) = (rj.resnum, rj.resname)) (a b : AtomRec) (ha : a.data = i) (hb : b.data = j) :
    writtenKey l a = writtenKey l b := by
  injection h with h1 h2
  simp [writtenKey, ha, hb, hi, hj, h1, h2]

end C12
