import GMProofs.Lemmas.SysGroL
/-
  C12 — the coordinate-file view (`SystemGro`) tiles the file into residues with stable random access.

  Model: `GMModel.SysGro` — `GroFile` (read side) as a cursor machine over the parsed records,
  `SystemGro._parse_gro / _add_residue_init / _molecules_ordered_all_gen / __getitem__ / __iter__`.
  The model is of the code AS REPAIRED by fixes/C12-O4.patch (`SGro.init`: residues split where the
  pair (number, name) changes); `SGro.initUnrepaired` is the code before the repair (split where the
  string `f"{resid}{resname}"` changes) and `unrepaired_agrees` / `o4_collision` say exactly when the two
  differ.  Only property theorems and non-vacuity examples live here.
-/
open SGro

namespace C12

/-- `sg` is the view `SystemGro(f)` builds from the cursor `GroFile.__init__` leaves (`⟨0,0⟩`), `c` the
    cursor it leaves behind, and `gs` the residues a full read `view[:]` returns. -/
def Built (f : GroRd) (sg : SG) (c : Cursor) (gs : List Residue) : Prop :=
  init f ⟨0, 0⟩ = (.ok sg, c) ∧ (getSlice f sg c none none none).1 = .ok gs

private theorem built_groups {f : GroRd} {sg : SG} {c : Cursor} {gs : List Residue} (h : Built f sg c gs) :
    ∃ first rest, f.recs = first :: rest ∧ gs = loopGroups AtomRec.reskey [first] first.reskey rest ∧
      IsRunDecomp AtomRec.reskey f.recs gs ∧ Inv sg ∧ KindsOk sg.templates sg.kinds gs ∧
      sg.len = gs.length ∧ sg.offsets = .ok (offsOf 0 sg.kinds gs) ∧ Loaded f sg gs ∧
      gs.foldlM addGroup SG.empty = .ok sg := by
  obtain ⟨hinit, hread⟩ := h
  cases hf : f.recs with
  | nil =>
    exfalso
    unfold init initWith at hinit
    have : next f ⟨0, 0⟩ = (.error .StopIteration, ⟨1, 0⟩) := by
      unfold next GroRd.natoms; simp [hf]
    rw [this] at hinit
    cases hinit
  | cons first rest =>
    obtain ⟨sg', hi, hruns, hI, hko, hl, hoffs, hL, hfold⟩ :=
      initWith_loaded AtomRec.reskey (fun a b e => by
        unfold AtomRec.reskey at e
        unfold AtomRec.residname
        injection e with e1 e2
        rw [e1, e2]) f first rest hf
    have hi' : init f ⟨0, 0⟩ = (.ok sg', ⟨f.recs.length + 1, f.recs.length⟩) := hi
    rw [hi'] at hinit
    injection hinit with h1 h2
    injection h1 with h1
    subst h1
    have hgs : gs = loopGroups AtomRec.reskey [first] first.reskey rest := by
      rw [getSlice_spec f sg' _ hL, isliceExt_all] at hread
      injection hread with hread
      exact hread.symm
    rw [← hf]
    subst hgs
    exact ⟨first, rest, hf, rfl, hruns, hI, hko, hl, hoffs, hL, hfold⟩

/-- The constructor accepts every file with at least one atom, reads every atom line exactly once and
    leaves the cursor after the box line with `_current_atom = natoms`. -/
theorem view_exists (f : GroRd) (hne : f.recs ≠ []) :
    ∃ sg gs, Built f sg ⟨f.recs.length + 1, f.recs.length⟩ gs := by
  obtain ⟨first, rest, hf⟩ : ∃ a r, f.recs = a :: r := by
    cases h : f.recs with
    | nil => exact absurd h hne
    | cons a r => exact ⟨a, r, rfl⟩
  obtain ⟨sg, hi, _, _, _, _, _, hL, _⟩ :=
    initWith_loaded AtomRec.reskey (fun a b e => by
      unfold AtomRec.reskey at e
      unfold AtomRec.residname
      injection e with e1 e2
      rw [e1, e2]) f first rest hf
  exact ⟨sg, _, hi, by rw [getSlice_spec f sg _ hL, isliceExt_all]⟩

/-- **groups_are_runs.**  The residues of the view are THE decomposition of the atom records into
    maximal runs of equal (residue number, residue name): concatenated they are the records, every
    residue is non-empty and uniform, adjacent residues differ in number or name — and there is only
    one such decomposition.  ("a new residue starting precisely where residue number or name changes") -/
theorem groups_are_runs {f : GroRd} {sg : SG} {c : Cursor} {gs : List Residue} (h : Built f sg c gs) :
    IsRunDecomp AtomRec.reskey f.recs gs ∧
    ∀ gs', IsRunDecomp AtomRec.reskey f.recs gs' → gs' = gs := by
  obtain ⟨_, _, _, _, hruns, _⟩ := built_groups h
  exact ⟨hruns, fun gs' h' => IsRunDecomp.unique AtomRec.reskey h' hruns⟩

/-- **residname_injective.**  The string `f"{resid}{resname}"` identifies (number, name) as long as
    no residue name starts with a decimal digit.  The hypothesis cannot be dropped (`o4_collision`). -/
theorem residname_injective (a b : AtomRec)
    (ha : ∀ ch, a.resname.head? = some ch → ch.isDigit = false)
    (hb : ∀ ch, b.resname.head? = some ch → ch.isDigit = false) :
    a.residname = b.residname ↔ (a.resid = b.resid ∧ a.resname = b.resname) := by
  constructor
  · exact intDigits_append_inj a.resid b.resid a.resname b.resname ha hb
  · rintro ⟨h1, h2⟩
    unfold AtomRec.residname
    rw [h1, h2]

/-- design observation O4: `1`+`1AB` and `11`+`AB` are the same string -/
theorem o4_collision :
    (⟨1, ['1', 'A', 'B'], ['X'], 0⟩ : AtomRec).residname = (⟨11, ['A', 'B'], ['X'], 1⟩ : AtomRec).residname ∧
    (⟨1, ['1', 'A', 'B'], ['X'], 0⟩ : AtomRec).reskey ≠ (⟨11, ['A', 'B'], ['X'], 1⟩ : AtomRec).reskey := by
  decide

/-- On files without digit-leading residue names the code before the repair builds the same view
    (so fixes/C12-O4.patch changes nothing there). -/
theorem unrepaired_agrees (f : GroRd) (c : Cursor)
    (hnd : ∀ a ∈ f.recs, ∀ ch, a.resname.head? = some ch → ch.isDigit = false) :
    initUnrepaired f c = init f c := by
  unfold initUnrepaired init initWith
  cases hn : next f c with
  | mk r c1 =>
    cases r with
    | error e => rfl
    | ok first =>
      simp only
      cases hr : readAll f (f.natoms + 1) c1 with
      | mk r2 c2 =>
        cases r2 with
        | error e => rfl
        | ok rest =>
          simp only
          by_cases hmem : ∀ a ∈ first :: rest, a ∈ f.recs
          · rw [parseLoop_congr AtomRec.residname AtomRec.reskey rest SG.empty [first] first
              (fun a ha b hb => by
                rw [residname_injective a b (hnd a (hmem a ha)) (hnd b (hmem b hb))]
                unfold AtomRec.reskey
                exact ⟨fun ⟨h1, h2⟩ => by rw [h1, h2], fun e => by injection e with e1 e2; exact ⟨e1, e2⟩⟩)]
          · -- every record `next`/`readAll` returns is a record of the file
            exfalso
            apply hmem
            intro a ha
            rcases List.mem_cons.mp ha with rfl | ha
            · exact next_mem f c _ c1 hn
            · exact readAll_mem f _ c1 rest c2 hr a ha

/-- **kind_length_invariant.**  The kind stream has one entry per residue, and the template stored
    under the kind of the i-th residue has exactly that residue's length — although the
    `(resname, len) → index` dictionary is overwritten whenever a new template with an old key appears. -/
theorem kind_length_invariant {f : GroRd} {sg : SG} {c : Cursor} {gs : List Residue} (h : Built f sg c gs) :
    sg.kinds.length = gs.length ∧
    ∀ (i : Nat) (g : Residue), gs[i]? = some g →
      ∃ k t, sg.kinds[i]? = some k ∧ sg.templates[k]? = some t ∧ t.length = g.length := by
  obtain ⟨_, _, _, _, _, _, hko, _⟩ := built_groups h
  exact ⟨KindsOk.length hko, fun i g hg => KindsOk.get hko i g hg⟩

/-- the dictionary itself: every stored index points at a template with the key's length and residue name -/
theorem dictionary_sound {f : GroRd} {sg : SG} {c : Cursor} {gs : List Residue} (h : Built f sg c gs) :
    ∀ (key : Str × Nat) (idx : Nat), sg.pk.lookup key = some idx →
      ∃ a rest, sg.templates[idx]? = some (a :: rest) ∧ (a :: rest).length = key.2 ∧ a.resname = key.1 := by
  obtain ⟨_, _, _, _, _, hI, _⟩ := built_groups h
  intro key idx hl
  obtain ⟨t, ht, hlen, hname⟩ := hI.pk_ok key idx hl
  obtain ⟨a, rest, hta, _⟩ := hI.tmpl_key t (List.mem_of_getElem? ht)
  subst hta
  exact ⟨a, rest, ht, hlen, hname a rest rfl⟩

/-- … hence different `(resname, len)` signatures are never mapped to the same kind (used by C11:
    species with distinct residue signatures have distinct kinds) -/
theorem dictionary_injective {f : GroRd} {sg : SG} {c : Cursor} {gs : List Residue} (h : Built f sg c gs)
    (k1 k2 : Str × Nat) (idx : Nat) (h1 : sg.pk.lookup k1 = some idx) (h2 : sg.pk.lookup k2 = some idx) :
    k1 = k2 := by
  obtain ⟨a, rest, ht, hl, hn⟩ := dictionary_sound h k1 idx h1
  obtain ⟨a', rest', ht', hl', hn'⟩ := dictionary_sound h k2 idx h2
  rw [ht] at ht'
  injection ht' with e
  injection e with e1 e2
  subst e1 e2
  exact Prod.ext (hn.symm.trans hn') (hl.symm.trans hl')

/-- When the `(resname, len)` signature determines the residue (equal signature ⇒ `Residue.__eq__`; true
    for files assembled from molecules of fixed species), the dictionary is never overwritten and the
    kind of EVERY residue is the final dictionary value of its signature — so the kind stream C11 scans is
    the signature stream, kind by kind. -/
theorem kinds_are_dictionary_values {f : GroRd} {sg : SG} {c : Cursor} {gs : List Residue}
    (h : Built f sg c gs) (hS : SigDetermines gs) :
    ∀ (i : Nat) (a : AtomRec) (rest : List AtomRec), gs[i]? = some (a :: rest) →
      sg.pk.lookup (a.resname, (a :: rest).length) = sg.kinds[i]? := by
  obtain ⟨_, _, _, _, hruns, _, _, _, _, _, hfold⟩ := built_groups h
  have hgood : ∀ g ∈ gs, g ∈ gs ∧ GoodGroup g := by
    intro g hg
    obtain ⟨hne, hu⟩ := hruns.uniform g hg
    refine ⟨hg, hne, fun x hx y hy => ?_⟩
    have e := hu x hx y hy
    unfold AtomRec.reskey at e
    unfold AtomRec.residname
    injection e with e1 e2
    rw [e1, e2]
  have hK0 : KInv gs SG.empty [] :=
    ⟨fun _ h => (by simp [SG.empty] at h), fun _ h => (by cases h), rfl, fun i a rest h => (by simp at h)⟩
  have hK := KInv.fold gs hS gs [] SG.empty sg hK0 hgood hfold
  simp only [List.nil_append] at hK
  exact hK.look

/-- **offsets_exact.**  The offset generator never fails and its i-th triple is
    (kind of residue i, number of atoms before residue i, length of residue i). -/
theorem offsets_exact {f : GroRd} {sg : SG} {c : Cursor} {gs : List Residue} (h : Built f sg c gs) :
    ∃ offs, sg.offsets = .ok offs ∧ offs.length = gs.length ∧
      ∀ (i : Nat) (g : Residue), gs[i]? = some g →
        ∃ k, sg.kinds[i]? = some k ∧ offs[i]? = some (k, (gs.take i).flatten.length, g.length) := by
  obtain ⟨_, _, _, _, _, _, hko, _, hoffs, _⟩ := built_groups h
  refine ⟨_, hoffs, offsOf_length _ _ _ (KindsOk.length hko), ?_⟩
  intro i g hg
  obtain ⟨k, _, hk, _⟩ := KindsOk.get hko i g hg
  refine ⟨k, hk, ?_⟩
  rw [offsOf_get sg.kinds gs 0 i k g hk hg]
  simp

/-- **tiling.**  Concatenating all residues gives all atom records, in order. -/
theorem tiling {f : GroRd} {sg : SG} {c : Cursor} {gs : List Residue} (h : Built f sg c gs) :
    gs.flatten = f.recs :=
  (groups_are_runs h).1.flatten

/-- **access_history_free.**  For EVERY sequence of index / negative index / slice / `iter` /
    `next(iterator)` operations and EVERY state of the shared file cursor it starts from, each result is
    what the same operation returns on the plain Python list of runs (`specRun`: no file, no cursor;
    an iterator is a position in that list).  Every access seeks before it reads, so nothing that was
    read before — in whatever order — can influence it. -/
theorem access_history_free {f : GroRd} {sg : SG} {c : Cursor} {gs : List Residue} (h : Built f sg c gs)
    (st : St) (ops : List Op) :
    (run f sg st ops).1 = specRun gs st.iters ops := by
  obtain ⟨_, _, _, _, _, _, _, _, _, hL, _⟩ := built_groups h
  exact run_spec f sg gs hL ops st

/-- the `int` case spelled out: `view[i]` is Python's `gs[i]` (negative indices from the end,
    `IndexError` outside `[-n, n)`), whatever the cursor -/
theorem getitem_is_kth_run {f : GroRd} {sg : SG} {c : Cursor} {gs : List Residue} (h : Built f sg c gs)
    (c' : Cursor) (i : Int) :
    (getInt f sg c' i).1 = match pyIndex gs i with
      | some r => .ok r
      | none => .error .IndexError := by
  obtain ⟨first, rest, hf, _, hruns, _, _, _, _, hL, _⟩ := built_groups h
  rw [getInt_spec f sg gs hL]
  have hne : gs ≠ [] := by
    intro e
    have := hruns.flatten
    rw [e, hf] at this
    cases this
  rw [pickInt_eq_pyIndex gs i hne]
  cases pyIndex gs i <;> rfl

/-- a slice is Python's slice of the list of runs, whatever the cursor -/
theorem getslice_is_list_slice {f : GroRd} {sg : SG} {c : Cursor} {gs : List Residue} (h : Built f sg c gs)
    (c' : Cursor) (a b s : Option Int) :
    (getSlice f sg c' a b s).1 = isliceExt gs a b s := by
  obtain ⟨_, _, _, _, _, _, _, _, _, hL, _⟩ := built_groups h
  exact getSlice_spec f sg gs hL c' a b s

/-- what every access theorem above rests on, for reuse by C11: the offset generator of a built view
    designates, in order and inside the file, exactly the residues `gs` -/
theorem built_loaded {f : GroRd} {sg : SG} {c : Cursor} {gs : List Residue} (h : Built f sg c gs) :
    Loaded f sg gs := by
  obtain ⟨_, _, _, _, _, _, _, _, _, hL, _⟩ := built_groups h
  exact hL

/-- **counts agree.**  `len(view)` is the number of runs and the runs contain `natoms` atoms in total
    (box and title are handed through from the `GroFile` unchanged: `f.box`, `f.title`). -/
theorem counts_agree {f : GroRd} {sg : SG} {c : Cursor} {gs : List Residue} (h : Built f sg c gs) :
    sg.len = gs.length ∧ (gs.map List.length).sum = f.natoms := by
  obtain ⟨_, _, _, _, hruns, _, _, hl, _⟩ := built_groups h
  refine ⟨hl, ?_⟩
  rw [← List.length_flatten, hruns.flatten]
  rfl

/-! ### non-vacuity -/

/-- a file with alternating kinds, equal names with different sizes and equal name+size with different
    atom names (dictionary overwrite): W(a,b) X(a) W(a,b) W(a) W(c,d) W(a,b) -/
def exFile : GroRd :=
  ⟨['t'], [⟨1, ['W'], ['a'], 0⟩, ⟨1, ['W'], ['b'], 1⟩, ⟨2, ['X'], ['a'], 2⟩, ⟨3, ['W'], ['a'], 3⟩,
           ⟨3, ['W'], ['b'], 4⟩, ⟨4, ['W'], ['a'], 5⟩, ⟨5, ['W'], ['c'], 6⟩, ⟨5, ['W'], ['d'], 7⟩,
           ⟨6, ['W'], ['a'], 8⟩, ⟨6, ['W'], ['b'], 9⟩], 0⟩

/-- the hypotheses of all theorems above are met by `exFile` (evaluated in the kernel — a test):
    six residues, kind stream `0 1 0 2 3 3` — the last residue equals template 0 but is stored under
    kind 3, the template that overwrote the key `(W, 2)`; lengths still agree -/
example : ∃ sg gs, Built exFile sg ⟨11, 10⟩ gs ∧ gs.length = 6 ∧ sg.kinds = [0, 1, 0, 2, 3, 3] ∧
    (gs.map List.length) = [2, 1, 2, 1, 2, 2] :=
  ⟨_, _, ⟨rfl, rfl⟩, by decide, by decide, by decide⟩

/-- an access sequence with two live iterators, evaluated on the model (test) -/
example : (match (init exFile ⟨0, 0⟩).1 with
    | .error _ => []
    | .ok sg => (run exFile sg ⟨⟨11, 10⟩, []⟩
        [.iterNew, .iterNext 0, .get (-1), .iterNew, .iterNext 0, .slice (some 4) none (some (-2)),
         .iterNext 1, .get 6]).1.map
          (fun r => r.toOption.map (List.map (List.map AtomRec.data)))) =
    [some [], some [[0, 1]], some [[8, 9]], some [], some [[2]], some [[6, 7], [3, 4], [0, 1]], some [[0, 1]],
     none] := by
  decide

/-- the collision file of O4 has two residues in the repaired model and one in the unrepaired one -/
example : let f : GroRd := ⟨[], [⟨1, ['1', 'A', 'B'], ['X'], 0⟩, ⟨11, ['A', 'B'], ['X'], 1⟩], 0⟩
    ((init f ⟨0, 0⟩).1.toOption.map SG.len, (initUnrepaired f ⟨0, 0⟩).1.toOption.map SG.len) = (some 2, some 1) := by
  decide

end C12
