import GMProofs.Lemmas.Rot
import GMProofs.Lemmas.FrameL
/-
  C17 — Rotation matrices are proper rotations; local frames are orthonormal.

  Model: `GMModel.Frame` (`rotationMatrix`, `calculeBase`) instantiated at ℝ.
  Only property theorems and their non-vacuity examples live here.
-/
open V3

namespace C17

/-! ### rotation_matrix -/

private theorem unit_axis {a : V3 ℝ} (ha : a ≠ V3.zero) : Unit1 (V3.divs a (V3.norm a)) :=
  V3.normalize_unit (V3.norm_pos ha).ne'

private theorem trig (θ : ℝ) : Real.cos θ * Real.cos θ + Real.sin θ * Real.sin θ = 1 := by
  have := Real.cos_sq_add_sin_sq θ; nlinarith [this]

/-- the only divisor of `rotation_matrix` is non-zero for a non-zero axis -/
theorem rot_defined (a : V3 ℝ) (ha : a ≠ V3.zero) : rotationDefined a = true := by
  simp [rotationDefined, (V3.norm_pos ha).ne']

/-- R Rᵀ = 1 and Rᵀ R = 1 -/
theorem rot_orthogonal (a : V3 ℝ) (θ : ℝ) (ha : a ≠ V3.zero) :
    M3.mul (rotationMatrix a θ) (M3.transpose (rotationMatrix a θ)) = M3.eye ∧
    M3.mul (M3.transpose (rotationMatrix a θ)) (rotationMatrix a θ) = M3.eye :=
  ⟨rotCore_orth _ _ _ (unit_axis ha) (trig θ), rotCore_orth' _ _ _ (unit_axis ha) (trig θ)⟩

theorem rot_det_one (a : V3 ℝ) (θ : ℝ) (ha : a ≠ V3.zero) : M3.det (rotationMatrix a θ) = 1 :=
  rotCore_det _ _ _ (unit_axis ha) (trig θ)

/-- the axis is fixed (as a column and as a row vector) -/
theorem rot_fixes_axis (a : V3 ℝ) (θ : ℝ) (ha : a ≠ V3.zero) :
    M3.mulVec (rotationMatrix a θ) a = a ∧ M3.vecMul a (rotationMatrix a θ) = a := by
  have hn := (V3.norm_pos ha).ne'
  have ha' : a = V3.smul (V3.norm a) (V3.divs a (V3.norm a)) := by
    apply V3.ext' <;> simp only [V3.smul, V3.divs, RS.mul_def, RS.div_def] <;> field_simp
  obtain ⟨h1, h2⟩ := rotCore_fix_smul (V3.divs a (V3.norm a)) (Real.cos θ) (Real.sin θ) (V3.norm a)
    (unit_axis ha)
  rw [← ha'] at h1 h2
  exact ⟨h1, h2⟩

theorem rot_trace (a : V3 ℝ) (θ : ℝ) (ha : a ≠ V3.zero) :
    M3.trace (rotationMatrix a θ) = 1 + 2 * Real.cos θ :=
  rotCore_trace _ _ _ (unit_axis ha)

theorem rot_neg_transpose (a : V3 ℝ) (θ : ℝ) :
    rotationMatrix a (-θ) = M3.transpose (rotationMatrix a θ) := by
  unfold rotationMatrix
  rw [rotCore_transpose]
  simp only [gm, Real.cos_neg, Real.sin_neg]

theorem rot_compose (a : V3 ℝ) (α β : ℝ) (ha : a ≠ V3.zero) :
    M3.mul (rotationMatrix a α) (rotationMatrix a β) = rotationMatrix a (α + β) := by
  unfold rotationMatrix
  rw [rotCore_comp _ _ _ _ _ (unit_axis ha)]
  simp only [gm, Real.cos_add, Real.sin_add]

theorem rot_axis_scale (a : V3 ℝ) (θ l : ℝ) (hl : 0 < l) :
    rotationMatrix (V3.smul l a) θ = rotationMatrix a θ := by
  unfold rotationMatrix
  congr 1
  have hn : V3.norm (V3.smul l a) = l * V3.norm a := by
    rw [V3.norm_eq, V3.norm_eq]
    simp only [gm]
    rw [show l * a.x * (l * a.x) + l * a.y * (l * a.y) + l * a.z * (l * a.z)
        = (l * l) * (a.x * a.x + a.y * a.y + a.z * a.z) by ring,
      Real.sqrt_mul (mul_self_nonneg l), Real.sqrt_mul_self hl.le]
  rw [hn]
  apply V3.ext' <;> simp only [gm] <;> rw [mul_div_mul_left _ _ hl.ne']

/-! ### calcule_base -/

private theorem e1_unit {p0 p2 : V3 ℝ} (h : p0 ≠ p2) :
    Unit1 (V3.divs (p2 - p0) (V3.norm (p2 - p0))) :=
  V3.normalize_unit (V3.norm_pos (V3.sub_ne_zero_of_ne h)).ne'

/-- rows of the frame are orthonormal, for every middle point `p1` (all three branches) -/
theorem frame_orthonormal (p0 p1 p2 : V3 ℝ) (h : p0 ≠ p2) :
    let f := calculeBase p0 p1 p2
    V3.dot f.e1 f.e1 = 1 ∧ V3.dot f.e2 f.e2 = 1 ∧ V3.dot f.e3 f.e3 = 1 ∧
    V3.dot f.e1 f.e2 = 0 ∧ V3.dot f.e1 f.e3 = 0 ∧ V3.dot f.e2 f.e3 = 0 := by
  intro f
  have h1 := e1_unit h
  obtain ⟨h3, h13⟩ := frameThird_unit_perp (p1 - p0) h1
  obtain ⟨a, b, c, _⟩ := V3.triple_of_unit_perp h1 h3 h13
  refine ⟨?_, a, ?_, b, ?_, c⟩
  · exact h1
  · exact h3
  · exact h13

theorem frame_right_handed (p0 p1 p2 : V3 ℝ) (h : p0 ≠ p2) :
    let f := calculeBase p0 p1 p2
    M3.det ⟨f.e1, f.e2, f.e3⟩ = 1 := by
  intro f
  have h1 := e1_unit h
  obtain ⟨h3, h13⟩ := frameThird_unit_perp (p1 - p0) h1
  exact (V3.triple_of_unit_perp h1 h3 h13).2.2.2

/-- the first vector points from the first to the third point: `e1 = (p2 − p0)/‖p2 − p0‖`,
    with `‖p2 − p0‖ > 0` (the division is defined) -/
theorem frame_first_vector (p0 p1 p2 : V3 ℝ) (h : p0 ≠ p2) :
    (calculeBase p0 p1 p2).e1 = V3.divs (p2 - p0) (V3.norm (p2 - p0)) ∧ 0 < V3.norm (p2 - p0) :=
  ⟨rfl, V3.norm_pos (V3.sub_ne_zero_of_ne h)⟩

theorem frame_origin (p0 p1 p2 : V3 ℝ) : (calculeBase p0 p1 p2).origin = p0 := rfl

/-- every divisor met by `calcule_base` is non-zero (no NaN / inf is produced) -/
theorem frame_defined (p0 p1 p2 : V3 ℝ) (h : p0 ≠ p2) :
    let e1 := V3.divs (p2 - p0) (V3.norm (p2 - p0))
    let u := p1 - p0
    V3.norm (p2 - p0) ≠ 0 ∧
    (¬ collinearTest e1 u → V3.norm (V3.cross e1 u) ≠ 0) ∧
    (collinearTest e1 u → ¬ (e1.x = 0 ∧ e1.y = 0) → Real.sqrt (e1.x * e1.x + e1.y * e1.y) ≠ 0) := by
  intro e1 u
  refine ⟨(V3.norm_pos (V3.sub_ne_zero_of_ne h)).ne', ?_, ?_⟩
  · intro hc e
    apply hc
    unfold collinearTest
    rw [e]
    have := V3.norm_nonneg u
    positivity
  · intro _ hz
    have hpos : 0 < e1.x * e1.x + e1.y * e1.y := by
      rcases not_and_or.mp hz with h | h
      · nlinarith [mul_self_pos.mpr h, mul_self_nonneg e1.y]
      · nlinarith [mul_self_pos.mpr h, mul_self_nonneg e1.x]
    exact (Real.sqrt_pos.mpr hpos).ne'

/-- the third vector is normal to `p2 − p0` always, and to `p1 − p0` exactly whenever the points
    are not collinear (generic branch) or exactly collinear (`e1 × (p1 − p0) = 0`, which includes a
    coincident middle point) -/
theorem frame_normal (p0 p1 p2 : V3 ℝ) (h : p0 ≠ p2) :
    V3.dot (calculeBase p0 p1 p2).e3 (p2 - p0) = 0 ∧
    ((¬ collinearTest (calculeBase p0 p1 p2).e1 (p1 - p0) ∨
        V3.cross (calculeBase p0 p1 p2).e1 (p1 - p0) = V3.zero) →
      V3.dot (calculeBase p0 p1 p2).e3 (p1 - p0) = 0) := by
  have h1 := e1_unit h
  have hn := (V3.norm_pos (V3.sub_ne_zero_of_ne h)).ne'
  constructor
  · have hd : p2 - p0 = V3.smul (V3.norm (p2 - p0)) (V3.divs (p2 - p0) (V3.norm (p2 - p0))) := by
      apply V3.ext' <;> simp only [V3.smul, V3.divs, RS.mul_def, RS.div_def] <;> field_simp
    show V3.dot (frameThird (V3.divs (p2 - p0) (V3.norm (p2 - p0))) (p1 - p0)) (p2 - p0) = 0
    conv_lhs => arg 2; rw [hd]
    exact frameThird_perp_smul _ h1 _
  · exact frameThird_perp_u (p1 - p0) h1

/-- in every case (including points collinear only up to the 1e-6 tolerance of the branch test)
    the third vector is normal to `p1 − p0` up to that tolerance -/
theorem frame_normal_bound (p0 p1 p2 : V3 ℝ) (h : p0 ≠ p2) :
    |V3.dot (calculeBase p0 p1 p2).e3 (p1 - p0)| ≤ (1 : ℝ) / 10 ^ 6 * V3.norm (p1 - p0) := by
  have h1 := e1_unit h
  by_cases hc : collinearTest (V3.divs (p2 - p0) (V3.norm (p2 - p0))) (p1 - p0)
  · obtain ⟨h3, h13⟩ := frameThird_unit_perp (p1 - p0) h1
    exact le_trans (dot_le_cross_norm (p1 - p0) h1 h3 h13) hc
  · have h0 : V3.dot (calculeBase p0 p1 p2).e3 (p1 - p0) = 0 :=
      frameThird_perp_u (p1 - p0) h1 (Or.inl hc)
    rw [h0, abs_zero]
    have := V3.norm_nonneg (p1 - p0)
    positivity

/-! ### non-vacuity: concrete inputs meeting the hypotheses, one per branch of `calcule_base` -/

example : (⟨0, 0, 0⟩ : V3 ℝ) ≠ ⟨1, 0, 0⟩ := by
  intro h; have := congrArg V3.x h; norm_num at this
/-- exactly collinear along z (the input on which the unrepaired code returned NaN) -/
example : (⟨0, 0, 0⟩ : V3 ℝ) ≠ ⟨0, 0, 2⟩ ∧
    V3.cross (⟨0, 0, 1⟩ : V3 ℝ) (⟨0, 0, 1⟩ - ⟨0, 0, 0⟩) = V3.zero := by
  constructor
  · intro h; have := congrArg V3.z h; norm_num at this
  · simp [gm]
example : (⟨2, 0, 0⟩ : V3 ℝ) ≠ V3.zero := by
  intro h; have := congrArg V3.x h; simp [gm] at this

end C17
