import GMProofs.Lemmas.ManagerSML
import GMProofs.Props.C05
/-
  C05 (continued) / C20 — the `Manager` OBJECT as a state machine (`GMModel.ManagerSM`).

  `C05.lean` proves what ONE call of `extrapolate_system` does with a species table that is given.
  Here the table is the state of a machine whose transitions are the API calls
  (`add_end_molecule`, `molecule_correspondence[k].end = m`, `calculate_exchange_maps`,
  `align_molecules`, `extrapolate_system`), and the clause "requesting extrapolation before the maps
  exist raises an error and writes no file" is proved for EVERY history of calls:
  the theorems below quantify over an arbitrary state `st` (so in particular over every state a
  history reaches) or explicitly over operation lists (`runOps`).
  Only property theorems and their non-vacuity examples live here.
-/

namespace C05

open MgrSM Mgr

variable {S : Type}

/-! ### pre-flight -/

/-- **preflight_iff**: in every state, `extrapolate_system` passes its pre-flight checks iff at least
    one species is complete (has start and end) and every complete species has a map
    (`MgrSM.Ready`).  Otherwise — and only then — the call raises `SystemError`, and it leaves the
    `Manager` exactly as it was; with the checks passed and an unregistered output extension it
    raises `ValueError`, again without touching the `Manager`. -/
theorem preflight_iff (st : State S) (extOk : Bool) :
    (preflight st.table true = none ↔ MgrSM.Ready st.table) ∧
    ((step st (.extrapolate extOk)).2 = some .SystemError ↔ ¬ MgrSM.Ready st.table) ∧
    (¬ MgrSM.Ready st.table → step st (.extrapolate extOk) = (st, some .SystemError)) ∧
    (MgrSM.Ready st.table → extOk = false → step st (.extrapolate extOk) = (st, some .ValueError)) := by
  have hnot : ¬ MgrSM.Ready st.table → step st (.extrapolate extOk) = (st, some .SystemError) := by
    intro h
    simp [step, MgrSM.extrapolate, preflight_not_ready h]
  refine ⟨⟨fun h => ?_, fun h => by simp [preflight_ready h]⟩, ⟨fun h hr => ?_, fun h => ?_⟩, hnot, ?_⟩
  · apply Classical.byContradiction
    intro hn
    rw [preflight_not_ready hn] at h
    cases h
  · -- ready: the outcome is the pre-flight's `ValueError` or the run's, never `SystemError`
    simp only [step, MgrSM.extrapolate, preflight_ready hr] at h
    cases extOk with
    | false => simp at h
    | true =>
      simp only [if_true] at h
      exact (runLoop_flags _ _ _ _).2 h
  · rw [hnot h]
  · intro hr he
    subst he
    simp [step, MgrSM.extrapolate, preflight_ready hr]

/-- … spelled out over histories: after ANY list of calls on ANY manager -/
theorem preflight_iff_history (st0 : State S) (ops : List (Op S)) (extOk : Bool) :
    (step (runOps st0 ops) (.extrapolate extOk)).2 = some .SystemError ↔
      ¬ MgrSM.Ready (runOps st0 ops).table :=
  (preflight_iff (runOps st0 ops) extOk).2.1

/-! ### `calculate_exchange_maps` -/

/-- **maps_after_calc**: `calculate_exchange_maps(s)` never raises; right after it every complete
    species has a map, built from ITS CURRENT start and end molecules with scale `s`; species that
    are not complete, the keys, their order, and all start / end molecules are untouched.  Hence the
    pre-flight passes right after it iff some species is complete. -/
theorem maps_after_calc (st : State S) (s : S) :
    (step st (.calcMaps s)).2 = none ∧
    (step st (.calcMaps s)).1.sys = st.sys ∧
    (step st (.calcMaps s)).1.table.map (·.1) = st.table.map (·.1) ∧
    (∀ p ∈ (step st (.calcMaps s)).1.table, isComplete p.2 = true →
        ∃ a b, p.2.start = some a ∧ p.2.end_ = some b ∧ p.2.map = some ⟨a, b, s⟩) ∧
    (∀ k, (step st (.calcMaps s)).1.table.lookup k =
        (st.table.lookup k).map (fun e => if isComplete e then withMap s e else e)) ∧
    ((∃ p ∈ st.table, isComplete p.2 = true) → MgrSM.Ready (step st (.calcMaps s)).1.table) := by
  have hstep : step st (.calcMaps s) = ({ st with table := calcSpec s st.table }, none) := by
    simp [step, calcMaps_eq]
  rw [hstep]
  refine ⟨rfl, rfl, keys_calcSpec .., ?_, lookup_calcSpec s st.table, ready_calcSpec s st.table⟩
  intro q hq hcq
  simp only [calcSpec, List.mem_map] at hq
  obtain ⟨p, hp, rfl⟩ := hq
  by_cases hc : isComplete p.2 = true
  · obtain ⟨a, b, ha, hb⟩ := (isComplete_iff p.2).mp hc
    exact ⟨a, b, by simp [hc, withMap, ha, hb]⟩
  · have hc' : isComplete p.2 = false := by simpa using hc
    simp [hc'] at hcq

/-! ### `add_end_molecule` / `.end =` -/

/-- **addend_frame**: a failed `add_end_molecule` changes nothing; a successful one was given a
    `Molecule` whose name is a key of the table, and changes exactly the `end` field of the entries
    under that key — keys, order, every other species, and this species' start molecule and map are
    as before.  (In particular an existing map is KEPT when the end molecule is replaced.) -/
theorem addend_frame (st : State S) (a : Arg) :
    ((step st (.addEnd a)).2 ≠ none → (step st (.addEnd a)).1 = st) ∧
    ((step st (.addEnd a)).2 = none →
      ∃ m e, a = .mol m ∧ st.table.lookup m.name = some e ∧
        (step st (.addEnd a)).1 = { st with table := st.table.set m.name { e with end_ := some m } } ∧
        (step st (.addEnd a)).1.table.map (·.1) = st.table.map (·.1) ∧
        (step st (.addEnd a)).1.table.lookup m.name = some { e with end_ := some m } ∧
        (∀ k, k ≠ m.name → (step st (.addEnd a)).1.table.lookup k = st.table.lookup k) ∧
        (∀ p, p.1 ≠ m.name → (p ∈ (step st (.addEnd a)).1.table ↔ p ∈ st.table))) := by
  cases h : addEnd st.table a with
  | error err => simp [step, h]
  | ok t' =>
    simp only [step, h, ne_eq, not_true_eq_false, false_implies, true_and, forall_const]
    obtain ⟨m, rfl, h'⟩ := addEnd_ok h
    obtain ⟨e, e', hl, hse, rfl⟩ := setEnd_ok h'
    obtain ⟨h1, h2, h3, _⟩ := setEndEntry_ok hse
    have he' : e' = { e with end_ := some m } := by
      cases e'; cases e
      simp only [Arg.toEnd] at h1 h2 h3
      simp [h1, h2, h3]
    subst he'
    refine ⟨m, e, rfl, hl, rfl, keys_set .., lookup_set_self _ (by simp [hl]),
      fun k hk => lookup_set_ne _ _ hk, fun p hp => ?_⟩
    rw [mem_set]
    constructor
    · rintro (⟨_, h⟩ | ⟨rfl, _⟩)
      · exact h
      · exact absurd rfl hp
    · exact fun h => Or.inl ⟨hp, h⟩

/-- the same for the documented manual attach `manager.molecule_correspondence[key].end = arg`
    (what `_cli.auto_map` does); `arg` may be `None`, which detaches the end molecule -/
theorem setend_frame (st : State S) (key : String) (a : Arg) :
    ((step st (.setEnd key a)).2 ≠ none → (step st (.setEnd key a)).1 = st) ∧
    ((step st (.setEnd key a)).2 = none →
      ∃ e, st.table.lookup key = some e ∧ a ≠ .notMol ∧
        (step st (.setEnd key a)).1 = { st with table := st.table.set key { e with end_ := a.toEnd } } ∧
        (step st (.setEnd key a)).1.table.map (·.1) = st.table.map (·.1) ∧
        (∀ k, k ≠ key → (step st (.setEnd key a)).1.table.lookup k = st.table.lookup k)) := by
  cases h : setEnd st.table key a with
  | error err => simp [step, h]
  | ok t' =>
    simp only [step, h, ne_eq, not_true_eq_false, false_implies, true_and, forall_const]
    obtain ⟨e, e', hl, hse, rfl⟩ := setEnd_ok h
    obtain ⟨h1, h2, h3, h4⟩ := setEndEntry_ok hse
    have he' : e' = { e with end_ := a.toEnd } := by
      cases e'; cases e
      simp only at h1 h2 h3
      simp [h1, h2, h3]
    subst he'
    exact ⟨e, hl, h4, rfl, keys_set .., fun k hk => lookup_set_ne _ _ hk⟩

/-- the error branches of `add_end_molecule`, in the code's order: not a `Molecule` → `TypeError`;
    name not a key → `KeyError`; species already has an end molecule that is not `==` → `ValueError`;
    in all other cases the molecule is attached -/
theorem addend_outcome (st : State S) (a : Arg) :
    (step st (.addEnd a)).2 =
      match a with
      | .mol m =>
        match st.table.lookup m.name with
        | none => some .KeyError
        | some e =>
          match e.start, e.end_ with
          | some _, some cur => if molEq m cur then none else some .ValueError
          | _, _ => none
      | _ => some .TypeError := by
  cases a with
  | none => simp [step, addEnd]
  | notMol => simp [step, addEnd]
  | mol m =>
    simp only [step, addEnd, setEnd]
    cases hl : st.table.lookup m.name with
    | none => simp
    | some e =>
      simp only [setEndEntry]
      cases hs : e.start with
      | none => cases he : e.end_ <;> simp
      | some a0 =>
        cases he : e.end_ with
        | none => simp
        | some cur => by_cases hme : molEq m cur = true <;> simp [hme]

/-! ### the "latemap" scenario -/

/-- **late_end_breaks**: take ANY state in which species `name` has its start molecule, no end
    molecule and no map.  After `calculate_exchange_maps`, `add_end_molecule(m)` with `m.name = name`
    succeeds, and from then on — through ANY further calls that are neither
    `calculate_exchange_maps` nor a detach `.end = None` — every `extrapolate_system` raises
    `SystemError` and leaves the `Manager` unchanged (so by `preflight_no_writer_op` no file is
    opened), whatever the output name; after the next `calculate_exchange_maps` the pre-flight
    passes again (`Ready`), so `extrapolate_system` does not raise `SystemError`. -/
theorem late_end_breaks (st : State S) (name : String) (m : Mol) (s s' : S) (mid : List (Op S))
    (extOk : Bool) (e : Entry S)
    (hname : m.name = name) (hl : st.table.lookup name = some e)
    (hstart : e.start.isSome = true) (hend : e.end_ = none) (hmap : e.map = none)
    (hmid : ∀ op ∈ mid, op.isCalc = false ∧ op.isReset = false) :
    let st1 := (step st (.calcMaps s)).1
    let r2 := step st1 (.addEnd (.mol m))
    let st3 := runOps r2.1 mid
    let st4 := (step st3 (.calcMaps s')).1
    r2.2 = none ∧
    step st3 (.extrapolate extOk) = (st3, some .SystemError) ∧
    MgrSM.Ready st4.table ∧
    (step st4 (.extrapolate extOk)).2 ≠ some .SystemError := by
  intro st1 r2 st3 st4
  -- the entry of `name` after the first calcMaps: not complete, so untouched
  have hnc : isComplete e = false := by simp [isComplete, hend]
  have hl1 : st1.table.lookup name = some e := by
    have := (maps_after_calc st s).2.2.2.2.1 name
    simp only [hl, Option.map_some, hnc] at this
    simpa using this
  -- add_end_molecule succeeds and leaves `name` complete without map
  have hadd : addEnd st1.table (.mol m) = .ok (st1.table.set name { e with end_ := some m }) := by
    simp [addEnd, setEnd, hname, hl1, setEndEntry_first e m hend]
  have hr2 : r2 = ({ st1 with table := st1.table.set name { e with end_ := some m } }, none) := by
    simp [r2, step, hadd]
  have hb2 : Broken name r2.1.table := by
    rw [hr2]
    refine ⟨{ e with end_ := some m }, lookup_set_self _ (by simp [hl1]), ?_, hmap⟩
    simpa [isComplete] using hstart
  have hb3 : Broken name st3.table := broken_runOps _ mid hmid hb2
  have hex3 := (preflight_iff st3 extOk).2.2.1 (broken_not_ready hb3)
  -- after the next calcMaps everything complete has a map
  have hready4 : MgrSM.Ready st4.table := by
    obtain ⟨e3, hl3, hc3, _⟩ := hb3
    exact (maps_after_calc st3 s').2.2.2.2.2 ⟨(name, e3), mem_of_lookup hl3, hc3⟩
  refine ⟨by rw [hr2], hex3, hready4, ?_⟩
  intro h
  exact ((preflight_iff st4 extOk).2.1.mp h) hready4

/-! ### what every history keeps (from `Manager.__init__`) -/

/-- **history invariants**: for every history of calls on a fresh `Manager`
    (a) the keys of `molecule_correspondence` and their order are those `__init__` created, and the
        system is the same;
    (b) every species still has its start molecule;
    (c) if no call detached an end molecule (`.end = None`), a map is only found on a species that
        has an end molecule. -/
theorem history_invariants (mols : List Mol) (sys : List (String × List Int)) (ops : List (Op S)) :
    let st := runOps (init mols sys : State S) ops
    st.table.map (·.1) = (initTable mols : Table S).map (·.1) ∧ st.sys = sys ∧
    (∀ p ∈ st.table, p.2.start.isSome = true) ∧
    ((∀ op ∈ ops, op.isReset = false) → ∀ p ∈ st.table, p.2.map.isSome = true → p.2.end_.isSome = true) := by
  intro st
  have h0 := initTable_fresh (S := S) mols
  obtain ⟨hk, hs⟩ := keys_runOps (init mols sys : State S) ops
  refine ⟨hk, hs, ?_, ?_⟩
  · exact allStart_runOps _ ops (fun p hp => (h0 p hp).1)
  · intro hr
    exact mapNeedsEnd_runOps _ ops hr (fun p hp hm => by simp [(h0 p hp).2.2] at hm)

/-- **late_end_breaks** for reachable states: after ANY history on a fresh `Manager` that never
    detached an end molecule, a species that has no end molecule yet satisfies the hypotheses of
    `late_end_breaks` (its start is there, it has no map): attaching it after
    `calculate_exchange_maps` makes every `extrapolate_system` raise `SystemError` until
    `calculate_exchange_maps` runs again. -/
theorem late_end_breaks_reachable (mols : List Mol) (sys : List (String × List Int))
    (hist : List (Op S)) (hnoreset : ∀ op ∈ hist, op.isReset = false)
    (name : String) (m : Mol) (s s' : S) (mid : List (Op S)) (extOk : Bool) (e : Entry S)
    (hname : m.name = name)
    (hl : (runOps (init mols sys : State S) hist).table.lookup name = some e)
    (hend : e.end_ = none)
    (hmid : ∀ op ∈ mid, op.isCalc = false ∧ op.isReset = false) :
    let st := runOps (init mols sys : State S) hist
    let st1 := (step st (.calcMaps s)).1
    let r2 := step st1 (.addEnd (.mol m))
    let st3 := runOps r2.1 mid
    let st4 := (step st3 (.calcMaps s')).1
    r2.2 = none ∧
    step st3 (.extrapolate extOk) = (st3, some .SystemError) ∧
    MgrSM.Ready st4.table ∧
    (step st4 (.extrapolate extOk)).2 ≠ some .SystemError := by
  obtain ⟨_, _, hstart, hmne⟩ := history_invariants (S := S) mols sys hist
  have hmem := mem_of_lookup hl
  have hmap : e.map = none := by
    cases hm : e.map with
    | none => rfl
    | some x =>
      have := hmne hnoreset (name, e) hmem (by simp [hm])
      simp [hend] at this
  exact late_end_breaks _ name m s s' mid extOk e hname hl (hstart (name, e) hmem) hend hmap hmid

/-! ### connection with `Mgr.extrapolate` (C05.extrapolate_preflight) -/

theorem complete_toCorr {C P : Type} (interp : MapRec S → EMap C P) (t : Table S) :
    completeCorrespondence (toCorr interp t) = toCorr interp (completeOf t) := by
  simp only [completeCorrespondence, toCorr, completeOf, List.filter_map]
  congr 1

/-- **preflight_no_writer_op**: whenever the state machine's pre-flight fails — `SystemError`
    (nothing complete / a complete species without map) or `ValueError` (unregistered extension) —
    the model of `extrapolate_system` run on THIS table (`Mgr.extrapolate`, the object of
    `C05.extrapolate_records/_preflight`) emits NO writer operation, not even `open`, and ends with
    that same exception: for every molecule list, title, box, and whatever the map objects do.
    With `late_end_breaks` and `preflight_iff`: in every history, a call of `extrapolate_system` made
    while a complete species lacks its map neither creates nor touches the output file. -/
theorem preflight_no_writer_op {C P B : Type} (interp : MapRec S → EMap C P) (t : Table S)
    (extOk : Bool) (err : PyErr) (h : preflight t extOk = some err)
    (sys : List (MolInst C)) (title : String) (box : B) :
    Mgr.extrapolate (toCorr interp t) sys title box extOk = ⟨[], some err⟩ := by
  by_cases hr : MgrSM.Ready t
  · -- ready: the failure is the extension's
    have hp := preflight_ready hr extOk
    cases extOk with
    | true => rw [hp] at h; simp at h
    | false =>
      rw [hp] at h
      simp only [Bool.false_eq_true, if_false, Option.some.injEq] at h
      subst h
      apply extrapolate_bad_extension
      rw [C05.Ready, complete_toCorr]
      constructor
      · obtain ⟨p, hp, hc⟩ := hr.1
        intro hnil
        have : (p.1, (⟨p.2.start.isSome, p.2.end_.isSome, p.2.map.map interp⟩ : Align C P)) ∈
            toCorr interp (completeOf t) :=
          List.mem_map.mpr ⟨p, List.mem_filter.mpr ⟨hp, hc⟩, rfl⟩
        rw [hnil] at this
        cases this
      · intro q hq
        simp only [toCorr, List.mem_map] at hq
        obtain ⟨p, hp, rfl⟩ := hq
        obtain ⟨hp1, hp2⟩ := List.mem_filter.mp hp
        have := hr.2 p hp1 hp2
        cases hm : p.2.map <;> simp_all
  · rw [preflight_not_ready hr] at h
    cases h
    apply extrapolate_preflight
    rw [complete_toCorr]
    by_cases hex : ∃ p ∈ t, isComplete p.2 = true
    · right
      have : ∃ p ∈ t, isComplete p.2 = true ∧ p.2.map.isSome = false := by
        apply Classical.byContradiction
        intro hc
        apply hr
        refine ⟨hex, fun p hp hcp => ?_⟩
        cases hm : p.2.map.isSome with
        | true => rfl
        | false => exact absurd ⟨p, hp, hcp, hm⟩ hc
      obtain ⟨p, hp, hc, hm⟩ := this
      refine ⟨(p.1, ⟨p.2.start.isSome, p.2.end_.isSome, p.2.map.map interp⟩),
        List.mem_map.mpr ⟨p, List.mem_filter.mpr ⟨hp, hc⟩, rfl⟩, ?_⟩
      cases hm' : p.2.map <;> simp_all
    · left
      have : completeOf t = [] := by
        simp only [completeOf, List.filter_eq_nil_iff]
        intro p hp hc
        exact hex ⟨p, hp, hc⟩
      simp [this, toCorr]

/-- … and conversely, when the pre-flight passes the output IS opened (first writer operation) -/
theorem preflight_pass_opens {C P B : Type} (interp : MapRec S → EMap C P) (t : Table S)
    (h : preflight t true = none) (sys : List (MolInst C)) (title : String) (box : B) :
    ∃ rest, (Mgr.extrapolate (toCorr interp t) sys title box true).ops = .openW :: rest := by
  have hr := (preflight_iff (⟨t, []⟩ : State S) true).1.mp h
  have : C05.Ready (toCorr interp t) := by
    rw [C05.Ready, complete_toCorr]
    constructor
    · obtain ⟨p, hp, hc⟩ := hr.1
      intro hnil
      have : (p.1, (⟨p.2.start.isSome, p.2.end_.isSome, p.2.map.map interp⟩ : Align C P)) ∈
          toCorr interp (completeOf t) :=
        List.mem_map.mpr ⟨p, List.mem_filter.mpr ⟨hp, hc⟩, rfl⟩
      rw [hnil] at this
      cases this
    · intro q hq
      simp only [toCorr, List.mem_map] at hq
      obtain ⟨p, hp, rfl⟩ := hq
      obtain ⟨hp1, hp2⟩ := List.mem_filter.mp hp
      have := hr.2 p hp1 hp2
      cases hm : p.2.map <;> simp_all
  obtain ⟨lines, hl⟩ := extrapolate_header (toCorr interp t) sys title box this
  exact ⟨_, hl⟩

/-- **run_outcome_agrees**: the exception class the state machine assigns to ANY call of
    `extrapolate_system` — pre-flight failure, bad extension, or an exception half way through the
    run (`ValueError` of `resids=` for a species whose two resolutions differ in their number of
    residues, `IOError` of the writer for mixed velocities) — is the `err` of `Mgr.extrapolate`, the
    model C05's other theorems are about, run on the machine's current table (`toCorr targetMap`)
    and system.  So the machine adds the EVOLUTION of the table and nothing else. -/
theorem run_outcome_agrees {B : Type} (st : State S) (extOk : Bool) (title : String) (box : B) :
    (step st (.extrapolate extOk)).2 =
      (Mgr.extrapolate (toCorr targetMap st.table) (st.sys.map toInst) title box extOk).err := by
  cases hp : preflight st.table extOk with
  | some err =>
    rw [preflight_no_writer_op targetMap st.table extOk err hp]
    simp [step, MgrSM.extrapolate, hp]
  | none =>
    have h1 : (completeOf st.table).isEmpty = false := by
      cases h : (completeOf st.table).isEmpty with
      | false => rfl
      | true => simp [preflight, h] at hp
    have h2 : (completeOf st.table).any (fun p => p.2.map.isNone) = false := by
      cases h : (completeOf st.table).any (fun p => p.2.map.isNone) with
      | false => rfl
      | true => simp [preflight, h1, h] at hp
    have h3 : extOk = true := by
      cases extOk with
      | true => rfl
      | false => simp [preflight, h1, h2] at hp
    subst h3
    have e1 : (toCorr (C := Unit) (P := Unit) targetMap (completeOf st.table)).isEmpty = false := by
      cases hc : completeOf st.table with
      | nil => rw [hc] at h1; simp at h1
      | cons _ _ => simp [toCorr]
    have e2 : (toCorr (C := Unit) (P := Unit) targetMap (completeOf st.table)).any
        (fun p => p.2.emap.isNone) = false := by
      rw [← h2]
      simp only [toCorr, List.any_map, Function.comp_def]
      congr 1
      funext p
      cases p.2.map <;> rfl
    simp only [step, MgrSM.extrapolate, hp, Mgr.extrapolate, complete_toCorr, e1, e2,
      Bool.false_eq_true, if_false, Bool.not_true]
    exact (loop_err_eq (completeOf st.table) st.sys st.table ⟨[], 1, none⟩).symm

/-! ### re-attaching, `add_end_molecules`, `__init__` -/

/-- when a species already has both molecules, `add_end_molecule(m)` raises `ValueError` exactly when
    `m` differs from the CURRENT end molecule in its name or in some atom's
    `(resname, name, index, top_resid)` — coordinates, velocities and the topology object do not
    matter.  `top_resid` does: see `readd_after_run` below. -/
theorem addend_value_error_iff (st : State S) (m a0 cur : Mol) (e : Entry S)
    (hl : st.table.lookup m.name = some e) (hs : e.start = some a0) (he : e.end_ = some cur) :
    (step st (.addEnd (.mol m))).2 = some .ValueError ↔ ¬ (m.name = cur.name ∧ m.atoms = cur.atoms) := by
  rw [addend_outcome]
  simp only [hl, hs, he]
  rw [← molEq_iff]
  by_cases h : molEq m cur = true <;> simp [h]

/-- `add_end_molecules(*args)` is `add_end_molecule` applied from left to right until the first
    exception: the molecules before the failing one STAY attached -/
theorem addends_spec (st : State S) (args : List Arg) :
    ((addEnds st.table args).2 = none →
      (addEnds st.table args).1 = (runOps st (args.map .addEnd)).table ∧
      ∀ r ∈ trace st (args.map .addEnd), r.1 = none) ∧
    (∀ err, (addEnds st.table args).2 = some err →
      ∃ pre a post, args = pre ++ a :: post ∧
        (∀ r ∈ trace st (pre.map .addEnd), r.1 = none) ∧
        (addEnds st.table args).1 = (runOps st (pre.map .addEnd)).table ∧
        step (runOps st (pre.map .addEnd)) (.addEnd a) = (runOps st (pre.map .addEnd), some err)) :=
  addEnds_spec args st

/-- `Manager.__init__`: one entry per molecule NAME of `system.different_molecules` (no duplicate
    keys), each with its start molecule, no end molecule and no map -/
theorem init_table (mols : List Mol) :
    ((initTable mols : Table S).map (·.1)).Nodup ∧
    (∀ k, k ∈ (initTable mols : Table S).map (·.1) ↔ ∃ m ∈ mols, m.name = k) ∧
    (∀ p ∈ (initTable mols : Table S), p.2.start.isSome = true ∧ p.2.end_ = none ∧ p.2.map = none) ∧
    ∀ sys extOk, step (init mols sys : State S) (.extrapolate extOk) = (init mols sys, some .SystemError) := by
  obtain ⟨h1, h2⟩ := keys_initTable (S := S) mols
  refine ⟨h1, h2, initTable_fresh mols, fun sys extOk => ?_⟩
  apply (preflight_iff (init mols sys : State S) extOk).2.2.1
  rintro ⟨⟨p, hp, hc⟩, _⟩
  have := (initTable_fresh (S := S) mols p hp).2.1
  simp [isComplete, this] at hc

/-! ### non-vacuity: a three-species manager (`A` with two residues, `B`, and `U`), system `A B U A U B`

  All `example`s below are evaluated by the kernel (`decide`) — they are tests of the definitions on a
  concrete session, and witnesses that the hypotheses of the theorems above can be met. -/

private def at_ (rn n : String) (i r : Int) : AtomSig := ⟨rn, n, i, r⟩
private def sA : Mol := ⟨"A", 1000, 500, false, [[at_ "RA" "B1" 0 1, at_ "RA" "B2" 1 1], [at_ "RB" "B3" 2 2]]⟩
private def sB : Mol := ⟨"B", 1001, 501, false, [[at_ "RC" "B1" 0 1]]⟩
private def sU : Mol := ⟨"U", 1002, 502, false, [[at_ "RU" "B1" 0 1]]⟩
/-- end molecules as loaded from their files: `top` = which `MoleculeTop` object, `inst` = which load -/
private def eA (top inst : Nat) : Mol :=
  ⟨"A", top, inst, false, [[at_ "RA" "C1" 0 1, at_ "RA" "H2" 1 1], [at_ "RB" "C3" 2 2]]⟩
private def eB (top inst : Nat) : Mol := ⟨"B", top, inst, false, [[at_ "RC" "N1" 0 1, at_ "RC" "O2" 1 1]]⟩
private def sysEx : List (String × List Int) :=
  [("A", [1, 2]), ("B", [3]), ("U", [4]), ("A", [5, 6]), ("U", [7]), ("B", [9])]
private def m0 : State Nat := init [sA, sB, sU] sysEx

/-- the "latemap" session: attach `A`, maps, extrapolate (fine), attach `B` LATE, extrapolate
    (`SystemError`), align (no error, table untouched), extrapolate (`SystemError` again), maps,
    extrapolate (fine) -/
example :
    (trace m0 [.addEnd (.mol (eA 2000 0)), .calcMaps 5, .extrapolate true, .addEnd (.mol (eB 2001 1)),
               .extrapolate true, .align ["A"], .extrapolate false, .calcMaps 7, .extrapolate true]).map (·.1)
      = [none, none, none, none, some .SystemError, none, some .SystemError, none, none] := by decide

/-- the hypotheses of `late_end_breaks` hold for species `B` in the state after `A` was attached -/
example : ∃ e, (runOps m0 [.addEnd (.mol (eA 2000 0))]).table.lookup "B" = some e ∧
    e.start.isSome = true ∧ e.end_ = none ∧ e.map = none := ⟨⟨some sB, none, none⟩, by decide⟩

/-- `preflight_iff`, both directions are inhabited: not ready before the maps, ready after -/
example : ¬ MgrSM.Ready (runOps m0 [.addEnd (.mol (eA 2000 0))]).table ∧
    MgrSM.Ready (runOps m0 [.addEnd (.mol (eA 2000 0)), .calcMaps 5]).table := by
  constructor
  · intro h
    have := (preflight_iff (runOps m0 [.addEnd (.mol (eA 2000 0))]) true).1.mpr h
    revert this
    decide
  · exact (preflight_iff (runOps m0 [.addEnd (.mol (eA 2000 0)), .calcMaps 5]) true).1.mp (by decide)

/-- error branches of `add_end_molecule` / `.end =`: not a molecule, `None`, unknown name, unknown
    key, wrong species (an `A` with a renamed atom once `A` has an end molecule), same species again -/
example :
    (trace m0 [.addEnd .notMol, .addEnd .none, .addEnd (.mol ⟨"VTE", 2005, 5, false, []⟩),
               .setEnd "NOPE" (.mol (eA 2000 0)), .addEnd (.mol (eA 2000 0)),
               .addEnd (.mol ⟨"A", 2002, 2, false, [[at_ "RA" "C1" 0 1, at_ "RA" "Q2" 1 1], [at_ "RB" "C3" 2 2]]⟩),
               .addEnd (.mol (eA 2003 3)), .setEnd "U" (.mol ⟨"VTE", 2005, 5, false, []⟩)]).map (·.1)
      = [some .TypeError, some .TypeError, some .KeyError, some .KeyError, none, some .ValueError, none, none] := by
  decide

/-- **readd_after_run** (observation, evaluated): after a successful extrapolation the topology object
    shared by the end molecule, the map's target and the CALLER's molecule carries the residue numbers of
    the last molecule mapped (`A`: 5, 6).  The same molecule loaded again from its files (`top 2002`,
    residue numbers 1, 2 as in the `.itp`) is no longer `==` the end molecule: `ValueError`.  The caller's
    own object, whose topology was renumbered with it, is still accepted. -/
example :
    let st := runOps m0 [.addEnd (.mol (eA 2000 0)), .calcMaps 5, .extrapolate true]
    (st.table.lookup "A").map (fun e => e.end_.map (fun m => m.atoms.map (·.topResid))) = some (some [5, 5, 6]) ∧
    (step st (.addEnd (.mol (eA 2002 2)))).2 = some .ValueError ∧
    (step st (.addEnd (.mol ⟨"A", 2000, 0, false,
        [[at_ "RA" "C1" 0 5, at_ "RA" "H2" 1 5], [at_ "RB" "C3" 2 6]]⟩))).2 = none := by decide

/-- **stale map** (observation, evaluated): `.end = None` detaches the end molecule but keeps the map
    object; after attaching an end molecule again the pre-flight passes WITHOUT a new
    `calculate_exchange_maps` — the map used is the one built for the earlier end molecule
    (`inst 0`, not `inst 4`).  This is why `late_end_breaks_reachable` excludes detaching calls. -/
example :
    let st := runOps m0 [.addEnd (.mol (eA 2000 0)), .calcMaps 5, .setEnd "A" .none, .addEnd (.mol (eA 2004 4))]
    (step st (.extrapolate true)).2 = none ∧
    (st.table.lookup "A").map (fun e => (e.end_.map (·.inst), e.map.map (·.target.inst))) = some (some 4, some 0) := by
  decide

/-- a run that stops half way: `B`'s first end molecule is accepted although it has an extra residue;
    the run maps the first `A` (renumbering `A`'s shared topology to 1, 2) and raises `ValueError` at the
    first `B` — and `run_outcome_agrees` says `Mgr.extrapolate` ends with the same exception -/
example :
    let st := runOps m0 [.addEnd (.mol (eA 2000 0)),
      .addEnd (.mol ⟨"B", 2001, 1, false, [[at_ "RC" "N1" 0 1], [at_ "XTR" "O2" 1 2]]⟩), .calcMaps 5]
    (step st (.extrapolate true)).2 = some .ValueError ∧
    (Mgr.extrapolate (toCorr targetMap st.table) (st.sys.map toInst) "t" () true).err = some .ValueError := by
  decide

/-- `add_end_molecules(A, <unknown>, B)`: `KeyError`, `A` stays attached, `B` is never reached -/
example :
    (addEnds m0.table [.mol (eA 2000 0), .mol ⟨"VTE", 2005, 5, false, []⟩, .mol (eB 2001 1)]).2 = some .KeyError ∧
    ((addEnds m0.table [.mol (eA 2000 0), .mol ⟨"VTE", 2005, 5, false, []⟩, .mol (eB 2001 1)]).1.map
        (fun p => (p.1, p.2.end_.isSome))) = [("A", true), ("B", false), ("U", false)] := by decide

/-- `__init__` with two molecule types of the same name: one key, the later `Alignment` -/
example : ((initTable [sA, sB, { sA with top := 1005, inst := 505 }] : Table Nat).map
    (fun p => (p.1, p.2.start.map (·.inst)))) = [("A", some 505), ("B", some 501)] := by decide

end C05
