import GMProofs.Props.C12
import GMModel.SysStr
/-!
# C12 (work package WPI) — the rest of the public API of `SystemGro`

`__str__`, `__getitem__` with an index that is neither `int` nor `slice`, and the shared `GroFile` handle moved
from outside between accesses.  Model: `GMModel/SysStr.lean` (`SGro.compositionStr`, `getItem`, `xstep` / `xrun`).
Only property theorems and their non-vacuity examples live here.
-/
open SGro

namespace C12

/-! ### `__getitem__`: every type of index -/

/-- an index that is neither `int` nor `slice` raises `TypeError` and touches nothing — not even the file cursor;
    for the two accepted types `getItem` IS `getInt` / `getSlice` (to which every theorem of `Props/C12.lean` applies) -/
theorem getitem_other_typeerror (f : GroRd) (sg : SG) (c : Cursor) :
    getItem f sg c .other = (.error .TypeError, c) ∧
    (∀ i, getItem f sg c (.int i) = ((getInt f sg c i).1.map (fun x => [x]), (getInt f sg c i).2)) ∧
    (∀ a b s, getItem f sg c (.slice a b s) = getSlice f sg c a b s) :=
  ⟨rfl, fun _ => rfl, fun _ _ _ => rfl⟩

/-! ### the cursor cannot leak — also when it is moved from outside -/

/-- only the base operations create or advance iterators -/
theorem xstep_iters (f : GroRd) (sg : SG) (st : St) (x : XOp) (hx : ∀ op, x ≠ .base op) :
    (xstep f sg st x).2.iters = st.iters := by
  cases x with
  | base op => exact absurd rfl (hx op)
  | getOther => rfl
  | str => rfl
  | pokeSeek k => rfl
  | pokeNext => rfl
  | pokeRaw => rfl

/-- **access_history_free, with a hostile cursor.**  Interleave the accesses of the view (index / negative index /
    slice / `iter` / `next(iterator)`) with ANYTHING that moves the shared `GroFile` handle or asks the view something
    else — `seek_atom(k)` for every `k` (beyond `natoms`: `IndexError`, `_current_atom` left at `k`), `next()`,
    `readline(parsed=False)`, `view[x]` with `x` of another type, `str(view)` — from EVERY starting state: the
    results of the accesses are exactly what the same accesses return on the plain Python list of runs. -/
theorem access_history_free_poked {f : GroRd} {sg : SG} {c : Cursor} {gs : List Residue} (h : Built f sg c gs)
    (st : St) (xs : List XOp) :
    baseResults xs (xrun f sg st xs).1 = (specRun gs st.iters (baseOps xs)).map (fun r => r.map XVal.residues) := by
  have hL := built_loaded h
  induction xs generalizing st with
  | nil => rfl
  | cons x xs ih =>
    cases x with
    | base op =>
      obtain ⟨h1, h2⟩ := step_spec f sg gs hL st op
      simp only [xrun, xstep, baseOps, baseResults, specRun, List.map_cons]
      rw [ih (step f sg st op).2, h1, h2]
    | getOther =>
      simp only [xrun, baseOps, baseResults]
      rw [ih]
      rfl
    | str =>
      simp only [xrun, baseOps, baseResults]
      rw [ih]
      rfl
    | pokeSeek k =>
      simp only [xrun, baseOps, baseResults]
      rw [ih]
      rfl
    | pokeNext =>
      simp only [xrun, baseOps, baseResults]
      rw [ih]
      rfl
    | pokeRaw =>
      simp only [xrun, baseOps, baseResults]
      rw [ih]
      rfl

/-- `seek_atom(k)` on the handle: beyond `natoms` it raises `IndexError` AFTER `_current_atom` was set to `k`
    (the file position stays); otherwise position and counter are both `k` -/
theorem poke_seek_spec (f : GroRd) (sg : SG) (st : St) (k : Nat) :
    (k > f.natoms → xstep f sg st (.pokeSeek k) = (.error .IndexError, { st with cur := { st.cur with cur := k } })) ∧
    (k ≤ f.natoms → xstep f sg st (.pokeSeek k) = (.ok .unit, { st with cur := ⟨k, k⟩ })) := by
  refine ⟨fun hk => ?_, fun hk => ?_⟩
  · simp only [xstep, seekAtom, hk, ↓reduceIte, Except.map]
  · have : ¬ k > f.natoms := by omega
    simp only [xstep, seekAtom, this, ↓reduceIte, Except.map]

/-! ### `__str__` -/

private theorem itemLe_trans (a b c : Str × Nat) (h1 : itemLe a b = true) (h2 : itemLe b c = true) :
    itemLe a c = true := by
  unfold itemLe at *
  simp only [decide_eq_true_eq] at *
  exact List.le_trans h1 h2

private theorem itemLe_total (a b : Str × Nat) : (itemLe a b || itemLe b a) = true := by
  unfold itemLe
  rcases List.le_total a.1 b.1 with h | h <;> simp [h]

private theorem insertItem_perm (p : Str × Nat) : ∀ l, (insertItem p l).Perm (p :: l)
  | [] => List.Perm.refl _
  | q :: rest => by
    unfold insertItem
    split
    · exact List.Perm.refl _
    · exact ((insertItem_perm p rest).cons q).trans (List.Perm.swap p q rest)

private theorem insertItem_sorted (p : Str × Nat) : ∀ l, l.Pairwise (fun a b => itemLe a b = true) →
    (insertItem p l).Pairwise (fun a b => itemLe a b = true)
  | [], _ => by simp [insertItem]
  | q :: rest, h => by
    obtain ⟨hq, hrest⟩ := List.pairwise_cons.mp h
    unfold insertItem
    split
    · rename_i hpq
      refine List.pairwise_cons.mpr ⟨?_, h⟩
      intro x hx
      rcases List.mem_cons.mp hx with rfl | hx
      · exact hpq
      · exact itemLe_trans _ _ _ hpq (hq x hx)
    · rename_i hpq
      have hqp : itemLe q p = true := by
        have := itemLe_total p q
        simp only [Bool.or_eq_true] at this
        rcases this with h1 | h1
        · exact absurd h1 hpq
        · exact h1
      refine List.pairwise_cons.mpr ⟨?_, insertItem_sorted p rest hrest⟩
      intro x hx
      rcases List.mem_cons.mp ((insertItem_perm p rest).mem_iff.mp hx) with rfl | hx
      · exact hqp
      · exact hq x hx

private theorem sortedItems_perm : ∀ c, (sortedItems c).Perm c
  | [] => List.Perm.refl _
  | p :: c => (insertItem_perm p _).trans ((sortedItems_perm c).cons p)

private theorem sortedItems_sorted : ∀ c, (sortedItems c).Pairwise (fun a b => itemLe a b = true)
  | [] => List.Pairwise.nil
  | p :: c => insertItem_sorted p _ (sortedItems_sorted c)

/-- `sorted(composition.items())` on pairwise distinct names: a rearrangement of the items, by strictly increasing
    name (Python `str` order: lexicographic by code point) -/
theorem sorted_items_spec (c : List (Str × Nat)) (hnd : (c.map (·.1)).Nodup) :
    (sortedItems c).Perm c ∧ (sortedItems c).Pairwise (fun a b => a.1 ≤ b.1 ∧ a.1 ≠ b.1) := by
  have hp : (sortedItems c).Perm c := sortedItems_perm c
  refine ⟨hp, ?_⟩
  have h1 : (sortedItems c).Pairwise (fun a b => itemLe a b = true) := sortedItems_sorted c
  have h2 : ((sortedItems c).map (·.1)).Nodup := (hp.map _).nodup_iff.mpr hnd
  have h3 : (sortedItems c).Pairwise (fun a b => a.1 ≠ b.1) := by
    rw [List.Nodup, List.pairwise_map] at h2
    exact h2
  refine (h1.and h3).imp ?_
  intro a b hab
  exact ⟨by simpa [itemLe] using hab.1, hab.2⟩

theorem counterAdd_keys (acc : List (Str × Nat)) (nm : Str) (k : Nat)
    (h : (acc.map (·.1)).Nodup) : ((counterAdd acc nm k).map (·.1)).Nodup := by
  unfold counterAdd
  split
  · have : (acc.map (fun q => if (q.1 == nm) = true then (q.1, q.2 + k) else q)).map (·.1) = acc.map (·.1) := by
      rw [List.map_map]
      apply List.map_congr_left
      intro q _
      simp only [Function.comp]
      split <;> rfl
    rw [this]
    exact h
  · rename_i hn
    rw [List.map_append, List.nodup_append]
    refine ⟨h, by simp, ?_⟩
    intro a ha b hb
    simp only [List.map_cons, List.map_nil, List.mem_singleton] at hb
    subst hb
    intro e
    apply hn
    obtain ⟨q, hq, hq1⟩ := List.mem_map.mp ha
    rw [List.any_eq_true]
    exact ⟨q, hq, by simp [hq1, e]⟩

/-- the names of `SystemGro.composition` are pairwise distinct (a `Counter`) -/
theorem composition_names_nodup (sg : SG) (c : List (Str × Nat)) (h : sg.composition = .ok c) :
    (c.map (·.1)).Nodup := by
  unfold SG.composition at h
  have : ∀ (l : List (Nat × Nat)) (acc c : List (Str × Nat)), (acc.map (·.1)).Nodup →
      l.foldlM (fun (acc : List (Str × Nat)) (p : Nat × Nat) =>
        match sg.templates[p.1]? with
        | some (a :: _) => (.ok (counterAdd acc a.resname p.2) : Except PyErr _)
        | _ => .error .IndexError) acc = .ok c → (c.map (·.1)).Nodup := by
    intro l
    induction l with
    | nil =>
      intro acc c ha hc
      simp only [List.foldlM_nil, pure, Except.pure, Except.ok.injEq] at hc
      subst hc; exact ha
    | cons p l ih =>
      intro acc c ha hc
      simp only [List.foldlM_cons, bind, Except.bind] at hc
      split at hc
      · cases hc
      · rename_i acc' he
        split at he
        · injection he with he
          subst he
          exact ih _ c (counterAdd_keys acc _ _ ha) hc
        · cases he
  exact this sg.ordered [] c (by simp) h

/-- **`str(view)`.**  When the composition is `c`, `str(view)` is the header `'Simulation system with:\n\n'`
    followed by one line per residue name, joined by `'\n'`: the lines are `"{:6}: {}".format(name, count)` of
    the items of `c`, each exactly once, by strictly increasing name. -/
theorem sysgro_str_spec (sg : SG) (c : List (Str × Nat)) (h : sg.composition = .ok c) :
    ∃ items : List (Str × Nat), sg.str = .ok (strHeader ++ joinNl (items.map fmtItem)) ∧ items.Perm c ∧
      items.Pairwise (fun a b => a.1 ≤ b.1 ∧ a.1 ≠ b.1) := by
  obtain ⟨h1, h2⟩ := sorted_items_spec c (composition_names_nodup sg c h)
  exact ⟨sortedItems c, by simp only [SG.str, h, compositionStr], h1, h2⟩

/-- one line: the name is never cut, it is padded with blanks to six columns, then `": "` and the decimal count -/
theorem fmt_item_spec (name : Str) (count : Nat) :
    fmtItem (name, count) = name ++ List.replicate (6 - name.length) ' ' ++ [':', ' '] ++ Nat.toDigits 10 count ∧
    (name ++ List.replicate (6 - name.length) ' ').length = max 6 name.length := by
  refine ⟨rfl, ?_⟩
  simp only [List.length_append, List.length_replicate]
  omega

/-! ### non-vacuity -/

/-- `str` of the example file of `Props/C12.lean` (kinds W(a,b) X(a) W(a) W(c,d)): names `W` ×5 and `X` ×1 -/
example : (init exFile ⟨0, 0⟩).1.toOption.bind (fun sg => sg.str.toOption) =
    some "Simulation system with:\n\nW     : 5\nX     : 1".toList := by decide

/-- a name longer than six characters widens its line; sorting is by code point (`B4` < `BM`, capitals first) -/
example : compositionStr [("POPCHOL".toList, 12), ("BMIM".toList, 300), ("b".toList, 1), ("BF4".toList, 300)] =
    "Simulation system with:\n\nBF4   : 300\nBMIM  : 300\nPOPCHOL: 12\nb     : 1".toList := by decide

/-- a poked sequence on the example file: the cursor is thrown beyond the file, a raw line and an atom are consumed
    from the handle, an index of another type is tried — the accesses in between are unaffected (test) -/
example : (match (init exFile ⟨0, 0⟩).1 with
    | .error _ => []
    | .ok sg => (xrun exFile sg ⟨⟨11, 10⟩, []⟩
        [.pokeSeek 14, .base (.get 1), .pokeRaw, .pokeNext, .base (.get (-1)), .getOther, .pokeSeek 3, .pokeNext,
         .base (.slice (some 0) (some 2) none)]).1.map
          (fun r => match r with
            | .ok (.residues l) => some (l.map (List.map AtomRec.data))
            | .ok (.atom a) => some [[a.data]]
            | .ok _ => some []
            | .error _ => none)) =
    [none, some [[2]], some [], some [[4]], some [[8, 9]], none, some [], some [[3]], some [[0, 1], [2]]] := by
  decide

end C12
