import GMProofs.Props.C12Bytes
/-
  C12 (late additions) — "zero" is not "absent": the velocity of an atom read from a coordinate file.

  `SystemGro` hands every atom line to `GroFile.parse_atomline` with the format fixed when the file was opened; the
  tuple it returns has ten entries (velocity present) or seven. Seed C12-11 had confused a velocity whose three
  fields are `0.0000` with a missing one. The theorems say that the PRESENCE of a velocity in a parsed record is a
  function of the line LAYOUT alone (six numeric fields or three) — for every `int()` / `float()`, so in particular
  never of the values — and that a written zero velocity is read back as the velocity (0, 0, 0).

  The view model (`GMModel.SysGro`) treats coordinates and velocities as payload of the record it indexes
  (`ByteView.data.recs[i]`), so the statements are about the records `groRead` returns and the view carries.
-/
open PyStr PyStrL Gro GroL GroNum
open SGro hiding Op run step init next PyErr

namespace C12

private theorem bind_ok {α β : Type} {x : Except PyStr.PyErr α} {f : α → Except PyStr.PyErr β} {q : β}
    (h : x >>= f = .ok q) : ∃ a, x = .ok a ∧ f a = .ok q := by
  cases x with
  | error e => cases h
  | ok a => exact ⟨a, rfl, h⟩

/-- **Velocity presence is the layout.** Whatever the numeric parsers do: when `parse_atomline` returns a record,
    its velocity is present exactly when the format says "six fields", and the line had exactly the length of that
    layout (`20 + 3·w`, resp. `20 + 6·w`). No value on the line takes part in the decision. -/
theorem velocity_presence_is_layout (P : Parsers) (fmt : Nat × Int × Bool) (line : List Nat) (q : RRec)
    (h : parseAtomline P fmt line = .ok q) :
    q.vel.isSome = fmt.2.2 ∧
    (chopNl line).length = 20 + fmt.1 * 3 * (1 + (if fmt.2.2 then 1 else 0)) := by
  unfold parseAtomline at h
  split at h
  · cases h
  · dsimp only at h
    by_cases hlen : (chopNl line).length = 20 + fmt.1 * 3 * (1 + (if fmt.2.2 then 1 else 0))
    swap
    · rw [if_pos hlen] at h
      simp [throw, throwThe, MonadExceptOf.throw, bind, Except.bind] at h
    rw [if_neg (not_not.mpr hlen)] at h
    refine ⟨?_, hlen⟩
    obtain ⟨_, -, h⟩ := bind_ok h
    obtain ⟨_, -, h⟩ := bind_ok h
    obtain ⟨_, -, h⟩ := bind_ok h
    obtain ⟨_, -, h⟩ := bind_ok h
    obtain ⟨_, -, h⟩ := bind_ok h
    cases hv : fmt.2.2 with
    | true =>
      simp only [hv, if_true] at h
      obtain ⟨_, -, h⟩ := bind_ok h
      obtain ⟨_, -, h⟩ := bind_ok h
      obtain ⟨_, -, h⟩ := bind_ok h
      cases h; rfl
    | false =>
      simp only [hv, Bool.false_eq_true, if_false] at h
      cases h; rfl

/-- … with the format inferred from the line itself (`parse_atomline(line)` without a format, the concrete
    parsers): the velocity is present **iff the line has six numeric fields** (six decimal points after column 20) -/
theorem velocity_some_iff_six_fields (line : List Nat) (q : RRec)
    (h : parseAtomlineAuto stdParsers line = .ok q) :
    q.vel.isSome = true ↔ ((chopNl line).drop coordStart).count dot = 6 := by
  unfold parseAtomlineAuto at h
  simp only [bind, Except.bind] at h
  cases hf : stdParsers.detFormat line with
  | error e => rw [hf] at h; cases h
  | ok fmt =>
    rw [hf] at h
    simp only at h
    rw [(velocity_presence_is_layout _ _ _ _ h).1]
    simp only [stdParsers, determineFormat] at hf
    split at hf
    · cases hf
    · try simp only at hf
      split at hf
      · cases hf
      · split at hf
        · cases hf
        · split at hf
          · cases hf
          · simp only [Except.ok.injEq] at hf
            rw [← hf]
            simp

/-- every record of an opened file has the velocity presence of the file's format (fixed by its FIRST atom line) -/
theorem readRecords_velocity (P : Parsers) (fmt : Nat × Int × Bool) (bs : List Nat) (n pos : Nat)
    (recs : List RRec) (h : readRecords P fmt bs n pos = .ok recs) : ∀ q ∈ recs, q.vel.isSome = fmt.2.2 := by
  induction n generalizing pos recs with
  | zero =>
    simp only [readRecords, Except.ok.injEq] at h
    subst h
    intro q hq; exact absurd hq (by simp)
  | succ k ih =>
    simp only [readRecords, bind, Except.bind, pure, Except.pure] at h
    cases hr : parseAtomline P fmt (readLine bs pos) with
    | error e => rw [hr] at h; cases h
    | ok r =>
      rw [hr] at h
      simp only at h
      cases hrest : readRecords P fmt bs k (pos + (readLine bs pos).length) with
      | error e => rw [hrest] at h; cases h
      | ok rs =>
        rw [hrest] at h
        simp only [Except.ok.injEq] at h
        subst h
        intro q hq
        rcases List.mem_cons.mp hq with hq | hq
        · subst hq; exact (velocity_presence_is_layout P fmt _ _ hr).1
        · exact ih _ rs hrest q hq

/-- **One answer per file.** `SystemGro(path)` constructed (model: `sysGroOfBytes`): the atom records its `GroFile`
    parsed — the ones that carry the velocities of the view's atoms — all have a velocity or none has; which of the
    two is the format `_load_and_verify` determined, whatever numbers the lines contain. -/
theorem view_velocity_uniform (bytes : List Nat) (v : ByteView) (h : sysGroOfBytes bytes = .ok v) :
    ∃ st, loadAndVerify stdParsers bytes = .ok st ∧ ∀ q ∈ v.data.recs, q.vel.isSome = st.fmt.2.2 := by
  unfold sysGroOfBytes at h
  cases hg : groRead stdParsers bytes with
  | error e => rw [hg] at h; cases h
  | ok d =>
    rw [hg] at h
    simp only at h
    have hd : v.data = d := by
      split at h
      · cases h
      · simp only [Except.ok.injEq] at h
        rw [← h]
    unfold groRead at hg
    simp only [bind, Except.bind, pure, Except.pure] at hg
    cases hl : loadAndVerify stdParsers bytes with
    | error e => rw [hl] at hg; cases hg
    | ok st =>
      rw [hl] at hg
      simp only at hg
      cases hr : readRecords stdParsers st.fmt bytes st.natoms.toNat st.initPos with
      | error e => rw [hr] at hg; cases hg
      | ok recs =>
        rw [hr] at hg
        simp only [Except.ok.injEq] at hg
        refine ⟨st, rfl, ?_⟩
        rw [hd, ← hg]
        exact readRecords_velocity _ _ _ _ _ recs hr

/-- the decimal written for a zero (`0.0`, `-0.0`) is a zero -/
theorem roundDec_zero (d : Nat) (x : Dy) (h : x.isZero = true) :
    isFin (roundDec d x) = true ∧ numVal (roundDec d x) = 0 := by
  have hm : x.man = 0 := by simpa [Dy.isZero] using h
  have hs : scaledRound x d = 0 := by
    unfold scaledRound roundHalfEvenDiv
    have hp : 0 < 2 ^ (-x.exp).toNat := Nat.pos_of_ne_zero (by positivity)
    simp only [hm, Nat.zero_mul, Nat.zero_div, Nat.zero_mod, Nat.mul_zero]
    simp [hp]
  refine ⟨rfl, ?_⟩
  simp [roundDec, numVal, hs]

/-- **A zero velocity is a velocity.** A record written with velocity fields that are all zero (`0.0` or `-0.0`; any
    format `(w, d)`, `d ≥ 1`) is read back with velocity `some (0, 0, 0)` — three finite numbers of value 0 —, never
    `none`. -/
theorem zero_velocity_is_a_velocity (w d : Nat) (r : Rec) (a b c : Dy) (h : RecOk w d true r) (hd : 1 ≤ d)
    (hv : r.vel = some (a, b, c)) (ha : a.isZero = true) (hb : b.isZero = true) (hc : c.isZero = true) (e : Int) :
    ∃ q qa qb qc, parseAtomlist (w, d) (some true) r = .ok (lineOf w d r) ∧
      parseAtomline stdParsers (w, e, true) (lineOf w d r ++ [nl]) = .ok q ∧
      q.vel = some (qa, qb, qc) ∧
      (isFin qa = true ∧ numVal qa = 0) ∧ (isFin qb = true ∧ numVal qb = 0) ∧ (isFin qc = true ∧ numVal qc = 0) := by
  refine ⟨roundRec d r, roundDec (d + 1) a, roundDec (d + 1) b, roundDec (d + 1) c, parseAtomlist_ok w d true r h,
    parseAtomline_lineOf h hd e, ?_, roundDec_zero _ a ha, roundDec_zero _ b hb, roundDec_zero _ c hc⟩
  simp [roundRec, roundVel, hv]

/-- **… in a whole file.** Under the hypotheses of `view_of_written_file` with velocities written (`vel = true`):
    every record the view of the written bytes carries has a velocity — also the atoms at rest. -/
theorem written_velocities_present (setters : List Op) (r0 : Rec) (rest : List Rec) (w d : Nat) (s : WState)
    (hset : ∀ op ∈ setters, IsSetter op)
    (hs : s = (run WState.init setters).1)
    (hfmt : s.effFormat = (w, d)) (hd : 1 ≤ d)
    (htitle : TitleOk s.effComment)
    (hcount : CountOk s (r0 :: rest).length)
    (hrec : ∀ r ∈ r0 :: rest, RecOk w d true r)
    (hascii : ∀ r ∈ r0 :: rest, ∀ c ∈ r.resname, c < 128) :
    ∃ v, sysGroOfBytes (run WState.init (setters ++ ((r0 :: rest).map Op.writeLine ++ [Op.close]))).1.bytes = .ok v ∧
      v.data.recs.length = (r0 :: rest).length ∧ ∀ q ∈ v.data.recs, q.vel.isSome = true := by
  obtain ⟨-, v, gs, hv, -, -, -, hF, -⟩ :=
    view_of_written_file setters r0 rest w d true s hset hs hfmt hd htitle hcount hrec hascii
  refine ⟨v, hv, hF.length_eq.symm, ?_⟩
  have key : ∀ (l1 : List Rec) (l2 : List RRec), List.Forall₂ (RecSameMod d) l1 l2 →
      (∀ r ∈ l1, RecOk w d true r) → ∀ q ∈ l2, q.vel.isSome = true := by
    intro l1
    induction l1 with
    | nil => intro l2 hf _ q hq; cases hf; exact absurd hq (by simp)
    | cons r t ih =>
      intro l2 hf hok q hq
      cases hf with
      | cons hrq htl =>
        rcases List.mem_cons.mp hq with hq | hq
        · subst hq
          have hvel := (hok r (by simp)).vel
          have hm := hrq.1.2.2.2.2.2.2.2.2.2
          cases hrv : r.vel with
          | none => rw [hrv] at hvel; simp [VelOk] at hvel
          | some t' =>
            cases hqv : q.vel with
            | none => rw [hrv, hqv] at hm; exact absurd hm (by simp)
            | some t'' => rfl
        · exact ih _ htl (fun x hx => hok x (List.mem_cons_of_mem _ hx)) q hq
  exact key _ _ hF hrec

/-! ### non-vacuity -/

section examples

private def s2c (s : String) : List Nat := s.toList.map (·.toNat)

/-- an atom at rest, velocities written: six fields, all three velocity fields `0.0000` -/
private def lineRest : List Nat := s2c "    1SOL     OW    1   0.100   0.200   0.300  0.0000  0.0000 -0.0000\n"
private def lineNoVel : List Nat := s2c "    1SOL     OW    1   0.100   0.200   0.300\n"

/-- `velocity_some_iff_six_fields` both ways, computed: the line at rest has a velocity `(0, 0, -0)`, the
    three-field line has none -/
example :
    ((parseAtomlineAuto stdParsers lineRest).toOption.map (·.vel))
      = some (some (.fin false 0 (-4), .fin false 0 (-4), .fin true 0 (-4))) ∧
    ((parseAtomlineAuto stdParsers lineNoVel).toOption.map (·.vel)) = some none ∧
    ((chopNl lineRest).drop coordStart).count dot = 6 ∧ ((chopNl lineNoVel).drop coordStart).count dot = 3 := by
  refine ⟨by decide +kernel, by decide +kernel, by decide +kernel, by decide +kernel⟩

private def recRest : Rec :=
  ⟨1, [83, 79, 76], [79, 87], 1, ⟨false, 1, -3⟩, ⟨true, 1, -1⟩, ⟨false, 3, 0⟩,
   some (⟨false, 0, 0⟩, ⟨true, 0, 0⟩, ⟨false, 0, -7⟩)⟩

/-- the hypotheses of `zero_velocity_is_a_velocity` hold for a record at rest (`0.0`, `-0.0`, `0·2⁻⁷`) -/
example : RecOk 8 3 true recRest ∧
    recRest.vel = some (⟨false, 0, 0⟩, ⟨true, 0, 0⟩, ⟨false, 0, -7⟩) ∧
    (⟨false, 0, 0⟩ : Dy).isZero = true ∧ (⟨true, 0, 0⟩ : Dy).isZero = true ∧ (⟨false, 0, -7⟩ : Dy).isZero = true := by
  refine ⟨?_, rfl, rfl, rfl, rfl⟩
  constructor
  · exact ⟨by decide, by decide, by decide⟩
  · exact ⟨by decide, by decide, by decide⟩
  all_goals
    simp [recRest, VelOk, fitsFixed, fixedBody, scaledRound, roundHalfEvenDiv, natDigits, digitChar, padZeros]

end examples

end C12
