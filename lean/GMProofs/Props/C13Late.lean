import GMProofs.Props.C14
/-
  C13 (late additions) — facts about the WRITER that this session's correspondence runs pointed at.

  * `box_last_assignment_wins` (seed C13-11 made the `box_matrix` setter fill a kept buffer): the setter REPLACES
    `_box_matrix`; an earlier assignment that is followed by another one before `close` leaves no trace at all —
    neither in the file nor in what the later operations raise.
  * `closing_lattice_is_last_box`: the lattice text `close` writes is `dump_lattice_gro` of the LAST assignment.
  * `padded_name_same_length` / `name_field_width` (seed C14-12): whatever string the caller passes as a name
    (longer than five characters, blank-padded, empty), the name field is five columns wide, so the length of an
    atom line does not depend on the names.

  Only property theorems and their non-vacuity examples live here (core Lean only).
-/
open PyStr PyStrL Gro GroL

namespace C13

/-! ### the box setter replaces -/

/-- the writer state with another `_box_matrix` -/
def withBox (s : WState) (b : Box) : WState := { s with box := b }

@[simp] private theorem withBox_fmtPos (s : WState) (b : Box) : (withBox s b).fmtPos = s.fmtPos := rfl
@[simp] private theorem withBox_fmtVel (s : WState) (b : Box) : (withBox s b).fmtVel = s.fmtVel := rfl
@[simp] private theorem withBox_closed (s : WState) (b : Box) : (withBox s b).closed = s.closed := rfl
@[simp] private theorem withBox_initPos (s : WState) (b : Box) : (withBox s b).initPos = s.initPos := rfl

private theorem write_withBox (s : WState) (b : Box) (t : List Nat) :
    (withBox s b).write t = withBox (s.write t) b := rfl

private theorem writeHeader_withBox (s : WState) (b : Box) (c : List Nat) :
    writeHeader (withBox s b) c = withBox (writeHeader s c) b := by
  unfold writeHeader
  simp only [write_withBox]
  split <;> rfl

private theorem writeLineBody_withBox (s : WState) (b : Box) (r : Rec) :
    writeLineBody (withBox s b) r = (withBox (writeLineBody s r).1 b, (writeLineBody s r).2) := by
  obtain ⟨bytes, pos, comment, natoms, initPos, lineSize, fmtPos, fmtVel, box, cur, closed⟩ := s
  cases fmtPos with
  | none => rfl
  | some f =>
    dsimp only [writeLineBody, withBox]
    cases parseAtomlist f fmtVel r with
    | error e => rfl
    | ok line => cases closed <;> rfl

/-- `_setup_write_file` with the format already fixed -/
private theorem setupCore_withBox (s : WState) (b : Box) (r : Rec) :
    (match writeLineBody (writeHeader (withBox s b) (withBox s b).effComment) r with
      | (s', some e) => (s', some e)
      | (s', none) => ({ s' with lineSize := some (s'.pos - (writeHeader (withBox s b) (withBox s b).effComment).pos) }, none))
    = (withBox (match writeLineBody (writeHeader s s.effComment) r with
      | (s', some e) => (s', some e)
      | (s', none) => ({ s' with lineSize := some (s'.pos - (writeHeader s s.effComment).pos) }, (none : Option PyErr))).1 b,
      (match writeLineBody (writeHeader s s.effComment) r with
      | (s', some e) => (s', some e)
      | (s', none) => ({ s' with lineSize := some (s'.pos - (writeHeader s s.effComment).pos) }, (none : Option PyErr))).2) := by
  have e1 : (withBox s b).effComment = s.effComment := rfl
  rw [e1, writeHeader_withBox, writeLineBody_withBox]
  cases h2 : writeLineBody (writeHeader s s.effComment) r with
  | mk s' e' => cases e' <;> rfl

private theorem setupWrite_withBox (s : WState) (b : Box) (r : Rec) :
    setupWrite (withBox s b) r = (withBox (setupWrite s r).1 b, (setupWrite s r).2) := by
  obtain ⟨bytes, pos, comment, natoms, initPos, lineSize, fmtPos, fmtVel, box, cur, closed⟩ := s
  cases closed with
  | true => rfl
  | false =>
    exact setupCore_withBox ⟨bytes, pos, comment, natoms, initPos, lineSize,
      some (WState.effFormat ⟨bytes, pos, comment, natoms, initPos, lineSize, fmtPos, fmtVel, box, cur, false⟩),
      some r.vel.isSome, box, cur, false⟩ b r

private theorem writeStrBody_withBox (s : WState) (b : Box) (l : List Nat) :
    writeStrBody (withBox s b) l = (withBox (writeStrBody s l).1 b, (writeStrBody s l).2) := by
  obtain ⟨bytes, pos, comment, natoms, initPos, lineSize, fmtPos, fmtVel, box, cur, closed⟩ := s
  cases closed <;> rfl

private theorem setupWriteStr_withBox (s : WState) (b : Box) (l : List Nat) :
    setupWriteStr (withBox s b) l = (withBox (setupWriteStr s l).1 b, (setupWriteStr s l).2) := by
  unfold setupWriteStr
  by_cases h1 : (l.any fun c => decide (128 ≤ c)) = true
  · simp only [if_pos h1]
  · simp only [if_neg h1]
    cases parseAtomlineAuto stdParsers l with
    | error e => rfl
    | ok q =>
      simp only []
      cases q.toRec with
      | none => rfl
      | some r => exact setupWrite_withBox s b r

private theorem writeTupBody_withBox (s : WState) (b : Box) (n : Nat) :
    writeTupBody (withBox s b) n = (withBox (writeTupBody s n).1 b, (writeTupBody s n).2) := by
  unfold writeTupBody
  simp only [withBox_fmtPos, withBox_fmtVel]
  cases parseAtomlistG (some ⟨s.fmtPos, s.fmtVel⟩) (.other n) <;> rfl

private theorem setupWriteTup_withBox (s : WState) (b : Box) (n : Nat) :
    setupWriteTup (withBox s b) n = (withBox (setupWriteTup s n).1 b, (setupWriteTup s n).2) := by
  obtain ⟨bytes, pos, comment, natoms, initPos, lineSize, fmtPos, fmtVel, box, cur, closed⟩ := s
  cases closed with
  | true => rfl
  | false =>
    have e := writeHeader_withBox ⟨bytes, pos, comment, natoms, initPos, lineSize,
      some (WState.effFormat ⟨bytes, pos, comment, natoms, initPos, lineSize, fmtPos, fmtVel, box, cur, false⟩),
      some (n == 10), box, cur, false⟩ b
      (WState.effComment ⟨bytes, pos, comment, natoms, initPos, lineSize, fmtPos, fmtVel, box, cur, false⟩)
    exact (congrArg (fun t => writeTupBody t n) e).trans (writeTupBody_withBox _ b n)

/-- **No operation other than `close` looks at `_box_matrix`.** One step from two states that differ at most in
    the box: the same exception (or none), and states that again differ at most in the box. -/
theorem step_box_blind (s : WState) (b : Box) (op : Op) (hop : op ≠ .close) :
    ∃ b', step (withBox s b) op = (withBox (step s op).1 b', (step s op).2) := by
  cases op with
  | setComment v => exact ⟨b, rfl⟩
  | setBox a => exact ⟨a.toBox, rfl⟩
  | setNatoms n => exact ⟨b, rfl⟩
  | setPosFmt w d => exact ⟨b, rfl⟩
  | close => exact absurd rfl hop
  | setBoxBadShape => exact ⟨b, rfl⟩
  | writeLine r =>
    refine ⟨b, ?_⟩
    unfold step
    simp only [withBox_initPos]
    cases s.initPos with
    | none => exact setupWrite_withBox s b r
    | some i => exact writeLineBody_withBox s b r
  | writeStr l =>
    refine ⟨b, ?_⟩
    unfold step
    simp only [withBox_initPos]
    cases s.initPos with
    | none => exact setupWriteStr_withBox s b l
    | some i => exact writeStrBody_withBox s b l
  | writeTup n =>
    refine ⟨b, ?_⟩
    unfold step
    simp only [withBox_initPos]
    cases s.initPos with
    | none => exact setupWriteTup_withBox s b n
    | some i => exact writeTupBody_withBox s b n

/-- … hence a whole script without `close` -/
theorem run_box_blind (ops : List Op) (hops : Op.close ∉ ops) (s : WState) (b : Box) :
    ∃ b', run (withBox s b) ops = (withBox (run s ops).1 b', (run s ops).2) := by
  induction ops generalizing s b with
  | nil => exact ⟨b, rfl⟩
  | cons op t ih =>
    obtain ⟨b1, h1⟩ := step_box_blind s b op (by intro e; exact hops (by simp [e]))
    obtain ⟨b2, h2⟩ := ih (fun h => hops (by simp [h])) (step s op).1 b1
    refine ⟨b2, ?_⟩
    simp only [run, h1, h2]

/-- **The last box assignment wins.** For EVERY client script
    `pre ++ [box_matrix = b1] ++ mid ++ [box_matrix = b2] ++ rest` (`pre`, `mid`, `rest` arbitrary operation lists —
    records, raw lines, malformed tuples, setters, failing operations — `mid` without `close`), started in any
    writer state: the final state of the object — file bytes, cursor, every attribute — is the one of the script
    with the first assignment removed, and the operations raise exactly the same exceptions (the removed
    assignment raised none). In particular the lattice text a later `close` writes is never the one of `b1`.
    (`close ∉ mid` is necessary: see the example below.) -/
theorem box_last_assignment_wins (s : WState) (pre mid rest : List Op) (b1 b2 : BoxArg) (hmid : Op.close ∉ mid) :
    let full := run s (pre ++ Op.setBox b1 :: (mid ++ Op.setBox b2 :: rest))
    let short := run s (pre ++ (mid ++ Op.setBox b2 :: rest))
    full.1 = short.1 ∧ full.1.bytes = short.1.bytes ∧
    ∃ e1 e2, e1.length = pre.length ∧ full.2 = e1 ++ none :: e2 ∧ short.2 = e1 ++ e2 := by
  intro full short
  obtain ⟨b', hb⟩ := run_box_blind mid hmid (run s pre).1 b1.toBox
  have hfull : full = ((run (run (run s pre).1 mid).1 (Op.setBox b2 :: rest)).1,
      (run s pre).2 ++ none :: ((run (run s pre).1 mid).2 ++ (run (run (run s pre).1 mid).1 (Op.setBox b2 :: rest)).2)) := by
    show run s _ = _
    rw [run_append]
    have e1 : run (run s pre).1 (Op.setBox b1 :: (mid ++ Op.setBox b2 :: rest))
        = ((run (withBox (run s pre).1 b1.toBox) (mid ++ Op.setBox b2 :: rest)).1,
            none :: (run (withBox (run s pre).1 b1.toBox) (mid ++ Op.setBox b2 :: rest)).2) := rfl
    rw [e1, run_append, hb]
    rfl
  have hshort : short = ((run (run (run s pre).1 mid).1 (Op.setBox b2 :: rest)).1,
      (run s pre).2 ++ ((run (run s pre).1 mid).2 ++ (run (run (run s pre).1 mid).1 (Op.setBox b2 :: rest)).2)) := by
    show run s _ = _
    rw [run_append, run_append]
  have hlen : ∀ (ops : List Op) (t : WState), (run t ops).2.length = ops.length := by
    intro ops
    induction ops with
    | nil => intro t; rfl
    | cons op l ih => intro t; simp only [run, List.length_cons, ih]
  refine ⟨by rw [hfull, hshort], by rw [hfull, hshort], (run s pre).2,
    (run (run s pre).1 mid).2 ++ (run (run (run s pre).1 mid).1 (Op.setBox b2 :: rest)).2, hlen pre s, ?_, ?_⟩
  · rw [hfull]
  · rw [hshort]

/-- the two-assignment form of the task text: `[box = b1, box = b2] ++ rest` behaves as `[box = b2] ++ rest` -/
theorem box_assigned_twice (s : WState) (rest : List Op) (b1 b2 : BoxArg) :
    (run s (Op.setBox b1 :: Op.setBox b2 :: rest)).1 = (run s (Op.setBox b2 :: rest)).1 ∧
    (run s (Op.setBox b1 :: Op.setBox b2 :: rest)).2 = none :: (run s (Op.setBox b2 :: rest)).2 :=
  ⟨rfl, rfl⟩

/-- the box a list of setters leaves behind is the LAST one assigned -/
theorem setters_box_is_last (s : WState) (pre post : List Op) (b : BoxArg)
    (hpost : ∀ op ∈ post, IsSetter op ∧ ∀ a, op ≠ Op.setBox a) :
    (run s (pre ++ Op.setBox b :: post)).1.box = b.toBox := by
  rw [run_append]
  show (run (withBox (run s pre).1 b.toBox) post).1.box = _
  generalize (run s pre).1 = t
  induction post generalizing t with
  | nil => rfl
  | cons op l ih =>
    obtain ⟨h1, h2⟩ := hpost op (by simp)
    have hl := fun x hx => hpost x (List.mem_cons_of_mem _ hx)
    cases op with
    | setComment v => exact ih hl { t with comment := some (chopNl v) }
    | setBox a => exact absurd rfl (h2 a)
    | setNatoms n => exact ih hl { t with natoms := some n }
    | setPosFmt w d => exact ih hl { t with fmtPos := some (w, d) }
    | writeLine r => exact absurd h1 (by simp [IsSetter])
    | close => exact absurd h1 (by simp [IsSetter])
    | setBoxBadShape => exact absurd h1 (by simp [IsSetter])
    | writeStr l' => exact absurd h1 (by simp [IsSetter])
    | writeTup n => exact absurd h1 (by simp [IsSetter])

/-- **The lattice line `close` writes is the one of the last assignment.** A session of the round-trip shape whose
    setters assign the box any number of times, the last time with `b`: the file is
    `title⏎ count⏎ records… dump_lattice_gro(b)⏎` — whatever was assigned before. -/
theorem closing_lattice_is_last_box (pre post : List Op) (b : BoxArg) (r0 : Rec) (rest : List Rec) (w d : Nat)
    (vel : Bool) (s : WState)
    (hpre : ∀ op ∈ pre, IsSetter op)
    (hpost : ∀ op ∈ post, IsSetter op ∧ ∀ a, op ≠ Op.setBox a)
    (hs : s = (run WState.init (pre ++ Op.setBox b :: post)).1)
    (hfmt : s.effFormat = (w, d)) (htitle : TitleOk s.effComment)
    (hcount : CountOk s (r0 :: rest).length) (hrec : ∀ r ∈ r0 :: rest, RecOk w d vel r) :
    (run WState.init ((pre ++ Op.setBox b :: post) ++ ((r0 :: rest).map Op.writeLine ++ [Op.close]))).1.bytes
      = groBytes s.effComment (countFinal s (r0 :: rest).length) ((r0 :: rest).map (lineOf w d))
          (dumpLattice b.toBox) := by
  have hset : ∀ op ∈ pre ++ Op.setBox b :: post, IsSetter op := by
    intro op h
    rcases List.mem_append.mp h with h | h
    · exact hpre op h
    · rcases List.mem_cons.mp h with h | h
      · subst h; trivial
      · exact (hpost op h).1
  have hbox : s.box = b.toBox := by rw [hs]; exact setters_box_is_last _ pre post b hpost
  have := (C14.writer_output_layout _ r0 rest w d vel s hset hs hfmt htitle hcount hrec).1
  rw [this, hbox]

/-! ### the name fields -/

/-- `validate_string` then the `{:<5}` / `{:>5}` field: five columns for EVERY string -/
theorem name_field_width (s : List Nat) :
    (validateString s).length ≤ 5 ∧
    (padRight 5 (validateString s)).length = 5 ∧ (padLeft 5 (validateString s)).length = 5 := by
  have h : (validateString s).length ≤ 5 := by
    unfold validateString
    split
    · rw [List.length_take]; omega
    · omega
  refine ⟨h, ?_, ?_⟩
  · unfold padRight; rw [List.length_append, List.length_replicate]; omega
  · unfold padLeft; rw [List.length_append, List.length_replicate]; omega

/-- the 20-column head of an atom line and the rest -/
theorem atomText_length (fmt : Nat × Nat) (r : Rec) :
    (atomText fmt r).length = 20 + (fmtFixed fmt.1 fmt.2 r.x).length + (fmtFixed fmt.1 fmt.2 r.y).length +
      (fmtFixed fmt.1 fmt.2 r.z).length +
      (match r.vel with
        | none => 0
        | some (a, b, c) => (fmtFixed fmt.1 (fmt.2 + 1) a).length + (fmtFixed fmt.1 (fmt.2 + 1) b).length +
            (fmtFixed fmt.1 (fmt.2 + 1) c).length) := by
  have h1 := (name_field_width r.resname).2.1
  have h2 := (name_field_width r.name).2.2
  have h3 := fmtD5_wrap_length r.resnum
  have h4 := fmtD5_wrap_length r.atomnum
  unfold atomText
  cases hv : r.vel with
  | none => simp only [List.length_append, h1, h2, h3, h4]; omega
  | some t =>
    obtain ⟨a, b, c⟩ := t
    simp only [List.length_append, h1, h2, h3, h4]
    omega

/-- **Names never change the length of an atom line.** For every record and ANY two strings put in place of its
    residue and atom names (blank-padded, too long, empty): the formatted line has the same length. So every atom
    line of a session has the same length whatever blanks the caller padded the names with. -/
theorem padded_name_same_length (fmt : Nat × Nat) (r : Rec) (resname' name' : List Nat) :
    (atomText fmt { r with resname := resname', name := name' }).length = (atomText fmt r).length := by
  rw [atomText_length, atomText_length]

/-- with values that fit the field width the length is the constant `20 + 3·w` (`20 + 6·w` with velocities) — no
    hypothesis on the names (`line_lengths_equal` of C13 assumes names of 1–5 non-blank characters) -/
theorem line_length_any_names (w d : Nat) (r : Rec)
    (hx : fitsFixed w d r.x = true) (hy : fitsFixed w d r.y = true) (hz : fitsFixed w d r.z = true)
    (hv : ∀ a b c, r.vel = some (a, b, c) →
      fitsFixed w (d + 1) a = true ∧ fitsFixed w (d + 1) b = true ∧ fitsFixed w (d + 1) c = true) :
    (atomText (w, d) r).length = 20 + 3 * w * (if r.vel.isSome then 2 else 1) := by
  rw [atomText_length]
  simp only [fmtFixed_length hx, fmtFixed_length hy, fmtFixed_length hz]
  cases hrv : r.vel with
  | none => simp; omega
  | some t =>
    obtain ⟨a, b, c⟩ := t
    obtain ⟨ha, hb, hc⟩ := hv a b c hrv
    simp only [fmtFixed_length ha, fmtFixed_length hb, fmtFixed_length hc, Option.isSome_some, if_true]
    omega

/-! ### non-vacuity -/

section examples

private def bxA : BoxArg := .vec ⟨false, 1, 0⟩ ⟨false, 2, 0⟩ ⟨false, 3, 0⟩
private def bxB : BoxArg := .mat ⟨⟨false, 5, 0⟩, .zero, .zero, ⟨false, 1, -1⟩, ⟨false, 6, 0⟩, .zero, .zero, .zero, ⟨false, 7, 0⟩⟩
private def recL : Rec := ⟨1, [82], [65], 1, ⟨false, 1, -3⟩, ⟨true, 1, -1⟩, ⟨false, 3, 0⟩, none⟩

/-- `box_last_assignment_wins` on a concrete session: two different boxes, a title and a record between the
    assignments (`mid` without `close`), a record and `close` after them; the lattice line written is `b2`'s -/
example :
    Op.close ∉ [Op.setComment [84], Op.writeLine recL] ∧ bxA.toBox ≠ bxB.toBox ∧
    dumpLattice bxA.toBox ≠ dumpLattice bxB.toBox ∧
    (run WState.init ([] ++ Op.setBox bxA :: ([Op.setComment [84], Op.writeLine recL] ++
        Op.setBox bxB :: [Op.writeLine recL, Op.close]))).1.bytes
      = groBytes [84] (fmtD 9 2) [lineOf 8 3 recL, lineOf 8 3 recL] (dumpLattice bxB.toBox) := by
  refine ⟨by decide, by decide, by decide +kernel, by decide +kernel⟩

/-- `close ∉ mid` is necessary: with a `close` between the assignments the FIRST box is the one on disk -/
example :
    (run WState.init ([] ++ Op.setBox bxA :: ([Op.writeLine recL, Op.close] ++ Op.setBox bxB :: []))).1.bytes
      ≠ (run WState.init ([] ++ ([Op.writeLine recL, Op.close] ++ Op.setBox bxB :: []))).1.bytes := by
  decide +kernel

/-- `closing_lattice_is_last_box`: its hypotheses hold for a setter list assigning the box twice -/
example : (∀ op ∈ [Op.setBox bxA, Op.setNatoms 1], IsSetter op) ∧
    (∀ op ∈ [Op.setPosFmt 8 3], IsSetter op ∧ ∀ a, op ≠ Op.setBox a) ∧
    (run WState.init ([Op.setBox bxA, Op.setNatoms 1] ++ Op.setBox bxB :: [Op.setPosFmt 8 3])).1.box = bxB.toBox := by
  refine ⟨?_, ?_, rfl⟩
  · intro op h
    simp only [List.mem_cons, List.not_mem_nil, or_false] at h
    rcases h with h | h <;> subst h <;> simp [IsSetter]
  · intro op h
    simp only [List.mem_cons, List.not_mem_nil, or_false] at h
    subst h
    exact ⟨by simp [IsSetter], by intro a; simp⟩

/-- names: `"A"`, `"  A  "` (blank-padded), `"ABCDEFGH"` (cut with a warning) and `""` all give lines of the
    same length, 44 columns in the default format -/
example :
    (atomText (8, 3) recL).length = 44 ∧
    (atomText (8, 3) { recL with resname := [32, 32, 65, 32, 32], name := [65, 32, 32, 32] }).length = 44 ∧
    (atomText (8, 3) { recL with resname := [65, 66, 67, 68, 69, 70, 71, 72], name := [] }).length = 44 ∧
    validateString [65, 66, 67, 68, 69, 70, 71, 72] = [65, 66, 67, 68, 69] := by
  refine ⟨by decide +kernel, by decide +kernel, by decide +kernel, by decide⟩

end examples

end C13
