import GMProofs.Lemmas.GroCrashL
import GMProofs.Lemmas.GroExtraL
/-
  C14 — Incomplete or truncated .gro output is never accepted as a valid system.

  Model: the reader of `GMModel.Gro` (`_load_and_verify`, `_load_box_matrix`, `seek_atom`, `readline`)
  on the byte model of C13. In the truncation theorems the numeric parsers are PARAMETERS (`P : Parsers`),
  constrained only by
    * `P.pyInt (count line of the complete file) = number of atom lines`  (inside `PreOk`), and
    * `P.detFormat "" ` is not a success (in the Python, `atomline[-1]` raises `IndexError` on the empty string);
  so the results do not rest on any other detail of `int()`, `float()` or `determine_format`.
  Only property theorems and their non-vacuity examples live here.
-/
open PyStr PyStrL Gro GroL

namespace C14

/-- **Truncation before the box line.** Let `F` be a complete text `title⏎ count⏎ line₀⏎ … line_{N−1}⏎ lattice⏎`
    with `N ≥ 1` atom lines of equal length `L`, no terminator inside a line, whose count line denotes `N`
    (`PreOk`), and `b` the offset of its lattice line. Every prefix `F.take k`, `k ≤ b`, makes `GroFile(path)`
    raise — whatever the lattice line is and whatever the numeric parsers do elsewhere. -/
theorem prefix_before_box_rejected (P : Parsers) (title count lattice : List Nat) (lines : List (List Nat))
    (L : Nat) (h : PreOk P title count lines L) (hdet : ∀ v, P.detFormat [] ≠ .ok v)
    (k : Nat) (hk : k ≤ boxOffset title count lines.length L) :
    (∃ e, loadAndVerify P ((groBytes title count lines lattice).take k) = .error e) ∧
    (∃ e, groRead P ((groBytes title count lines lattice).take k) = .error e) := by
  have hrej := prefix_before_box P title count lattice lines L h hdet k hk
  obtain ⟨e, he⟩ := (rejected_iff_error P _).mp hrej
  exact ⟨⟨e, he⟩, ⟨e, by simp [groRead, he, bind, Except.bind]⟩⟩

/-- the offset `b` really is where the lattice line starts: `F = (F.take b) ++ lattice ++ "\n"` -/
theorem box_offset_spec (title count lattice : List Nat) (lines : List (List Nat)) (L : Nat)
    (hL : ∀ l ∈ lines, l.length = L) :
    (groBytes title count lines lattice).drop (boxOffset title count lines.length L) = lattice ++ [nl] := by
  unfold groBytes
  rw [← groPre_length title count lines L hL, List.drop_left]

/-- **A truncation that is accepted returns exactly the atom records of the complete file** (and its
    title): for `k > b`, if `F.take k` opens and reads, and `F` opens and reads, the records are equal.
    (The box may differ: a cut inside the lattice line can drop or shorten numbers.) -/
theorem prefix_accepted_same_records (P : Parsers) (title count lattice : List Nat) (lines : List (List Nat))
    (L : Nat) (h : PreOk P title count lines L)
    (k : Nat) (hk : boxOffset title count lines.length L < k)
    (d dF : GroData)
    (hd : groRead P ((groBytes title count lines lattice).take k) = .ok d)
    (hF : groRead P (groBytes title count lines lattice) = .ok dF) :
    d.recs = dF.recs ∧ d.title = dF.title := by
  obtain ⟨l0, ls, hl⟩ : ∃ l0 ls, lines = l0 :: ls := by
    cases hlines : lines with
    | nil => exact absurd hlines h.hne
    | cons a b => exact ⟨a, b, rfl⟩
  rw [take_after_box title count lattice lines L h.len k (Nat.le_of_lt hk)] at hd
  unfold groBytes at hF
  obtain ⟨f1, hf1, hr1, ht1⟩ := groRead_pre_inv P title count _ lines L l0 ls h hl d hd
  obtain ⟨f2, hf2, hr2, ht2⟩ := groRead_pre_inv P title count _ lines L l0 ls h hl dF hF
  rw [hf1] at hf2
  cases hf2
  rw [hr1] at hr2
  exact ⟨Except.ok.inj hr2, by rw [ht1, ht2]⟩

/-- … and those records are the parse of the atom block, whether or not the complete file's own lattice
    line is well formed -/
theorem prefix_accepted_records_of_block (P : Parsers) (title count lattice : List Nat) (lines : List (List Nat))
    (L : Nat) (l0 : List Nat) (ls : List (List Nat)) (h : PreOk P title count lines L) (hl : lines = l0 :: ls)
    (k : Nat) (hk : boxOffset title count lines.length L < k) (d : GroData)
    (hd : groRead P ((groBytes title count lines lattice).take k) = .ok d) :
    ∃ fmt, P.detFormat (l0 ++ [nl]) = .ok fmt ∧
      lines.mapM (fun l => parseAtomline P fmt (l ++ [nl])) = .ok d.recs ∧ d.title = title ++ [nl] := by
  rw [take_after_box title count lattice lines L h.len k (Nat.le_of_lt hk)] at hd
  exact groRead_pre_inv P title count _ lines L l0 ls h hl d hd

/-- every complete writer output (session of the C13 shape) has the layout the truncation theorems
    quantify over, for the concrete parsers -/
theorem writer_output_layout (setters : List Op) (r0 : Rec) (rest : List Rec) (w d : Nat) (vel : Bool) (s : WState)
    (hset : ∀ op ∈ setters, IsSetter op) (hs : s = (run WState.init setters).1)
    (hfmt : s.effFormat = (w, d)) (htitle : TitleOk s.effComment)
    (hcount : CountOk s (r0 :: rest).length) (hrec : ∀ r ∈ r0 :: rest, RecOk w d vel r) :
    (run WState.init (setters ++ ((r0 :: rest).map Op.writeLine ++ [Op.close]))).1.bytes
      = groBytes s.effComment (countFinal s (r0 :: rest).length) ((r0 :: rest).map (lineOf w d)) (dumpLattice s.box) ∧
    PreOk stdParsers s.effComment (countFinal s (r0 :: rest).length) ((r0 :: rest).map (lineOf w d))
      (lineOf w d r0).length := by
  obtain ⟨hp, -⟩ := pristine_run setters pristine_init hset
  rw [← hs] at hp
  obtain ⟨hb, -⟩ := session_bytes hp r0 rest w d vel hfmt hrec htitle hcount
  refine ⟨?_, session_preOk hrec htitle (crashParsers_std s _ hcount)⟩
  rw [run_append, ← hs]
  exact hb

/-- **Crash points of the writer.** For a session of the C13 shape and parsers for which the blank
    placeholder is not a number, the final count line denotes the number of records and
    `determine_format('')` raises (`CrashParsers`; true of the concrete parsers, `crash_parsers_std`):
    the file left behind
    (1) after any proper prefix of the operation sequence (any number of setters; the setters and any
        number `j ≤ N` of the records — i.e. before each record and before `close`), and
    (2) inside `close`, after the atom count has been back-filled / verified and before the lattice line is
        written,
    makes `GroFile(path)` raise. -/
theorem crash_points_rejected (P : Parsers) (setters : List Op) (r0 : Rec) (rest : List Rec) (w d : Nat) (vel : Bool)
    (s : WState)
    (hset : ∀ op ∈ setters, IsSetter op) (hs : s = (run WState.init setters).1)
    (hfmt : s.effFormat = (w, d)) (htitle : TitleOk s.effComment)
    (hcount : CountOk s (r0 :: rest).length) (hrec : ∀ r ∈ r0 :: rest, RecOk w d vel r)
    (hP : CrashParsers P s (r0 :: rest).length) :
    (∀ m, m < (setters ++ ((r0 :: rest).map Op.writeLine ++ [Op.close])).length →
      ∃ e, loadAndVerify P (run WState.init ((setters ++ ((r0 :: rest).map Op.writeLine ++ [Op.close])).take m)).1.bytes
        = .error e) ∧
    (∃ sC n, closeCount (run WState.init (setters ++ (r0 :: rest).map Op.writeLine)).1 = .counted sC n ∧
      ∃ e, loadAndVerify P sC.bytes = .error e) := by
  obtain ⟨hp, -⟩ := pristine_run setters pristine_init hset
  rw [← hs] at hp
  constructor
  · intro m hm
    apply (rejected_iff_error P _).mp
    by_cases hms : m ≤ setters.length
    · -- only setters so far: nothing has been written
      have e : (setters ++ ((r0 :: rest).map Op.writeLine ++ [Op.close])).take m = setters.take m := by
        rw [List.take_append, Nat.sub_eq_zero_of_le hms, List.take_zero, List.append_nil]
      rw [e]
      obtain ⟨hp', -⟩ := pristine_run (setters.take m) pristine_init
        (fun op h => hset op (List.mem_of_mem_take h))
      rw [hp'.bytes]
      exact rejected_nil P
    · have hlen : m - setters.length ≤ ((r0 :: rest).map Op.writeLine).length := by
        simp only [List.length_append, List.length_map, List.length_cons, List.length_nil] at hm ⊢
        omega
      have e : (setters ++ ((r0 :: rest).map Op.writeLine ++ [Op.close])).take m
          = setters ++ ((r0 :: rest).take (m - setters.length)).map Op.writeLine := by
        rw [List.take_append, List.take_of_length_le (by omega), List.take_append,
          Nat.sub_eq_zero_of_le hlen, List.take_zero, List.append_nil, List.map_take]
      rw [e, run_append, ← hs]
      exact crash_before_close hp hfmt hrec htitle hP _
  · obtain ⟨sC, n, h1, h2⟩ := crash_in_close (P := P) hp hfmt hrec htitle hcount hP
    refine ⟨sC, n, ?_, (rejected_iff_error P _).mp h2⟩
    rw [run_append, ← hs]
    exact h1

/-- the concrete `int()` / `determine_format` satisfy the facts `crash_points_rejected` uses -/
theorem crash_parsers_std (s : WState) (n : Nat) (h : CountOk s n) : CrashParsers stdParsers s n :=
  crashParsers_std s n h

/-- the file at the remaining step of `close` (lattice text written, its terminator not yet) is a
    truncation AFTER the start of the box line: by `prefix_accepted_same_records` it is either rejected or
    read with exactly the complete file's records. Here: it is the complete file minus its last byte. -/
theorem close_last_step_is_prefix (title count lattice : List Nat) (lines : List (List Nat)) (L : Nat)
    (hL : ∀ l ∈ lines, l.length = L) :
    groPre title count lines ++ lattice
      = (groBytes title count lines lattice).take (boxOffset title count lines.length L + lattice.length) := by
  unfold groBytes
  rw [← groPre_length title count lines L hL, ← List.append_assoc,
    show (groPre title count lines).length + lattice.length = (groPre title count lines ++ lattice).length by simp,
    List.take_left]

/-- **A session closed before any record leaves an EMPTY file, and the reader rejects it.**
    For every list of setters (title, box, position format, declared count) followed by `close()`:
    nothing at all has been written — so `GroFile(path)` raises (`IOError`: empty first line) whatever the
    parsers are; and when no count was declared ("Closing an empty file") no operation raises and the file
    object is closed. (With a declared count `close()` raises — `IOError` for a count ≠ 0, `ValueError` for 0 —
    and the file is just as empty.) -/
theorem empty_close_writes_nothing (P : Parsers) (setters : List Op) (hset : ∀ op ∈ setters, IsSetter op) :
    let res := run WState.init (setters ++ [Op.close])
    res.1.bytes = [] ∧
    loadAndVerify P res.1.bytes = .error .ioError ∧
    (∀ d, groRead P res.1.bytes ≠ .ok d) ∧
    ((∀ op ∈ setters, ∀ n, op ≠ Op.setNatoms n) → (∀ e ∈ res.2, e = none) ∧ res.1.closed = true) := by
  intro res
  obtain ⟨hp, he⟩ := pristine_run setters pristine_init hset
  have hres : res = ((step (run WState.init setters).1 .close).1,
      (run WState.init setters).2 ++ [(step (run WState.init setters).1 .close).2]) := by
    show run WState.init _ = _
    rw [run_append]; simp [run]
  have hb : res.1.bytes = [] := by rw [hres]; exact close_pristine_bytes hp
  have hlv : loadAndVerify P [] = .error .ioError := by
    simp [loadAndVerify, readLine, takeLine, bind, Except.bind, throw, throwThe, MonadExceptOf.throw]
  refine ⟨hb, by rw [hb]; exact hlv, ?_, ?_⟩
  · intro d hd
    rw [hb] at hd
    simp [groRead, hlv, bind, Except.bind] at hd
  · intro hn
    have hnat : (run WState.init setters).1.natoms = none := by
      rw [run_setters_natoms setters hset hn]; rfl
    rw [hres, close_pristine_undeclared hp hnat]
    refine ⟨?_, rfl⟩
    intro e hm
    simp only [List.mem_append, List.mem_cons, List.not_mem_nil, or_false] at hm
    rcases hm with hm | hm
    · exact he e hm
    · exact hm

/-! ### non-vacuity -/

section examples

private def s2b (s : String) : List Nat := s.toList.map (·.toNat)
private def titleEx : List Nat := s2b "T"
private def countEx : List Nat := s2b "    2"
private def linesEx : List (List Nat) :=
  [s2b "    1R        A    1   0.1  -0.2   0.3", s2b "99999WATER    B    2   1.0   2.0  -3.5"]
private def fileEx : List Nat := groBytes titleEx countEx linesEx (s2b "   1.00000   2.00000   3.00000")

/-- the hypotheses of the truncation theorems hold for a concrete two-atom file and the concrete parsers -/
example : PreOk stdParsers titleEx countEx linesEx 38 := by
  constructor
  · decide
  · decide
  · decide
  · decide
  · rfl

example : ∀ v, stdParsers.detFormat [] ≠ .ok v := by
  intro v h; simp [stdParsers, determineFormat] at h

/-- the bound `k ≤ b` is sharp: at `k = b` the prefix is rejected, at `k = b + 4` (`"   1"`) it is accepted
    with both records — and a different box -/
example : boxOffset titleEx countEx linesEx.length 38 = 86 ∧
    (loadAndVerify stdParsers (fileEx.take 86)).toBool = false ∧
    (groRead stdParsers (fileEx.take 90)).toBool = true ∧
    ((groRead stdParsers (fileEx.take 90)).toOption.map (·.recs.length)) = some 2 ∧
    (groRead stdParsers fileEx).toBool = true := by
  refine ⟨by decide, by decide, by decide, by decide, by decide⟩

/-- `empty_close_writes_nothing`: setter lists with and without a declared count -/
example : (∀ op ∈ [Op.setComment [84], Op.setPosFmt 9 4, Op.setBox (.vec .zero .zero .zero)], IsSetter op) ∧
    (∀ op ∈ [Op.setComment [84], Op.setPosFmt 9 4, Op.setBox (.vec .zero .zero .zero)], ∀ n, op ≠ Op.setNatoms n) ∧
    (∀ op ∈ [Op.setNatoms 0], IsSetter op) ∧
    (run WState.init ([Op.setNatoms 0] ++ [Op.close])).2 = [none, some .valueError] := by
  refine ⟨?_, ?_, ?_, by decide⟩
  · intro op h
    simp only [List.mem_cons, List.not_mem_nil, or_false] at h
    rcases h with h | h | h <;> subst h <;> simp [IsSetter]
  · intro op h n
    simp only [List.mem_cons, List.not_mem_nil, or_false] at h
    rcases h with h | h | h <;> subst h <;> simp
  · intro op h
    simp only [List.mem_cons, List.not_mem_nil, or_false] at h
    subst h; simp [IsSetter]

/-- `CrashParsers` is satisfiable (count back-filled, two records) -/
example : CrashParsers stdParsers WState.init 2 := crashParsers_std _ _ (by show 2 < 10 ^ 9; decide)

end examples

end C14
