import GMProofs.Lemmas.ItpTypedL
import GMProofs.Props.C16
/-
  C16 (work package WPE) — the typed line classes (`ItpLineAtom`, `ItpLineBonds`,
  `ItpLineMoleculetype`), their getters and setters, and edits followed by a write.

  Model: `GMModel.ItpTyped` (`mkTLine`, `parseT`, `TLine.getAttr` / `setAttr`, `writeT`).
  Only property theorems and non-vacuity examples live here.
-/
set_option linter.unusedSimpArgs false
open Itp ItpT

namespace C16

/-- THE TYPED MODEL REFINES THE VALIDATED ONE. Forgetting the field values, a typed line is the
    line of `GMModel.Itp` (same acceptance, same exception, same `_content` / `_comment` /
    directive flag) and a typed file is the file of `GMModel.Itp`; what `writeT` writes is what
    `write` writes. Hence every theorem of this property about `parse` / `write` is a theorem
    about the objects with field values. -/
theorem typed_parse_refines :
    (∀ k r, (mkTLine k r).map (·.base) = mkLine k r) ∧
    (∀ t, (parseT t).map TFile.erase = parse t) ∧
    (∀ f, writeT f = write f.erase) :=
  ⟨mkTLine_base, parseT_erase, fun _ => rfl⟩

/-- …for instance the file round trip: a typed file read from a covered text is written, re-read,
    and shows the same view -/
theorem typed_file_roundtrip (t : Str) (f : TFile) (hw : wfText t = true) (h : parseT t = .ok f) :
    ∃ f', parseT (writeT f) = .ok f' ∧ view f'.erase = view f.erase ∧ view f'.erase = specView t := by
  have hp : parse t = .ok f.erase := by rw [← parseT_erase, h]; rfl
  obtain ⟨g, h1, h2, h3, _, _⟩ := file_roundtrip t f.erase hw hp
  have h4 := parseT_erase (writeT f)
  rw [show writeT f = write f.erase from rfl] at h4 ⊢
  rw [h1] at h4
  cases hq : parseT (write f.erase) with
  | error e => rw [hq] at h4; simp [Except.map] at h4
  | ok f' =>
    rw [hq] at h4
    simp only [Except.map, Except.ok.injEq] at h4
    exact ⟨f', rfl, by rw [h4]; exact h2, by rw [h4]; exact h3⟩

/-- TYPED FIELD ROUND TRIP (atom lines). Setting `charge`, `mass`, `pair_interaction` or `aux_name`
    to ANY value succeeds; reading the same attribute gives the value back (`mass` set to `None`
    raises `AttributeError` on reading, as an absent mass does); every other attribute — the other
    fields, `content`, `comment`, `line` — reads as before (`parsed_line` excepted, which lists
    charge and mass); `_content` / `_comment` are untouched: NO token of the line changes. -/
theorem typed_field_roundtrip (l : TLine) (d : Dict) (hl : l.typed = .atom d) (n : String)
    (hn : n ∈ atomSettable) (v : Val) :
    ∃ l', l.setAttr n v = .ok l' ∧ l'.base = l.base ∧ l'.listed = l.listed ∧
      l'.getAttr n = (if n = "mass" ∧ v = .none then .error .AttributeError else .ok (.one v)) ∧
      ∀ n', n' ≠ n → n' ≠ "parsed_line" → l'.getAttr n' = l.getAttr n' := by
  have hn' := hn
  simp only [atomSettable, List.mem_cons, List.mem_nil_iff, or_false] at hn'
  refine ⟨{ l with typed := .atom (d.set n v) }, ?_, rfl, rfl, ?_, ?_⟩
  · rcases hn' with rfl | rfl | rfl | rfl <;> simp [TLine.setAttr, hl]
  · rw [getAttr_atom _ (d.set n v) rfl n (by rcases hn' with rfl | rfl | rfl | rfl <;> decide)
      (by rcases hn' with rfl | rfl | rfl | rfl <;> decide)
      (by rcases hn' with rfl | rfl | rfl | rfl <;> decide)]
    rcases hn' with rfl | rfl | rfl | rfl
    · simp [atomGet, Dict.get_set, Except.map]
    · cases v <;> simp [atomGet, Dict.get_set, bind, Except.bind, pure, Except.pure, throw, throwThe, MonadExceptOf.throw]
    · simp [atomGet, Dict.get_set, Dict.has_set, Except.map]
    · simp [atomGet, Dict.get_set, Dict.has_set, Except.map]
  · intro n' h1 h2
    by_cases hc : n' = "content"
    · subst hc; rfl
    by_cases hm : n' = "comment"
    · subst hm; rfl
    by_cases hli : n' = "line"
    · subst hli; rfl
    rw [getAttr_atom _ (d.set n v) rfl n' hc hm hli, getAttr_atom l d hl n' hc hm hli]
    exact atomGet_set_ne d n hn v n' h1 h2

/-- TYPED FIELD ROUND TRIP (`[ moleculetype ]` lines): the two VALIDATING setters. `name` accepts
    exactly the strings without a space (`TypeError` for a non-string, `ValueError` for a space),
    `nrexcl` exactly the integers ≥ 1 (`ValueError` below 1, `TypeError` for a non-integer); an
    accepted value is read back, the other field and every token of the line are untouched, a
    refused value changes nothing (the result is the exception). -/
theorem moleculetype_field_roundtrip (l : TLine) (nm nx : Val) (hl : l.typed = .mt nm nx) :
    (∀ s : Str, s.contains ' ' = false → ∃ l', l.setAttr "name" (.str s) = .ok l' ∧
      l'.getAttr "name" = .ok (.one (.str s)) ∧ l'.getAttr "nrexcl" = l.getAttr "nrexcl" ∧
      l'.base = l.base) ∧
    (∀ s : Str, s.contains ' ' = true → l.setAttr "name" (.str s) = .error .ValueError) ∧
    (∀ i : Int, l.setAttr "name" (.int i) = .error .TypeError) ∧
    l.setAttr "name" .none = .error .TypeError ∧
    (∀ i : Int, 1 ≤ i → ∃ l', l.setAttr "nrexcl" (.int i) = .ok l' ∧
      l'.getAttr "nrexcl" = .ok (.one (.int i)) ∧ l'.getAttr "name" = l.getAttr "name" ∧
      l'.base = l.base) ∧
    (∀ i : Int, i < 1 → l.setAttr "nrexcl" (.int i) = .error .ValueError) ∧
    (∀ s : Str, l.setAttr "nrexcl" (.str s) = .error .TypeError) ∧
    (∀ f, l.setAttr "nrexcl" (.flt f) = .error .TypeError) := by
  refine ⟨?_, ?_, ?_, ?_, ?_, ?_, ?_, ?_⟩
  · intro s hs
    have hs' : ' ' ∉ s := by simpa using hs
    refine ⟨{ l with typed := .mt (.str s) nx }, ?_, ?_, ?_, rfl⟩
    · simp [TLine.setAttr, hl, mtSetName, hs', bind, Except.bind, pure, Except.pure]
    · simp [TLine.getAttr]
    · simp [TLine.getAttr, hl]
  · intro s hs
    have hs' : ' ' ∈ s := by simpa using hs
    simp [TLine.setAttr, hl, mtSetName, hs', bind, Except.bind]
  · intro i
    simp [TLine.setAttr, hl, mtSetName, bind, Except.bind]
  · simp [TLine.setAttr, hl, mtSetName, bind, Except.bind]
  · intro i hi
    have : ¬ i < 1 := by omega
    refine ⟨{ l with typed := .mt nm (.int i) }, ?_, ?_, ?_, rfl⟩
    · simp [TLine.setAttr, hl, mtSetNrexcl, this, bind, Except.bind, pure, Except.pure]
    · simp [TLine.getAttr]
    · simp [TLine.getAttr, hl]
  · intro i hi
    simp [TLine.setAttr, hl, mtSetNrexcl, hi, bind, Except.bind]
  · intro s
    simp [TLine.setAttr, hl, mtSetNrexcl, bind, Except.bind]
  · intro f
    simp [TLine.setAttr, hl, mtSetNrexcl, bind, Except.bind]

/-- NO TYPED SETTER REACHES THE TEXT. Whatever attribute other than `content` / `comment` is set on
    whatever line object, successfully, `_content`, `_comment` and the directive flag are the same
    afterwards — so `line`, hence `ItpSection.__str__` and `ItpFile.write`, are the same. -/
theorem typed_setter_keeps_text (l l' : TLine) (n : String) (v : Val)
    (h : l.setAttr n v = .ok l') (h1 : n ≠ "content") (h2 : n ≠ "comment") :
    l'.base = l.base ∧ l'.listed = l.listed := by
  unfold TLine.setAttr at h
  split at h
  · exact absurd rfl h1
  · exact absurd rfl h2
  · simp at h
  · split at h
    · simp at h
    · split at h <;> first
        | (simp only [Except.ok.injEq] at h; subst h; exact ⟨rfl, rfl⟩)
        | simp at h
    · split at h <;> simp at h
    · split at h
      · cases hx : mtSetName v with
        | error e => simp [hx, bind, Except.bind] at h
        | ok x => simp [hx, bind, Except.bind, pure, Except.pure] at h; subst h; exact ⟨rfl, rfl⟩
      · cases hx : mtSetNrexcl v with
        | error e => simp [hx, bind, Except.bind] at h
        | ok x => simp [hx, bind, Except.bind, pure, Except.pure] at h; subst h; exact ⟨rfl, rfl⟩
      · simp at h

/-- …and therefore A FILE WRITTEN AFTER TYPED-FIELD EDITS IS BYTE-IDENTICAL to the file written
    before them: the edits are not carried by `write` (re-reading gives the OLD field values).
    Holds for every sequence of successful or refused edits through any attribute other than
    `content` / `comment`. -/
theorem typed_edits_not_written (f : TFile) (es : List Edit)
    (hes : ∀ e ∈ es, e.attr ≠ "content" ∧ e.attr ≠ "comment") :
    writeT (f.edits es).1 = writeT f ∧ rewriteT (f.edits es).1 = rewriteT f := by
  have key : ∀ (es : List Edit) (f : TFile), (∀ e ∈ es, e.attr ≠ "content" ∧ e.attr ≠ "comment") →
      (f.edits es).1.erase = f.erase := by
    intro es
    induction es with
    | nil => intro f _; rfl
    | cons e es ih =>
      intro f hes
      have he := hes e (by simp)
      unfold TFile.edits
      cases hed : f.edit e with
      | error x => simp only; exact ih f (fun x hx => hes x (by simp [hx]))
      | ok f' =>
        simp only
        rw [ih f' (fun x hx => hes x (by simp [hx]))]
        -- one successful edit keeps the erased file
        unfold TFile.edit at hed
        cases hl : f.lineAt e.sec e.idx with
        | error x => simp [hl, bind, Except.bind] at hed
        | ok l =>
          cases hs : l.setAttr e.attr e.val with
          | error x => simp [hl, hs, bind, Except.bind] at hed
          | ok l' =>
            simp only [hl, hs, bind, Except.bind, pure, Except.pure, Except.ok.injEq] at hed
            subst hed
            have hb := (typed_setter_keeps_text l l' e.attr e.val hs he.1 he.2).1
            unfold TFile.setLine TFile.erase
            simp only [ItpFile.mk.injEq, true_and]
            apply setLineIn_erase e.sec e.idx l l' hb
            unfold TFile.lineAt at hl
            cases hf : f.secs.find? (·.name = e.sec) with
            | none => simp [hf] at hl
            | some s0 =>
              simp only [hf, Option.bind_some] at hl ⊢
              cases hi : s0.lines[e.idx]? with
              | none => simp [hi] at hl
              | some l0 => simp [hi] at hl; rw [hl]
  have := key es f hes
  unfold rewriteT writeT
  rw [this]
  exact ⟨rfl, rfl⟩

/-- `content = c` / `comment = m`: the edit IS carried by the text. For a line that is not a
    preprocessor line, a new content `c` without `;`, not starting with `#`, acceptable to the
    section's line class, whose emitted line is not a section header: the emitted line is accepted
    on re-reading and shows exactly the tokens of `c` and the (stripped) old comment. Likewise for a
    new comment. The typed getters, however, still answer from the OLD tokens (`_init_fields` is
    not re-run: `typed_setter_keeps_text` in the other direction — `setAttr "content"` does not
    touch `typed`). -/
theorem content_edit_roundtrip (k : SecKind) (l : TLine) (c : Str) (hd : l.base.directive = false)
    (hc1 : ';' ∉ c) (hc2 : c.head? ≠ some '#') (hck : lineCheck k c = .ok ())
    (hh : isHeaderLine ({ l.base with content := c } : ItpLine).lineStr = false) :
    ∃ l', l.setAttr "content" (.str c) = .ok l' ∧ l'.typed = l.typed ∧ l'.base.comment = l.base.comment ∧
      l'.getAttr "content" = .ok (.one (.str (strip c))) ∧
      ∃ x, mkLine k l'.base.lineStr = .ok x ∧ viewLine x = viewLine l'.base ∧
        (¬ (split c = [] ∧ strip l.base.comment = []) →
          viewLine x = some (.ln (split c) (strip l.base.comment))) := by
  refine ⟨{ l with base := { l.base with content := c } }, by simp [TLine.setAttr], rfl, rfl,
    by simp [TLine.getAttr, ItpLine.contentS], ?_⟩
  have hwf : LineWF ({ l.base with content := c } : ItpLine) := by
    constructor
    · intro h; simp only at h; rw [hd] at h; simp at h
    · intro _; exact ⟨hc1, hc2⟩
  obtain ⟨x, hx1, hx2⟩ := reread_line (k := k) hwf hck hh (specItem_lineStr hwf)
  refine ⟨x, hx1, hx2, ?_⟩
  intro hne
  rw [hx2]
  unfold viewLine
  simp only [hd, Bool.false_eq_true, if_false]
  rw [if_neg hne]

theorem comment_edit_roundtrip (k : SecKind) (l : TLine) (m : Str) (hd : l.base.directive = false)
    (hwf0 : LineWF l.base) (hck : lineCheck k l.base.content = .ok ())
    (hh : isHeaderLine ({ l.base with comment := m } : ItpLine).lineStr = false) :
    ∃ l', l.setAttr "comment" (.str m) = .ok l' ∧ l'.typed = l.typed ∧ l'.base.content = l.base.content ∧
      l'.getAttr "comment" = .ok (.one (.str (strip m))) ∧
      ∃ x, mkLine k l'.base.lineStr = .ok x ∧ viewLine x = viewLine l'.base := by
  refine ⟨{ l with base := { l.base with comment := m } }, by simp [TLine.setAttr], rfl, rfl,
    by simp [TLine.getAttr, ItpLine.commentS], ?_⟩
  have hwf : LineWF ({ l.base with comment := m } : ItpLine) := by
    constructor
    · intro h; simp only at h; rw [hd] at h; simp at h
    · intro h; exact hwf0.2 hd
  exact reread_line (k := k) hwf hck hh (specItem_lineStr hwf)

/-! ### non-vacuity (evaluated) -/

/-- an atom line with charge, mass and a comment: the fields, a setter, and the unchanged text -/
def exAtom : Str := ['1', ' ', 'C', ' ', '1', ' ', 'M', 'O', 'L', ' ', 'C', '1', ' ', '1', ' ', '-', '0', '.', '5', ' ', '1', '2', '.', '0', '1', '1', ' ', ';', ' ', 'q', '\n']

example : (mkTLine .atoms exAtom).bind (fun l => l.getAttr "parsed_line") =
    .ok (.many [.int 1, .str ['C'], .int 1, .str ['M', 'O', 'L'], .str ['C', '1'], .int 1,
      .flt (.dec true 5 (-1)), .flt (.dec false 12011 (-3))]) := by decide

example : (mkTLine .atoms exAtom).bind (fun l => (l.setAttr "charge" (.flt (.dec false 25 (-2)))).bind
    (fun l' => (l'.getAttr "charge").map (fun r => (r, decide (l'.base.lineStr = l.base.lineStr))))) =
    .ok (.one (.flt (.dec false 25 (-2))), true) := by decide

/-- bonds: `const<N>` through `__getattr__` (float where it parses, else the token; negative index
    from the end; anything else `AttributeError`) -/
def exBond : Str := ['1', ' ', '2', ' ', '1', ' ', '0', '.', '1', '5', ' ', 'g', 'b', '_', '2', '7', '\n']

example :
    (initBondFields (split exBond)).bind (fun f => bondConst (some f) ['0']) = .ok (.flt (.dec false 15 (-2))) ∧
    (initBondFields (split exBond)).bind (fun f => bondConst (some f) ['-', '1']) = .ok (.str ['g', 'b', '_', '2', '7']) ∧
    (initBondFields (split exBond)).bind (fun f => bondConst (some f) ['2']) = .error .AttributeError ∧
    (initBondFields (split exBond)).bind (fun f => bondConst (some f) ['x']) = .error .AttributeError ∧
    (mkTLine .bonds exBond).bind (fun l => l.getAttr "funct") = .ok (.one (.int 1)) := by decide

end C16
