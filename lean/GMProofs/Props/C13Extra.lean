import GMProofs.Props.C13
import GMProofs.Lemmas.GroExtraL
/-
  C13 (continued) — the rest of the `GroFile` API.

  * `writeline(str)`: after the header a string is written verbatim; when it is the very text `parse_atomlist`
    returns for a record it is the SAME operation as writing the record (`raw_line_equiv`), so the round trip
    extends to sessions mixing both forms (`gro_roundtrip_mixed`). A string as the FIRST line is parsed
    (`parse_atomline`, format inferred) and re-emitted in the file's own format: modelled (`setupWriteStr`,
    with `float()` = nearest double) and compared byte-for-byte on every run, not part of a theorem.
  * tuples whose length is neither 7 nor 10; `parse_atomlist(format_dict=None)`; `box_matrix` of a wrong shape.
  * the reader as a cursor machine: setters raise `AttributeError` and change nothing; `seek_atom` range; random
    access by `seek_atom(i)` + `readline`.
  Only property theorems and their non-vacuity examples live here.
-/
open PyStr PyStrL Gro GroL GroNum

namespace C13

/-! ### pre-formatted string lines -/

/-- **`writeline(str)` after setup.** Once the header exists (`_init_position` set), writing the string that
    `parse_atomlist` returns for the record `r` under the file's format leaves the same state — bytes, cursor,
    atom counter — and raises the same (no) exception as `writeline(r)`. -/
theorem raw_line_equiv (s : WState) (f : Nat × Nat) (r : Rec) (line : List Nat) (i : Nat)
    (hi : s.initPos = some i) (hf : s.fmtPos = some f) (hl : parseAtomlist f s.fmtVel r = .ok line) :
    step s (.writeStr line) = step s (.writeLine r) :=
  step_writeStr_eq hi hf hl

/-- any string at all is written verbatim, followed by one terminator, and counted as one atom -/
theorem raw_line_verbatim (s : WState) (line : List Nat) (i : Nat) (hi : s.initPos = some i)
    (hcl : s.closed = false) (hpos : s.pos = s.bytes.length) :
    (step s (.writeStr line)).2 = none ∧
    (step s (.writeStr line)).1.bytes = s.bytes ++ line ++ [nl] ∧
    (step s (.writeStr line)).1.cur = s.cur + 1 := by
  obtain ⟨b1, p1⟩ := write_at_end s line hpos
  obtain ⟨b2, -⟩ := write_at_end (s.write line) [nl] p1
  simp only [step, hi, writeStrBody, hcl, Bool.false_eq_true, if_false]
  exact ⟨trivial, by rw [b2, b1], trivial⟩

/-- a string as the FIRST line that `parse_atomline` rejects (empty: `IndexError`; several lines: `ValueError`;
    not three or six points, fields of unequal width, non-numeric numbers: `IOError`, …) raises that error and
    leaves the object and the (still empty) file untouched -/
theorem first_string_rejected_unchanged (s : WState) (line : List Nat) (e : PyErr) (hi : s.initPos = none)
    (hascii : ∀ c ∈ line, c < 128) (hp : parseAtomlineAuto stdParsers line = .error e) :
    step s (.writeStr line) = (s, some e) := by
  have h : line.any (fun c => decide (128 ≤ c)) = false := by
    rw [List.any_eq_false]
    intro c hc
    have := hascii c hc
    simp only [decide_eq_true_eq]; omega
  simp only [step, hi, setupWriteStr, h, Bool.false_eq_true, if_false, hp]

/-- **Round trip, both forms mixed.** As `gro_roundtrip`, for client scripts
    *setters · `writeline(r₀)` · for each further record `r` either `writeline(r)` or
    `writeline(parse_atomlist(r, format))` (flag `true`) · `close`*: the same bytes are written, no operation
    raises, and the reader returns the records `r₀ :: rest` as in `gro_roundtrip`. -/
theorem gro_roundtrip_mixed (setters : List Op) (r0 : Rec) (rest : List (Bool × Rec)) (w d : Nat) (vel : Bool)
    (s : WState)
    (hset : ∀ op ∈ setters, IsSetter op)
    (hs : s = (run WState.init setters).1)
    (hfmt : s.effFormat = (w, d)) (hd : 1 ≤ d)
    (htitle : TitleOk s.effComment)
    (hcount : CountOk s (r0 :: rest.map Prod.snd).length)
    (hrec : ∀ r ∈ r0 :: rest.map Prod.snd, RecOk w d vel r) :
    let res := run WState.init (setters ++ (Op.writeLine r0 :: (rest.map (mixOp w d) ++ [Op.close])))
    res = run WState.init (setters ++ ((r0 :: rest.map Prod.snd).map Op.writeLine ++ [Op.close])) ∧
    (∀ e ∈ res.2, e = none) ∧
    ∃ data, groRead stdParsers res.1.bytes = .ok data ∧
      data.title = s.effComment ++ [nl] ∧
      data.recs.length = (r0 :: rest.map Prod.snd).length ∧
      List.Forall₂ (RecSame d) (r0 :: rest.map Prod.snd) data.recs ∧
      BoxWithin s.box data.box := by
  intro res
  obtain ⟨hp, -⟩ := pristine_run setters pristine_init hset
  rw [← hs] at hp
  have heq : res = run WState.init (setters ++ ((r0 :: rest.map Prod.snd).map Op.writeLine ++ [Op.close])) := by
    show run WState.init _ = run WState.init _
    rw [run_append, run_append, ← hs, session_mixed hp r0 rest w d vel hfmt hrec htitle]
  refine ⟨heq, ?_⟩
  rw [heq]
  exact gro_roundtrip setters r0 (rest.map Prod.snd) w d vel s hset hs hfmt hd htitle hcount hrec

/-! ### `parse_atomlist`: the remaining branches -/

/-- a tuple whose length is neither 7 nor 10 raises `ValueError` whatever the format dictionary holds
    (provided it has a position format; with `format_dict=None` too) -/
theorem atomlist_bad_length (fd : Option FmtDict) (n : Nat) (hn : n ≠ 7 ∧ n ≠ 10)
    (hfd : ∀ f, fd = some f → f.pos ≠ none) :
    parseAtomlistG fd (.other n) = .error .valueError := by
  unfold parseAtomlistG
  cases fd with
  | none => simp only; rw [if_neg (by omega)]
  | some f =>
    cases hp : f.pos with
    | none => exact absurd hp (hfd f rfl)
    | some p => simp only [hp]; rw [if_neg (by omega)]

/-- `parse_atomlist(r)` with `format_dict=None` formats with the default `(8, 3)` and performs no velocity
    check: for well-formed names it is the line the writer emits under the default format, of length 44 / 68 -/
theorem atomlist_default_format (vel : Bool) (r : Rec) (h : RecOk 8 3 vel r) :
    parseAtomlistG none (.ofRec r) = .ok (lineOf 8 3 r) ∧
    parseAtomlistG none (.ofRec r) = parseAtomlist defaultFormat (some vel) r ∧
    (lineOf 8 3 r).length = 20 + 3 * 8 * (if vel then 2 else 1) := by
  have e : parseAtomlistG none (.ofRec r) = .ok (lineOf 8 3 r) := by
    simp only [parseAtomlistG, defaultFormat, atomText_names h.resname h.name]
  exact ⟨e, by rw [e]; exact (parseAtomlist_ok 8 3 vel r h).symm, lineOf_length h⟩

/-- **`writeline(tuple)` of a wrong length after setup**: `ValueError`, the object and the file are unchanged -/
theorem bad_tuple_rejected (s : WState) (n i : Nat) (f : Nat × Nat) (hi : s.initPos = some i)
    (hf : s.fmtPos = some f) (hn : n ≠ 7 ∧ n ≠ 10) :
    step s (.writeTup n) = (s, some .valueError) := by
  simp only [step, hi]
  exact writeTupBody_bad s n f hf hn

/-- … and as the FIRST `writeline` of a file: `ValueError` too, but the header (title and count line) has been
    written and `_init_position` set, while the line size never will be: every later `close()` raises
    (`ValueError`, "Error in initalizaiton") as soon as a record has been written or a count declared -/
theorem bad_tuple_first (s : WState) (n : Nat) (hs : Pristine s) (ht : TitleOk s.effComment) (hn : n ≠ 7 ∧ n ≠ 10) :
    (step s (.writeTup n)).2 = some .valueError ∧
    (step s (.writeTup n)).1.bytes = headerOf s ∧
    (step s (.writeTup n)).1.initPos = some (headerOf s).length ∧
    (step s (.writeTup n)).1.lineSize = none ∧
    (step s (.writeTup n)).1.cur = 0 := by
  obtain ⟨s1, hs1⟩ : ∃ s1 : WState, s1 = { s with fmtPos := some s.effFormat, fmtVel := some (n == 10) } := ⟨_, rfl⟩
  have e1 : s1.effComment = s.effComment := by rw [hs1]; rfl
  have e2 : s1.countLine = s.countLine := by rw [hs1]; rfl
  obtain ⟨hb, -, hi, -, hfp, -, -, hcur, -⟩ :=
    writeHeader_fresh s1 s1.effComment (by rw [hs1]; exact hs.bytes) (by rw [hs1]; exact hs.pos)
      (by rw [e1]; exact getLast?_of_titleOk ht)
  have hstep : step s (.writeTup n) = (writeHeader s1 s1.effComment, some .valueError) := by
    have e : step s (.writeTup n) = setupWriteTup s n := by simp only [step, hs.initPos]
    rw [e]
    exact setupWriteTup_bad s s1 n hs1 hs.closed hn
  rw [hstep]
  refine ⟨rfl, ?_, ?_, ?_, ?_⟩
  · rw [hb, e1, e2]; rfl
  · rw [hi, e1, e2]; rfl
  · show (writeHeader s1 s1.effComment).lineSize = none
    rw [writeHeader_lineSize, hs1]; exact hs.lineSize
  · rw [hcur, hs1]; exact hs.cur

/-- `box_matrix = value` with a shape other than `(3,)` / `(3,3)`: `ValueError`, nothing changes -/
theorem bad_box_shape_rejected (s : WState) : step s .setBoxBadShape = (s, some .valueError) := rfl

/-- `parse_atomline(line)` with `format_dict=None` on a written line (`w = d + 5`): format inferred, same
    record as with the explicit format -/
theorem line_roundtrip_auto (w d : Nat) (vel : Bool) (r : Rec) (h : RecOk w d vel r) (hd : 1 ≤ d) :
    parseAtomlineAuto stdParsers (lineOf w d r ++ [nl]) = .ok (roundRec d r) := by
  unfold parseAtomlineAuto
  have hdet : stdParsers.detFormat (lineOf w d r ++ [nl]) = .ok (w, (w : Int) - 5, vel) :=
    determineFormat_lineOf h hd
  simp only [hdet, bind, Except.bind]
  exact parseAtomline_lineOf h hd _

/-! ### read mode -/

/-- the four setters (and the wrong-shape box) -/
def IsRSetter : ROp → Prop
  | .setComment _ => True
  | .setBox _ => True
  | .setBoxBadShape => True
  | .setNatoms _ => True
  | .setPosFmt _ _ => True
  | .seekAtom _ => False
  | .readline _ => False

/-- **Setters in read mode are rejected**: each raises `AttributeError` and leaves header, cursor and atom
    counter unchanged — for any script of setters, from any reader state, whatever the file holds. -/
theorem read_mode_setters_rejected (P : Parsers) (bs : List Nat) (s : RCur) :
    (∀ op, IsRSetter op → rstep P bs s op = (s, .error .attributeError)) ∧
    (∀ ops : List ROp, (∀ op ∈ ops, IsRSetter op) →
      (rrun P bs s ops).1 = s ∧ ∀ v ∈ (rrun P bs s ops).2, v = (.error .attributeError, s.pos, s.cur)) := by
  have h1 : ∀ op, IsRSetter op → rstep P bs s op = (s, .error .attributeError) := by
    intro op h
    cases op <;> first | rfl | exact absurd h (by simp [IsRSetter])
  refine ⟨h1, ?_⟩
  intro ops
  induction ops with
  | nil => intro _; exact ⟨rfl, by simp [rrun]⟩
  | cons op t ih =>
    intro hall
    obtain ⟨ih1, ih2⟩ := ih (fun x hx => hall x (by simp [hx]))
    simp only [rrun, h1 op (hall op (by simp))]
    refine ⟨ih1, ?_⟩
    intro v hv
    simp only [List.mem_cons] at hv
    rcases hv with hv | hv
    · exact hv
    · exact ih2 v hv

/-- **`seek_atom(i)` range.** The header never changes and `_current_atom` becomes `i` in every case
    (it is assigned before the check); `i > natoms` raises `IndexError` and the cursor stays; otherwise the
    cursor moves to `init + i·size` — or, if that is negative, `ValueError` and the cursor stays. -/
theorem seek_atom_range (P : Parsers) (bs : List Nat) (s : RCur) (i : Int) :
    let r := rstep P bs s (.seekAtom i)
    r.1.hdr = s.hdr ∧ r.1.cur = i ∧
    (i > s.hdr.natoms → r.2 = .error .indexError ∧ r.1.pos = s.pos) ∧
    (i ≤ s.hdr.natoms → 0 ≤ (s.hdr.initPos : Int) + i * (s.hdr.lineSize : Int) →
      r.2 = .ok .unit ∧ (r.1.pos : Int) = (s.hdr.initPos : Int) + i * (s.hdr.lineSize : Int)) ∧
    (i ≤ s.hdr.natoms → (s.hdr.initPos : Int) + i * (s.hdr.lineSize : Int) < 0 →
      r.2 = .error .valueError ∧ r.1.pos = s.pos) := by
  intro r
  have hr : r = rSeekAtom s i := rfl
  by_cases h1 : i > s.hdr.natoms
  · rw [hr, rSeekAtom_gt s i h1]
    exact ⟨rfl, rfl, fun _ => ⟨rfl, rfl⟩, fun h => absurd h1 (by omega), fun h => absurd h1 (by omega)⟩
  · by_cases h2 : (s.hdr.initPos : Int) + i * (s.hdr.lineSize : Int) < 0
    · rw [hr, rSeekAtom_neg s i h1 h2]
      exact ⟨rfl, rfl, fun h => absurd h h1, fun _ h => absurd h2 (by omega), fun _ _ => ⟨rfl, rfl⟩⟩
    · rw [hr, rSeekAtom_ok s i h1 h2]
      refine ⟨rfl, rfl, fun h => absurd h h1, fun _ _ => ⟨rfl, ?_⟩, fun _ h => absurd h h2⟩
      show ((Int.toNat _ : Nat) : Int) = _
      rw [Int.toNat_of_nonneg (by omega)]

/-- **Random access.** On an opened file whose part before the lattice line is well formed (`PreOk`: `N ≥ 1`
    atom lines of equal length, count line denoting `N`), from ANY cursor state with that header:
    `seek_atom(i)` for `i < N` succeeds and the next `readline(parsed=False)` returns exactly the `i`-th atom
    line with its terminator, `readline()` its parse; neither depends on what was read or sought before. -/
theorem seek_then_readline (P : Parsers) (title count tail : List Nat) (lines : List (List Nat)) (L : Nat)
    (h : PreOk P title count lines L) (s0 s : RCur)
    (hopen : ropen P (groPre title count lines ++ tail) = .ok s0) (hhdr : s.hdr = s0.hdr)
    (i : Nat) (l : List Nat) (hi : lines[i]? = some l) :
    let bs := groPre title count lines ++ tail
    let s1 := (rstep P bs s (.seekAtom i)).1
    (rstep P bs s (.seekAtom i)).2 = .ok .unit ∧ s1.cur = i ∧
    (rstep P bs s1 (.readline false)).2 = .ok (.raw (l ++ [nl])) ∧
    (rstep P bs s1 (.readline false)).1.cur = i ∧
    (rstep P bs s1 (.readline true)).2 = (parseAtomline P s0.hdr.fmt (l ++ [nl])).map RVal.parsed ∧
    (rstep P bs s1 (.readline true)).1.cur = i + 1 ∧
    (rstep P bs s1 (.readline true)).1.pos = initOf title count + (i + 1) * (L + 1) := by
  intro bs s1
  obtain ⟨-, hnat, hinit, hsize, -, -⟩ := ropen_pre P title count tail lines L h s0 hopen
  have hlt : i < lines.length := by
    rcases Nat.lt_or_ge i lines.length with h' | h'
    · exact h'
    · rw [List.getElem?_eq_none h'] at hi; cases hi
  have hs1 : rstep P bs s (.seekAtom i) = ({ s with cur := (i : Int), pos := initOf title count + i * (L + 1) }, .ok .unit) := by
    show rSeekAtom s i = _
    rw [rSeekAtom_nat s i (by rw [hhdr, hnat]; omega), hhdr, hinit, hsize]
  have hs1' : s1 = { s with cur := (i : Int), pos := initOf title count + i * (L + 1) } := by
    show (rstep P bs s (.seekAtom i)).1 = _
    rw [hs1]
  have hline := readLine_ith title count tail lines L h.hlines i l hi
  have hll : (l ++ [nl]).length = L + 1 := by
    rw [List.length_append, (h.hlines l (List.mem_of_getElem? hi)).2]; rfl
  refine ⟨by rw [hs1], by rw [hs1'], ?_, ?_, ?_, ?_, ?_⟩
  · rw [hs1']; show (rReadline P bs _ false).2 = _
    simp only [rReadline, bs, hline, Bool.not_false, if_true]
  · rw [hs1']; show (rReadline P bs _ false).1.cur = _
    simp only [rReadline, Bool.not_false, if_true]
  all_goals
    rw [hs1']
    show _ = _
    simp only [rstep, rReadline, bs, hline, hll, Bool.not_true, Bool.false_eq_true, if_false, hhdr, hnat]
    rw [if_neg (by omega)]
    cases hp : parseAtomline P s0.hdr.fmt (l ++ [nl]) <;> simp [Except.map, Nat.add_mul] <;> omega

/-! ### non-vacuity -/

section examples

private def s2b (s : String) : List Nat := s.toList.map (·.toNat)

private def rX : Rec :=
  ⟨99999, [82, 69, 83], [65, 49], 100000, ⟨false, 1, -4⟩, ⟨true, 7378697629483821, -64⟩, ⟨false, 3, -1⟩, none⟩
private def rY : Rec :=
  ⟨1, [87], [79, 87, 49, 50, 51], 10000000, ⟨true, 1999, -1⟩, ⟨false, 0, 0⟩, ⟨true, 0, 0⟩, none⟩

private theorem rX_ok : RecOk 8 3 false rX := by
  constructor
  · exact ⟨by decide, by decide, by decide⟩
  · exact ⟨by decide, by decide, by decide⟩
  all_goals
    simp [rX, VelOk, fitsFixed, fixedBody, scaledRound, roundHalfEvenDiv, natDigits, digitChar, padZeros]

private theorem rY_ok : RecOk 8 3 false rY := by
  constructor
  · exact ⟨by decide, by decide, by decide⟩
  · exact ⟨by decide, by decide, by decide⟩
  all_goals
    simp [rY, VelOk, fitsFixed, fixedBody, scaledRound, roundHalfEvenDiv, natDigits, digitChar, padZeros]

/-- the hypotheses of `gro_roundtrip_mixed` are satisfiable with a string line AND a record after the first
    record (defaults: no setter, count back-filled) -/
example : ∃ (r0 : Rec) (rest : List (Bool × Rec)) (s : WState), s = (run WState.init []).1 ∧
    s.effFormat = (8, 3) ∧ TitleOk s.effComment ∧ CountOk s (r0 :: rest.map Prod.snd).length ∧
    (∀ r ∈ r0 :: rest.map Prod.snd, RecOk 8 3 false r) ∧ (true, rY) ∈ rest ∧ (false, rX) ∈ rest := by
  refine ⟨rX, [(true, rY), (false, rX)], _, rfl, rfl, ?_, ?_, ?_, by simp, by simp⟩
  · show nl ∉ _; decide
  · show (3 < 10 ^ 9); decide
  · intro r h
    simp only [List.map_cons, List.map_nil, List.mem_cons, List.not_mem_nil, or_false] at h
    rcases h with h | h | h <;> subst h
    · exact rX_ok
    · exact rY_ok
    · exact rX_ok

/-- `raw_line_equiv` is about a real line: the text for `rY` under `(8, 3)` (number 10⁷ wrapped to 0) -/
example : parseAtomlist (8, 3) (some false) rY = .ok (s2b "    1W    OW123    0-999.500   0.000  -0.000") := by
  rw [parseAtomlist_ok 8 3 false rY rY_ok]
  simp [lineOf, rY, velText, s2b, fmtD, wrap5, intBody, padLeft, padRight, fmtFixed, fixedBody, scaledRound,
    roundHalfEvenDiv, natDigits, digitChar, padZeros, sp, minus, dot]

/-- TEST by kernel evaluation — a string as the FIRST line is parsed and re-emitted in the file's own format
    `(9, 4)` (not verbatim: the string is in `(8, 3)`); the empty string raises `IndexError` and writes nothing -/
example : ((run WState.init [.setPosFmt 9 4, .writeStr (s2b "    1RES     A1    1   0.100  -0.200   0.300"),
      .close]).1.bytes.drop 65).take 47 = s2b "    1RES     A1    1   0.1000  -0.2000   0.3000" ∧
    step WState.init (.writeStr []) = (WState.init, some .indexError) := by
  refine ⟨by decide +kernel, ?_⟩
  exact first_string_rejected_unchanged _ _ _ rfl (by simp) (by decide)

/-- wrong-length tuples: as the first `writeline` (header of 65 bytes left behind) and `format_dict=None` -/
example : (step WState.init (.writeTup 3)).2 = some .valueError ∧
    (step WState.init (.writeTup 3)).1.bytes.length = 65 ∧
    parseAtomlistG none (.other 8) = .error .valueError := by
  obtain ⟨h1, h2, -⟩ := bad_tuple_first WState.init 3 pristine_init (by show nl ∉ _; decide) (by omega)
  refine ⟨h1, by rw [h2]; decide, atomlist_bad_length none 8 (by omega) (by intro f h; cases h)⟩

example : ∃ r, RecOk 8 3 false r ∧ parseAtomlistG none (.ofRec r) = .ok (lineOf 8 3 r) :=
  ⟨rX, rX_ok, (atomlist_default_format false rX rX_ok).1⟩

private def titleEx : List Nat := s2b "T"
private def countEx : List Nat := s2b "    2"
private def linesEx : List (List Nat) :=
  [s2b "    1R        A    1   0.1  -0.2   0.3", s2b "99999WATER    B    2   1.0   2.0  -3.5"]
private def fileEx : List Nat := groBytes titleEx countEx linesEx (s2b "   1.00000   2.00000   3.00000")

/-- read mode (test by evaluation on a concrete two-atom file): the file opens; `seek_atom(3)` raises
    `IndexError` and leaves `_current_atom = 3`; `seek_atom(1)` + `readline(parsed=False)` returns the second
    line; a setter raises `AttributeError`; `seek_atom(2)` + `readline()` raises `StopIteration` -/
example : (ropen stdParsers fileEx).toBool = true ∧
    (∀ s, ropen stdParsers fileEx = .ok s →
      (rstep stdParsers fileEx s (.seekAtom 3)).2 = .error .indexError ∧
      (rstep stdParsers fileEx s (.seekAtom 3)).1.cur = 3 ∧
      (rstep stdParsers fileEx (rstep stdParsers fileEx s (.seekAtom 1)).1 (.readline false)).2
        = .ok (.raw (s2b "99999WATER    B    2   1.0   2.0  -3.5" ++ [nl])) ∧
      (rstep stdParsers fileEx s (.setNatoms 5)).2 = .error .attributeError ∧
      (rstep stdParsers fileEx (rstep stdParsers fileEx s (.seekAtom 2)).1 (.readline true)).2
        = .error .stopIteration) := by
  refine ⟨by decide, ?_⟩
  intro s hs
  have : ropen stdParsers fileEx = .ok ⟨⟨titleEx ++ [nl], 2, 8, 39, (6, 1, false),
      ⟨.fin false 100000 (-5), .zero, .zero, .zero, .fin false 200000 (-5), .zero, .zero, .zero,
       .fin false 300000 (-5)⟩⟩, 8, 0⟩ := by decide
  rw [this] at hs
  cases hs
  refine ⟨by decide, by decide, by decide, rfl, by decide⟩

/-- … and the hypotheses of `seek_then_readline` hold for it -/
example : PreOk stdParsers titleEx countEx linesEx 38 ∧ linesEx[1]? = some (s2b "99999WATER    B    2   1.0   2.0  -3.5") ∧
    (ropen stdParsers (groPre titleEx countEx linesEx ++ (s2b "   1.00000   2.00000   3.00000" ++ [nl]))).toBool = true := by
  refine ⟨⟨by decide, by decide, by decide, by decide, rfl⟩, rfl, by decide⟩

end examples

end C13
