import GMProofs.Lemmas.HeapX
/-
  C18 (extension) — `Atom` attribute routing, `Residue.remove_atom`, `+`, and the separation
  invariant for the extended operation set.

  Model: `GMModel.HeapX` (`setAttrN` / `getAttrN` with the routing table `routeTable`,
  `removeAtom`, `addObjs`, `radd0`, `mkAtom`, `eqObjs`; `stepX` / `runX` = the extended operation
  language, whose `base` operations are those of `GMModel.HeapOps`).
  Only property theorems and their non-vacuity examples live here.
-/
open GMHeap

namespace C18

variable {α : Type}

/-! ### `Atom.__setattr__` / `__getattr__`: the routing table -/

/-- the nine attribute names through which an `Atom` view writes a cell -/
def writingNames : List String :=
  ["resname", "name", "top_resid", "gro_resid", "index", "bonds", "position", "velocity", "atomid"]

/-- routes that assign to a cell -/
def Route.writes : Route → Bool
  | .both _ | .ownProp _ | .topField _ | .groField _ => true
  | _ => false

/-- a route other than `fresh` comes from a row of the table -/
theorem route_row (attr : String) (R : Route) (hR : route attr = R) (hne : R ≠ .fresh) :
    (attr, R) ∈ routeTable := by
  unfold route at hR
  cases e : routeTable.lookup attr with
  | none => simp only [e] at hR; exact absurd hR.symm hne
  | some r => simp only [e] at hR; subst hR; exact lookup_mem _ _ _ e

/-- (test over the finite table) the rows that write are exactly the nine writing names -/
theorem writing_rows : ∀ p ∈ routeTable, Route.writes p.2 = true → p.1 ∈ writingNames := by decide

/-- (test over the finite table) the table has no duplicate name: the order of its rows is immaterial -/
theorem table_names_nodup : (routeTable.map Prod.fst).Nodup := by decide

/-- the cells each writing name is routed to -/
theorem setattr_table (t g : Nat) :
    (route "resname").cells t g = [t, g] ∧ (route "name").cells t g = [t, g] ∧
    (route "top_resid").cells t g = [t] ∧ (route "gro_resid").cells t g = [g] ∧
    (route "index").cells t g = [t] ∧ (route "bonds").cells t g = [t] ∧
    (route "position").cells t g = [g] ∧ (route "velocity").cells t g = [g] ∧
    (route "atomid").cells t g = [g] := by
  refine ⟨?_, ?_, ?_, ?_, ?_, ?_, ?_, ?_, ?_⟩
  · rw [show route "resname" = .both false by decide]; rfl
  · rw [show route "name" = .both true by decide]; rfl
  · rw [show route "top_resid" = .ownProp true by decide]; rfl
  · rw [show route "gro_resid" = .ownProp false by decide]; rfl
  · rw [show route "index" = .topField .index by decide]; rfl
  · rw [show route "bonds" = .topField .bonds by decide]; rfl
  · rw [show route "position" = .groField .position by decide]; rfl
  · rw [show route "velocity" = .groField .velocity by decide]; rfl
  · rw [show route "atomid" = .groField .atomid by decide]; rfl

/-- SETATTR ROUTING.  For EVERY attribute name, value, view `(t, g)` and heap:
    (i) every cell the table does not name for that attribute is literally unchanged,
    (ii) no cell is created,
    (iii) a name outside the nine writing names changes nothing at all (whatever it raises). -/
theorem setattr_routing (h : Heap α) (t g : Nat) (attr : String) (v : PyVal α) :
    (∀ a, a ∉ (route attr).cells t g → (setAttrN h (.atom t g) attr v).1.get? a = h.get? a) ∧
    (setAttrN h (.atom t g) attr v).1.size = h.size ∧
    (attr ∉ writingNames → (setAttrN h (.atom t g) attr v).1 = h) := by
  refine ⟨?_, ?_, ?_⟩
  · intro a ha
    simp only [setAttrN]
    unfold setAttrAtom
    cases hR : route attr with
    | both b =>
      have ha' : a ≠ t ∧ a ≠ g := by simpa [hR, Route.cells] using ha
      cases b <;> cases v <;> simp only [] <;>
        first | rfl | rw [Heap.get?_modGro_ne _ _ ha'.2, Heap.get?_modTop_ne _ _ ha'.1]
    | ownProp b =>
      cases b with
      | true =>
        have ha' : a ≠ t := by simpa [hR, Route.cells] using ha
        cases v <;> simp only [] <;> first | rfl | rw [Heap.get?_modTop_ne _ _ ha']
      | false =>
        have ha' : a ≠ g := by simpa [hR, Route.cells] using ha
        cases v <;> simp only [] <;> first | rfl | rw [Heap.get?_modGro_ne _ _ ha']
    | topField f =>
      have ha' : a ≠ t := by simpa [hR, Route.cells] using ha
      cases f <;> cases v <;> simp only [] <;>
        first | rfl | rw [Heap.get?_modTop_ne _ _ ha'] | (split <;> first | rfl | rw [Heap.get?_modTop_ne _ _ ha'])
    | groField f =>
      have ha' : a ≠ g := by simpa [hR, Route.cells] using ha
      cases f <;> cases v <;> simp only [] <;> first | rfl | rw [Heap.get?_modGro_ne _ _ ha']
    | groElement => simp only []; (repeat' split) <;> rfl
    | pairSlot => rfl
    | residRaise => rfl
    | ownReadOnly => rfl
    | ownTypeErr => rfl
    | ownDict => rfl
    | topReadOnly => rfl
    | topOther => rfl
    | groOther => rfl
    | fresh => rfl
  · -- sizes: `modTop` / `modGro` never allocate
    simp only [setAttrN]
    unfold setAttrAtom
    repeat' split
    all_goals simp
  · intro hn
    have nowrite : Route.writes (route attr) = false := by
      cases hw : Route.writes (route attr) with
      | false => rfl
      | true =>
        have hne : route attr ≠ .fresh := by
          intro e; rw [e] at hw; cases hw
        exact absurd (writing_rows _ (route_row attr _ rfl hne) hw) hn
    simp only [setAttrN]
    unfold setAttrAtom
    cases hR : route attr with
    | both b => rw [hR] at nowrite; cases nowrite
    | ownProp b => rw [hR] at nowrite; cases nowrite
    | topField f => rw [hR] at nowrite; cases nowrite
    | groField f => rw [hR] at nowrite; cases nowrite
    | groElement => simp only []; (repeat' split) <;> rfl
    | pairSlot => rfl
    | residRaise => rfl
    | ownReadOnly => rfl
    | ownTypeErr => rfl
    | ownDict => rfl
    | topReadOnly => rfl
    | topOther => rfl
    | groOther => rfl
    | fresh => rfl

/-- … and what the nine writing names write: exactly the field of the record(s) the table says,
    the other record untouched.  `resname` / `name` go to BOTH records; `top_resid`, `index`, `bonds`
    to the topology atom; `gro_resid`, `position`, `velocity`, `atomid` to the coordinate atom. -/
theorem setattr_effect (h : Heap α) (t g : Nat) (tc : AtomTopC) (gc : AtomGroC α)
    (ht : h.top? t = some tc) (hg : h.gro? g = some gc) :
    (∀ s, (setAttrN h (.atom t g) "resname" (.str s)).2 = none ∧
      (setAttrN h (.atom t g) "resname" (.str s)).1.top? t = some { tc with resname := s } ∧
      (setAttrN h (.atom t g) "resname" (.str s)).1.gro? g = some { gc with resname := s }) ∧
    (∀ s, (setAttrN h (.atom t g) "name" (.str s)).2 = none ∧
      (setAttrN h (.atom t g) "name" (.str s)).1.top? t = some { tc with name := s } ∧
      (setAttrN h (.atom t g) "name" (.str s)).1.gro? g = some { gc with name := s }) ∧
    (∀ n, (setAttrN h (.atom t g) "top_resid" (.int n)).2 = none ∧
      (setAttrN h (.atom t g) "top_resid" (.int n)).1.top? t = some { tc with resid := n } ∧
      (setAttrN h (.atom t g) "top_resid" (.int n)).1.gro? g = some gc) ∧
    (∀ n, (setAttrN h (.atom t g) "gro_resid" (.int n)).2 = none ∧
      (setAttrN h (.atom t g) "gro_resid" (.int n)).1.top? t = some tc ∧
      (setAttrN h (.atom t g) "gro_resid" (.int n)).1.gro? g = some { gc with resid := n }) ∧
    (∀ n : Nat, (setAttrN h (.atom t g) "index" (.int n)).2 = none ∧
      (setAttrN h (.atom t g) "index" (.int n)).1.top? t = some { tc with index := n } ∧
      (setAttrN h (.atom t g) "index" (.int n)).1.gro? g = some gc) ∧
    (∀ l, (setAttrN h (.atom t g) "bonds" (.nats l)).2 = none ∧
      (setAttrN h (.atom t g) "bonds" (.nats l)).1.top? t = some { tc with bonds := l } ∧
      (setAttrN h (.atom t g) "bonds" (.nats l)).1.gro? g = some gc) ∧
    (∀ p, (setAttrN h (.atom t g) "position" (.vec p)).2 = none ∧
      (setAttrN h (.atom t g) "position" (.vec p)).1.top? t = some tc ∧
      (setAttrN h (.atom t g) "position" (.vec p)).1.gro? g = some { gc with pos := p }) ∧
    (∀ p, (setAttrN h (.atom t g) "velocity" (.vec p)).2 = none ∧
      (setAttrN h (.atom t g) "velocity" (.vec p)).1.top? t = some tc ∧
      (setAttrN h (.atom t g) "velocity" (.vec p)).1.gro? g = some { gc with vel := some p }) ∧
    ((setAttrN h (.atom t g) "velocity" .none).2 = none ∧
      (setAttrN h (.atom t g) "velocity" .none).1.top? t = some tc ∧
      (setAttrN h (.atom t g) "velocity" .none).1.gro? g = some { gc with vel := none }) ∧
    (∀ n, (setAttrN h (.atom t g) "atomid" (.int n)).2 = none ∧
      (setAttrN h (.atom t g) "atomid" (.int n)).1.top? t = some tc ∧
      (setAttrN h (.atom t g) "atomid" (.int n)).1.gro? g = some { gc with atomid := n }) := by
  refine ⟨?_, ?_, ?_, ?_, ?_, ?_, ?_, ?_, ?_, ?_⟩
  · intro s
    simp [setAttrN, setAttrAtom, show route "resname" = .both false by decide, Heap.top?_modGro,
      Heap.top?_modTop_self, Heap.gro?_modGro_self, Heap.gro?_modTop, ht, hg]
  · intro s
    simp [setAttrN, setAttrAtom, show route "name" = .both true by decide, Heap.top?_modGro,
      Heap.top?_modTop_self, Heap.gro?_modGro_self, Heap.gro?_modTop, ht, hg]
  · intro n
    simp [setAttrN, setAttrAtom, show route "top_resid" = .ownProp true by decide,
      Heap.top?_modTop_self, Heap.gro?_modTop, ht, hg]
  · intro n
    simp [setAttrN, setAttrAtom, show route "gro_resid" = .ownProp false by decide, Heap.top?_modGro,
      Heap.gro?_modGro_self, ht, hg]
  · intro n
    simp [setAttrN, setAttrAtom, show route "index" = .topField .index by decide,
      Heap.top?_modTop_self, Heap.gro?_modTop, ht, hg]
  · intro l
    simp [setAttrN, setAttrAtom, show route "bonds" = .topField .bonds by decide,
      Heap.top?_modTop_self, Heap.gro?_modTop, ht, hg]
  · intro p
    simp [setAttrN, setAttrAtom, show route "position" = .groField .position by decide, Heap.top?_modGro,
      Heap.gro?_modGro_self, ht, hg]
  · intro p
    simp [setAttrN, setAttrAtom, show route "velocity" = .groField .velocity by decide, Heap.top?_modGro,
      Heap.gro?_modGro_self, ht, hg]
  · simp [setAttrN, setAttrAtom, show route "velocity" = .groField .velocity by decide, Heap.top?_modGro,
      Heap.gro?_modGro_self, ht, hg]
  · intro n
    simp [setAttrN, setAttrAtom, show route "atomid" = .groField .atomid by decide, Heap.top?_modGro,
      Heap.gro?_modGro_self, ht, hg]

/-- `resid` THROUGH A VIEW IS REJECTED: assignment raises AttributeError and changes nothing, for
    every value and every state; reading it raises AttributeError too (the two residue numbers
    are `top_resid` and `gro_resid`). -/
theorem view_resid_rejected (h : Heap α) (t g : Nat) (v : PyVal α) :
    setAttrN h (.atom t g) "resid" v = (h, some .attributeError) ∧
    (∀ tc gc, h.top? t = some tc → h.gro? g = some gc →
      getAttrN h (.atom t g) "resid" = .error .attributeError) := by
  refine ⟨?_, ?_⟩
  · simp [setAttrN, setAttrAtom, show route "resid" = .residRaise by decide]
  · intro tc gc ht hg
    simp [getAttrN, getAttrAtom, ht, hg, show "resid" ∉ atomDirPlain by decide]

/-- the other names that raise through a view, whatever the value: the read-only properties
    (`atom_gro`, `atom_top`, `residname` — AtomTop's, reached before AtomGro's) and `element`
    (AttributeError when the atom's name has a letter, IOError — out of `hasattr` — when not) -/
theorem setattr_raises (h : Heap α) (t g : Nat) (v : PyVal α) :
    setAttrN h (.atom t g) "atom_gro" v = (h, some .attributeError) ∧
    setAttrN h (.atom t g) "atom_top" v = (h, some .attributeError) ∧
    setAttrN h (.atom t g) "residname" v = (h, some .attributeError) ∧
    (∀ gc, h.gro? g = some gc → ∀ e, firstAlphaRun gc.name = some e →
      setAttrN h (.atom t g) "element" v = (h, some .attributeError)) ∧
    (∀ gc, h.gro? g = some gc → firstAlphaRun gc.name = none →
      setAttrN h (.atom t g) "element" v = (h, some .ioError)) := by
  refine ⟨?_, ?_, ?_, ?_, ?_⟩
  · simp [setAttrN, setAttrAtom, show route "atom_gro" = .ownReadOnly by decide]
  · simp [setAttrN, setAttrAtom, show route "atom_top" = .ownReadOnly by decide]
  · simp [setAttrN, setAttrAtom, show route "residname" = .topReadOnly by decide]
  · intro gc hg e he
    simp [setAttrN, setAttrAtom, show route "element" = .groElement by decide, hg, elementOf, he]
  · intro gc hg he
    simp [setAttrN, setAttrAtom, show route "element" = .groElement by decide, hg, elementOf, he]

/-- a route `fresh` means: no row of the table has this name -/
theorem fresh_not_in_table (attr : String) (hf : route attr = .fresh) :
    ∀ n ∈ routeTable.map Prod.fst, attr ≠ n := by
  have key : ∀ n ∈ routeTable.map Prod.fst, route n ≠ .fresh := by decide
  intro n hn e
  subst e
  exact key _ hn hf

/-- GETATTR ROUTING.  Reads through a view: the two residue numbers are properties of the view;
    everything else goes through `__getattr__`: the AtomGro is asked first (so `name`, `resname` are
    the COORDINATE atom's), then the AtomTop (`index`, `bonds`); a name neither has — every name
    with route `fresh` — raises AttributeError. -/
theorem getattr_routing (h : Heap α) (t g : Nat) (tc : AtomTopC) (gc : AtomGroC α)
    (ht : h.top? t = some tc) (hg : h.gro? g = some gc) :
    getAttrN h (.atom t g) "top_resid" = .ok (.int tc.resid) ∧
    getAttrN h (.atom t g) "gro_resid" = .ok (.int gc.resid) ∧
    getAttrN h (.atom t g) "name" = .ok (.str gc.name) ∧
    getAttrN h (.atom t g) "resname" = .ok (.str gc.resname) ∧
    getAttrN h (.atom t g) "atomid" = .ok (.int gc.atomid) ∧
    getAttrN h (.atom t g) "position" = .ok (.vec gc.pos) ∧
    getAttrN h (.atom t g) "residname" = .ok (.str (residname gc)) ∧
    getAttrN h (.atom t g) "index" = .ok (.int (Int.ofNat tc.index)) ∧
    getAttrN h (.atom t g) "bonds" = .ok (.nats tc.bonds) ∧
    (∀ attr, route attr = .fresh → getAttrN h (.atom t g) attr = .error .attributeError) := by
  refine ⟨?_, ?_, ?_, ?_, ?_, ?_, ?_, ?_, ?_, ?_⟩
  · simp [getAttrN, getAttrAtom, ht, hg]
  · simp [getAttrN, getAttrAtom, ht, hg]
  · simp [getAttrN, getAttrAtom, ht, hg, groAttr, show "name" ∉ atomDirPlain by decide]
  · simp [getAttrN, getAttrAtom, ht, hg, groAttr, show "resname" ∉ atomDirPlain by decide]
  · simp [getAttrN, getAttrAtom, ht, hg, groAttr, show "atomid" ∉ atomDirPlain by decide]
  · simp [getAttrN, getAttrAtom, ht, hg, groAttr, show "position" ∉ atomDirPlain by decide]
  · simp [getAttrN, getAttrAtom, ht, hg, groAttr, show "residname" ∉ atomDirPlain by decide]
  · simp [getAttrN, getAttrAtom, ht, hg, groAttr, topAttr, show "index" ∉ atomDirPlain by decide]
  · simp [getAttrN, getAttrAtom, ht, hg, groAttr, topAttr, show "bonds" ∉ atomDirPlain by decide]
  · intro attr hf
    have hk := fresh_not_in_table attr hf
    have hdir : attr ∉ atomDirPlain := by
      have sub : ∀ n ∈ atomDirPlain, n ∈ routeTable.map Prod.fst := by decide
      exact fun hm => absurd rfl (hk attr (sub attr hm))
    have n1 := hk "top_resid" (by decide)
    have n2 := hk "gro_resid" (by decide)
    have n3 := hk "atom_gro" (by decide)
    have n4 := hk "atom_top" (by decide)
    have n5 := hk "_atom_gro" (by decide)
    have n6 := hk "_atom_top" (by decide)
    have n7 := hk "__weakref__" (by decide)
    have n8 := hk "__class__" (by decide)
    have n9 := hk "__dict__" (by decide)
    have n10 := hk "resid" (by decide)
    have n11 := hk "resname" (by decide)
    have n12 := hk "name" (by decide)
    have n13 := hk "atomid" (by decide)
    have n14 := hk "position" (by decide)
    have n15 := hk "velocity" (by decide)
    have n16 := hk "residname" (by decide)
    have n17 := hk "element" (by decide)
    have n18 := hk "gro_line" (by decide)
    have n19 := hk "copy" (by decide)
    have n20 := hk "__add__" (by decide)
    have n21 := hk "index" (by decide)
    have n22 := hk "bonds" (by decide)
    have n23 := hk "connect" (by decide)
    have n24 := hk "closest_atoms" (by decide)
    simp [getAttrN, getAttrAtom, ht, hg, groAttr, topAttr, hdir, n1, n2, n3, n4, n5, n6, n7, n8, n9, n10,
      n11, n12, n13, n14, n15, n16, n17, n18, n19, n20, n21, n22, n23, n24]

/-! ### `+` -/

section add
variable [Scalar α]

/-- `a + b` IS SEPARATED FROM ITS OPERANDS whenever a Residue is involved (`res + res`, `res + atom`,
    `atom + res`): the Residue returned lives entirely in fresh cells (its list cell and every
    AtomGro are new: `Residue(self.atoms + …)` copies), and for EVERY later operation list of the
    extended language: what is done to the result (and to everything derived from it) changes no
    gro-side cell of either operand, and what is done to the operands changes none of the result. -/
theorem add_result_separated (h h1 : Heap α) (a b : Obj) (r : Nat)
    (hc : addObjs h a b = .ok (h1, r)) (hres : ¬ ∃ g1 g2, a = .agro g1 ∧ b = .agro g2)
    (ops : List (XOp α)) :
    (∀ x ∈ (Obj.res r).groSide h1, h.size ≤ x) ∧
    (∀ o ∈ [a, b], ∀ x ∈ o.groSide h, (runX h1 [.res r] ops).1.get? x = h.get? x) ∧
    (∀ x ∈ (Obj.res r).groSide h1, (runX h1 [a, b] ops).1.get? x = h1.get? x) := by
  -- in each case: the result is a `NewRes`, the operands are old
  have main : ∀ (cs : List (AtomGroC α)), NewRes h h1 r cs →
      (∀ o ∈ [a, b], o.Valid h ∧ ∀ x, (x ∈ o.cellsX h ∨ x ∈ o.groSide h) → x < h.size) →
      (∀ x ∈ (Obj.res r).groSide h1, h.size ≤ x) ∧
      (∀ o ∈ [a, b], ∀ x ∈ o.groSide h, (runX h1 [.res r] ops).1.get? x = h.get? x) ∧
      (∀ x ∈ (Obj.res r).groSide h1, (runX h1 [a, b] ops).1.get? x = h1.get? x) := by
    intro cs n hold
    obtain ⟨cv, cf⟩ := newRes_fresh n
    have sep := fresh_separatedX (n.frame Rel.any) cv cf (fun x hx => (hold x hx).1)
      (fun x hx => (hold x hx).2) ops
    exact ⟨fun x hx => (cf x (Or.inr hx)).1, sep.1, sep.2⟩
  cases a with
  | mol m => simp [addObjs] at hc
  | atom t g => cases b <;> simp [addObjs] at hc
  | agro g1 =>
    cases b with
    | mol m => simp [addObjs] at hc
    | atom t g => simp [addObjs] at hc
    | agro g2 => exact absurd ⟨g1, g2, rfl, rfl⟩ hres
    | res r2 =>
      simp only [addObjs] at hc
      obtain ⟨gs, cs, gc, e1, e2, e3, n⟩ := resAddAtom_spec hc
      refine main _ n ?_
      intro o ho
      simp only [List.mem_cons, List.not_mem_nil, or_false] at ho
      rcases ho with rfl | rfl
      · exact operand_old (cs := cs) ⟨gc, e3⟩
      · exact operand_old (cs := cs) ⟨gs, e1, e2⟩
  | res r1 =>
    cases b with
    | mol m => simp [addObjs] at hc
    | atom t g => simp [addObjs] at hc
    | agro g =>
      simp only [addObjs] at hc
      obtain ⟨gs, cs, gc, e1, e2, e3, n⟩ := resAddAtom_spec hc
      refine main _ n ?_
      intro o ho
      simp only [List.mem_cons, List.not_mem_nil, or_false] at ho
      rcases ho with rfl | rfl
      · exact operand_old (cs := cs) ⟨gs, e1, e2⟩
      · exact operand_old (cs := cs) ⟨gc, e3⟩
    | res r2 =>
      simp only [addObjs] at hc
      obtain ⟨l1, l2, c1, c2, e1, e2, e3, e4, n⟩ := resAddRes_spec hc
      refine main _ n ?_
      intro o ho
      simp only [List.mem_cons, List.not_mem_nil, or_false] at ho
      rcases ho with rfl | rfl
      · exact operand_old (cs := c1) ⟨l1, e1, e3⟩
      · exact operand_old (cs := c2) ⟨l2, e2, e4⟩

end add

/-- … and what the new Residue holds: copies of the records of the left Residue followed by those of
    the right operand (for `atom + res` Python evaluates `res + atom`: the Residue's atoms first) -/
theorem add_result_contents (h h1 : Heap α) (r : Nat) :
    (∀ r1 r2, resAddRes h r1 r2 = .ok (h1, r) →
      ∃ l1 l2 c1 c2 as, h.res? r1 = some l1 ∧ h.res? r2 = some l2 ∧ readGros h l1 = some c1 ∧
        readGros h l2 = some c2 ∧ h1.res? r = some as ∧ readGros h1 as = some (c1 ++ c2)) ∧
    (∀ r1 g, resAddAtom h r1 g = .ok (h1, r) →
      ∃ l1 c1 gc as, h.res? r1 = some l1 ∧ readGros h l1 = some c1 ∧ h.gro? g = some gc ∧
        h1.res? r = some as ∧ readGros h1 as = some (c1 ++ [gc])) := by
  constructor
  · intro r1 r2 hc
    obtain ⟨l1, l2, c1, c2, e1, e2, e3, e4, n⟩ := resAddRes_spec hc
    obtain ⟨as, a1, _, _, a4⟩ := n.cell
    exact ⟨l1, l2, c1, c2, as, e1, e2, e3, e4, a1, a4⟩
  · intro r1 g hc
    obtain ⟨gs, cs, gc, e1, e2, e3, n⟩ := resAddAtom_spec hc
    obtain ⟨as, a1, _, _, a4⟩ := n.cell
    exact ⟨gs, cs, gc, as, e1, e2, e3, a1, a4⟩

/-- OBSERVATION, stated so that the model is honest about it: `atom_gro1 + atom_gro2` builds
    `Residue([self, other])` — the new Residue's list holds THE OPERANDS THEMSELVES.  Only its
    list cell is new; `(a + b)[0]` is `a`, `(a + b)[1]` is `b`: assignments through the sum are
    assignments to the operands. -/
theorem add_atoms_share (h h1 : Heap α) (g1 g2 r : Nat) [Scalar α]
    (hc : addObjs h (.agro g1) (.agro g2) = .ok (h1, r)) :
    r = h.size ∧ h1.res? r = some [g1, g2] ∧ (∀ a, a < h.size → h1.get? a = h.get? a) ∧
    stepOn h1 (.res r) (.getAtom 0 0) = ⟨h1, some (.agro g1), none⟩ ∧
    stepOn h1 (.res r) (.getAtom 0 1) = ⟨h1, some (.agro g2), none⟩ := by
  simp only [addObjs] at hc
  obtain ⟨rfl, rfl, _⟩ := groAddGro_spec hc
  have hres : (h.alloc (Cell.res [g1, g2])).1.res? h.size = some [g1, g2] := by
    apply Heap.res?_eq_some.mpr
    rw [Heap.get?_alloc, if_pos rfl]
  refine ⟨rfl, hres, fun a ha => Heap.get?_alloc_lt h _ ha, ?_, ?_⟩
  · simp [stepOn, hres]
  · simp [stepOn, hres]

/-! ### `Residue.remove_atom` -/

/-- REMOVE_ATOM, when it succeeds: the argument is an AtomGro; the Residue's list is the old list
    with ONE position `k` erased (one shorter, the others in their order — a sublist), every other
    cell of the heap — all AtomGro records, every other Residue, every Molecule — is literally
    unchanged; and `k` is the FIRST position whose atom is the argument itself or equals it in
    (resname, name) — not necessarily the argument. -/
theorem remove_atom_effect (h : Heap α) (r : Nat) (x : Obj) (hok : (removeAtom h r x).2 = none) :
    ∃ gs g xc k, h.res? r = some gs ∧ x = .agro g ∧ h.gro? g = some xc ∧ k < gs.length ∧
      (removeAtom h r x).1.res? r = some (gs.eraseIdx k) ∧
      (gs.eraseIdx k).length + 1 = gs.length ∧ (gs.eraseIdx k).Sublist gs ∧
      (removeAtom h r x).1.size = h.size ∧
      (∀ a, a ≠ r → (removeAtom h r x).1.get? a = h.get? a) ∧
      (∃ gk ck, gs[k]? = some gk ∧ h.gro? gk = some ck ∧ (gk = g ∨ groEq ck xc = true)) ∧
      (∀ j, j < k → ∃ gj cj, gs[j]? = some gj ∧ h.gro? gj = some cj ∧ gj ≠ g ∧ groEq cj xc = false) := by
  obtain ⟨gs, g, xc, k, e1, e2, e3, e4, e5⟩ := removeAtom_ok hok
  have hk := removeIdx_lt e4
  obtain ⟨s1, s2⟩ := removeIdx_spec e4
  refine ⟨gs, g, xc, k, e1, e2, e3, hk, ?_, ?_, List.eraseIdx_sublist gs k, ?_, ?_, s1, s2⟩
  · rw [e5]; exact res?_set_self e1
  · rw [List.length_eraseIdx_of_lt hk]; omega
  · rw [e5]; simp
  · intro a ha
    rw [e5]; exact get?_set_ne _ ha

/-- … and when it does not: nothing changes; an argument that is not an AtomGro (an `Atom` view,
    a Residue, a Molecule) is never found — ValueError — as is an AtomGro no atom of the Residue
    is or equals -/
theorem remove_atom_rejected (h : Heap α) (r : Nat) (x : Obj) (e : PyErr)
    (herr : (removeAtom h r x).2 = some e) :
    (removeAtom h r x).1 = h ∧
    (∀ gs cs, h.res? r = some gs → readGros h gs = some cs → (∀ g, x ≠ .agro g) → e = .valueError) := by
  refine ⟨removeAtom_err herr, ?_⟩
  intro gs cs hr hg hx
  unfold removeAtom at herr
  simp only [hr] at herr
  cases x with
  | agro g => exact absurd rfl (hx g)
  | mol m => simp [hg] at herr; exact herr.symm
  | res r' => simp [hg] at herr; exact herr.symm
  | atom t g => simp [hg] at herr; exact herr.symm

/-- THE MOLECULE THAT OWNS THE RESIDUE (`mol.residues[i].remove_atom(x)`): it keeps its topology,
    its residue objects and its `_each_atom_resid` — so `len(mol)` is what it was — while it now
    reaches one AtomGro less (all of them among the old ones): the molecule is RAGGED. -/
theorem remove_atom_owner (h : Heap α) (m r : Nat) (v : MolView) (x : Obj)
    (hv : molView h m = some v) (hmem : r ∈ v.residues) (hnd : v.residues.Nodup)
    (hok : (removeAtom h r x).2 = none) :
    ∃ v', molView (removeAtom h r x).1 m = some v' ∧ v'.top = v.top ∧ v'.tops = v.tops ∧
      v'.residues = v.residues ∧ v'.each = v.each ∧ v'.name = v.name ∧
      v'.gros.length + 1 = v.gros.length ∧ (∀ a ∈ v'.gros, a ∈ v.gros) := by
  obtain ⟨gs, g, xc, k, e1, e2, e3, e4, e5⟩ := removeAtom_ok hok
  have hk := removeIdx_lt e4
  obtain ⟨hg, hrr, _, _⟩ := molView_gros hv
  refine ⟨{ v with parts := replacePart r (gs.eraseIdx k) v.residues v.parts,
                   gros := (replacePart r (gs.eraseIdx k) v.residues v.parts).flatten },
    by rw [e5]; exact molView_set_res hv e1, rfl, rfl, rfl, rfl, rfl, ?_, ?_⟩
  · simp only
    rw [hg]
    exact replacePart_length e1 hrr hnd hmem (by rw [List.length_eraseIdx_of_lt hk]; omega)
  · obtain ⟨v', hv', _, _, _, _, _, hsub⟩ :=
      (xframe_set_res (l' := gs.eraseIdx k) e1 (List.eraseIdx_sublist gs k)).molView hv
    rw [molView_set_res hv e1] at hv'
    injection hv' with hv'
    intro a ha
    exact hsub a (by rw [← hv']; exact ha)

section ragged
variable [Scalar α]

/-- A RAGGED MOLECULE CAN NO LONGER BE MOVED: with fewer AtomGros than `len(mol)`, `move`, `move_to`
    and `rotate` raise ValueError (the positions array has the wrong shape for the setter — or
    cannot even be concatenated when a residue is empty) and change nothing. -/
theorem ragged_rigid_rejected (h : Heap α) (m : Nat) (v : MolView) (cs : List (AtomGroC α))
    (hv : molView h m = some v) (hcs : readGros h v.gros = some cs)
    (hlen : v.each.length = v.tops.length) (hlt : v.gros.length < v.tops.length)
    (d : V3 α) (rot : M3 α) :
    stepBase h (.mol m) (.move 0 d) = ⟨h, none, some .valueError⟩ ∧
    stepBase h (.mol m) (.moveTo 0 d) = ⟨h, none, some .valueError⟩ ∧
    stepBase h (.mol m) (.rotate 0 rot) = ⟨h, none, some .valueError⟩ := by
  have hrag : raggedView v = true := by
    simp only [raggedView, bne_iff_ne, ne_eq]; omega
  have hnl : ¬ v.tops.length < v.gros.length := by omega
  have hcl : cs.length = v.gros.length := readGros_length hcs
  have setp : ∀ ps : List (V3 α), ps.length = cs.length → xSetPositions h v ps = (h, some .valueError) := by
    intro ps hps
    unfold xSetPositions
    rw [if_pos (by omega)]
  have xp : xPositions h v = .error .valueError ∨ xPositions h v = .ok none ∨
      xPositions h v = .ok (some (cs.map (·.pos))) := by
    unfold xPositions
    split
    · exact Or.inl rfl
    · split
      · exact Or.inr (Or.inl rfl)
      · split
        · exact Or.inl rfl
        · exact Or.inr (Or.inr (by simp [hcs]))
  have mv : ∀ d : V3 α, xMove h v d = (h, some .valueError) := by
    intro d
    unfold xMove
    rcases xp with e | e | e <;> simp only [e]
    exact setp _ (by simp)
  refine ⟨?_, ?_, ?_⟩
  · simp only [stepBase, hv, hrag, if_true, stepRagged, if_neg hnl, mv, writeOk]
  · have : xMoveTo h v d = (h, some .valueError) := by
      unfold xMoveTo
      rcases xp with e | e | e <;> simp only [e]
      exact mv _
    simp only [stepBase, hv, hrag, if_true, stepRagged, if_neg hnl, this, writeOk]
  · have : xRotate h v rot = (h, some .valueError) := by
      unfold xRotate
      rcases xp with e | e | e <;> simp only [e]
      exact setp _ (by simp)
    simp only [stepBase, hv, hrag, if_true, stepRagged, if_neg hnl, this, writeOk]

/-- on every target that is not ragged / not an empty Residue, a base operation of the extended
    language IS the operation of `GMModel.HeapOps` (so all of `C18.lean` applies to it) -/
theorem base_regular (h : Heap α) (o : Obj) (op : Op α)
    (hreg : match o with
      | .mol m => ragged h m = false
      | .res r => emptyRes h r = false
      | _ => True) :
    stepBase h o op = stepOn h o op := by
  cases o with
  | mol m =>
    simp only [stepBase]
    cases hv : molView h m with
    | none => rfl
    | some v =>
      simp only [ragged, hv] at hreg
      simp [hreg]
  | res r =>
    simp only at hreg
    simp [stepBase, hreg]
  | agro g => rfl
  | atom t g => rfl

/-! ### the separation invariant for the extended operation set -/

/-- SEPARATION INVARIANT, EXTENDED.  `S`: any set of existing cells.  If no live object of the
    environment can write into `S` — where "can write" now counts the Residue list cells of the
    object (`Obj.cellsX`) next to its AtomGro and AtomTop cells — then after ANY list of operations
    of the extended language (everything of `C18.separation_invariant` plus named attribute
    access, `==`, `Atom(top, gro)`, `remove_atom`, `+`, `0 +`), applied to the environment and to
    everything the list creates, every cell of `S` is literally unchanged. -/
theorem separation_invariant_extended (S : Nat → Prop) (ops : List (XOp α)) (h : Heap α)
    (env : List Obj) (hS : ∀ a, S a → a < h.size)
    (hfree : ∀ o ∈ env, o.Valid h ∧ ∀ a ∈ o.cellsX h, ¬ S a) :
    ∀ a, S a → (runX h env ops).1.get? a = h.get? a :=
  (runX_preserves S ops h env hS hfree).1

/-- `c := x.copy()` for a Molecule / Residue / AtomGro / `Atom` view, System hand-outs and deep
    copies: the two-way isolation of `C18.copy_separated` … holds for every operation list of the
    EXTENDED language as well -/
theorem copy_separated_extended (h h1 : Heap α) (ops : List (XOp α)) :
    (∀ m c, stepOn h (.mol m) (.copy 0) = ⟨h1, some (.mol c), none⟩ →
      (∀ a ∈ (Obj.mol m).groSide h, (runX h1 [.mol c] ops).1.get? a = h.get? a) ∧
      (∀ a ∈ (Obj.mol c).groSide h1, (runX h1 [.mol m] ops).1.get? a = h1.get? a)) ∧
    (∀ r c, stepOn h (.res r) (.copy 0) = ⟨h1, some (.res c), none⟩ →
      (∀ a ∈ (Obj.res r).groSide h, (runX h1 [.res c] ops).1.get? a = h.get? a) ∧
      (∀ a ∈ (Obj.res c).groSide h1, (runX h1 [.res r] ops).1.get? a = h1.get? a)) ∧
    (∀ g c, stepOn h (.agro g) (.copy 0) = ⟨h1, some (.agro c), none⟩ →
      (∀ a ∈ (Obj.agro g).groSide h, (runX h1 [.agro c] ops).1.get? a = h.get? a) ∧
      (∀ a ∈ (Obj.agro c).groSide h1, (runX h1 [.agro g] ops).1.get? a = h1.get? a)) ∧
    (∀ t g t' c, stepOn h (.atom t g) (.copy 0) = ⟨h1, some (.atom t' c), none⟩ →
      (∀ a ∈ (Obj.atom t g).groSide h, (runX h1 [.atom t' c] ops).1.get? a = h.get? a) ∧
      (∀ a ∈ (Obj.atom t' c).groSide h1, (runX h1 [.atom t g] ops).1.get? a = h1.get? a)) ∧
    (∀ m c data, (∃ v, MolOld h m v) → stepOn h (.mol m) (.molWith 0 data) = ⟨h1, some (.mol c), none⟩ →
      (∀ a ∈ (Obj.mol m).groSide h, (runX h1 [.mol c] ops).1.get? a = h.get? a) ∧
      (∀ a ∈ (Obj.mol c).groSide h1, (runX h1 [.mol m] ops).1.get? a = h1.get? a)) ∧
    (∀ m c, (∃ v, MolOld h m v) → stepOn h (.mol m) (.deepCopy 0) = ⟨h1, some (.mol c), none⟩ →
      (∀ a ∈ (Obj.mol m).groSide h ++ (Obj.mol m).topSide h, (runX h1 [.mol c] ops).1.get? a = h.get? a) ∧
      (∀ a ∈ (Obj.mol c).groSide h1 ++ (Obj.mol c).topSide h1,
        (runX h1 [.mol m] ops).1.get? a = h1.get? a)) :=
  ⟨fun _ _ hc => (copied_mol hc).separatedX ops, fun _ _ hc => (copied_res hc).separatedX ops,
   fun _ _ hc => (copied_agro hc).separatedX ops, fun _ _ _ _ hc => (copied_atom hc).separatedX ops,
   fun _ _ _ hwf hc => (copied_handout hwf hc).separatedX ops,
   fun _ _ hwf hc => (deepCopied_mol hwf hc).separatedX ops⟩

end ragged

/-! ### non-vacuity: a concrete heap meeting the hypotheses (evaluated by the kernel) -/

namespace NonVacuityX

/-- an exact computable scalar, used ONLY to evaluate the concrete heaps of these examples -/
local instance : Scalar Int where
  add := Int.add
  sub := Int.sub
  mul := Int.mul
  div := fun a b => a / b
  neg := Int.neg
  zero := 0
  one := 1
  ofInt n := n
  ofDec m _ := m
  sqrt x := x
  cos x := x
  sin x := x
  isZero x := x == 0
  lt a b := a < b
  le a b := a ≤ b
  round x := x
  abs x := x.natAbs

def g (resid : Int) (rn n : String) (id : Int) (x y z : Int) : AtomGroC Int :=
  ⟨resid, rn, n, id, ⟨x, y, z⟩, none⟩

/-- a three-atom, two-residue molecule loaded "from files": Molecule at cell 14, its residues at
    11 (atoms 9, 10) and 13 (atom 12), topology atoms 0 1 2; the residues read from the file (cells
    4 5 | 7) were copied by `Molecule.__init__` -/
def st0 : StepR Int := newMol Heap.empty "M"
  [⟨"A1", "RA", 1, 0, [1]⟩, ⟨"A2", "RA", 1, 1, [0, 2]⟩, ⟨"B1", "RB", 2, 2, [1]⟩]
  [[g 1 "RA" "A1" 1 0 0 0, g 1 "RA" "A2" 2 1 0 0], [g 2 "RB" "B1" 3 1 1 0]]

example : st0.ret = some (.mol 14) ∧ st0.err = none ∧ st0.heap.size = 15 := by decide

/-- `setattr_effect` / `getattr_routing` apply to the view `(1, 10)` = `mol[1]` … -/
example : (st0.heap.top? 1).isSome = true ∧ (st0.heap.gro? 10).isSome = true := by decide
/-- … `mol[1].name = "ZZ"` renames BOTH records, `mol[1].index = 7` only the topology atom -/
example :
    ((setAttrN st0.heap (.atom 1 10) "name" (.str "ZZ")).1.top? 1).map (·.name) = some "ZZ" ∧
    ((setAttrN st0.heap (.atom 1 10) "name" (.str "ZZ")).1.gro? 10).map (·.name) = some "ZZ" ∧
    ((setAttrN st0.heap (.atom 1 10) "index" (.int 7)).1.top? 1).map (·.index) = some 7 ∧
    (setAttrN st0.heap (.atom 1 10) "resid" (.int 7)).2 = some .attributeError ∧
    (setAttrN st0.heap (.atom 1 10) "tag3" (.int 7)).2 = none := by decide
example : (match getAttrN st0.heap (.atom 1 10) "index" with | .ok (.int n) => n == 1 | _ => false) = true ∧
    (match getAttrN st0.heap (.atom 1 10) "missing" with | .error .attributeError => true | _ => false) = true := by
  decide
example : route "missing" = .fresh ∧ "missing" ∉ writingNames := by decide

/-- `add_result_separated`: `res + atom` and `res + res` succeed, and the result is new … -/
example : (match addObjs st0.heap (.res 11) (.agro 9) with
      | .ok (h1, r) => (r, h1.res? r) | _ => (0, none)) = (18, some [15, 16, 17]) ∧
    (match addObjs st0.heap (.res 11) (.res 11) with
      | .ok (h1, r) => (r, h1.res? r) | _ => (0, none)) = (19, some [15, 16, 17, 18]) := by decide
/-- … while `atom + atom` (`add_atoms_share`) hands back the operands: `[9, 10]` -/
example : (match addObjs st0.heap (.agro 9) (.agro 10) with
      | .ok (h1, r) => (r, h1.res? r) | _ => (0, none)) = (15, some [9, 10]) := by decide

/-- `remove_atom_effect`: removing the second atom of the first residue; and with an argument that
    merely EQUALS an atom of the residue (cell 4: the atom read from the file, same resname and name
    as cell 9) it is cell 9 — the first equal one — that goes -/
example : (removeAtom st0.heap 11 (.agro 10)).2 = none ∧
    (removeAtom st0.heap 11 (.agro 10)).1.res? 11 = some [9] ∧
    (removeAtom st0.heap 11 (.agro 4)).1.res? 11 = some [10] ∧
    (removeAtom st0.heap 11 (.atom 1 10)).2 = some .valueError := by decide

/-- `remove_atom_owner` / `ragged_rigid_rejected`: the owner (cell 14) is ragged afterwards: `move`
    raises ValueError; assigning three positions fails the shape test (`len(mol)` is still 3 … the
    setter wants (3, 3), iteration then stops at the first `Atom` whose labels disagree) -/
example : (molView st0.heap 14).map (·.residues) = some [11, 13] ∧
    ragged (removeAtom st0.heap 11 (.agro 10)).1 14 = true ∧
    (stepX (removeAtom st0.heap 11 (.agro 10)).1 [.mol 14] (.base (.move 0 ⟨1, 1, 1⟩))).err
      = some .valueError ∧
    (stepX (removeAtom st0.heap 11 (.agro 10)).1 [.mol 14]
      (.base (.setPos 0 [⟨1, 1, 1⟩, ⟨1, 1, 1⟩, ⟨1, 1, 1⟩]))).err = some .ioError := by decide

/-- WHY THE EXTENDED INVARIANT COUNTS THE LIST CELLS.  `C18.separation_invariant` asks that no live
    object can write into `S` in the sense of `Obj.cells` (AtomGro and AtomTop cells).  With
    `remove_atom` in the language that is not enough: protect the Residue's own list cell
    (`S = {11}`); the Residue `.res 11` and its atom `.agro 10` are live and none of their
    `Obj.cells` lies in `S` — yet `res.remove_atom(atom)` rewrites cell 11.  (`Obj.cellsX` lists
    cell 11 for `.res 11`, so `separation_invariant_extended` does not apply to this `S`.) -/
theorem separation_needs_list_cells :
    ∃ (h : Heap Int) (env : List Obj) (S : Nat → Prop),
      (∀ a, S a → a < h.size) ∧ (∀ o ∈ env, o.Valid h ∧ ∀ a ∈ o.cells h, ¬ S a) ∧
      ∃ a, S a ∧ (runX h env [.removeAtom 0 1]).1.res? a ≠ h.res? a := by
  refine ⟨st0.heap, [.res 11, .agro 10], (· = 11), ?_, ?_, 11, rfl, by decide⟩
  · intro a ha; subst ha; decide
  · intro o ho
    simp only [List.mem_cons, List.not_mem_nil, or_false] at ho
    rcases ho with rfl | rfl
    · refine ⟨⟨[9, 10], by decide⟩, ?_⟩
      have : (Obj.res 11).cells st0.heap = [9, 10] := by decide
      rw [this]
      intro a ha hs
      subst hs
      simp at ha
    · refine ⟨trivial, ?_⟩
      intro a ha hs
      subst hs
      simp [Obj.cells] at ha

/-- the extended invariant on a history that uses the new operations: protect every gro-side cell of
    the loaded molecule (cells 14, 11, 13, 9, 10, 12); run `c = mol.copy(); r = c.residues[0];
    a = r[1]; r.remove_atom(a); s = r + r; s[0].name = …` on the COPY: nothing protected changes -/
example := copy_separated_extended st0.heap (stepOn st0.heap (.mol 14) (.copy 0)).heap
  [.base (.getResidue 0 0), .base (.getAtom 1 1), .removeAtom 1 2, .add 1 1, .base (.getAtom 3 0),
   .setAttrN 4 "name" (.str "Q")]

example : (runX (stepOn st0.heap (.mol 14) (.copy 0)).heap [.mol 20]
    [.base (.getResidue 0 0), .base (.getAtom 1 1), .removeAtom 1 2, .add 1 1, .base (.getAtom 3 0),
     .setAttrN 4 "name" (.str "Q")]).2.length = 5 := by decide

end NonVacuityX

end C18
