import GMProofs.Lemmas.HeapCopy

/-!
# C06 (heap clause) — "The Molecule objects supplied by the caller are never modified"

`Alignment(start=x, end=y)` stores `x.copy()` and `y.copy()` (`gaddlemaps/_alignment.py`, the two
setters); everything `align_molecules` does afterwards — `move_to`, the position assignment that writes
the result back, whatever else — is an operation on those two stored copies (and on objects derived
from them).  The statement below is therefore about the heap model of C18 (`GMModel/Heap.lean`,
`HeapOps.lean`): after the two copies, ANY list of modelled operations applied to the environment
`[s, e]` (and to everything the list itself creates from them) leaves every coordinate-side cell of the
caller's two molecules literally unchanged.

It is the two-object version of `C18.copy_separated`; the extra work is that the second copy may share
the topology atoms of the SECOND caller molecule while the first caller molecule's cells must stay out of
reach as well — which needs that topology cells and coordinate cells are of different kinds.
-/

namespace GMHeap
namespace C06

variable {α : Type}

section
variable [Scalar α]

/-- a molecule that can be copied is a well-formed old molecule (same facts as inside `copied_mol`) -/
theorem molOld_of_copy {h h1 : Heap α} {m c : Nat}
    (hc : stepOn h (.mol m) (.copy 0) = ⟨h1, some (.mol c), none⟩) : ∃ v, MolOld h m v := by
  simp only [stepOn] at hc
  cases e1 : h.mol? m with
  | none => simp [e1] at hc
  | some p =>
    obtain ⟨t, rs, e⟩ := p
    simp only [e1] at hc
    cases e2 : molInit h t rs with
    | error er => simp [e2, allocOk] at hc
    | ok q =>
      obtain ⟨hh, a⟩ := q
      have n := molInit_spec e2
      obtain ⟨v, o, _, _⟩ := molOld_of_init e1 n
      exact ⟨v, o⟩

end

/-- the coordinate side of an old molecule consists of molecule / residue / AtomGro cells … -/
theorem groSide_kind {h : Heap α} {m : Nat} {v : MolView} (o : MolOld h m v) {a : Nat}
    (ha : a ∈ (Obj.mol m).groSide h) :
    (∃ p, h.mol? a = some p) ∨ (∃ l, h.res? a = some l) ∨ (∃ g, h.gro? a = some g) := by
  simp only [Obj.groSide, o.view, List.mem_cons, List.mem_append] at ha
  rcases ha with rfl | ha | ha
  · exact Or.inl o.self
  · exact Or.inr (Or.inl (o.ress a ha))
  · exact Or.inr (Or.inr (o.gros a ha))

/-- … and none of them is an AtomTop cell -/
theorem groSide_not_top {h : Heap α} {m : Nat} {v : MolView} (o : MolOld h m v) {a : Nat}
    (ha : a ∈ (Obj.mol m).groSide h) {t : AtomTopC} (ht : h.top? a = some t) : False := by
  rcases groSide_kind o ha with ⟨p, hp⟩ | ⟨l, hl⟩ | ⟨g, hg⟩
  · exact top_not_mol ht hp
  · exact top_not_res ht hl
  · exact top_not_gro ht hg

section
variable [Scalar α]

/-- **The caller's molecules are never modified.**  `x`, `y` are the molecules handed to
    `Alignment(start=x, end=y)` (both exist in `h`; they may be the same object); `s`, `e` the copies the two
    setters store.  For every operation list run on `[s, e]`: every coordinate-side cell of `x` and of `y`
    (the molecule cell, its residue list cells, its AtomGro cells: positions, velocities, atom numbers,
    gro residue numbers and labels) is unchanged. -/
theorem align_caller_isolated (h h1 h2 : Heap α) (x y s e : Nat)
    (hs : stepOn h (.mol x) (.copy 0) = ⟨h1, some (.mol s), none⟩)
    (he : stepOn h1 (.mol y) (.copy 0) = ⟨h2, some (.mol e), none⟩)
    (hy : ∃ h' c', stepOn h (.mol y) (.copy 0) = ⟨h', some (.mol c'), none⟩)
    (ops : List (Op α)) :
    (∀ a ∈ (Obj.mol x).groSide h, (run h2 [.mol s, .mol e] ops).1.get? a = h.get? a) ∧
    (∀ a ∈ (Obj.mol y).groSide h, (run h2 [.mol s, .mol e] ops).1.get? a = h.get? a) := by
  have k1 := copied_mol hs
  have k2 := copied_mol he
  obtain ⟨vx, ox⟩ := molOld_of_copy hs
  obtain ⟨h', c', hy'⟩ := hy
  obtain ⟨vy, oy⟩ := molOld_of_copy hy'
  have ky := copied_mol hy'
  -- y's view is the same in h1 as in h
  have hvy1 : molView h1 y = some vy := k1.frame.molView oy.view
  have htcy : (Obj.mol y).topCells h1 = (Obj.mol y).topCells h := by
    simp only [Obj.topCells, hvy1, oy.view]
  let S : Nat → Prop := fun a => a ∈ (Obj.mol x).groSide h ∨ a ∈ (Obj.mol y).groSide h
  have hSold : ∀ a, S a → a < h.size := by
    intro a ha
    rcases ha with ha | ha
    · exact k1.xgro_old a ha
    · exact ky.xgro_old a ha
  -- an AtomTop cell of h is not in S
  have hStop : ∀ a, S a → ∀ t, h.top? a = some t → False := by
    intro a ha t ht
    rcases ha with ha | ha
    · exact groSide_not_top ox ha ht
    · exact groSide_not_top oy ha ht
  have hfree : ∀ o ∈ [Obj.mol s, Obj.mol e], Free S h2 o := by
    intro o ho
    simp only [List.mem_cons, List.not_mem_nil, or_false] at ho
    rcases ho with rfl | rfl
    · -- the first copy: free in h1, hence (frame) in h2
      have f1 : Free S h1 (Obj.mol s) := by
        refine ⟨k1.cvalid, ?_⟩
        intro a ha hS
        rcases k1.ccells a ha with hc | hc
        · -- a topology atom of x
          simp only [Obj.topCells, ox.view] at hc
          obtain ⟨t, ht⟩ := ox.tops a hc
          exact hStop a hS t ht
        · have := hSold a hS; omega
      exact f1.frame k2.frame
    · refine ⟨k2.cvalid, ?_⟩
      intro a ha hS
      rcases k2.ccells a ha with hc | hc
      · rw [htcy] at hc
        simp only [Obj.topCells, oy.view] at hc
        obtain ⟨t, ht⟩ := oy.tops a hc
        exact hStop a hS t ht
      · have := hSold a hS
        have := k1.frame.size_le
        omega
  have hS2 : ∀ a, S a → a < h2.size := fun a ha =>
    Nat.lt_of_lt_of_le (Nat.lt_of_lt_of_le (hSold a ha) k1.frame.size_le) k2.frame.size_le
  have key := (run_preserves S ops h2 [.mol s, .mol e] hS2 hfree).1
  have back : ∀ a, S a → h2.get? a = h.get? a := by
    intro a ha
    have o1 := hSold a ha
    rw [k2.frame.same a (Nat.lt_of_lt_of_le o1 k1.frame.size_le) (fun w => w),
      k1.frame.same a o1 (fun w => w)]
  exact ⟨fun a ha => by rw [key a (Or.inl ha), back a (Or.inl ha)],
         fun a ha => by rw [key a (Or.inr ha), back a (Or.inr ha)]⟩

end

/-! ### non-vacuity: a concrete heap with two molecules, both copied, then operated on -/

namespace NonVacuity

/-- an exact computable scalar, used ONLY to evaluate the concrete heap of this example -/
local instance : Scalar Int where
  add := Int.add
  sub := Int.sub
  mul := Int.mul
  div := fun a b => a / b
  neg := Int.neg
  zero := 0
  one := 1
  ofInt n := n
  ofDec m _ := m
  sqrt x := x
  cos x := x
  sin x := x
  isZero x := x == 0
  lt a b := a < b
  le a b := a ≤ b
  round x := x
  abs x := x.natAbs

def g (resid : Int) (rn n : String) (id : Int) (x y z : Int) : AtomGroC Int :=
  ⟨resid, rn, n, id, ⟨x, y, z⟩, none⟩

/-- start molecule (three atoms, two residues): object `.mol 14` -/
def stX : StepR Int := newMol Heap.empty "M"
  [⟨"A1", "RA", 1, 0, [1]⟩, ⟨"A2", "RA", 1, 1, [0, 2]⟩, ⟨"B1", "RB", 2, 2, [1]⟩]
  [[g 1 "RA" "A1" 1 0 0 0, g 1 "RA" "A2" 2 1 0 0], [g 2 "RB" "B1" 3 1 1 0]]

/-- end molecule (two atoms, one residue), loaded after it -/
def stY : StepR Int := newMol stX.heap "N"
  [⟨"C1", "RC", 1, 0, [1]⟩, ⟨"C2", "RC", 1, 1, [0]⟩]
  [[g 7 "RC" "C1" 1 5 5 5, g 7 "RC" "C2" 2 6 5 5]]

private theorem stepR_eta (r : StepR Int) (o : Obj) (h1 : r.ret = some o) (h2 : r.err = none) :
    r = ⟨r.heap, some o, none⟩ := by
  cases r; simp_all

def yAddr : Nat := match stY.ret with | some (.mol a) => a | _ => 0
def h0 : Heap Int := stY.heap
def c1 : StepR Int := stepOn h0 (.mol 14) (.copy 0)
def sAddr : Nat := match c1.ret with | some (.mol a) => a | _ => 0
def c2 : StepR Int := stepOn c1.heap (.mol yAddr) (.copy 0)
def eAddr : Nat := match c2.ret with | some (.mol a) => a | _ => 0
def c3 : StepR Int := stepOn h0 (.mol yAddr) (.copy 0)
def e3Addr : Nat := match c3.ret with | some (.mol a) => a | _ => 0

/-- both setters succeed on the concrete heap, and moving / renumbering the stored copies leaves the
    caller's `.mol 14` and `.mol yAddr` untouched — by the theorem, not by evaluation -/
example :
    (∀ a ∈ (Obj.mol 14).groSide h0,
      (run c2.heap [.mol sAddr, .mol eAddr] [.moveTo 0 ⟨9, 9, 9⟩, .move 1 ⟨1, 2, 3⟩, .setResidsI 1 77]).1.get? a
        = h0.get? a) ∧
    (∀ a ∈ (Obj.mol yAddr).groSide h0,
      (run c2.heap [.mol sAddr, .mol eAddr] [.moveTo 0 ⟨9, 9, 9⟩, .move 1 ⟨1, 2, 3⟩, .setResidsI 1 77]).1.get? a
        = h0.get? a) :=
  align_caller_isolated h0 c1.heap c2.heap 14 yAddr sAddr eAddr
    (stepR_eta c1 (.mol sAddr) (by decide) (by decide))
    (stepR_eta c2 (.mol eAddr) (by decide) (by decide))
    ⟨c3.heap, e3Addr, stepR_eta c3 (.mol e3Addr) (by decide) (by decide)⟩ _

end NonVacuity

end C06
end GMHeap
