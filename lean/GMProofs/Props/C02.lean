import GMProofs.Lemmas.ClosestL
import GMProofs.Lemmas.SortL
/-
  C02 — Exchange map commutes with rigid motion of the reference.
-/
open V3

namespace C02

/-- a proper rotation commutes with the cross product (`R(a×b) = Ra × Rb`) -/
theorem cross_rot {R : M3 ℝ} (h : R.IsRot) (a b : V3 ℝ) :
    V3.cross (M3.mulVec R a) (M3.mulVec R b) = M3.mulVec R (V3.cross a b) := h.cross a b

/-- every `rotation_matrix(axis, θ)` (non-zero axis) is such a proper rotation -/
theorem rotation_matrix_is_rotation (a : V3 ℝ) (θ : ℝ) (ha : a ≠ V3.zero) :
    (rotationMatrix a θ).IsRot := rotationMatrix_isRot a θ ha

/-- non-collinear triple: the local frame is carried along by the rigid motion; in every case the
    first vector and the origin are -/
theorem frame_equivariant {R : M3 ℝ} (h : R.IsRot) (t p0 p1 p2 : V3 ℝ) :
    (calculeBase (rigid R t p0) (rigid R t p1) (rigid R t p2)).e1
        = M3.mulVec R (calculeBase p0 p1 p2).e1 ∧
    (calculeBase (rigid R t p0) (rigid R t p1) (rigid R t p2)).origin
        = rigid R t (calculeBase p0 p1 p2).origin ∧
    (¬ collinearTest (calculeBase p0 p1 p2).e1 (p1 - p0) →
      calculeBase (rigid R t p0) (rigid R t p1) (rigid R t p2) = Frame.rot R t (calculeBase p0 p1 p2)) :=
  ⟨(calculeBase_e1_rigid h.orth t p0 p1 p2).1, (calculeBase_e1_rigid h.orth t p0 p1 p2).2,
    calculeBase_rigid_generic h t p0 p1 p2⟩

/-- every anchor of `(pos, nbrs)` is non-collinear with its two frame neighbours (as the code tests it) -/
def GenericAnchors (pos : List (V3 ℝ)) (nbrs : List (List Nat)) : Prop :=
  ∀ (a : Nat) pa nb (i1 i2 : Nat) p1 p2, pos[a]? = some pa → nbrs[a]? = some nb →
    closestTwo nb = some (i1, i2) → pos[i1]? = some p1 → pos[i2]? = some p2 →
    ¬ collinearTest (calculeBase pa p1 p2).e1 (p1 - pa)

/-- **Equivariance.** If every anchor is non-collinear with its frame neighbours, mapping the rigidly
    moved reference gives the rigidly moved result, atom by atom, exactly. -/
theorem exchange_equivariant {R : M3 ℝ} (hR : R.IsRot) (t : V3 ℝ) (arg : List (V3 ℝ))
    (nbrs : List (List Nat)) (r1 r2 : List (V3 ℝ)) (h3 : 3 ≤ arg.length)
    (hg : GenericAnchors arg nbrs) (m : EMap ℝ)
    (out out' : List (V3 ℝ)) (ha : m.apply nbrs arg r1 = some out)
    (ha' : m.apply nbrs (arg.map (rigid R t)) r2 = some out') :
    ∀ (j : Nat) (o : V3 ℝ), j < m.equiv.length → j < m.proj.length → out[j]? = some o →
      out'[j]? = some (rigid R t o) := by
  intro j o hje hjq ho
  obtain ⟨tab, htab, has⟩ := apply_spec ha
  obtain ⟨tab', htab', has'⟩ := apply_spec ha'
  rw [refsystems_general nbrs _ h3] at htab
  rw [refsystems_general nbrs _ (by simpa using h3)] at htab'
  obtain ⟨a, hja⟩ : ∃ a, m.equiv[j]? = some a := ⟨m.equiv[j], by simp [hje]⟩
  obtain ⟨q, hq⟩ : ∃ q, m.proj[j]? = some q := ⟨m.proj[j], by simp [hjq]⟩
  obtain ⟨F, hF, ho1⟩ := has j a q hja hq
  obtain ⟨F', hF', ho2⟩ := has' j a q hja hq
  have e1 := table_entry htab (lookupFrame_mem hF)
  have e2 := table_entry htab' (lookupFrame_mem hF')
  obtain ⟨G, hG, _, _, hrot⟩ := frameAt_rigid hR t e1
  rw [e2] at hG; cases hG
  obtain ⟨pa, nb, i1, i2, p1, p2, hpa, hnb, hc, hp1, hp2, rfl⟩ := frameAt_spec e1
  have hFrot : F' = Frame.rot R t (calculeBase pa p1 p2) := by
    apply hrot
    intro pa' nb' i1' i2' p1' hpa' hnb' hc' hp1'
    rw [hpa] at hpa'; cases hpa'
    rw [hnb] at hnb'; cases hnb'
    rw [hc] at hc'; cases hc'
    rw [hp1] at hp1'; cases hp1'
    exact hg a pa nb i1 i2 p1 p2 hpa hnb hc hp1 hp2
  rw [ho1] at ho; cases ho
  rw [ho2, hFrot, restore_rot]

/-- **Undetermined axis (collinear anchor).** For ANY two conformations of the reference — in particular a
    conformation and its rigid image — each mapped atom keeps its distance to its anchor, its coordinate
    along the frame's first vector and hence its distance from that axis: they are functions of the stored
    coordinates only. -/
theorem exchange_axial (arg1 arg2 : List (V3 ℝ)) (nbrs : List (List Nat)) (r1 r2 : List (V3 ℝ))
    (h3 : 3 ≤ arg1.length) (h3' : 3 ≤ arg2.length)
    (hd1 : DistinctFrames arg1 nbrs) (hd2 : DistinctFrames arg2 nbrs) (m : EMap ℝ)
    (out1 out2 : List (V3 ℝ)) (ha1 : m.apply nbrs arg1 r1 = some out1)
    (ha2 : m.apply nbrs arg2 r2 = some out2) :
    ∀ (j a : Nat), m.equiv[j]? = some a → j < m.proj.length →
      ∃ (F1 F2 : Frame ℝ) (o1 o2 : V3 ℝ), frameAt arg1 nbrs a = some F1 ∧ frameAt arg2 nbrs a = some F2 ∧
        out1[j]? = some o1 ∧ out2[j]? = some o2 ∧
        V3.norm2 (o1 - F1.origin) = V3.norm2 (o2 - F2.origin) ∧
        V3.dot (o1 - F1.origin) F1.e1 = V3.dot (o2 - F2.origin) F2.e1 := by
  intro j a hja hjq
  obtain ⟨tab1, htab1, has1⟩ := apply_spec ha1
  obtain ⟨tab2, htab2, has2⟩ := apply_spec ha2
  rw [refsystems_general nbrs _ h3] at htab1
  rw [refsystems_general nbrs _ h3'] at htab2
  obtain ⟨q, hq⟩ : ∃ q, m.proj[j]? = some q := ⟨m.proj[j], by simp [hjq]⟩
  obtain ⟨F1, hF1, ho1⟩ := has1 j a q hja hq
  obtain ⟨F2, hF2, ho2⟩ := has2 j a q hja hq
  obtain ⟨hO1, _⟩ := table_frame_ok hd1 htab1 hF1
  obtain ⟨hO2, _⟩ := table_frame_ok hd2 htab2 hF2
  refine ⟨F1, F2, _, _, table_entry htab1 (lookupFrame_mem hF1), table_entry htab2 (lookupFrame_mem hF2),
    ho1, ho2, ?_, ?_⟩
  · rw [(restore_cyl hO1 q).1, (restore_cyl hO2 q).1]
  · rw [(restore_cyl hO1 q).2, (restore_cyl hO2 q).2]

/-- **Two-atom reference** (after the repair of D7: the bond defines the frame's first vector).
    For every pair of random completions, a mapped atom keeps its distance to the first atom and its
    coordinate along the bond: both equal `s` times their construction-time values. -/
theorem exchange_two_atom (p0 p1 p0' p1' r r' t : V3 ℝ) (s : ℝ) (h : p0 ≠ p1) (h' : p0' ≠ p1') :
    let F := calculeBase p0 (r + p0) p1
    let F' := calculeBase p0' (r' + p0') p1'
    let o := restore F' (project F s t)
    F.e1 = V3.divs (p1 - p0) (V3.norm (p1 - p0)) ∧ F'.e1 = V3.divs (p1' - p0') (V3.norm (p1' - p0')) ∧
    V3.norm (o - p0') = |s| * V3.norm (t - p0) ∧
    V3.dot (o - p0') F'.e1 = s * V3.dot (t - p0) F.e1 := by
  intro F F' o
  have hF := calculeBase_orthonormal p0 (r + p0) p1 h
  have hF' := calculeBase_orthonormal p0' (r' + p0') p1' h'
  refine ⟨rfl, rfl, ?_, ?_⟩
  · apply norm_of_norm2
    have := (restore_cyl hF' (project F s t)).1
    rw [show F'.origin = p0' from rfl] at this
    rw [this, project_norm2 hF]
    rfl
  · have := (restore_cyl hF' (project F s t)).2
    rw [show F'.origin = p0' from rfl] at this
    rw [this]
    have ho : F.origin = p0 := rfl
    simp only [project, Frame.mat, gm, ho]
    ring

/-- **One-atom reference.** Only the distance to that atom is determined, and it is preserved
    (`s` times the construction-time distance) for every pair of random completions with a non-zero
    second draw. -/
theorem exchange_one_atom (p0 p0' r1 r2 r1' r2' t : V3 ℝ) (s : ℝ)
    (h : r2 ≠ V3.zero) (h' : r2' ≠ V3.zero) :
    let F := calculeBase p0 (r1 + p0) (r2 + p0)
    let F' := calculeBase p0' (r1' + p0') (r2' + p0')
    V3.norm (restore F' (project F s t) - p0') = |s| * V3.norm (t - p0) := by
  intro F F'
  have ne (p r : V3 ℝ) (hr : r ≠ V3.zero) : p ≠ r + p := by
    intro e
    apply hr
    have hx := congrArg V3.x e; have hy := congrArg V3.y e; have hz := congrArg V3.z e
    simp only [gm] at hx hy hz
    apply V3.ext' <;> simp only [gm] <;> linarith
  have hF := calculeBase_orthonormal p0 (r1 + p0) (r2 + p0) (ne p0 r2 h)
  have hF' := calculeBase_orthonormal p0' (r1' + p0') (r2' + p0') (ne p0' r2' h')
  apply norm_of_norm2
  have := (restore_cyl hF' (project F s t)).1
  rw [show F'.origin = p0' from rfl] at this
  rw [this, project_norm2 hF]
  rfl

/-! ### non-vacuity -/

/-- quarter turn about z is a proper rotation -/
example : (⟨⟨0, -1, 0⟩, ⟨1, 0, 0⟩, ⟨0, 0, 1⟩⟩ : M3 ℝ).IsRot := by
  constructor <;> simp [gm]

end C02
