import GMProofs.Lemmas.TopObjL
import GMProofs.Lemmas.GraphL
import GMProofs.Props.C15
/-
  C15 (work package WPE) — the rest of the topology OBJECT: `MoleculeTop.__eq__` / `__ne__`,
  `copy`, the `resnames` / `resids` getters and setters.

  Model: `GMModel.TopObj` (values; `'{:5}{}'.format(resname, resid)` and
  `'{}{}'.format(resid, resname)` character by character) and the object heap of `GMModel.Graph`
  (`molCopy`) through `TopObj.molOf`.
  A RESIDUE, as the theorems mean it, is a `Run`: a maximal block of consecutive atoms with one
  residue name and one residue number (`IsRuns`; every atom list is uniquely such a concatenation,
  `runs_exist`).
  Only property theorems and non-vacuity examples live here.
-/
set_option linter.unusedSimpArgs false
open Itp TopObj

namespace C15

/-- WHAT `==` COMPARES. `a == b` holds exactly when the molecule names agree, the atom lists have
    the same length and, position by position, the atoms agree in `index`, residue NAME, atom name
    and bond SET (so bonds are compared — through the atoms —, as is atom order);
    the residue NUMBER is not compared: `==` does not change when all residue numbers are erased
    on both sides. `!=` is the negation; a non-`MoleculeTop` is never equal. -/
theorem moltop_eq_spec (a b : MolTop) :
    (molEq a b = true ↔ a.name = b.name ∧ List.Forall₂ AtomSame a.atoms b.atoms) ∧
    molEq a b = molEq (eraseResid a) (eraseResid b) ∧
    (∀ x, molNeArg a x = !molEqArg a x) ∧ molEqArg a .other = false ∧ molNeArg a .other = true := by
  refine ⟨molEq_iff a b, ?_, fun _ => rfl, rfl, rfl⟩
  have h1 := molEq_iff a b
  have h2 := molEq_iff (eraseResid a) (eraseResid b)
  have h3 : (a.name = b.name ∧ List.Forall₂ AtomSame a.atoms b.atoms) ↔
      ((eraseResid a).name = (eraseResid b).name ∧
        List.Forall₂ AtomSame (eraseResid a).atoms (eraseResid b).atoms) := by
    simp only [eraseResid]
    rw [forall2_map_resid]
  cases h : molEq a b <;> cases h' : molEq (eraseResid a) (eraseResid b) <;> simp_all

/-- `==` is an equivalence relation on molecule values -/
theorem moltop_eq_equivalence :
    (∀ a, molEq a a = true) ∧ (∀ a b, molEq a b = true → molEq b a = true) ∧
    (∀ a b c, molEq a b = true → molEq b c = true → molEq a c = true) := by
  refine ⟨fun a => (molEq_iff a a).mpr ⟨rfl, forall2_refl _⟩, ?_, ?_⟩
  · intro a b h
    obtain ⟨h1, h2⟩ := (molEq_iff a b).mp h
    exact (molEq_iff b a).mpr ⟨h1.symm, forall2_symm h2⟩
  · intro a b c h g
    obtain ⟨h1, h2⟩ := (molEq_iff a b).mp h
    obtain ⟨g1, g2⟩ := (molEq_iff b c).mp g
    exact (molEq_iff a c).mpr ⟨h1.trans g1, forall2_trans h2 g2⟩

/-- A COPY IS EQUAL, AND STAYS EQUAL UNTIL ONE SIDE IS EDITED. For a live molecule on the object
    heap: `copy()` succeeds and `original == copy`, `copy == original` both hold right after it;
    `==` between the two is a function of the two object VALUES only, so it keeps holding in every
    later heap in which neither value has changed — whatever was done to other objects —; and by
    `top_copy_independent` an edit through one side changes that side's value only. (Which edits
    `==` then notices is `moltop_eq_spec`: name, atom name, residue name, index, bond set — not
    the residue number.) -/
theorem copy_equal (h : Graph.Heap) (m : Graph.MolTop) (hwf : Graph.WFMol h m)
    (hcl : Graph.OldClosed h.length h) :
    ∃ h' m', Graph.molCopy h m = some (h', m') ∧
      molEqH h' m m' = some true ∧ molEqH h' m' m = some true ∧
      (∀ H, Graph.molValue H m = Graph.molValue h' m → Graph.molValue H m' = Graph.molValue h' m' →
        molEqH H m m' = some true ∧ molEqH H m' m = some true) := by
  obtain ⟨h', m', hc, hv1, hv2, _, _, _⟩ := C15.top_copy_independent h m hwf hcl
  have hlive : ∃ v, molOf h m = some v := by
    rw [molOf_eq_ofValue]
    unfold ofValue Graph.molValue
    simp only
    have : ∀ (as : List Nat), (∀ a ∈ as, ∃ v, Graph.atomValue h a = some v) →
        ∃ l, (as.map (Graph.atomValue h)).mapM
          (fun (o : Option (Str × Str × Int × Nat × List Nat)) => o.map convV) = some l := by
      intro as
      induction as with
      | nil => intro _; exact ⟨[], rfl⟩
      | cons a t ih =>
        intro hall
        obtain ⟨v, hv⟩ := hall a (by simp)
        obtain ⟨l, hl⟩ := ih (fun x hx => hall x (by simp [hx]))
        exact ⟨convV v :: l, by simp [List.mapM_cons, hv, hl]⟩
    obtain ⟨l, hl⟩ := this m.atoms (by
      intro a ha
      obtain ⟨n, r, i, x, b, e, h1, h2⟩ := hwf a ha
      exact ⟨(n, r, i, x, e), Graph.atomValue_some_iff.mpr ⟨b, h1, h2⟩⟩)
    exact ⟨⟨m.name, l⟩, by rw [hl]; rfl⟩
  obtain ⟨v, hv⟩ := hlive
  have e1 : molOf h' m = some v := by rw [molOf_eq_ofValue, hv2, ← molOf_eq_ofValue, hv]
  have e2 : molOf h' m' = some v := by rw [molOf_eq_ofValue, hv1, ← molOf_eq_ofValue, hv]
  have hrefl : molEq v v = true := moltop_eq_equivalence.1 v
  have key : molEqH h' m m' = some true ∧ molEqH h' m' m = some true := by
    unfold molEqH; simp [e1, e2, hrefl]
  refine ⟨h', m', hc, key.1, key.2, ?_⟩
  intro H g1 g2
  rw [molEqH_congr g1 g2, molEqH_congr g2 g1]
  exact key

/-- every atom list is the concatenation of its residues (runs) -/
theorem runs_exist (l : List AtomTop) : ∃ rs, IsRuns rs ∧ flat rs = l := exists_runs l

/-- `resnames` ARE THE RESIDUES' NAMES — under the explicit hypothesis that every residue name has
    at most 5 characters and no blank at either end (`WFName`; true of every whitespace-free token
    of ≤ 5 characters): one entry per residue, in order, the residue's name. Outside the hypothesis
    the string grouping fails: see `resnames_long_name_merges`, `resnames_long_name_truncated`. -/
theorem resnames_are_runs (name : Str) (rs : List Run) (h : IsRuns rs)
    (hwf : ∀ r ∈ rs, WFName r.resname) :
    resnames ⟨name, flat rs⟩ = rs.map (·.resname) := by
  unfold resnames
  simp only
  rw [groupKeys_runs resKey keyOf rs (keyRuns_resKey h hwf), List.map_map]
  apply List.map_congr_left
  intro r hr
  simp only [Function.comp, keyOf, resKey]
  rw [take5_key (hwf r hr).1, strip_fmt5, (hwf r hr).2]

/-- `resids` ARE THE RESIDUES' NUMBERS, under the same hypothesis: no exception, one entry per
    residue, in order, the residue's number (any `int`, negative included). -/
theorem resids_are_runs (name : Str) (rs : List Run) (h : IsRuns rs)
    (hwf : ∀ r ∈ rs, WFName r.resname) :
    resids ⟨name, flat rs⟩ = .ok (rs.map (·.resid)) := by
  unfold resids
  simp only
  rw [groupKeys_runs resKey keyOf rs (keyRuns_resKey h hwf)]
  have : ∀ (l : List Run), (∀ r ∈ l, WFName r.resname) →
      (l.map keyOf).mapM (fun k => pyIntE (k.drop 5)) = .ok (l.map (·.resid)) := by
    intro l
    induction l with
    | nil => intro _; rfl
    | cons r t ih =>
      intro hw
      have h1 : pyIntE ((keyOf r).drop 5) = .ok r.resid := by
        simp only [keyOf, resKey]
        rw [drop5_key (hw r (by simp)).1, pyIntE_intRepr]
      simp only [List.map_cons, List.mapM_cons, h1, ih (fun x hx => hw x (by simp [hx])),
        bind, Except.bind, pure, Except.pure]
  exact this rs hwf

/-- `mol.resnames = new`: SPECIFICATION. Hypotheses: the molecule is not empty, and every residue
    name has ≤ 5 characters, no blank at either end (`WFName`, for the length check through the
    getter) and does not begin with a digit (`NoDigitHead`, because the loop tells residues apart
    by `'{}{}'.format(resid, resname)`: see `setter_digit_name_merges`). Then:
    a list of the right length is accepted and every atom of the `k`-th residue gets the `k`-th
    name, nothing else changes (atom names, residue numbers, indices, bond sets, molecule name);
    a list of any other length, or a non-list, is refused with `ValueError` and nothing changes. -/
theorem resnames_setter_spec (name : Str) (rs : List Run) (new : List Str) (h : IsRuns rs)
    (hne : rs ≠ []) (hwf : ∀ r ∈ rs, WFName r.resname) (hnd : ∀ r ∈ rs, NoDigitHead r.resname) :
    (new.length = rs.length → setResnames ⟨name, flat rs⟩ true new =
      (none, ⟨name, assign (fun a v => { a with resname := v }) rs new⟩)) ∧
    (new.length ≠ rs.length → setResnames ⟨name, flat rs⟩ true new =
      (some .ValueError, ⟨name, flat rs⟩)) ∧
    setResnames ⟨name, flat rs⟩ false new = (some .ValueError, ⟨name, flat rs⟩) := by
  have hlen : (resnames ⟨name, flat rs⟩).length = rs.length := by
    rw [resnames_are_runs name rs h hwf]; simp
  refine ⟨?_, ?_, by simp [setResnames]⟩
  · intro hl
    obtain ⟨r, rest, rfl⟩ := List.exists_cons_of_ne_nil hne
    obtain ⟨a0, t, hat⟩ := List.exists_cons_of_ne_nil (h.1 r (by simp)).1
    have hf : flat (r :: rest) = a0 :: (t ++ flat rest) := by rw [flat_cons, hat]; rfl
    unfold setResnames
    simp only [Bool.not_true, Bool.false_eq_true, if_false, hlen, hl, ne_eq, not_true_eq_false]
    have hs := setLoop_spec (fun a v => { a with resname := v }) new h hnd hl a0 _ hf
    rw [hf] at hs ⊢
    simp only [resnamesLoop, hs]
  · intro hl
    unfold setResnames
    simp [hlen, hl]

/-- `mol.resids = new`: SPECIFICATION, same hypotheses and same shape: every atom of the `k`-th
    residue gets the `k`-th number; wrong length or non-list → `ValueError`, nothing changes. -/
theorem resids_setter_spec (name : Str) (rs : List Run) (new : List Int) (h : IsRuns rs)
    (hne : rs ≠ []) (hwf : ∀ r ∈ rs, WFName r.resname) (hnd : ∀ r ∈ rs, NoDigitHead r.resname) :
    (new.length = rs.length → setResids ⟨name, flat rs⟩ true new =
      (none, ⟨name, assign (fun a v => { a with resid := v }) rs new⟩)) ∧
    (new.length ≠ rs.length → setResids ⟨name, flat rs⟩ true new =
      (some .ValueError, ⟨name, flat rs⟩)) ∧
    setResids ⟨name, flat rs⟩ false new = (some .ValueError, ⟨name, flat rs⟩) := by
  have hget := resids_are_runs name rs h hwf
  refine ⟨?_, ?_, by simp [setResids]⟩
  · intro hl
    obtain ⟨r, rest, rfl⟩ := List.exists_cons_of_ne_nil hne
    obtain ⟨a0, t, hat⟩ := List.exists_cons_of_ne_nil (h.1 r (by simp)).1
    have hf : flat (r :: rest) = a0 :: (t ++ flat rest) := by rw [flat_cons, hat]; rfl
    unfold setResids
    simp only [Bool.not_true, Bool.false_eq_true, if_false, hget, List.length_map, hl, ne_eq,
      not_true_eq_false]
    have hs := setLoop_spec (fun a v => { a with resid := v }) new h hnd hl a0 _ hf
    rw [hf] at hs ⊢
    simp only [residsLoop, hs]
  · intro hl
    unfold setResids
    simp [hget, hl]

/-- the empty molecule (which no file produces): both setters raise `IndexError` (`self[0]`) on
    the only list that passes the length check -/
theorem setters_empty_molecule (name : Str) :
    setResnames ⟨name, []⟩ true [] = (some .IndexError, ⟨name, []⟩) ∧
    setResids ⟨name, []⟩ true [] = (some .IndexError, ⟨name, []⟩) := by
  constructor <;> rfl

/-- `mol.index(atom)`: the FIRST position whose atom `==` the argument (so an atom of a copy, or any
    equal atom, is found at the position of its original unless an equal atom precedes it);
    `ValueError` exactly when no atom of the molecule `==` it. -/
theorem index_spec (m : MolTop) (x : AtomTop) :
    (∀ i, molIndex m x = .ok i → (∃ a, m.atoms[i]? = some a ∧ AtomSame a x) ∧
      ∀ j, j < i → ∀ b, m.atoms[j]? = some b → ¬ AtomSame b x) ∧
    (molIndex m x = .error .ValueError ↔ ∀ a ∈ m.atoms, ¬ AtomSame a x) := by
  obtain ⟨h1, h2, _⟩ := indexGo_spec x m.atoms 0
  exact ⟨fun i h => ⟨by simpa using (h1 i h).2.1, by simpa using (h1 i h).2.2⟩, h2⟩

/-- GET AFTER SET. After an accepted `mol.resnames = new` whose new names satisfy the hypothesis
    and keep consecutive residues distinguishable, `mol.resnames` reads `new` and `mol.resids` the
    old numbers. (If two consecutive residues end up with the same name AND number they become one
    residue for every later call: the hypothesis `AdjDiff` is needed.) -/
theorem resnames_get_after_set (name : Str) (rs : List Run) (new : List Str) (h : IsRuns rs)
    (hne : rs ≠ []) (hwf : ∀ r ∈ rs, WFName r.resname) (hnd : ∀ r ∈ rs, NoDigitHead r.resname)
    (hl : new.length = rs.length) (hnew : ∀ v ∈ new, WFName v) (hadj : AdjDiff (renamed rs new)) :
    let m' := (setResnames ⟨name, flat rs⟩ true new).2
    (setResnames ⟨name, flat rs⟩ true new).1 = none ∧ resnames m' = new ∧
    resids m' = .ok (rs.map (·.resid)) := by
  have hs := (resnames_setter_spec name rs new h hne hwf hnd).1 hl
  simp only [hs]
  have hr : IsRuns (renamed rs new) := by
    refine ⟨?_, hadj⟩
    intro r hr
    unfold renamed at hr
    rw [List.mem_iff_getElem?] at hr
    obtain ⟨i, hi⟩ := hr
    rw [List.getElem?_zipWith] at hi
    cases h1 : rs[i]? with
    | none => simp [h1] at hi
    | some r0 =>
      cases h2 : new[i]? with
      | none => simp [h1, h2] at hi
      | some v =>
        simp only [h1, h2, Option.map₂_some_some, Option.some.injEq] at hi
        subst hi
        have hok := h.1 r0 (List.mem_of_getElem? h1)
        refine ⟨by simpa using hok.1, ?_⟩
        intro a ha
        simp only [List.mem_map] at ha
        obtain ⟨a0, ha0, rfl⟩ := ha
        exact ⟨rfl, (hok.2 a0 ha0).2⟩
  have hwf' : ∀ r ∈ renamed rs new, WFName r.resname := by
    intro r hr
    unfold renamed at hr
    rw [List.mem_iff_getElem?] at hr
    obtain ⟨i, hi⟩ := hr
    rw [List.getElem?_zipWith] at hi
    cases h1 : rs[i]? with
    | none => simp [h1] at hi
    | some r0 =>
      cases h2 : new[i]? with
      | none => simp [h1, h2] at hi
      | some v =>
        simp only [h1, h2, Option.map₂_some_some, Option.some.injEq] at hi
        subst hi
        exact hnew v (List.mem_of_getElem? h2)
  have e1 := resnames_are_runs name (renamed rs new) hr hwf'
  have e2 := resids_are_runs name (renamed rs new) hr hwf'
  rw [flat_renamed] at e1 e2
  refine ⟨trivial, ?_, ?_⟩
  · rw [e1]
    unfold renamed
    apply List.ext_getElem?
    intro i
    simp only [List.getElem?_map, List.getElem?_zipWith]
    cases h1 : rs[i]? with
    | none =>
      have : new[i]? = none := by
        rw [List.getElem?_eq_none_iff] at h1 ⊢; omega
      simp [h1, this]
    | some r0 =>
      cases h2 : new[i]? with
      | none =>
        have : rs[i]? = none := by
          rw [List.getElem?_eq_none_iff] at h2 ⊢; omega
        simp [this] at h1
      | some v => simp [h1, h2]
  · rw [e2]
    congr 1
    unfold renamed
    apply List.ext_getElem?
    intro i
    simp only [List.getElem?_map, List.getElem?_zipWith]
    cases h1 : rs[i]? with
    | none => simp [h1]
    | some r0 =>
      cases h2 : new[i]? with
      | none =>
        have : rs[i]? = none := by
          rw [List.getElem?_eq_none_iff] at h2 ⊢; omega
        simp [this] at h1
      | some v => simp [h1, h2]


/-! ### non-vacuity and the computed counterexamples outside the hypotheses (evaluated) -/

def at_ (n r : Str) (i : Int) (x : Nat) (b : List Nat) : AtomTop := ⟨n, r, i, x, b⟩

/-- three residues `MOL 1 | MOL 2 | W -3`, a bond graph: getters, a setter, `==` -/
def exMol : MolTop :=
  ⟨['M'], [at_ ['C', '1'] ['M', 'O', 'L'] 1 0 [1], at_ ['C', '2'] ['M', 'O', 'L'] 1 1 [0, 2], at_ ['C', '3'] ['M', 'O', 'L'] 2 2 [1], at_ ['O'] ['W'] (-3) 3 []]⟩

example : resnames exMol = [['M', 'O', 'L'], ['M', 'O', 'L'], ['W']] ∧ resids exMol = .ok [1, 2, -3] := by
  decide

example : (setResnames exMol true [['A'], ['B'], ['C']]).1 = none ∧
    (setResnames exMol true [['A'], ['B'], ['C']]).2.atoms.map (·.resname) =
      [['A'], ['A'], ['B'], ['C']] ∧
    (setResids exMol true [7, 8]).1 = some .ValueError := by decide

/-- `==`: a copy is equal; a changed residue NUMBER goes unnoticed; a changed bond, atom name,
    residue name or atom order is noticed -/
example :
    molEq exMol (molCopy exMol) = true ∧
    molEq exMol { exMol with atoms := exMol.atoms.map (fun a => { a with resid := a.resid + 5 }) } = true ∧
    molEq exMol { exMol with atoms := exMol.atoms.map (fun a => { a with bonds := a.bonds.filter (· ≠ 2) }) } = false ∧
    molEq exMol { exMol with atoms := exMol.atoms.map (fun a => { a with resname := ['X'] }) } = false ∧
    molEq exMol { exMol with atoms := exMol.atoms.reverse } = false ∧
    molEq exMol { exMol with name := ['N'] } = false := by decide

/-- a live two-atom molecule on the heap, copied: equal both ways -/
example :
    let h0 : Graph.Heap := [.set [1], .atom ['A'] ['R'] 1 0 0, .set [0], .atom ['B'] ['R'] 1 1 2]
    let m : Graph.MolTop := ⟨['M'], [1, 3]⟩
    (Graph.molCopy h0 m).map (fun (h', m') => (molEqH h' m m', molEqH h' m' m)) =
      some (some true, some true) := by decide

/-- COUNTEREXAMPLE outside `WFName` (computed): residue `ABCDE1` number 2 followed by residue
    `ABCDE` number 12 — two residues — have the same key `"ABCDE12"`: `resnames` reports ONE residue
    `ABCDE`, `resids` reports `[12]`. -/
theorem resnames_long_name_merges :
    let m : MolTop := ⟨['M'], [at_ ['C', '1'] ['A', 'B', 'C', 'D', 'E', '1'] 2 0 [], at_ ['C', '2'] ['A', 'B', 'C', 'D', 'E'] 12 1 []]⟩
    resnames m = [['A', 'B', 'C', 'D', 'E']] ∧ resids m = .ok [12] := by decide

/-- COUNTEREXAMPLE outside `WFName` (computed): a 6-character residue name is reported cut to 5
    characters, and `resids` raises `ValueError` (`int("F7")`) — so does the `resids` setter. -/
theorem resnames_long_name_truncated :
    let m : MolTop := ⟨['M'], [at_ ['C', '1'] ['A', 'B', 'C', 'D', 'E', 'F'] 7 0 []]⟩
    resnames m = [['A', 'B', 'C', 'D', 'E']] ∧ resids m = .error .ValueError ∧
    (setResids m true [1]).1 = some .ValueError := by decide

/-- COUNTEREXAMPLE outside `NoDigitHead` (computed): residue `1AB` number 1 followed by residue
    `AB` number 11 — the getter counts two residues, the setter's `residname` is `"11AB"` for both,
    so `resnames = ["X", "Y"]` is accepted and renames BOTH residues `X`. -/
theorem setter_digit_name_merges :
    let m : MolTop := ⟨['M'], [at_ ['C', '1'] ['1', 'A', 'B'] 1 0 [], at_ ['C', '2'] ['A', 'B'] 11 1 []]⟩
    resnames m = [['1', 'A', 'B'], ['A', 'B']] ∧
    (setResnames m true [['X'], ['Y']]).1 = none ∧
    (setResnames m true [['X'], ['Y']]).2.atoms.map (·.resname) = [['X'], ['X']] := by
  decide

end C15
