import GMProofs.Lemmas.SystemRecL
/-
  C11 — System recognises exactly the molecule instances present, in file order.

  Model: `GMModel.SystemRec` on top of `GMModel.SysGro`.
  * `SRec.addPattern / firstMatch / findAll / sortByStart / RecState.instances` — the recognition
    algorithm of `System.add_molecule_top` on the integer kind stream, with the `Molecule(...)`
    construction abstracted as `check : start ↦ len_mol | error`;
  * `SRec.addMoleculeTop / Sys.access / molAt` — the concrete `System` (signature lookup through the
    `(resname, len)` dictionary of C12, real residue reads through the C12 cursor machine, atom-by-atom name
    check); `add_molecule_top_refines` says the concrete method IS `addPattern` on the projection.

  The file is described as in the property: a list of blocks, each a whole molecule of a species
  (`Block.mol s`, kinds `pat s`) or one unrelated residue (`Block.foreign k`); `WF` = patterns non-empty,
  kinds ≥ 0, kind sets of different species disjoint, foreign kinds in no species.
  Only property theorems and non-vacuity examples live here.
-/
open SGro SRec

namespace C11

/-- **match_only_at_block_start.**  In the kind stream of a well-formed file (whatever has been consumed
    already), for a species `s` that has not been loaded:
    (1) a window equal to `s`'s pattern can only start INSIDE a block of `s`
        (`blocksLen pre ≤ i < blocksLen pre + len`) — not necessarily at its first residue when the pattern
        overlaps itself (`CR CR`: see the example below), which is why the scan must, and does, jump a whole
        pattern length after a match (`scan_consumes_whole_blocks`);
    (2) the first match `_check_index_in_available_mgro` reports is the first residue of the first block of `s`. -/
theorem match_only_at_block_start (pat : Nat → List Int) (blocks : List Block) (hwf : WF pat blocks)
    (ld : Nat → Bool) (s : Nat) (hs : Block.mol s ∈ blocks) (hld : ld s = false) :
    (∀ i, ((blockStream pat ld blocks).drop i).take (pat s).length = pat s →
      ∃ pre post, blocks = pre ++ Block.mol s :: post ∧ blocksLen pat pre ≤ i ∧
        i < blocksLen pat pre + (pat s).length) ∧
    (∀ pre post, blocks = pre ++ Block.mol s :: post → Block.mol s ∉ pre →
      firstMatch (blockStream pat ld blocks) (pat s) = .ok (blocksLen pat pre)) := by
  refine ⟨fun i hw => window_in_own_block pat hwf ld s hs hld blocks (fun _ h => h) i hw, ?_⟩
  intro pre post hb hpre
  rw [hb]
  exact firstMatch_blocks pat hwf ld s hs hld pre post hpre (fun b hb' => by rw [hb]; simp [hb'])

/-- the scan of `_find_all_molecules_and_replace`, started at any run boundary with any entries recorded so
    far, consumes exactly the blocks of `s` (writes `-1` over them and nothing else) and records one
    `(mol_index, start, amount)` per maximal run of adjacent blocks of `s` -/
theorem scan_consumes_whole_blocks (pat : Nat → List Int) (univ : List Block) (hwf : WF pat univ)
    (ld : Nat → Bool) (s m : Nat) (hs : Block.mol s ∈ univ) (hld : ld s = false)
    (runs : List Run) (hok : RunsOK univ runs) (off : Nat) (ord : List Entry) :
    findAll (pat s) m ((stream pat ld runs).length + 1) off (stream pat ld runs) true ord =
      .ok (stream pat (fun x => x == s || ld x) runs,
           ord ++ canon pat (fun x => if x = s then some m else none) off runs) :=
  scan_runs pat hwf ld s m hs hld runs off true ord hok (by intro h; cases h)

/-- **recognise_exact.**  Load any list of distinct species that occur in the file, IN ANY ORDER, with the
    `Molecule(...)` construction succeeding at the blocks of the species (names match): no `add` raises, and
    the instance generator then yields exactly one `(index in different_molecules, first residue, end residue)`
    per block of a loaded species, in file order (`expected`), each covering exactly its block's residues —
    hence contiguous and pairwise disjoint; every consumed residue is marked, nothing else is. -/
theorem recognise_exact (pat : Nat → List Int) (blocks : List Block) (hwf : WF pat blocks)
    (order : List Nat) (hnd : order.Nodup) (hpres : ∀ s ∈ order, Block.mol s ∈ blocks)
    (check : Nat → Nat → Except PyErr Nat)
    (hcheck : ∀ s ∈ order, ∀ pre post, blocks = pre ++ Block.mol s :: post →
      check s (blocksLen pat pre) = .ok (pat s).length) :
    ∃ st, loadAll pat check (initState pat blocks) order = .ok st ∧
      st.instances = .ok (expected pat (rankOf order) 0 blocks) ∧
      st.avail = blockStream pat (ldOf order) blocks ∧
      st.len = (expected pat (rankOf order) 0 blocks).length := by
  obtain ⟨st, h1, h2, h3, _, h5⟩ := recognise_blocks pat blocks hwf order hnd hpres check hcheck
  exact ⟨st, h1, h2, h3, h5⟩

/-- **recognise_order_irrelevant.**  Two loading orders that are permutations of each other give the same
    instance list once the `different_molecules` index is replaced by the species loaded at that index, and
    the same consumed stream. -/
theorem recognise_order_irrelevant (pat : Nat → List Int) (blocks : List Block) (hwf : WF pat blocks)
    (o1 o2 : List Nat) (hperm : o1.Perm o2) (hnd : o1.Nodup) (hpres : ∀ s ∈ o1, Block.mol s ∈ blocks)
    (check : Nat → Nat → Except PyErr Nat)
    (hcheck : ∀ s ∈ o1, ∀ pre post, blocks = pre ++ Block.mol s :: post →
      check s (blocksLen pat pre) = .ok (pat s).length) :
    ∃ st1 st2 i1 i2, loadAll pat check (initState pat blocks) o1 = .ok st1 ∧
      loadAll pat check (initState pat blocks) o2 = .ok st2 ∧
      st1.instances = .ok i1 ∧ st2.instances = .ok i2 ∧
      relabel o1 i1 = relabel o2 i2 ∧ st1.avail = st2.avail := by
  obtain ⟨st1, h1, hi1, ha1, _⟩ := recognise_exact pat blocks hwf o1 hnd hpres check hcheck
  obtain ⟨st2, h2, hi2, ha2, _⟩ := recognise_exact pat blocks hwf o2 (hperm.nodup_iff.mp hnd)
    (fun s hs => hpres s (hperm.mem_iff.mpr hs)) check (fun s hs => hcheck s (hperm.mem_iff.mpr hs))
  refine ⟨st1, st2, _, _, h1, h2, hi1, hi2, ?_, ?_⟩
  · rw [relabel_expected, relabel_expected, ldOf_perm hperm]
  · rw [ha1, ha2, ldOf_perm hperm]

/-- **unmatched_refused.**  If no full window of `_available_mgro_ordered` equals the pattern, and
    `Molecule(...)` rejects a residue slice clipped by the end of the file (it does: the atom counts
    differ), `add_molecule_top` raises. -/
theorem unmatched_refused (st : RecState) (p : List Int) (check : Nat → Except PyErr Nat)
    (hno : ∀ k, (st.avail.drop k).take p.length ≠ p)
    (hclip : ∀ start n, check start = .ok n → start + p.length ≤ st.avail.length) :
    ∃ e, addPattern st p check = .error e :=
  addPattern_refused st p check hno hclip

/-- … and a raise leaves `different_molecules`, `_molecules_ordered`, `_available_mgro_ordered` and the
    coordinate-file view exactly as they were (concrete `System.add_molecule_top`; only the file cursor,
    which no access depends on — C12 — may have moved). -/
theorem refused_leaves_state (s : Sys) (t : Top) (e : PyErr) (h : (addMoleculeTop s t).1 = .error e) :
    (addMoleculeTop s t).2.mols = s.mols ∧ (addMoleculeTop s t).2.ordered = s.ordered ∧
    (addMoleculeTop s t).2.avail = s.avail ∧ (addMoleculeTop s t).2.sg = s.sg ∧
    (addMoleculeTop s t).2.gro = s.gro :=
  addMoleculeTop_error_unchanged s t e h

/-- the concrete `System.add_molecule_top` refines `addPattern`: same outcome, and the projection of the new
    state is `addPattern`'s state, with `check` = read the residues at the first match through the
    coordinate-file view and construct the `Molecule` -/
theorem add_molecule_top_refines (s : Sys) (t : Top) (rl : List (Str × Nat)) (p : List Int)
    (h1 : resnameLenList t = .ok rl) (h2 : lookupPattern s.sg.pk rl = .ok p) :
    match addPattern s.toRec p (fun start => (buildAt s t p.length start).1.map (fun m => m.residues.length)) with
    | .ok st' => (addMoleculeTop s t).1 = .ok () ∧ (addMoleculeTop s t).2.toRec = st'
    | .error e => (addMoleculeTop s t).1 = .error e :=
  addMoleculeTop_rec s t rl p h1 h2

/-- **instance_is_file_run.**  Whatever the file cursor, the molecule built for an instance
    `(index, a, b)` with `a ≤ b ≤ len(view)` holds exactly the residues `a, …, b-1` of the coordinate-file
    view (C12: the file's atom records, in order), its topology is the loaded one, and the atoms match the
    topology atom by atom (residue name and atom name) — otherwise `Molecule(...)` raises. -/
theorem instance_is_file_run (s : Sys) (gs : List Residue) (hL : Loaded s.gro s.sg gs) (c : Cursor)
    (m a b : Nat) (hab : a ≤ b) (hb : b ≤ gs.length) (idx : Nat) (mol : Mol)
    (h : (molAt s c (m, a, b)).1 = .ok (idx, mol)) :
    idx = m ∧ mol.residues = (gs.drop a).take (b - a) ∧
    (∃ m0, s.mols[m]? = some m0 ∧ mol.top = m0.top) ∧ molMatch mol.top mol.residues = true := by
  rw [molAt_pure s gs hL] at h
  unfold molPure at h
  simp only at h
  cases hm : s.mols[m]? with
  | none => rw [hm] at h; cases h
  | some m0 =>
    rw [hm, isliceExt_window gs a b hab hb] at h
    simp only at h
    cases hk : mkMolecule m0.top ((gs.drop a).take (b - a)) with
    | error e => rw [hk] at h; cases h
    | ok mol' =>
      rw [hk] at h
      simp only [Except.ok.injEq, Prod.mk.injEq] at h
      obtain ⟨h1, h2⟩ := h
      subst h2
      obtain ⟨ht, hr, hmm⟩ := mkMolecule_ok hk
      exact ⟨h1.symm, hr, ⟨m0, rfl, ht⟩, by rw [ht, hr]; exact hmm⟩

/-- **len_comp_index_agree.**  `len`, `composition` (for every name: the number of instances whose
    species has that name), integer indexing (negative from the end, `IndexError` outside
    `[-n, n)`), slicing and iteration all describe the one list `inst` the instance generator yields:
    `len` is its length; `system[i]` builds the molecule of Python's `inst[i]`; a slice builds the molecules of
    Python's slice of `inst`; iteration builds all of them in order — independently of the file cursor. -/
theorem len_comp_index_agree (s : Sys) (gs : List Residue) (hL : Loaded s.gro s.sg gs)
    (inst : List Entry) (hi : s.toRec.instances = .ok inst) :
    s.toRec.len = inst.length ∧
    (∀ comp, s.composition = .ok comp → ∀ nm, counterGet comp nm =
      (inst.filter (fun e => (s.mols[e.1]?.map (fun m => m.top.name)) == some nm)).length) ∧
    (∀ i, inst ≠ [] → (s.access (.get i)).1 = match pyIndex inst i with
      | some e => (molPure s.mols gs e).map (fun x => [x])
      | none => .error .IndexError) ∧
    (∀ a b st, (s.access (.slice a b st)).1 = match isliceExt inst a b st with
      | .ok sel => molsPure s.mols gs sel
      | .error e => .error e) ∧
    (s.access .iterAll).1 = molsPure s.mols gs inst := by
  refine ⟨instancesGo_length _ _ _ hi, ?_, ?_, ?_, ?_⟩
  · intro comp hc nm
    rw [composition_spec s comp hc nm]
    exact instancesGo_count s.toRec.lens
      (fun idx => (s.mols[idx]?.map (fun m => m.top.name)) == some nm) s.ordered inst hi
  · intro i hne
    simp only [Sys.access, hi]
    rw [pickInt_eq_pyIndex inst i hne]
    cases hp : pyIndex inst i with
    | none => rfl
    | some e =>
      simp only
      rw [molAt_pure s gs hL]
      apply stopToIndex_id
      intro er her
      cases hm : molPure s.mols gs e with
      | ok x => rw [hm] at her; cases her
      | error e' =>
        rw [hm] at her
        simp only [Except.map] at her
        injection her with her
        subst her
        exact molPure_error _ _ _ _ hm
  · intro a b st
    simp only [Sys.access, hi]
    cases isliceExt inst a b st with
    | error e => rfl
    | ok sel =>
      simp only
      rw [molsAt_pure s gs hL]
      exact stopToIndex_id _ (fun er her => molsPure_error _ _ _ _ her)
  · simp only [Sys.access, hi]
    rw [molsAt_pure s gs hL]

/-! ### non-vacuity -/

/-- three species: single residue `[0]`, two residues `[1,2]`, the same residue twice `[3,3]`;
    kind 4 is an (unloaded) solvent -/
def exPat : Nat → List Int
  | 0 => [0]
  | 1 => [1, 2]
  | 2 => [3, 3]
  | _ => []

def exBlocks : List Block :=
  [.mol 2, .mol 2, .foreign 4, .mol 0, .mol 1, .mol 2, .foreign 4, .foreign 4, .mol 0, .mol 0, .mol 1]

/-- `Molecule(...)` accepts a window iff it is complete (names are not modelled at this level) -/
def exCheck : Nat → Nat → Except PyErr Nat := fun s _ => .ok (exPat s).length

theorem exMol {s : Nat} (h : Block.mol s ∈ exBlocks) : s = 0 ∨ s = 1 ∨ s = 2 := by
  simp [exBlocks] at h; omega

/-- the hypotheses of `recognise_exact` hold for this file -/
theorem exWF : WF exPat exBlocks := by
  refine ⟨?_, ?_, ?_, ?_⟩
  · intro s hs
    rcases exMol hs with rfl | rfl | rfl <;> simp [exPat]
  · intro s hs k hk
    rcases exMol hs with rfl | rfl | rfl <;> simp [exPat] at hk <;> omega
  · intro s s' hs hs' hne k hk
    rcases exMol hs with rfl | rfl | rfl <;> rcases exMol hs' with rfl | rfl | rfl <;>
      simp [exPat] at hk ⊢ <;> first | omega | exact absurd rfl hne
  · intro s k hs hk
    have hk4 : k = 4 := by simp [exBlocks] at hk; exact hk
    subst hk4
    rcases exMol hs with rfl | rfl | rfl <;> simp [exPat]

/-- `recognise_exact` applied to that file, loading order CCC, AAA, BBB: eight instances in file order;
    the right-hand side is `expected` evaluated in the kernel -/
example : ∃ st, loadAll exPat exCheck (initState exPat exBlocks) [2, 0, 1] = .ok st ∧
    st.instances = .ok [(0, 0, 2), (0, 2, 4), (1, 5, 6), (2, 6, 8), (0, 8, 10), (1, 12, 13), (1, 13, 14), (2, 14, 16)] ∧
    st.avail = [-1, -1, -1, -1, 4, -1, -1, -1, -1, -1, 4, 4, -1, -1, -1, -1] := by
  obtain ⟨st, h1, h2, h3, _⟩ := recognise_exact exPat exBlocks exWF [2, 0, 1] (by decide) (by decide) exCheck
    (fun _ _ _ _ _ => rfl)
  exact ⟨st, h1, by rw [h2]; exact congrArg _ (by decide), by rw [h3]; decide⟩

/-- the scan itself evaluated in the kernel (a test): `CR CR` twice in a row is ONE entry of amount 2, the
    later lone molecule a second entry -/
example : findAll (exPat 2) 7 17 0 (blockStream exPat (fun _ => false) exBlocks) true [] =
    .ok ([-1, -1, -1, -1, 4, 0, 1, 2, -1, -1, 4, 4, 0, 0, 1, 2], [(7, 0, 2), (7, 8, 1)]) := by
  rfl

/-- why (1) of `match_only_at_block_start` says "inside", not "at the start": with the self-overlapping
    pattern `CR CR` a window matches in the middle of two adjacent molecules -/
example : ((blockStream exPat (fun _ => false) [.mol 2, .mol 2]).drop 1).take 2 = exPat 2 := by decide

/-- the numpy paths of the first-match search: a window cut short by the end of the array broadcasts
    (`[3] == [3,3]` is all-True: reported as a match, later refused by `Molecule(...)`) or raises -/
example : firstMatch [4, 3] [3, 3] = .ok 1 ∧ firstMatch [4, 1, 2] [1, 2, 1] = .error .ValueError ∧
    firstMatch [4, 1] [1, 2] = .error .IOError := ⟨rfl, rfl, rfl⟩

/-- a refusal: the pattern `[1,2]` does not occur in `[2,1,4]` -/
example : ∃ e, addPattern ⟨[2, 1, 4], [], []⟩ [1, 2]
    (fun start => if start + 2 ≤ 3 then .ok 2 else .error .IOError) = .error e :=
  unmatched_refused _ _ _ (by
    intro k
    rcases k with _ | _ | _ | _ | k <;> simp) (by
    intro start n h
    by_cases hs : start + 2 ≤ 3
    · simpa using hs
    · simp [hs] at h)

end C11
