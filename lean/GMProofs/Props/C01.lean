import GMProofs.Lemmas.ClosestL
import GMProofs.Lemmas.EMapDefinedL
/-
  C01 — Exchange map reproduces the aligned target (anchor-and-scale law).

  Model: `GMModel.ExchangeMap` (`EMap.build`, `EMap.apply`) over `GMModel.Frame.calculeBase`, at ℝ.
  References of three or more atoms; the only geometric hypothesis is `DistinctFrames`
  (each anchor's position differs from that of its second frame neighbour), which holds whenever
  the atoms are at distinct positions — collinear and axis-aligned references included.
-/
open V3

namespace C01

/-- frames are orthonormal with origin at the anchor — for every geometry, collinear included
    (this is `C17.frame_orthonormal`, restated on the table the map uses) -/
theorem table_frames_orthonormal {pos : List (V3 ℝ)} {nbrs : List (List Nat)}
    {tab : List (Nat × Frame ℝ)} (hd : DistinctFrames pos nbrs)
    (ht : refsystemsGeneral pos nbrs = some tab) {a : Nat} {F : Frame ℝ}
    (h : lookupFrame tab a = some F) : F.Orthonormal ∧ pos[a]? = some F.origin :=
  table_frame_ok hd ht h

/-- rows orthonormal → `Σₖ (eₖ·v) eₖ = v` in the form the map uses it -/
theorem orthonormal_reconstruct {F : Frame ℝ} (h : F.Orthonormal) (s : ℝ) (p : V3 ℝ) :
    restore F (project F s p) = F.origin + V3.smul s (p - F.origin) :=
  restore_project h s p

/-- the anchors are exactly the atoms with at least two bonds, in atom order -/
theorem anchors_have_two_bonds (nbrs : List (List Nat)) (a : Nat) :
    a ∈ anchorsOf nbrs ↔ a < nbrs.length ∧ 2 ≤ (nbrs.getD a []).length := by
  simp [anchorsOf]

/-- the anchor chosen for a target atom: an anchor, at minimal distance, lowest index among ties -/
theorem closestAnchor_spec {pos : List (V3 ℝ)} {keys : List Nat} {t : V3 ℝ} {a : Nat}
    (h : closestAnchor pos keys t = some a) :
    a ∈ keys ∧ ∃ pa, pos[a]? = some pa ∧
      ∀ b ∈ keys, ∀ pb, pos[b]? = some pb →
        euclid t pa ≤ euclid t pb ∧ (euclid t pb = euclid t pa → a ≤ b) :=
  _root_.closestAnchor_spec h

/-- **Anchor-and-scale law.** A map built from `(pos, nbrs)` and `tgt` with scale `s`, applied to the
    same reference configuration, places target atom `j` at `a + s (p − a)` where `a` is the position of
    the closest anchor (closest atom with ≥ 2 bonds; ties → lowest index). -/
theorem exchange_anchor_scale (pos : List (V3 ℝ)) (nbrs : List (List Nat)) (r1 r2 tgt : List (V3 ℝ))
    (s : ℝ) (h3 : 3 ≤ pos.length) (hd : DistinctFrames pos nbrs)
    (m : EMap ℝ) (hb : EMap.build pos nbrs r1 tgt s = some m)
    (out : List (V3 ℝ)) (ha : m.apply nbrs pos r2 = some out) :
    ∀ (j : Nat) (t : V3 ℝ), tgt[j]? = some t →
      ∃ (a : Nat) (pa : V3 ℝ), m.equiv[j]? = some a ∧
        closestAnchor pos (anchorsOf nbrs) t = some a ∧ pos[a]? = some pa ∧
        out[j]? = some (pa + V3.smul s (t - pa)) := by
  intro j t ht
  obtain ⟨tab, htab, _, hbs⟩ := build_spec hb
  obtain ⟨tab', htab', has⟩ := apply_spec ha
  rw [refsystems_general nbrs _ h3] at htab htab'
  have : tab' = tab := by rw [htab] at htab'; exact (Option.some.inj htab').symm
  subst this
  obtain ⟨a, F, hja, hca, hF, hq⟩ := hbs j t ht
  obtain ⟨F', hF', ho⟩ := has j a _ hja hq
  rw [hF] at hF'; cases hF'
  obtain ⟨hFo, hFa⟩ := table_frame_ok hd htab hF
  rw [refsystemsGeneral_keys htab] at hca
  exact ⟨a, F.origin, hja, hca, hFa, by rw [ho, restore_project hFo]⟩

/-- with `s = 1` the target coordinates are reproduced exactly -/
theorem exchange_reproduces_at_one (pos : List (V3 ℝ)) (nbrs : List (List Nat)) (r1 r2 tgt : List (V3 ℝ))
    (h3 : 3 ≤ pos.length) (hd : DistinctFrames pos nbrs)
    (m : EMap ℝ) (hb : EMap.build pos nbrs r1 tgt 1 = some m)
    (out : List (V3 ℝ)) (ha : m.apply nbrs pos r2 = some out) :
    ∀ (j : Nat) (t : V3 ℝ), tgt[j]? = some t → out[j]? = some t := by
  intro j t ht
  obtain ⟨a, pa, _, _, _, ho⟩ := exchange_anchor_scale pos nbrs r1 r2 tgt 1 h3 hd m hb out ha j t ht
  rw [ho]
  congr 1
  apply V3.ext' <;> simp only [gm] <;> ring

/-- the output has one position per target atom -/
theorem exchange_length (pos : List (V3 ℝ)) (nbrs : List (List Nat)) (r1 r2 tgt arg : List (V3 ℝ)) (s : ℝ)
    (m : EMap ℝ) (hb : EMap.build pos nbrs r1 tgt s = some m)
    (out : List (V3 ℝ)) (ha : m.apply nbrs arg r2 = some out) : out.length = tgt.length := by
  unfold EMap.build at hb
  simp only [Option.bind_eq_bind, Option.bind_eq_some_iff, Option.pure_def, Option.some.injEq] at hb
  obtain ⟨tab, _, per, hper, rfl⟩ := hb
  unfold EMap.apply at ha
  simp only [Option.bind_eq_bind, Option.bind_eq_some_iff] at ha
  obtain ⟨tab', _, hout⟩ := ha
  have h1 := optMapM_length _ _ _ hper
  have h2 := optMapM_length _ _ _ hout
  simp only [List.length_zip, List.length_map, Nat.min_self] at h2
  omega

/-- **Definedness.** For every well-formed reference (≥ 3 atoms, neighbour indices in range, at least one
    atom with two bonds) the map is built and can be applied to every conformation with the same number
    of atoms: no lookup fails (the hypotheses of the theorems above are met by an actual run). -/
theorem exchange_defined {pos : List (V3 ℝ)} {nbrs : List (List Nat)} (hw : WFRef pos.length nbrs)
    (r1 tgt : List (V3 ℝ)) (s : ℝ) :
    ∃ m, EMap.build pos nbrs r1 tgt s = some m ∧
      ∀ (arg r2 : List (V3 ℝ)), arg.length = pos.length → ∃ out, m.apply nbrs arg r2 = some out :=
  emap_defined hw r1 tgt s

/-- a bent 3-atom chain is a well-formed reference -/
example : WFRef 3 [[1], [0, 2], [1]] := by
  refine ⟨by omega, rfl, ?_, by decide⟩
  intro nb hnb k hk
  simp only [List.mem_cons, List.not_mem_nil, or_false] at hnb
  rcases hnb with rfl | rfl | rfl <;> simp at hk <;> omega

/-! ### non-vacuity: concrete references satisfying the hypotheses -/

/-- a bent 3-atom chain 0–1–2 -/
example : DistinctFrames [⟨0, 0, 0⟩, ⟨1, 0, 0⟩, ⟨1, 1, 0⟩] [[1], [0, 2], [1]] := by
  intro a pa nb i1 i2 p2 hpa hnb hc hp2
  match a, hnb with
  | 0, h => simp at h; subst h; simp [closestTwo, sortNat, insertSorted] at hc
  | 1, h =>
    simp at h; subst h
    simp [closestTwo, sortNat, insertSorted] at hc
    obtain ⟨rfl, rfl⟩ := hc
    simp at hpa hp2; subst hpa; subst hp2
    intro e; have := congrArg V3.y e; norm_num at this
  | 2, h => simp at h; subst h; simp [closestTwo, sortNat, insertSorted] at hc
  | (n + 3), h => simp at h

/-- an exactly collinear 3-atom chain along (1,1,1) — the geometry on which the unrepaired code
    produced a non-orthonormal frame -/
example : DistinctFrames [⟨0, 0, 0⟩, ⟨1, 1, 1⟩, ⟨2, 2, 2⟩] [[1], [0, 2], [1]] := by
  intro a pa nb i1 i2 p2 hpa hnb hc hp2
  match a, hnb with
  | 0, h => simp at h; subst h; simp [closestTwo, sortNat, insertSorted] at hc
  | 1, h =>
    simp at h; subst h
    simp [closestTwo, sortNat, insertSorted] at hc
    obtain ⟨rfl, rfl⟩ := hc
    simp at hpa hp2; subst hpa; subst hp2
    intro e; have := congrArg V3.x e; norm_num at this
  | 2, h => simp at h; subst h; simp [closestTwo, sortNat, insertSorted] at hc
  | (n + 3), h => simp at h

end C01
