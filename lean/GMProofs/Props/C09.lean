import GMProofs.Lemmas.McL
import GMProofs.Props.C17
/-
  C09 — Monte-Carlo search: consistent energies, Metropolis rule, exact stop.

  Model: `GMModel.Metropolis` (`acceptMetropolis`, `mcStep`, `mcLoop`, `mcRun`, `mcMinimize`).
  The overlap measure `chi2Fn` (C08) and the single-atom move `moveFn` (C07) are parameters: every
  theorem is `∀ chi2Fn moveFn`, `∀ tape` (the random stream), `∀` deformation tuple and budget.
  Theorems that need no arithmetic are stated for every `Scalar α` (so they hold for the `Float`
  instance the driver runs as well as for ℝ); the accept rule and the minimum/counter semantics are
  over ℝ.

  Vocabulary (`GMProofs.Lemmas.McL`):
  * `Ran chi2Fn moveFn simType nSteps held0 tape r` — the search on `held0` with tape `tape`
    performed the iterations `r.steps`, left the loop in `r.final`, `r.rest` of the tape unread;
  * `Reaches chi2Fn moveFn simType held0 steps st` — `st` is reachable from the initial state by
    the iterations `steps` (each the loop body applied to the previous state, on some tape);
  * a `StepRec` records `pre`, the proposal (`kind`, `test`), `chi2New`, `accepted`, `post`.
  Only property theorems and their non-vacuity examples live here.
-/
open MC

namespace C09

/-! ### the accept rule (ℝ) -/

/-- a proposal with equal or lower (positive) measure is always accepted, and no draw is consumed -/
theorem accept_downhill (e0 e1 : ℝ) (h1 : 0 < e1) (h : e1 ≤ e0) (tape : Tape ℝ) :
    acceptMetropolis e0 e1 tape = .ok (true, tape) :=
  accept_ge_one h1 h tape

/-- a worse proposal consumes exactly one `rand` draw `u` and is accepted iff `u ≤ 0.01·e0/e1`;
    a tape that does not continue with a `rand` draw is a desynchronisation, never a default.
    (`e0 = e1 = 0` is outside both theorems: numpy evaluates `0/0 = nan` and rejects — observation
    O1, run on the real code by the check.) -/
theorem accept_uphill (e0 e1 : ℝ) (h0 : 0 ≤ e0) (h : e0 < e1) :
    (∀ (u : ℝ) (rest : Tape ℝ),
      acceptMetropolis e0 e1 (.rand1 u :: rest) = .ok (decide (u ≤ 1 / 100 * (e0 / e1)), rest)) ∧
    (∀ tape : Tape ℝ, (∀ u rest, tape ≠ .rand1 u :: rest) →
      acceptMetropolis e0 e1 tape = .error .desync) :=
  ⟨fun u rest => accept_lt_one h0 h u rest, fun tape ht => accept_lt_one_desync h0 h tape ht⟩

section generic
variable {α : Type} [Scalar α]
variable {chi2Fn : Config α → α} {moveFn : MoveFn α} {simType : List Int}

/-! ### what a run is -/

/-- the final state of a run, and the pre-state of every iteration, are reachable states -/
theorem run_reaches {nSteps : Nat} {held0 : Config α} {tape : Tape α} {r : MCResult α}
    (h : Ran chi2Fn moveFn simType nSteps held0 tape r) :
    Reaches chi2Fn moveFn simType held0 r.steps r.final ∧
    ∀ l1 s l2, r.steps = l1 ++ s :: l2 → Reaches chi2Fn moveFn simType held0 l1 s.pre := by
  refine ⟨h.reaches, fun l1 s l2 e => ?_⟩
  have := h.reaches
  rw [e] at this
  exact this.prefix

/-! ### consistent energies -/

/-- in every reachable state `chi2` is the measure of the configuration currently held -/
theorem inv_chi2_held {held0 : Config α} {steps : List (StepRec α)} {st : MCState α}
    (h : Reaches chi2Fn moveFn simType held0 steps st) : st.chi2 = chi2Fn st.held :=
  (reaches_chi2_held h).1

/-- at every step the proposal `test` is judged by the accept rule on
    (measure of the configuration currently held, measure of the proposal) -/
theorem judged_against_held {held0 : Config α} {steps : List (StepRec α)} {st : MCState α}
    (h : Reaches chi2Fn moveFn simType held0 steps st) :
    ∀ s ∈ steps, s.chi2New = chi2Fn s.test ∧
      ∃ t t', acceptMetropolis (chi2Fn s.pre.held) (chi2Fn s.test) t = .ok (s.accepted, t') := by
  intro s hs
  obtain ⟨hc, _, _, t1, t', _, ha⟩ := (h.2 s hs).spec
  rw [((reaches_chi2_held h).2 s hs).1] at ha
  exact ⟨hc, t1, t', ha⟩

/-- a rejected step leaves the held configuration, its measure and the best measure unchanged
    and increments the counter -/
theorem reject_keeps {held0 : Config α} {steps : List (StepRec α)} {st : MCState α}
    (h : Reaches chi2Fn moveFn simType held0 steps st) :
    ∀ s ∈ steps, s.accepted = false →
      s.post.held = s.pre.held ∧ s.post.chi2 = s.pre.chi2 ∧ s.post.chi2Min = s.pre.chi2Min ∧
      s.post.counter = s.pre.counter + 1 := by
  intro s hs hacc
  obtain ⟨_, hpost, _⟩ := (h.2 s hs).spec
  rw [hpost, hacc, bookkeep_reject]
  exact ⟨rfl, rfl, rfl, rfl⟩

/-- an accepted step makes the proposal the held configuration, with the proposal's measure -/
theorem accept_replaces {held0 : Config α} {steps : List (StepRec α)} {st : MCState α}
    (h : Reaches chi2Fn moveFn simType held0 steps st) :
    ∀ s ∈ steps, s.accepted = true →
      s.post.held = s.test ∧ s.post.chi2 = s.chi2New ∧ s.post.chi2 = chi2Fn s.test := by
  intro s hs hacc
  obtain ⟨hc, hpost, _⟩ := (h.2 s hs).spec
  rw [hpost, hacc]
  obtain ⟨h1, h2⟩ := bookkeep_accept_held s.pre s.test s.chi2New
  exact ⟨h1, h2, by rw [h2, hc]⟩

/-! ### exact stop, returned configuration -/

/-- the loop returns at the first state whose counter equals the budget, and not before:
    the exit state has `counter = n_steps`, every earlier visited state has `counter < n_steps` -/
theorem loop_exit_exact {nSteps : Nat} {held0 : Config α} {tape : Tape α} {r : MCResult α}
    (h : Ran chi2Fn moveFn simType nSteps held0 tape r) :
    r.final.counter = nSteps ∧ ∀ s ∈ r.steps, s.pre.counter < nSteps := by
  obtain ⟨fuel, h⟩ := h
  obtain ⟨h1, h2, h3⟩ := mcLoop_spec h
  have hlt : ∀ s ∈ r.steps, s.pre.counter < nSteps := fun s hs => by
    have := (h2 s hs).2
    simpa [mcContinue] using this
  have hge : nSteps ≤ r.final.counter := by
    simpa [mcContinue] using h3
  have hle : r.final.counter ≤ nSteps := by
    refine chain_counter_le h1 (by simp [mcInit]) (fun s hs => ⟨hlt s hs, ?_⟩)
    obtain ⟨_, hpost, _⟩ := (h2 s hs).1.spec
    rw [hpost]
    exact bookkeep_counter_le _ _ _ _
  exact ⟨Nat.le_antisymm hle hge, hlt⟩

/-- the held configuration of every reachable state is the last accepted proposal (the input if
    none was accepted); `_minimize_molecules` returns the held configuration of the exit state -/
theorem loop_returns_held :
    (∀ {held0 : Config α} {steps : List (StepRec α)} {st : MCState α},
      Reaches chi2Fn moveFn simType held0 steps st →
      st.held = match steps.reverse.find? (fun s => s.accepted) with
        | some s => s.test
        | none => held0) ∧
    (∀ {nSteps : Nat} {held0 : Config α} {tape rest : Tape α} {out : Config α},
      mcMinimize chi2Fn moveFn simType nSteps held0 tape = .ok (out, rest) →
      ∃ r, Ran chi2Fn moveFn simType nSteps held0 tape r ∧ out = r.final.held ∧ rest = r.rest) := by
  refine ⟨fun h => reaches_held_last_accepted h, ?_⟩
  intro nSteps held0 tape rest out h
  unfold mcMinimize at h
  split at h
  · cases h
  · rename_i r hr
    cases h
    exact ⟨r, ⟨_, hr⟩, rfl, rfl⟩

/-- every proposal's kind is a member of the enabled deformation tuple, and the proposal is
    `held + d` (kind 0), the rotation of `held` about ITS centroid by `rotation_matrix(axis, θ)`
    (kind 1), or `move_mol_atom(held)` (kind 2) -/
theorem proposal_of_held {held0 : Config α} {steps : List (StepRec α)} {st : MCState α}
    (h : Reaches chi2Fn moveFn simType held0 steps st) :
    ∀ s ∈ steps, ∃ t t1, ProposalSpec moveFn simType s.pre.held t t1 s.kind s.test := by
  intro s hs
  obtain ⟨_, _, t, t1, _, hp, _⟩ := (h.2 s hs).spec
  exact ⟨t, t1, propose_spec hp⟩

end generic

/-! ### over ℝ: proposals are structure-preserving maps of the held configuration; minimum and counter -/

section real
variable {chi2Fn : Config ℝ → ℝ} {moveFn : MoveFn ℝ} {simType : List Int}

/-- each proposal is `held + d`, or `(held − c)·R + c` with `c` the centroid of `held` and `R` a
    proper rotation (`R Rᵀ = Rᵀ R = 1`, `det R = 1`, C17; `axis ≠ 0` is the only side condition),
    or `moveFn held`; and its kind is a member of the enabled deformation tuple -/
theorem proposal_kinds {held0 : Config ℝ} {steps : List (StepRec ℝ)} {st : MCState ℝ}
    (h : Reaches chi2Fn moveFn simType held0 steps st) :
    ∀ s ∈ steps,
      match s.kind with
      | .transl d => (0 : Int) ∈ simType ∧ s.test = s.pre.held.map (fun p => p + d)
      | .rot axis theta =>
          (1 : Int) ∈ simType ∧
          s.test = s.pre.held.map (fun p =>
            M3.vecMul (p - V3.mean s.pre.held) (rotationMatrix axis theta) + V3.mean s.pre.held) ∧
          (axis ≠ V3.zero →
            M3.mul (rotationMatrix axis theta) (M3.transpose (rotationMatrix axis theta)) = M3.eye ∧
            M3.mul (M3.transpose (rotationMatrix axis theta)) (rotationMatrix axis theta) = M3.eye ∧
            M3.det (rotationMatrix axis theta) = 1)
      | .move => (2 : Int) ∈ simType ∧ ∃ t t', moveFn s.pre.held t = .ok (s.test, t') := by
  intro s hs
  obtain ⟨t, t1, hp⟩ := proposal_of_held h s hs
  cases hk : s.kind with
  | transl d =>
    rw [hk] at hp
    exact ⟨hp.2.1, hp.1⟩
  | rot axis theta =>
    rw [hk] at hp
    refine ⟨hp.2.1, hp.1, fun ha => ?_⟩
    obtain ⟨h1, h2⟩ := C17.rot_orthogonal axis theta ha
    exact ⟨h1, h2, C17.rot_det_one axis theta ha⟩
  | move =>
    rw [hk] at hp
    obtain ⟨hm, t0, _, hmv⟩ := hp
    exact ⟨hm, t0, t1, hmv⟩

/-- the measures of the held configurations visited along a history (input first) -/
def visitedMeasures (chi2Fn : Config ℝ → ℝ) (held0 : Config ℝ) (steps : List (StepRec ℝ)) : List ℝ :=
  chi2Fn held0 :: steps.map (fun s => chi2Fn s.post.held)

/-- in every reachable state
    * `chi2_min` is the minimum of the measure over the held configurations visited so far
      (it is one of them and a lower bound of all), and
    * `counter` is the number of iterations since the last one that reached a strict new minimum —
      an iteration `s` whose new held measure is below `s.pre.chi2_min`, i.e. (first clause, applied
      to the reachable state `s.pre`, see `new_minimum_iff`) below every measure visited before it —
      or since the start if there was none. -/
theorem counter_semantics {held0 : Config ℝ} {steps : List (StepRec ℝ)} {st : MCState ℝ}
    (h : Reaches chi2Fn moveFn simType held0 steps st) :
    (st.chi2Min ∈ visitedMeasures chi2Fn held0 steps ∧
      ∀ e ∈ visitedMeasures chi2Fn held0 steps, st.chi2Min ≤ e) ∧
    st.counter =
      (steps.reverse.takeWhile (fun s => !decide (chi2Fn s.post.held < s.pre.chi2Min))).length := by
  obtain ⟨_, h2, h3⟩ := reaches_counter h
  have hch := (reaches_chi2_held h).2
  have hv : visitedChi2 (mcInit chi2Fn held0) steps = visitedMeasures chi2Fn held0 steps := by
    unfold visitedChi2 visitedMeasures
    congr 1
    exact List.map_congr_left (fun s hs => (hch s hs).2)
  rw [hv] at h2
  refine ⟨h2, ?_⟩
  rw [h3]
  congr 1
  have : ∀ s ∈ steps.reverse, (!decide (s.post.chi2 < s.pre.chi2Min)) =
      (!decide (chi2Fn s.post.held < s.pre.chi2Min)) := by
    intro s hs
    rw [(hch s (List.mem_reverse.mp hs)).2]
  exact takeWhile_congr' _ this

/-- the new-minimum test of an iteration, read against the history: its new held measure is
    strictly below the measure of every configuration held before it -/
theorem new_minimum_iff {held0 : Config ℝ} {l1 l2 : List (StepRec ℝ)} {s : StepRec ℝ} {st : MCState ℝ}
    (h : Reaches chi2Fn moveFn simType held0 (l1 ++ s :: l2) st) :
    chi2Fn s.post.held < s.pre.chi2Min ↔ ∀ e ∈ visitedMeasures chi2Fn held0 l1, chi2Fn s.post.held < e := by
  obtain ⟨⟨hmem, hle⟩, _⟩ := counter_semantics h.prefix
  exact ⟨fun hlt e he => lt_of_lt_of_le hlt (hle e he), fun hall => hall _ hmem⟩

end real

/-! ### non-vacuity: a concrete run (ℝ), one translation step accepted downhill, budget 1 -/

/-- measure: squared distance of the first atom from the origin (+1) -/
noncomputable def exChi2 : Config ℝ → ℝ
  | [] => 1
  | p :: _ => p.x * p.x + p.y * p.y + p.z * p.z + 1

def exMove : MoveFn ℝ := fun h t => .ok (h, t)

/-- tape: translate by (−1,0,0) (downhill, accepted without a draw: new minimum, counter reset),
    then translate by (0,0,0) (equal measure: accepted, not a new minimum, counter = 1 = budget) -/
def exTape : Tape ℝ :=
  [.choice 0, .normal3 ⟨-1, 0, 0⟩, .choice 0, .normal3 ⟨0, 0, 0⟩]

example : ∃ r, Ran exChi2 exMove [0] 1 [⟨1, 0, 0⟩] exTape r ∧ r.steps.length = 2 ∧ r.rest = [] ∧
    r.final.held = [⟨0, 0, 0⟩] ∧ r.final.counter = 1 := by
  have : ∃ r, mcRun exChi2 exMove [0] 1 5 [⟨1, 0, 0⟩] exTape = .ok r ∧ r.steps.length = 2 ∧
      r.rest = [] ∧ r.final.held = [⟨0, 0, 0⟩] ∧ r.final.counter = 1 := by
    simp [mcRun, mcLoop, mcInit, mcContinue, mcStep, propose, exTape, translateCfg, acceptMetropolis,
      exChi2, bookkeep, gm]
  obtain ⟨r, h, rest⟩ := this
  exact ⟨r, ⟨5, h⟩, rest⟩

/-- the hypotheses of the accept theorems are satisfiable, with both outcomes of the uphill rule -/
example : acceptMetropolis (1 : ℝ) 2 [.rand1 (1 / 1000)] = .ok (true, []) ∧
    acceptMetropolis (1 : ℝ) 2 [.rand1 (1 / 2)] = .ok (false, []) ∧
    acceptMetropolis (2 : ℝ) 1 [.rand1 (1 / 2)] = .ok (true, [.rand1 (1 / 2)]) := by
  refine ⟨?_, ?_, ?_⟩
  · rw [(accept_uphill 1 2 (by norm_num) (by norm_num)).1]; norm_num
  · rw [(accept_uphill 1 2 (by norm_num) (by norm_num)).1]; norm_num
  · exact accept_downhill 2 1 (by norm_num) (by norm_num) _

/-! ### the public wrapper `minimize_molecules` (work package WPH) -/

section wrapper
variable {α : Type} [Scalar α]

/-- `check_backend_installed(warn_missing)`: the flag is whether the compiled backend can be imported; the warning
    is emitted exactly when it cannot and the caller asked for it -/
theorem backend_check_spec (installed warnMissing : Bool) :
    checkBackendInstalled installed warnMissing =
      (installed, if !installed && warnMissing then 1 else 0) := by
  cases installed <;> cases warnMissing <;> rfl

/-- **With the compiled backend absent the public wrapper IS the Python engine**: for every objective, move,
    deformation tuple, budget, start configuration and random tape, `minimize_molecules` returns exactly what
    `_minimize_molecules` returns — the same configuration (or the same exception) and the same unread tape,
    i.e. the identical sequence of draws —, emits its warning exactly once, and never touches the compiled
    engine.  (Every theorem above about `mcMinimize` / `mcRun` is therefore a theorem about the public entry point.) -/
theorem wrapper_is_python_engine
    (compiled : Config α → Tape α → Except MCErr (Config α × Tape α))
    (chi2Fn : Config α → α) (moveFn : MoveFn α) (simType : List Int) (nSteps : Nat)
    (held0 : Config α) (tape : Tape α) :
    let out := minimizeMolecules false compiled chi2Fn moveFn simType nSteps held0 tape
    out.result = mcMinimize chi2Fn moveFn simType nSteps held0 tape ∧ out.warnings = 1 ∧
      out.viaCompiled = false :=
  ⟨rfl, rfl, rfl⟩

/-- with the compiled backend installed the Python engine is not run at all (and no warning is emitted): the
    result is whatever the compiled engine returns — outside this model -/
theorem wrapper_compiled
    (compiled : Config α → Tape α → Except MCErr (Config α × Tape α))
    (chi2Fn : Config α → α) (moveFn : MoveFn α) (simType : List Int) (nSteps : Nat)
    (held0 : Config α) (tape : Tape α) :
    let out := minimizeMolecules true compiled chi2Fn moveFn simType nSteps held0 tape
    out.result = compiled held0 tape ∧ out.warnings = 0 ∧ out.viaCompiled = true :=
  ⟨rfl, rfl, rfl⟩

end wrapper

/-- non-vacuity of the wrapper theorem: the concrete run above through the public entry point -/
example : (minimizeMolecules false (fun _ _ => .error .moveErr) exChi2 exMove [0] 1 [⟨1, 0, 0⟩] exTape).result
    = mcMinimize exChi2 exMove [0] 1 [⟨1, 0, 0⟩] exTape :=
  (wrapper_is_python_engine _ exChi2 exMove [0] 1 [⟨1, 0, 0⟩] exTape).1

end C09
