import GMProofs.Lemmas.ItpL
/-
  C16 — ItpFile read–write–read loses no section, line or comment.

  Model: `GMModel.Itp` (`parse` = `ItpFile.__init__`, `write` = `ItpFile.write`, `mkLine` =
  `ItpSection.parse_line`, `ItpLine.lineStr` = `ItpLine.line`), as repaired for D4, D5, D11, D12.
  Specification (`GMProofs/Lemmas/ItpL.lean`): `specItem` (the item a physical line carries),
  `specView` (header text; per section name in order of first appearance the items that belong
  to it), `view` (the same reading of a parsed object), `View.lookup`.

  Covered class: `wfText t` — the library loads `t` and no section is named `header`. Texts are
  `List Char` after CPython's text layer (`Itp.decode`: ASCII, universal newlines).
  Only property theorems and non-vacuity examples live here.
-/
open Itp

namespace C16

/-- LINE ROUND TRIP. For every section kind and every physical line `r` (any trailing comment:
    none, empty, blank, one, several `;`, starting with `#`; any spacing; with or without
    terminator) that the library accepts as a line of a section: the line object shows exactly
    the item the specification reads off `r`; what `ItpLine.line` emits for it is accepted again
    and yields an object showing the same item (same content tokens, same stripped comment;
    preprocessor lines verbatim); the emitted text is not a section header. -/
theorem line_roundtrip (k : SecKind) (r : Str) (x : ItpLine) (h : mkLine k r = .ok x)
    (hh : isHeaderLine r = false) :
    viewLine x = specItem r ∧
    isHeaderLine x.lineStr = false ∧
    ∃ x', mkLine k x.lineStr = .ok x' ∧ viewLine x' = viewLine x :=
  ⟨viewLine_mkLine h, not_header_lineStr h hh,
   reread_line (mkLine_wf h) (mkLine_lineCheck h) (not_header_lineStr h hh)
     (specItem_lineStr (mkLine_wf h))⟩

/-- a terminated line is re-emitted as nothing (blank line, empty comment) or as exactly one
    terminated line — the next line is never glued onto it (this is what D5 broke) -/
theorem line_keeps_terminator (k : SecKind) (r : Str) (x : ItpLine) (h : mkLine k r = .ok x)
    (ht : TLine r) : x.lineStr = [] ∨ TLine x.lineStr :=
  lineStr_tline h ht

/-- NOTHING IS LOST ON READ. The parsed object shows, for every section name in order of first
    appearance, exactly the items of all lines that belong to that name anywhere in the file
    (a repeated name continues the section — this is what D4 broke), and the header text
    verbatim. -/
theorem parse_faithful (t : Str) (f : ItpFile) (hw : wfText t = true) (h : parse t = .ok f) :
    view f = specView t :=
  parse_view h (wfText_noHeaderKey hw)

/-- FILE ROUND TRIP. The written file is loaded again; the re-read object shows the same view as
    the first one, which is the specification's reading of the original text, which is also the
    specification's reading of the written text. The written text is in the covered class. -/
theorem file_roundtrip (t : Str) (f : ItpFile) (hw : wfText t = true) (h : parse t = .ok f) :
    ∃ f', parse (write f) = .ok f' ∧ view f' = view f ∧ view f' = specView t ∧
      specView (write f) = specView t ∧ wfText (write f) = true := by
  have hi := parse_inv h (wfText_noHeaderKey hw)
  obtain ⟨f', h1, h2⟩ := reparse hi
  have hk' := noHeaderKey_write hi
  have hv := parse_view h (wfText_noHeaderKey hw)
  refine ⟨f', h1, h2, by rw [h2, hv], ?_, wfText_of h1 hk'⟩
  rw [← parse_view h1 hk', h2, hv]

/-- `n` times write-and-re-read -/
def rewrites : Nat → Str → Except PyErr Str
  | 0, t => .ok t
  | n + 1, t => do
    let f ← parse t
    rewrites n (write f)

/-- THE ROUND TRIP IS STABLE. Any number of further write / re-read cycles succeeds and the text
    obtained carries the same content (the same `specView`) as the original. -/
theorem roundtrip_stable (t : Str) (hw : wfText t = true) (n : Nat) :
    ∃ tn, rewrites n t = .ok tn ∧ specView tn = specView t ∧ wfText tn = true := by
  induction n generalizing t with
  | zero => exact ⟨t, rfl, rfl, hw⟩
  | succ n ih =>
    obtain ⟨f, hf⟩ := wfText_parse hw
    obtain ⟨f', _, _, _, h4, h5⟩ := file_roundtrip t f hw hf
    obtain ⟨tn, h6, h7, h8⟩ := ih (write f) h5
    refine ⟨tn, ?_, by rw [h7, h4], h8⟩
    simp only [rewrites, hf, bind, Except.bind]
    exact h6

/-- TOPOLOGY PRESERVED. `read_topology` gives the same result (name, atoms, bonds — or the same
    exception) on the written file as on the original. -/
theorem topology_preserved (t : Str) (f : ItpFile) (hw : wfText t = true) (h : parse t = .ok f) :
    readTopology (write f) = readTopology t := by
  have hi := parse_inv h (wfText_noHeaderKey hw)
  obtain ⟨f', h1, h2⟩ := reparse hi
  have hi' := parse_inv h1 (noHeaderKey_write hi)
  unfold readTopology
  simp only [h, h1, bind, Except.bind]
  unfold topInfo
  rw [secTokens_eq_lookup hi, secTokens_eq_lookup hi', h2]

/-- THE WRITER INVENTS NO CHARACTERS: every character of the written text occurs in the text read,
    or is one of the five the writer adds (`[`, space, `]`, newline, `;`). -/
theorem write_no_new_chars (t : Str) (f : ItpFile) (h : parse t = .ok f) :
    ∀ c ∈ write f, c ∈ t ∨ c ∈ ['[', ' ', ']', '\n', ';'] :=
  write_chars h

/-- BYTES. A file is bytes; the library sees `decode b` (ASCII, universal newlines). The written
    text is again ASCII without carriage returns, so storing it and reading it through the text
    layer gives back exactly `write f`: re-reading the written FILE is `parse (write f)`, and the
    text-level theorems above are statements about files. -/
theorem reread_through_text_layer (b : List UInt8) (t : Str) (f : ItpFile)
    (hd : decode b = .ok t) (h : parse t = .ok f) :
    decode (encode (write f)) = .ok (write f) ∧ parseBytes (encode (write f)) = parse (write f) := by
  have hc : ∀ c ∈ write f, c.toNat < 128 ∧ c ≠ '\r' := by
    intro c hc
    rcases write_chars h c hc with h1 | h1
    · exact decode_chars hd c h1
    · simp only [List.mem_cons, List.mem_nil_iff, or_false] at h1
      rcases h1 with rfl | rfl | rfl | rfl | rfl <;> decide
  have := decode_encode hc
  exact ⟨this, by simp [parseBytes, this, bind, Except.bind]⟩

/-! ### non-vacuity and witnesses (evaluated: these are tests, not the property theorems) -/

/-- header text, `moleculetype` comment glued to the last field (D12), a `#`-leading trailing
    comment (D11), a REPEATED section name (D4), a BLANK trailing comment (D5), a preprocessor
    line, several `;`, a commented-out directive, no final newline -/
def exText : Str := [';', ' ', 't', 'i', 't', 'l', 'e', '\n', '[', ' ', 'm', 'o', 'l', 'e', 'c', 'u', 'l', 'e', 't', 'y', 'p', 'e', ' ', ']', '\n', 'M', 'O', 'L', ' ', '1', ';', 'c', '\n', '[', ' ', 'a', 't', 'o', 'm', 's', ' ', ']', '\n', '1', ' ', 'C', ' ', '1', ' ', 'M', 'O', 'L', ' ', 'C', '1', ' ', '1', ' ', '0', '.', '0', ' ', '1', '2', '.', '0', ' ', ';', ' ', '#', 'x', '\n', '2', ' ', 'C', ' ', '1', ' ', 'M', 'O', 'L', ' ', 'C', '2', ' ', '2', '\n', '[', ' ', 'd', 'i', 'h', 'e', 'd', 'r', 'a', 'l', 's', ' ', ']', '\n', '1', ' ', '2', ' ', '1', ' ', '2', ' ', '9', ' ', ';', '\n', '#', 'i', 'f', 'd', 'e', 'f', ' ', 'X', '\n', '[', ' ', 'b', 'o', 'n', 'd', 's', ' ', ']', '\n', '1', ' ', '2', ' ', '1', ' ', ';', ' ', 'a', ' ', ';', ' ', 'b', '\n', '[', ' ', 'd', 'i', 'h', 'e', 'd', 'r', 'a', 'l', 's', ' ', ']', '\n', ';', '#', 'i', 'n', 'c', 'l', 'u', 'd', 'e', '\n', '2', ' ', '1', ' ', '2', ' ', '1', ' ', '4']

def kDihedrals : Str := ['d', 'i', 'h', 'e', 'd', 'r', 'a', 'l', 's']

example : wfText exText = true := by decide

/-- the parsed example keeps both `[ dihedrals ]` occurrences under the first appearance -/
example : (parse exText).map (fun f => ((view f).secs.map (·.1), (view f).lookup kDihedrals)) =
    .ok ([kMoleculetype, kAtoms, kDihedrals, ['b', 'o', 'n', 'd', 's']],
      some [[['1'], ['2'], ['1'], ['2'], ['9']], [['2'], ['1'], ['2'], ['1'], ['4']]]) := by
  decide

/-- the round trip on the example, evaluated: same view after write and re-read -/
example : (parse exText).bind (fun f => (parse (write f)).map (fun f' => decide (view f' = view f))) =
    .ok true := by decide

def witnessRepeated : Str := ['[', ' ', 'd', 'i', 'h', 'e', 'd', 'r', 'a', 'l', 's', ' ', ']', '\n', '1', ' ', '2', ' ', '3', ' ', '4', ' ', '9', '\n', '[', ' ', 'd', 'i', 'h', 'e', 'd', 'r', 'a', 'l', 's', ' ', ']', '\n', '4', ' ', '3', ' ', '2', ' ', '1', ' ', '4', '\n']
def witnessBlankComment : Str := ['[', ' ', 'b', 'o', 'n', 'd', 's', ' ', ']', '\n', '1', ' ', '2', ' ', '1', ' ', ';', '\n', '2', ' ', '3', ' ', '1', '\n']
def witnessHashComment : Str := ['[', ' ', 'b', 'o', 'n', 'd', 's', ' ', ']', '\n', '1', ' ', '2', ' ', '1', ' ', ';', ' ', '#', '1', '\n', ';', '#', 'i', 'n', 'c', 'l', 'u', 'd', 'e', ' ', '"', 'x', '"', '\n']

/-- D4 witness: the ORIGINAL `ItpFile.__init__` loses the first `[ dihedrals ]` section; the
    repaired one keeps both -/
example : (Orig.parse witnessRepeated).map (fun f => (view f).lookup kDihedrals) =
    .ok (some [[['4'], ['3'], ['2'], ['1'], ['4']]]) := by decide
example : (parse witnessRepeated).map (fun f => (view f).lookup kDihedrals) =
    .ok (some [[['1'], ['2'], ['3'], ['4'], ['9']], [['4'], ['3'], ['2'], ['1'], ['4']]]) := by decide

/-- D5 witness: the ORIGINAL `ItpLine.line` glues the next line onto `1 2 1 ;` -/
example : (parse witnessBlankComment).map Orig.write = .ok ['[', ' ', 'b', 'o', 'n', 'd', 's', ' ', ']', '\n', '1', ' ', '2', ' ', '1', ' ', '2', ' ', '3', ' ', '1', '\n', '\n'] := by decide

/-- D11 witness: the ORIGINAL `ItpLine.line` drops the content of `1 2 1 ; #1` and turns the
    commented-out `;#include "x"` into an active `#include "x"` -/
example : (parse witnessHashComment).map Orig.write = .ok ['[', ' ', 'b', 'o', 'n', 'd', 's', ' ', ']', '\n', ' ', '#', '1', '\n', '#', 'i', 'n', 'c', 'l', 'u', 'd', 'e', ' ', '"', 'x', '"', '\n', '\n'] := by decide

end C16
