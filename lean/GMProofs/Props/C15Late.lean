import GMProofs.Props.C15Extra
/-!
# C15 (work package WPK) — the copy of an EDITED topology equals the edited topology

`C15.top_copy_independent` / `C15.copy_equal` are stated for every live molecule on every heap.  Here the
history is made explicit: take a loaded molecule, apply ANY sequence of the model's edit operations (to this
molecule or to any other object of the heap: `connect`, `bonds.add` / `bonds.discard`, assignment of `name`,
`resname`, `resid` — `Graph.Op`), THEN copy.  The copy has the value the molecule has NOW (not the one it had
when it was read from the file), `original == copy` both ways, the two share no cell, and edits through one side
never change the other.  A `copy` that re-reads the file parsed at load time breaks exactly this (seed C15-12).

The value-level counterpart (`TopObj`: `molCopy`, `molEq`, the `resnames` / `resids` setters, renaming) is
`copy_of_edited_equals_value`.  Only property theorems, the definitions that make "history" a term
(`VOp`, `vstep`), and non-vacuity examples live here.
-/
set_option linter.unusedSimpArgs false
open Itp TopObj

namespace C15

/-! ### the heap level -/

private theorem setUpd_set (H : Graph.Heap) (a : Nat) (f : List Nat → List Nat) (c : Nat) (e : List Nat)
    (h : H[c]? = some (.set e)) : ∃ e', (Graph.setUpd H a f)[c]? = some (.set e') := by
  rcases Graph.getElem?_setUpd H a f c with h1 | ⟨_, _, _, _, e0, _, _, h1⟩
  · exact ⟨e, by rw [h1, h]⟩
  · exact ⟨_, h1⟩

/-- no edit operation changes the KIND of a cell, the index of an atom or the set an atom refers to -/
private theorem applyOp_kind (H : Graph.Heap) (op : Graph.Op) (c : Nat) :
    (∀ n r i x b, H[c]? = some (.atom n r i x b) →
      ∃ n' r' i', (Graph.applyOp H op)[c]? = some (.atom n' r' i' x b)) ∧
    (∀ e, H[c]? = some (.set e) → ∃ e', (Graph.applyOp H op)[c]? = some (.set e')) := by
  have field : ∀ (a : Nat) (g : Str → Str → Int → Nat → Nat → Graph.Cell)
      (hg : ∀ n r i x b, ∃ n' r' i', g n r i x b = .atom n' r' i' x b),
      let H' := (match H[a]? with
        | some (.atom n r i x b) => H.set a (g n r i x b)
        | _ => H)
      (∀ n r i x b, H[c]? = some (.atom n r i x b) → ∃ n' r' i', H'[c]? = some (.atom n' r' i' x b)) ∧
      (∀ e, H[c]? = some (.set e) → ∃ e', H'[c]? = some (.set e')) := by
    intro a g hg
    cases ha : H[a]? with
    | none => exact ⟨fun n r i x b h => ⟨n, r, i, h⟩, fun e h => ⟨e, h⟩⟩
    | some cell =>
      cases cell with
      | set e0 => exact ⟨fun n r i x b h => ⟨n, r, i, h⟩, fun e h => ⟨e, h⟩⟩
      | atom n0 r0 i0 x0 b0 =>
        simp only
        have hlt : a < H.length := Graph.getElem?_lt_of_some ha
        refine ⟨fun n r i x b h => ?_, fun e h => ?_⟩
        · by_cases hca : c = a
          · subst hca
            rw [ha] at h
            simp only [Option.some.injEq, Graph.Cell.atom.injEq] at h
            obtain ⟨rfl, rfl, rfl, rfl, rfl⟩ := h
            obtain ⟨n', r', i', hg'⟩ := hg n0 r0 i0 x0 b0
            exact ⟨n', r', i', by rw [List.getElem?_set]; simp [hlt, hg']⟩
          · exact ⟨n, r, i, by rw [Graph.getElem?_set_ne _ hca]; exact h⟩
        · have hca : c ≠ a := by
            intro e'; subst e'; rw [ha] at h; cases h
          exact ⟨e, by rw [Graph.getElem?_set_ne _ hca]; exact h⟩
  cases op with
  | connect a b =>
    simp only [Graph.applyOp]
    refine ⟨fun n r i x b' h => ⟨n, r, i, ?_⟩, fun e h => ?_⟩
    · rw [Graph.atom_setUpd_iff, Graph.atom_setUpd_iff]; exact h
    · obtain ⟨e1, h1⟩ := setUpd_set H a (fun e => Graph.setAdd e (Graph.atomIndex H b)) c e h
      exact setUpd_set _ b _ c e1 h1
  | bondsAdd a v =>
    simp only [Graph.applyOp]
    exact ⟨fun n r i x b' h => ⟨n, r, i, by rw [Graph.atom_setUpd_iff]; exact h⟩,
      fun e h => setUpd_set H a _ c e h⟩
  | bondsDiscard a v =>
    simp only [Graph.applyOp]
    exact ⟨fun n r i x b' h => ⟨n, r, i, by rw [Graph.atom_setUpd_iff]; exact h⟩,
      fun e h => setUpd_set H a _ c e h⟩
  | setName a v => exact field a (fun _ r i x b => .atom v r i x b) (fun n r i x b => ⟨v, r, i, rfl⟩)
  | setResname a v => exact field a (fun n _ i x b => .atom n v i x b) (fun n r i x b => ⟨n, v, i, rfl⟩)
  | setResid a v => exact field a (fun n r _ x b => .atom n r v x b) (fun n r i x b => ⟨n, r, v, rfl⟩)

private theorem applyOp_length (H : Graph.Heap) (op : Graph.Op) : (Graph.applyOp H op).length = H.length := by
  cases op with
  | connect a b => simp only [Graph.applyOp, Graph.length_setUpd]
  | bondsAdd a v => simp only [Graph.applyOp, Graph.length_setUpd]
  | bondsDiscard a v => simp only [Graph.applyOp, Graph.length_setUpd]
  | setName a v => simp only [Graph.applyOp]; split <;> simp
  | setResname a v => simp only [Graph.applyOp]; split <;> simp
  | setResid a v => simp only [Graph.applyOp]; split <;> simp

/-- the hypotheses of the copy theorems are invariants of editing: after any edit history the molecule's atoms
    are still live `AtomTop` objects with live bond sets, the heap has not grown, and its atoms still refer to
    sets of the heap -/
theorem edits_keep_wf : ∀ (ops : List Graph.Op) (h : Graph.Heap) (m : Graph.MolTop) (N : Nat),
    Graph.WFMol h m → Graph.OldClosed N h →
    Graph.WFMol (Graph.applyOps h ops) m ∧ (Graph.applyOps h ops).length = h.length ∧
      Graph.OldClosed N (Graph.applyOps h ops)
  | [], _, _, _, hwf, hcl => ⟨hwf, rfl, hcl⟩
  | op :: ops, h, m, N, hwf, hcl => by
    have hwf1 : Graph.WFMol (Graph.applyOp h op) m := by
      intro a ha
      obtain ⟨n, r, i, x, b, e, h1, h2⟩ := hwf a ha
      obtain ⟨n', r', i', g1⟩ := (applyOp_kind h op a).1 n r i x b h1
      obtain ⟨e', g2⟩ := (applyOp_kind h op b).2 e h2
      exact ⟨n', r', i', x, b, e', g1, g2⟩
    obtain ⟨a1, a2, a3⟩ := edits_keep_wf ops (Graph.applyOp h op) m N hwf1 (Graph.applyOp_oldClosed op hcl)
    simp only [Graph.applyOps, List.foldl_cons] at a1 a2 a3 ⊢
    exact ⟨a1, a2.trans (applyOp_length h op), a3⟩

/-- **copy_of_edited_equals.**  A live molecule `m` on a heap `h` (as `MoleculeTop(ftop)` leaves it, or reached
    any other way), then ANY sequence `ops` of edit operations on the heap — through `m`'s atoms or anybody
    else's —, then `m.copy()`:
    * the copy succeeds and its VALUE is `m`'s value in the edited heap (name; per atom: name, residue name,
      residue number, index, bond set) — not the value `m` had before the edits;
    * `m == copy` and `copy == m`;
    * copying did not change `m`; the copy's atoms (and bond sets) are new cells, none shared with `m`;
    * afterwards, edits through the copy's atoms never change `m`'s value, and edits through `m`'s atoms never
      change the copy's. -/
theorem copy_of_edited_equals (h : Graph.Heap) (m : Graph.MolTop) (hwf : Graph.WFMol h m)
    (hcl : Graph.OldClosed h.length h) (ops : List Graph.Op) :
    ∃ h' m', Graph.molCopy (Graph.applyOps h ops) m = some (h', m') ∧
      Graph.molValue h' m' = Graph.molValue (Graph.applyOps h ops) m ∧
      molEqH h' m m' = some true ∧ molEqH h' m' m = some true ∧
      Graph.molValue h' m = Graph.molValue (Graph.applyOps h ops) m ∧
      (∀ a ∈ m.atoms, ∀ a' ∈ m'.atoms, a < (Graph.applyOps h ops).length ∧ (Graph.applyOps h ops).length ≤ a') ∧
      (∀ later : List Graph.Op, (∀ op ∈ later, ∀ a ∈ op.targets, a ∈ m'.atoms) →
        Graph.molValue (Graph.applyOps h' later) m = Graph.molValue (Graph.applyOps h ops) m) ∧
      (∀ later : List Graph.Op, (∀ op ∈ later, ∀ a ∈ op.targets, a ∈ m.atoms) →
        Graph.molValue (Graph.applyOps h' later) m' = Graph.molValue h' m') := by
  obtain ⟨w1, w2, w3⟩ := edits_keep_wf ops h m h.length hwf hcl
  rw [← w2] at w3
  obtain ⟨h', m', hc, hv1, hv2, hfresh, hi1, hi2⟩ := top_copy_independent (Graph.applyOps h ops) m w1 w3
  obtain ⟨h'', m'', hc', he1, he2, _⟩ := copy_equal (Graph.applyOps h ops) m w1 w3
  rw [hc] at hc'
  simp only [Option.some.injEq, Prod.mk.injEq] at hc'
  obtain ⟨rfl, rfl⟩ := hc'
  exact ⟨h', m', hc, hv1, he1, he2, hv2, hfresh, hi1, hi2⟩

/-! ### the value level -/

/-- the edits of the value model: rename the molecule, the `resnames` / `resids` setters (which may raise half
    way and leave the atoms before the failure renamed), an attribute assignment on / a bond added to the
    `k`-th atom -/
inductive VOp
  | rename (n : Str)
  | setResnames (isList : Bool) (new : List Str)
  | setResids (isList : Bool) (new : List Int)
  | setAtomName (k : Nat) (n : Str)
  | addBond (k : Nat) (x : Nat)

def vstep (m : MolTop) : VOp → MolTop
  | .rename n => { m with name := n }
  | .setResnames b new => (setResnames m b new).2
  | .setResids b new => (setResids m b new).2
  | .setAtomName k n => { m with atoms := m.atoms.modify k (fun a => { a with name := n }) }
  | .addBond k x => { m with atoms := m.atoms.modify k (fun a => { a with bonds := x :: a.bonds }) }

/-- for EVERY molecule value — in particular after any edit history —, `copy` returns the value itself, and it
    is `==` to it both ways -/
theorem copy_of_edited_equals_value (m : MolTop) (ops : List VOp) :
    molCopy (ops.foldl vstep m) = ops.foldl vstep m ∧
    molEq (ops.foldl vstep m) (molCopy (ops.foldl vstep m)) = true ∧
    molEq (molCopy (ops.foldl vstep m)) (ops.foldl vstep m) = true := by
  rw [molCopy_eq]
  exact ⟨rfl, moltop_eq_equivalence.1 _, moltop_eq_equivalence.1 _⟩

/-! ### non-vacuity -/

/-- a live two-atom molecule; the edits rename atom 3, change its residue name and cut the bond 0–1 on one side:
    the hypotheses hold, and the copy taken AFTER the edits differs from the loaded value (evaluated — a test)
    while being equal to the edited one -/
example :
    let h0 : Graph.Heap := [.set [1], .atom ['A'] ['R'] 1 0 0, .set [0], .atom ['B'] ['R'] 1 1 2]
    let m : Graph.MolTop := ⟨['M'], [1, 3]⟩
    let ops : List Graph.Op := [.setName 3 ['Z'], .setResname 3 ['Q'], .bondsDiscard 1 1, .setResid 1 9]
    Graph.WFMol h0 m ∧ Graph.OldClosed h0.length h0 ∧
    (Graph.molCopy (Graph.applyOps h0 ops) m).map (fun (h', m') =>
      (Graph.molValue h' m' == Graph.molValue (Graph.applyOps h0 ops) m,
       Graph.molValue h' m' == Graph.molValue h0 m, molEqH h' m m', m'.atoms)) =
      some (true, false, some true, [5, 7]) := by
  refine ⟨?_, ?_, by decide⟩
  · intro a ha
    simp only [List.mem_cons, List.not_mem_nil, or_false] at ha
    rcases ha with rfl | rfl
    · exact ⟨_, _, _, _, _, _, rfl, rfl⟩
    · exact ⟨_, _, _, _, _, _, rfl, rfl⟩
  · intro a n r i x b ha hcell
    simp only [List.length_cons, List.length_nil] at ha
    have : a = 0 ∨ a = 1 ∨ a = 2 ∨ a = 3 := by omega
    rcases this with rfl | rfl | rfl | rfl <;> simp at hcell <;>
      (simp only [List.length_cons, List.length_nil]; omega)

/-- value level: `C15.exMol` renamed, relabelled (one setter succeeding, one raising half way is also a
    history), a bond added — the edited value differs from the loaded one and its copy equals it -/
example :
    let ops : List VOp := [.rename ['N'], .setResnames true [['A'], ['B'], ['C']], .setResids true [7, 8],
      .addBond 3 0, .setAtomName 0 ['X']]
    ops.foldl vstep exMol ≠ exMol ∧ molEq (ops.foldl vstep exMol) exMol = false ∧
    molEq (molCopy (ops.foldl vstep exMol)) (ops.foldl vstep exMol) = true := by decide

end C15
