import GMProofs.Lemmas.MoveL
import GMProofs.Lemmas.MoveTree
/-
  C07 — Single-atom move restores every bond length on acyclic molecules.

  Model: `GMModel.MoveAtom` (`moveMolAtomFull` = `move_mol_atom` with the popped work items and the
  `defined` flag as ghost outputs, `moveMolAtom` = the returned array, `findAtomRandomDispl`),
  instantiated at ℝ. Only property theorems and their non-vacuity examples live here.

  Vocabulary (definitions in `GMProofs.Lemmas.MoveWalk` / `MoveTree`):
  * `s.trace`      the popped work items `(ind1, ind2, bond)`, newest first = the traversal tree;
  * `s.defined`    every divisor `modulo` met by a pull was non-zero (`move_defined` says what that
                   means in terms of input and output);
  * `WellFormed bt n`  one key per atom, no duplicate / self / out-of-range neighbour, every entry
                   mirrored with the same length;  `IsTree bt n` = well-formed ∧ connected ∧ exactly
                   `n − 1` undirected bonds.  Every labelled tree with any bond lengths and any
                   neighbour-list order is an `IsTree`; every moved atom `a < n` is covered.
-/
open MoveAtom

namespace C07

/-! ### one pull -/

/-- after one pull with `‖pos_i − pos_j‖ ≠ 0` the bond has length `|b|` — hence `b` for `b ≥ 0` —
    and the new bond vector is the old one rescaled by `b/‖d‖` (the atom stays on the line, on the
    same side when `b > 0`; a negative tabulated length puts it at distance `|b|` on the far side). -/
theorem pull_exact (pi pj : V3 ℝ) (b : ℝ) (h : V3.norm (pi - pj) ≠ 0) :
    V3.norm (pi - pullPoint pi pj b) = |b| ∧
    (0 ≤ b → V3.norm (pi - pullPoint pi pj b) = b) ∧
    pi - pullPoint pi pj b = V3.smul (b / V3.norm (pi - pj)) (pi - pj) :=
  ⟨pull_norm pi pj b h, fun hb => by rw [pull_norm pi pj b h, abs_of_nonneg hb],
   pull_vector pi pj b h⟩

/-! ### the walk, any bond table (graphs with cycles, malformed tables included) -/

/-- the moved atom ends at `old + displ`, exactly (it is never pulled); the array keeps its length -/
theorem move_displaces_root {pos : List (V3 ℝ)} {bt : BondTable ℝ} {a : Nat} {displ : V3 ℝ}
    {s : St ℝ} (h : moveMolAtomFull pos bt a displ = .ok s) :
    ∃ pa, pos[a]? = some pa ∧ s.pos[a]? = some (pa + displ) ∧ s.pos.length = pos.length := by
  obtain ⟨pa, hpa, hg, _⟩ := move_ginv h
  exact ⟨pa, hpa, hg.root, hg.w.plen⟩

/-- the popped items form a tree rooted at the moved atom made of table entries: the loop ends with
    an empty queue; the parent of each item is the moved atom or the child of an item popped
    earlier; moved atom, children and never-reached atoms are `0..n-1` once each (children pairwise
    distinct, the moved atom is never a child); each item is an entry of the table. -/
theorem move_traversal_tree {pos : List (V3 ℝ)} {bt : BondTable ℝ} {a : Nat} {displ : V3 ℝ}
    {s : St ℝ} (h : moveMolAtomFull pos bt a displ = .ok s) :
    s.queue = [] ∧ Good a s.trace ∧
    (a :: (children s.trace ++ s.wait)).Perm (List.range pos.length) ∧
    ∀ t ∈ s.trace, ∃ nb, bt[Triple.parent t]? = some nb ∧ (Triple.child t, Triple.len t) ∈ nb := by
  obtain ⟨hw, hq⟩ := move_winv h
  refine ⟨hq, hw.good, ?_, fun t ht => hw.bond t (List.mem_append_left _ ht)⟩
  have := hw.perm
  rw [hq] at this
  simpa using this

/-- cyclic-graph clause: for every triple `(i, j, b)` ever pushed (= popped, the queue ends empty),
    the final configuration has `‖pos_i − pos_j‖ = |b|`, provided no pull met coincident points. -/
theorem move_traversal_edges_exact {pos : List (V3 ℝ)} {bt : BondTable ℝ} {a : Nat} {displ : V3 ℝ}
    {s : St ℝ} (h : moveMolAtomFull pos bt a displ = .ok s) (hd : s.defined = true) :
    ∀ t ∈ s.trace, ∃ pi pj, s.pos[Triple.parent t]? = some pi ∧ s.pos[Triple.child t]? = some pj ∧
      V3.norm (pi - pj) = |Triple.len t| ∧ (0 ≤ Triple.len t → V3.norm (pi - pj) = Triple.len t) := by
  obtain ⟨pa, _, hg, _⟩ := move_ginv h
  intro t ht
  obtain ⟨pi, pj, h1, h2, h3⟩ := hg.dist hd t ht
  exact ⟨pi, pj, h1, h2, h3, fun hb => by rw [h3, abs_of_nonneg hb]⟩

/-- atoms the walk never reaches keep their input position -/
theorem move_unreached_fixed {pos : List (V3 ℝ)} {bt : BondTable ℝ} {a : Nat} {displ : V3 ℝ}
    {s : St ℝ} (h : moveMolAtomFull pos bt a displ = .ok s) :
    ∀ k ∈ s.wait, s.pos[k]? = pos[k]? := by
  obtain ⟨pa, _, hg, hq⟩ := move_ginv h
  intro k hk
  have hka : a ≠ k := by
    intro e
    have := hg.w.nodup
    rw [List.nodup_cons] at this
    exact this.1 (by rw [e]; simp [hk])
  rw [hg.fresh k (List.mem_append_right _ hk)]
  exact List.getElem?_set_ne hka

/-- `defined` (no zero divisor in any pull) holds exactly when no pull met two coincident points:
    the FINAL position of the parent differs from the INPUT position of the child, for every
    popped item. These are the only divisions `move_mol_atom` performs. -/
theorem move_defined {pos : List (V3 ℝ)} {bt : BondTable ℝ} {a : Nat} {displ : V3 ℝ}
    {s : St ℝ} (h : moveMolAtomFull pos bt a displ = .ok s) :
    s.defined = true ↔ ∀ t ∈ s.trace, ∀ pi pj, s.pos[Triple.parent t]? = some pi →
      pos[Triple.child t]? = some pj → pi ≠ pj := by
  obtain ⟨pa, _, hg, _⟩ := move_ginv h
  rw [hg.dfn]
  have hne : ∀ t ∈ s.trace, a ≠ Triple.child t := by
    intro t ht e
    have := hg.w.nodup
    rw [List.nodup_cons] at this
    exact this.1 (by rw [e]; exact List.mem_append_left _ (mem_children ht))
  constructor
  · intro hall t ht pi pj h1 h2
    exact hall t ht pi pj h1 (by rw [List.getElem?_set_ne (hne t ht)]; exact h2)
  · intro hall t ht pi pj h1 h2
    rw [List.getElem?_set_ne (hne t ht)] at h2
    exact hall t ht pi pj h1 h2

/-- `worklist_visits_reachable`: with in-range neighbour indices, the atoms popped by the walk are
    exactly the atoms reachable from the moved atom in the bond table (other than itself). -/
theorem worklist_visits_reachable {pos : List (V3 ℝ)} {bt : BondTable ℝ} {a : Nat} {displ : V3 ℝ}
    {s : St ℝ} (h : moveMolAtomFull pos bt a displ = .ok s)
    (hrange : ∀ (i : Nat) (nb : List (Nat × ℝ)), bt[i]? = some nb → ∀ kb ∈ nb, kb.1 < pos.length) :
    ∀ v, (v = a ∨ v ∈ children s.trace) ↔ Relation.ReflTransGen (Adj bt) a v := by
  obtain ⟨hw, hq⟩ := move_winv h
  intro v
  constructor
  · rintro (e | e)
    · rw [e]
    · obtain ⟨t, ht, rfl⟩ := List.mem_map.mp e
      exact reach_of_good s.trace hw.good (fun t ht => hw.bond t (List.mem_append_left _ ht)) t ht
  · exact visits_reachable hw hq hrange v

/-- on a well-formed table (tree or not) the call returns: no `IndexError`/`KeyError`/`ValueError`,
    and the loop fuel of the model is never exhausted -/
theorem move_total {pos : List (V3 ℝ)} {bt : BondTable ℝ} {a : Nat} (displ : V3 ℝ)
    (hwf : WellFormed bt pos.length) (ha : a < pos.length) :
    ∃ s, moveMolAtomFull pos bt a displ = .ok s ∧ moveMolAtom pos bt a displ = .ok s.pos := by
  obtain ⟨s, hs⟩ := MoveAtom.move_total displ hwf ha
  exact ⟨s, hs, by unfold moveMolAtom; rw [hs]⟩

/-! ### trees -/

/-- `tree_all_edges_pushed`: on a labelled tree, whatever atom is moved, the walk reaches every atom,
    pops `n − 1` items, and every table entry `(i → k, b)` is popped in exactly one direction,
    with its tabulated length. -/
theorem tree_all_edges_pushed {pos : List (V3 ℝ)} {bt : BondTable ℝ} {a : Nat} {displ : V3 ℝ}
    {s : St ℝ} (ht : IsTree bt pos.length) (h : moveMolAtomFull pos bt a displ = .ok s) :
    s.wait = [] ∧ s.trace.length = pos.length - 1 ∧
    ∀ (i : Nat) (nb : List (Nat × ℝ)), bt[i]? = some nb → ∀ kb ∈ nb,
      (((i, kb.1, kb.2) : Triple ℝ) ∈ s.trace ∧ ((kb.1, i, kb.2) : Triple ℝ) ∉ s.trace) ∨
      (((kb.1, i, kb.2) : Triple ℝ) ∈ s.trace ∧ ((i, kb.1, kb.2) : Triple ℝ) ∉ s.trace) := by
  obtain ⟨hw, hq⟩ := move_winv h
  obtain ⟨_, _, _, ha, _, _⟩ := move_ok_form h
  obtain ⟨h1, h2, _⟩ := tree_pairs hw hq ht ha
  exact ⟨h1, h2, tree_pushed hw hq ht ha⟩

/-- `move_tree_all_bonds_exact`: for every labelled tree `bt` on the atoms of `pos` (any lengths, any
    neighbour order), every moved atom `a` and every displacement, `move_mol_atom` returns, and —
    provided no pull met coincident points — EVERY bond `(i, k, b)` of the table has length `|b|`
    (`= b` for `b ≥ 0`) in the returned array. -/
theorem move_tree_all_bonds_exact {pos : List (V3 ℝ)} {bt : BondTable ℝ} {a : Nat} (displ : V3 ℝ)
    (ht : IsTree bt pos.length) (ha : a < pos.length) :
    ∃ s, moveMolAtomFull pos bt a displ = .ok s ∧ moveMolAtom pos bt a displ = .ok s.pos ∧
      (s.defined = true → ∀ (i : Nat) (nb : List (Nat × ℝ)), bt[i]? = some nb → ∀ kb ∈ nb,
        ∃ pi pk, s.pos[i]? = some pi ∧ s.pos[kb.1]? = some pk ∧
          V3.norm (pi - pk) = |kb.2| ∧ (0 ≤ kb.2 → V3.norm (pi - pk) = kb.2)) := by
  obtain ⟨s, hs, hs'⟩ := move_total displ ht.wf ha
  refine ⟨s, hs, hs', ?_⟩
  intro hd i nb hnb kb hkb
  obtain ⟨_, _, hall⟩ := tree_all_edges_pushed ht hs
  have hex := move_traversal_edges_exact hs hd
  rcases hall i nb hnb kb hkb with ⟨hm, _⟩ | ⟨hm, _⟩
  · obtain ⟨pi, pk, h1, h2, h3, h4⟩ := hex _ hm
    exact ⟨pi, pk, h1, h2, h3, h4⟩
  · obtain ⟨pk, pi, h1, h2, h3, h4⟩ := hex _ hm
    simp only [parent_mk, child_mk, len_mk] at h1 h2 h3 h4
    refine ⟨pi, pk, h2, h1, ?_, ?_⟩
    · rw [norm_sub_comm]; exact h3
    · intro hb; rw [norm_sub_comm]; exact h4 hb

/-! ### `find_atom_random_displ`: perpendicularity for every value of the draws -/

/-- one listed neighbour: the displacement is orthogonal to the bond `pos[nb0] − pos[a]` -/
theorem displ_perp_1 {pos : List (V3 ℝ)} {bt : BondTable ℝ} {a : Nat} {ss : ℝ}
    {tape : List (Draw ℝ)} {o : DisplOut ℝ} {k0 : Nat} {b0 : ℝ} {p0 pa : V3 ℝ}
    (hb : bt[a]? = some [(k0, b0)]) (h0 : pos[k0]? = some p0) (ha : pos[a]? = some pa)
    (h : findAtomRandomDispl pos bt a ss tape = .ok o) :
    V3.dot o.displ (p0 - pa) = 0 ∧ o.branch = 1 := by
  obtain ⟨r, t, q0, qa, _, e0, ea, hf⟩ := find_form_1 hb h
  rw [h0] at e0; rw [ha] at ea; cases e0; cases ea
  obtain ⟨x, t', _, _, rfl⟩ := finishDispl_ok hf
  exact ⟨perp_of_dir _ _ _ _ (cross_perp_right _ _), rfl⟩

/-- two listed neighbours: orthogonal to the line through them, `pos[nb0] − pos[nb1]` -/
theorem displ_perp_2 {pos : List (V3 ℝ)} {bt : BondTable ℝ} {a : Nat} {ss : ℝ}
    {tape : List (Draw ℝ)} {o : DisplOut ℝ} {k0 k1 : Nat} {b0 b1 : ℝ} {p0 p1 : V3 ℝ}
    (hb : bt[a]? = some [(k0, b0), (k1, b1)]) (h0 : pos[k0]? = some p0) (h1 : pos[k1]? = some p1)
    (h : findAtomRandomDispl pos bt a ss tape = .ok o) :
    V3.dot o.displ (p0 - p1) = 0 ∧ o.branch = 2 := by
  obtain ⟨r, t, q0, q1, _, e0, e1, hf⟩ := find_form_2 hb h
  rw [h0] at e0; rw [h1] at e1; cases e0; cases e1
  obtain ⟨x, t', _, _, rfl⟩ := finishDispl_ok hf
  exact ⟨perp_of_dir _ _ _ _ (cross_perp_right _ _), rfl⟩

/-- three or more listed neighbours: orthogonal to both edge vectors `pos[nb0] − pos[nb2]` and
    `pos[nb0] − pos[nb1]` of the first three listed neighbours (hence to their plane) -/
theorem displ_perp_3 {pos : List (V3 ℝ)} {bt : BondTable ℝ} {a : Nat} {ss : ℝ}
    {tape : List (Draw ℝ)} {o : DisplOut ℝ} {k0 k1 k2 : Nat} {b0 b1 b2 : ℝ}
    {more : List (Nat × ℝ)} {p0 p1 p2 : V3 ℝ}
    (hb : bt[a]? = some ((k0, b0) :: (k1, b1) :: (k2, b2) :: more))
    (h0 : pos[k0]? = some p0) (h1 : pos[k1]? = some p1) (h2 : pos[k2]? = some p2)
    (h : findAtomRandomDispl pos bt a ss tape = .ok o) :
    V3.dot o.displ (p0 - p2) = 0 ∧ V3.dot o.displ (p0 - p1) = 0 ∧ o.branch = 3 := by
  obtain ⟨s, t, q0, q1, q2, _, e0, e1, e2, hf⟩ := find_form_3 hb h
  rw [h0] at e0; rw [h1] at e1; rw [h2] at e2; cases e0; cases e1; cases e2
  obtain ⟨x, t', _, _, rfl⟩ := finishDispl_ok hf
  exact ⟨perp_of_dir _ _ _ _ (muls_perp _ _ _ (cross_perp_left _ _)),
         perp_of_dir _ _ _ _ (muls_perp _ _ _ (cross_perp_right _ _)), rfl⟩

/-- the only divisor of `find_atom_random_displ` is `‖direction‖`; `defined` records that it is
    non-zero, i.e. that the direction vector is not the zero vector (draw parallel to the bond /
    to the neighbour line, or collinear neighbours, or a zero `choice`) -/
theorem displ_defined {dir : V3 ℝ} {br : Nat} {sigma : ℝ} {tape : List (Draw ℝ)} {o : DisplOut ℝ}
    (h : finishDispl dir br sigma tape = .ok o) : o.defined = true ↔ dir ≠ V3.zero := by
  obtain ⟨x, t, _, _, rfl⟩ := finishDispl_ok h
  simp [RS.isZero_def, V3.norm_eq_zero_iff]

/-! ### non-vacuity -/

/-- a pull between two distinct points -/
example : V3.norm ((⟨0, 4, 0⟩ : V3 ℝ) - ⟨3, 0, 0⟩) ≠ 0 := by
  rw [Ne, norm_sub_eq_zero_iff]
  intro h; have := congrArg V3.x h; norm_num at this

/-- a labelled tree on 4 atoms (star centre 1 with a shuffled neighbour list, three different
    lengths): `IsTree` is inhabited, so `move_tree_all_bonds_exact` applies for `a = 0,1,2,3`. -/
noncomputable def exTable : BondTable ℝ := [[(1, 1)], [(3, 2), (0, 1), (2, 3 / 2)], [(1, 3 / 2)], [(1, 2)]]

example : IsTree exTable 4 := by
  have hwf : WellFormed exTable 4 := by
    refine ⟨rfl, ?_, ?_, ?_, ?_⟩ <;> intro i nb h <;>
      (rcases i with _ | _ | _ | _ | i <;> simp [exTable] at h <;> subst h <;> simp [exTable])
  refine ⟨hwf, connected_of_root hwf 1 ?_, ?_⟩
  · intro v hv
    have hadj : ∀ k, k ∈ [0, 2, 3] → Adj exTable 1 k := by
      intro k hk
      simp only [Adj, nbrKeys, exTable]
      simp only [List.mem_cons, List.not_mem_nil, or_false] at hk
      rcases hk with rfl | rfl | rfl <;> simp
    rcases v with _ | _ | _ | _ | v
    · exact Relation.ReflTransGen.single (hadj 0 (by simp))
    · exact Relation.ReflTransGen.refl
    · exact Relation.ReflTransGen.single (hadj 2 (by simp))
    · exact Relation.ReflTransGen.single (hadj 3 (by simp))
    · omega
  · decide

/-- a run on that kind of input that is `defined`: two atoms, bond length 1, atom 0 moved by (0,4,0);
    the pull has `‖d‖ = 5` -/
example : ∃ s, moveMolAtomFull [(⟨0, 0, 0⟩ : V3 ℝ), ⟨3, 0, 0⟩] [[(1, 1)], [(0, 1)]] 0 ⟨0, 4, 0⟩
    = .ok s ∧ s.defined = true ∧ s.trace = [(0, 1, 1)] := by
  refine ⟨_, rfl, ?_, rfl⟩
  have h : V3.norm ((⟨0, 0, 0⟩ + ⟨0, 4, 0⟩ : V3 ℝ) - ⟨3, 0, 0⟩) ≠ 0 := by
    rw [Ne, norm_sub_eq_zero_iff]
    intro h; have := congrArg V3.x h; simp [gm] at this
  simpa [RS.isZero_def] using h

/-- a draw tape on which `find_atom_random_displ` returns (three listed neighbours) -/
example : ∃ o, findAtomRandomDispl [(⟨0, 0, 0⟩ : V3 ℝ), ⟨1, 0, 0⟩, ⟨0, 1, 0⟩, ⟨0, 0, 1⟩]
    [[(1, 1), (2, 1), (3, 1)], [(0, 1)], [(0, 1)], [(0, 1)]] 0 (1 / 2)
    [.choice (-1), .normal (3 / 10)] = .ok o ∧ o.branch = 3 := by
  have hs : signNeg ((1 : ℝ) * (1 / 2)) = false := by
    rw [signNeg_real]; norm_num
  simp only [findAtomRandomDispl, List.getElem?_cons_zero, getPos, List.getElem?_cons_succ,
    drawChoice, finishDispl, drawNormal, bind, Except.bind, RS.mul_def, hs]
  exact ⟨_, rfl, rfl⟩

end C07
